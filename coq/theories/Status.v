(** C19 — the stabilization status word as a tiny concurrent protocol.

    [Graph.Stabilize] and [Graph.ParallelStabilize] guard a pass with the shared word
    [graph.status] (0 = StatusNotStabilizing, 1 = StatusStabilizing,
    2 = StatusRunningUpdateHandlers).  What one call does to that word is a straight-line
    program of atomic actions; [cmd/statusextract] regenerates that program from the Go
    source on every run ([extracted_stabilize], [extracted_parallel] in coq/run/status_prog.v).

    The system: any number of threads, each running the program again and again
    (a call that returns starts the next call at pc 0), scheduled one atomic action at a
    time in any order (a schedule is a list of thread ids).  Go's scheduler and memory model
    are outside the model: every action on the word is a sync/atomic operation, taken
    here to be sequentially consistent. *)
From incr Require Import Base.

Inductive action :=
| Load                      (* local := atomic.LoadInt32(&graph.status) *)
| ExitIfBusy                (* if local <> 0 { return ErrAlreadyStabilizing } *)
| Store (v : Z)             (* atomic.StoreInt32(&graph.status, v) *)
| Cas (old new : Z)         (* if !atomic.CompareAndSwapInt32(&graph.status, old, new) { return ErrAlreadyStabilizing } *)
| Work                      (* node functions run here (the recompute loop / parallelStabilize) *)
| Handlers.                 (* update handlers run here *)

Global Instance action_eq_dec : EqDecision action.
Proof. solve_decision. Defined.

Definition program := list action.

(** One thread: program counter, the value last loaded, and a ghost flag that is true iff
    the thread has written [status] since its current call began. *)
Record thread := Thread { pc : nat; loc : Z; wrote : bool }.

Definition thread0 : thread := Thread 0 0 false.

(** Threads are indexed by [nat]; only ids below the bound given to [step] ever move, so a
    total map models "any number of threads". *)
Record state := State { status : Z; threads : nat -> thread }.

Definition init : state := State 0 (fun _ => thread0).

(** What a step shows to an observer. *)
Inductive event :=
| EvTau                     (* local step *)
| EvWrite (v : Z)           (* a write of [status] *)
| EvErr                     (* the call returns ErrAlreadyStabilizing *)
| EvReturn                  (* the call returns normally (after its last action) *)
| EvIdle.                   (* no such thread / empty program *)

Definition upd (ths : nat -> thread) (i : nat) (t : thread) : nat -> thread :=
  fun j => if Nat.eqb j i then t else ths j.

(** after the action at [pc t]: the next action, or the next call *)
Definition advance (prog : program) (t : thread) (l : Z) (w : bool) : thread * bool :=
  if Nat.eqb (S (pc t)) (length prog) then (thread0, true) else (Thread (S (pc t)) l w, false).

Definition ev_or_return (ret : bool) (e : event) : event := if ret then EvReturn else e.

(** one atomic action of one thread; returns the new status, the new thread and the event *)
Definition step_thread (prog : program) (s : Z) (t : thread) : Z * thread * event :=
  match prog !! pc t with
  | None => (s, thread0, EvIdle)
  | Some a =>
    match a with
    | Load => let '(t', r) := advance prog t s (wrote t) in (s, t', ev_or_return r EvTau)
    | ExitIfBusy =>
        if loc t =? 0
        then let '(t', r) := advance prog t (loc t) (wrote t) in (s, t', ev_or_return r EvTau)
        else (s, thread0, EvErr)
    | Store v => let '(t', _) := advance prog t (loc t) true in (v, t', EvWrite v)
    | Cas old new =>
        if s =? old
        then let '(t', _) := advance prog t (loc t) true in (new, t', EvWrite new)
        else (s, thread0, EvErr)
    | Work | Handlers =>
        let '(t', r) := advance prog t (loc t) (wrote t) in (s, t', ev_or_return r EvTau)
    end
  end.

(** Several paths.  One call of the real function follows one of several straight-line
    paths: the ordinary one, or one on which a node function or a handler panics and the
    deferred functions run during the unwinding.  Threads are anonymous and unbounded in
    number and a call that has returned is back at pc 0 holding nothing, so "a goroutine
    makes calls that follow various paths" is the same system as "every call is a thread
    of its own": thread [i] runs the path [pf i], for an arbitrary assignment [pf]. *)
Definition stepf (n : nat) (pf : nat -> program) (st : state) (i : nat) : state * event :=
  if Nat.ltb i n then
    let '(s', t', e) := step_thread (pf i) (status st) (threads st i) in
    (State s' (upd (threads st) i t'), e)
  else (st, EvIdle).

Definition schedule := list nat.

Fixpoint exec_fromf (n : nat) (pf : nat -> program) (st : state) (sch : schedule) : state :=
  match sch with
  | [] => st
  | i :: sch => exec_fromf n pf (fst (stepf n pf st i)) sch
  end.

Definition execf (n : nat) (pf : nat -> program) (sch : schedule) : state := exec_fromf n pf init sch.

(** thread [i] of [n] takes a step (ids [>= n] do nothing); every thread runs [prog] *)
Definition step (n : nat) (prog : program) (st : state) (i : nat) : state * event :=
  stepf n (fun _ => prog) st i.

Definition exec_from (n : nat) (prog : program) (st : state) (sch : schedule) : state :=
  exec_fromf n (fun _ => prog) st sch.

Definition exec (n : nat) (prog : program) (sch : schedule) : state := exec_from n prog init sch.

(** the observable trace of a schedule *)
Fixpoint trace_from (n : nat) (prog : program) (st : state) (sch : schedule) : list (nat * event) :=
  match sch with
  | [] => []
  | i :: sch => let '(st', e) := step n prog st i in (i, e) :: trace_from n prog st' sch
  end.

(** ** Where a thread is *)

(** the thread is inside the node functions / inside the update handlers: its next action
    is [Work] / [Handlers] (the action models the whole duration of that phase) *)
Definition at_work (prog : program) (t : thread) : bool :=
  match prog !! pc t with
  | Some Work | Some Handlers => true
  | _ => false
  end.

Definition in_node_functions (prog : program) (t : thread) : bool :=
  match prog !! pc t with Some Work => true | _ => false end.

(** ** Syntactic predicates on programs *)

Definition is_probe (a : action) : bool :=
  match a with Load | ExitIfBusy => true | _ => false end.

(** index of the first action that is not a mere look at the word *)
Fixpoint acq_index (prog : program) : nat :=
  match prog with
  | a :: prog' => if is_probe a then S (acq_index prog') else 0%nat
  | [] => 0%nat
  end.

(** The first action that can let a thread pass -- the first one that is not a mere look
    at the word -- is a compare-and-swap from 0 to a non-zero value.  In particular
    nothing writes [status], and no [Work]/[Handlers] happens, before it. *)
Fixpoint acquires_atomically (prog : program) : bool :=
  match prog with
  | [] => false
  | a :: prog' =>
      if is_probe a then acquires_atomically prog'
      else match a with
           | Cas old new => (old =? 0) && negb (new =? 0)
           | _ => false
           end
  end.

Definition is_write (a : action) : bool :=
  match a with Store _ | Cas _ _ => true | _ => false end.

Definition write_nonzero (a : action) : bool :=
  match a with Store v => negb (v =? 0) | Cas _ new => negb (new =? 0) | _ => false end.

(** what may stand between the first write and the final release: nothing that can fail
    (no [ExitIfBusy], no [Cas]) and no store of zero *)
Definition body_action_ok (a : action) : bool :=
  match a with
  | Load | Work | Handlers => true
  | Store v => negb (v =? 0)
  | ExitIfBusy | Cas _ _ => false
  end.

(** the rest of a call after its first write: intermediate actions, then exactly [Store 0] *)
Fixpoint good_body (l : list action) : bool :=
  match l with
  | [] => false
  | a :: l' =>
      match l' with
      | [] => match a with Store 0 => true | _ => false end
      | _ => body_action_ok a && good_body l'
      end
  end.

(** [status] is set back to 0 only by the final action: the first write of a call writes a
    non-zero value, the call ends in [Store 0], every store in between is non-zero, and
    once a thread has written the word it cannot fail any more, so the final [Store 0] is
    always reached. *)
Fixpoint releases_last (prog : program) : bool :=
  match prog with
  | [] => false
  | a :: prog' => if is_write a then write_nonzero a && good_body prog' else releases_last prog'
  end.

(** both hypotheses of the mutual-exclusion theorem, for one path *)
Definition good_path (prog : program) : bool := acquires_atomically prog && releases_last prog.

(** two threads on two given paths: a schedule after which both are inside Work/Handlers *)
Fixpoint find_overlap2 (pa pb : program) (fuel : nat) (st : state) (acc : schedule) : option schedule :=
  let pf := fun i => if Nat.eqb i 0 then pa else pb in
  if at_work pa (threads st 0%nat) && at_work pb (threads st 1%nat) then Some (rev acc)
  else match fuel with
       | O => None
       | S fuel =>
           match find_overlap2 pa pb fuel (fst (stepf 2 pf st 0%nat)) (0%nat :: acc) with
           | Some s => Some s
           | None => find_overlap2 pa pb fuel (fst (stepf 2 pf st 1%nat)) (1%nat :: acc)
           end
       end.

(** ** The shapes this development talks about *)

(** the code as found: load, test, and only then store *)
Definition check_then_store : program :=
  [Load; ExitIfBusy; Store 1; Work; Store 2; Handlers; Store 0].

(** the same protocol with the test and the store fused into one compare-and-swap *)
Definition cas_protocol : program :=
  [Cas 0 1; Work; Store 2; Handlers; Store 0].

(** a cheap look first, then the compare-and-swap *)
Definition probe_then_cas : program :=
  [Load; ExitIfBusy; Cas 0 1; Work; Store 2; Handlers; Store 0].

(** ** A bounded search for an overlap, used as a diagnostic on extracted programs *)

(** two threads, every schedule of the given length over ids {0,1}; returns a schedule
    after which both threads are inside Work/Handlers *)
Fixpoint find_overlap (prog : program) (fuel : nat) (st : state) (acc : schedule) : option schedule :=
  if at_work prog (threads st 0%nat) && at_work prog (threads st 1%nat) then Some (rev acc)
  else match fuel with
       | O => None
       | S fuel =>
           match find_overlap prog fuel (fst (step 2 prog st 0%nat)) (0%nat :: acc) with
           | Some s => Some s
           | None => find_overlap prog fuel (fst (step 2 prog st 1%nat)) (1%nat :: acc)
           end
       end.

Definition overlap_witness (prog : program) (fuel : nat) : option schedule :=
  find_overlap prog fuel init [].
