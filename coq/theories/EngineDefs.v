(** Vocabulary of the engine model: node functions, bind templates, node and graph state,
    operations, events.  The model in Engine.v is a function-by-function transliteration of
    graph.go / node.go / bind.go / stabilize.go / var.go / observe.go / map*.go / cutoff.go /
    always.go / adjust_heights_heap.go on this state. *)
From incr Require Import Base Heap.
From RecordUpdate Require Export RecordSet.
Export RecordSetNotations.

(** * Node functions: small finite families, Euclidean remainder so values stay small. *)
Definition modulus : Z := 11.
Definition norm (x : Z) : Z := x mod modulus.

Inductive fn1 := Aff (a b : Z).
Inductive fn2 := Lin2 (a b c : Z).
Inductive fnN := Sum | WSum.
Inductive cutfn := CEq | CAlways | CNever | CParity.

Definition ap1 (f : fn1) (x : Z) : Z := match f with Aff a b => norm (a * x + b) end.
Definition ap2 (f : fn2) (x y : Z) : Z := match f with Lin2 a b c => norm (a * x + b * y + c) end.
Fixpoint wsum (i : Z) (l : list Z) : Z :=
  match l with [] => 0 | x :: l => i * x + wsum (i + 1) l end.
Definition apN (f : fnN) (l : list Z) : Z :=
  match f with Sum => norm (foldr Z.add 0 l) | WSum => norm (wsum 1 l) end.
Definition apCut (c : cutfn) (old new : Z) : bool :=
  match c with
  | CEq => old =? new
  | CAlways => true
  | CNever => false
  | CParity => (old mod 2) =? (new mod 2)
  end.

(** * Bind templates: what a bind function builds, as an expression over its input [x]. *)
Inductive texp :=
| TRet (k : Z)                          (* Return(scope, k) *)
| TX                                    (* Return(scope, x) *)
| TOuter (n : nid)                      (* an existing node created outside the scope *)
| TMap (f : fn1) (e : texp)             (* Map(scope, e, f) *)
| TMap2 (f : fn2) (e1 e2 : texp)        (* Map2(scope, e1, e2, f) *)
| TCut (c : cutfn) (e : texp)           (* Cutoff(scope, e, c) *)
| TBind (cases : list texp) (e : texp)  (* Bind(scope, e, fun x' => cases[x' mod len]) *)
| TNil.                                 (* the bind function returns nil *)

(** * Nodes *)
Inductive kind :=
| KVar (eqv : bool)          (* Var / VarEqual *)
| KReturn
| KMap (f : fn1)
| KMap2 (f : fn2)
| KMapN (f : fnN)
| KCutoff (c : cutfn)
| KAlways
| KBindLhs (b : nat)         (* bind-lhs-change node of bind b *)
| KBindMain (b : nat).       (* bind main node of bind b *)

Global Instance fn1_eq : EqDecision fn1. Proof. solve_decision. Defined.
Global Instance fn2_eq : EqDecision fn2. Proof. solve_decision. Defined.
Global Instance fnN_eq : EqDecision fnN. Proof. solve_decision. Defined.
Global Instance cutfn_eq : EqDecision cutfn. Proof. solve_decision. Defined.
Global Instance kind_eq : EqDecision kind. Proof. solve_decision. Defined.

(* boolean equality of templates (a nested inductive: written by hand) *)
Fixpoint texp_eqb (a b : texp) : bool :=
  match a, b with
  | TRet k, TRet k' => k =? k'
  | TX, TX => true
  | TOuter n, TOuter n' => (n =? n')%nat
  | TMap f e, TMap f' e' => bool_decide (f = f') && texp_eqb e e'
  | TMap2 f e1 e2, TMap2 f' e1' e2' => bool_decide (f = f') && texp_eqb e1 e1' && texp_eqb e2 e2'
  | TCut c e, TCut c' e' => bool_decide (c = c') && texp_eqb e e'
  | TBind cs e, TBind cs' e' =>
    (fix go (l l' : list texp) : bool :=
       match l, l' with
       | [], [] => true
       | x :: l, y :: l' => texp_eqb x y && go l l'
       | _, _ => false
       end) cs cs' && texp_eqb e e'
  | TNil, TNil => true
  | _, _ => false
  end.
Fixpoint texps_eqb (l l' : list texp) : bool :=
  match l, l' with
  | [], [] => true
  | x :: l, y :: l' => texp_eqb x y && texps_eqb l l'
  | _, _ => false
  end.

Record node := mkNode {
  nkind : kind;
  decl : list nid;           (* Parents(): the declared inputs *)
  scope : option nat;        (* createdIn: None = the graph, Some b = bind b *)
  height : Z;
  hAdj : Z;                  (* heightInAdjustHeightsHeap *)
  recomputedAt : Z;
  changedAt : Z;
  setAt : Z;
  parents : list nid;
  children : list nid;
  observers : list nat;
  valid : bool;
  forceNec : bool;
  inGraph : bool;
  value : Z;
  pending : option Z         (* var: setDuringStabilizationValue, when setDuringStabilization *)
}.
Global Instance eta_node : Settable _ :=
  settable! mkNode <nkind; decl; scope; height; hAdj; recomputedAt; changedAt; setAt; parents;
                    children; observers; valid; forceNec; inGraph; value; pending>.

Definition fresh_node (k : kind) (d : list nid) (sc : option nat) (v : Z) : node :=
  mkNode k d sc unset unset 0 0 0 [] [] [] true false false v None.

Record bindrec := mkBind {
  b_lhs : nid;               (* the bind's input *)
  b_lhsChange : nid;
  b_main : nid;
  b_rhs : option nid;
  b_rhsNodes : list nid;     (* nodes created in the scope by the latest run of the function *)
  b_cases : list texp;
  b_gen : nat;               (* GHOST: how many times the function has returned *)
  b_memo : bool;             (* incrutil.BindMemoized: results of the function are cached by input *)
  b_cache : list (Z * option nid)   (* the cache: input value -> right-hand side root *)
}.
Global Instance eta_bind : Settable _ :=
  settable! mkBind <b_lhs; b_lhsChange; b_main; b_rhs; b_rhsNodes; b_cases; b_gen; b_memo; b_cache>.

(** adjust-heights heap *)
Record adjheap := mkAdj {
  a_byHeight : list (list nid);    (* nodesByHeight, FIFO queues; length = MaxHeight *)
  a_num : Z;
  a_maxSeen : Z;
  a_lower : Z
}.
Global Instance eta_adj : Settable _ := settable! mkAdj <a_byHeight; a_num; a_maxSeen; a_lower>.

(** * Errors (Go [error] values, not panics) and events *)
Inductive err :=
| ECycle | EHeightLimit
| EUser (n : nid)            (* a user function returned an error *)
| EPanic (n : nid)           (* a user function panicked: unwinds to the stabilizer's recover *)
| ECancelled | EAlreadyStabilizing
| ENilParent.                (* errParentNil: addChild(child, nil) *)

Inductive errclass := XOk | XCycle | XLimit | XUser | XPanic | XCancelled | XAlready | XNil.
Definition classify (e : option err) : errclass :=
  match e with
  | None => XOk | Some ECycle => XCycle | Some EHeightLimit => XLimit | Some (EUser _) => XUser
  | Some (EPanic _) => XPanic | Some ECancelled => XCancelled | Some EAlreadyStabilizing => XAlready
  | Some ENilParent => XNil
  end.

Inductive faultkind := FErr | FPanic.
Inductive which := WFn | WCut.          (* the node's function / its cutoff predicate *)

Inductive action :=
| AFail (k : faultkind)                 (* the invocation fails *)
| ASet (v : nid) (x : Z)                (* the invocation calls v.Set(x) before returning *)
| AUpdate (v : nid) (d : Z).            (* the invocation calls v.Update(+d) *)
Definition plan := list (nid * which * action).

Inductive event :=
| EvInvoked (n : nid) (args : list Z) (r : Z)
| EvFault (n : nid) (w : which) (k : faultkind)
| EvCutoff (n : nid) (old new : Z) (verdict : bool)
| EvBindFn (n : nid) (x : Z) (root : option nid)
| EvNec (n : nid) | EvUnnec (n : nid) | EvInval (n : nid)
| EvUpd (n : nid) | EvObsUpd (o : nat) (v : Z)
| EvErrH (n : nid)
| EvPassStart | EvPassEnd (e : errclass).

(** * Graph state *)
Record state := mkState {
  nodes : gmap nid node;
  binds : gmap nat bindrec;
  next : nid;                       (* creation counter: the next node id *)
  reg : list nid;                   (* Graph.nodes *)
  obs : gmap nid nid;               (* Graph.observers: observer id -> observed node; observers
                                       draw their ids from the same counter as nodes *)
  heap : Heap.t;
  adj : adjheap;
  invq : list nid;                  (* propagateInvalidityQueue *)
  stabNum : Z;
  status : Z;
  numNodes : Z;
  setDuring : list nid;             (* setDuringStabilization (kept sorted by id) *)
  setRemoved : list nid;            (* setDuringStabilizationRemoved *)
  handlers : list nid;              (* handleAfterStabilization keys (node or observer ids), sorted *)
  maxHeight : Z;
  log : list event                  (* events, most recent first *)
}.
Global Instance eta_state : Settable _ :=
  settable! mkState <nodes; binds; next; reg; obs; heap; adj; invq; stabNum; status;
                     numNodes; setDuring; setRemoved; handlers; maxHeight; log>.

Definition init (maxH : nat) : state :=
  mkState ∅ ∅ 0%nat [] ∅ (Heap.empty maxH) (mkAdj (replicate maxH []) 0 0 (Z.of_nat maxH + 1))
          [] 1 0 0 [] [] [] (Z.of_nat maxH) [].

(** * Operations of a history *)
Inductive op :=
| NewVar (v : Z) (eqv : bool)
| NewReturn (v : Z)
| NewMap (f : fn1) (a : nid)
| NewMap2 (f : fn2) (a b : nid)
| NewMapN (f : fnN) (ins : list nid)
| NewCutoff (c : cutfn) (a : nid)
| NewAlways (a : nid)
| NewBind (cases : list texp) (a : nid)
| NewBindMemo (cases : list texp) (a : nid)     (* incrutil.BindMemoized with its own cache *)
| PurgeMemo (b : nid) (x : Z)                   (* Cache().Purge(x) on the memoized bind whose main node is b *)
| ClearMemo (b : nid)                           (* Cache().Clear() *)
| Observe (n : nid)
| Unobserve (o : nat)
| SetVar (v : nid) (x : Z)
| UpdateVar (v : nid) (d : Z)
| AddInput (n a : nid)
| RemoveInput (n a : nid)
| Stabilize (p : plan)
| StabilizeCancelled                    (* Stabilize with an already cancelled context *)
| ParStabilize (p : plan).              (* ParallelStabilize; the model runs each height block in queue order *)                   (* Stabilize with an already cancelled context *)
