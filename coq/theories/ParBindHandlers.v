(** C13 for ParallelStabilize on graphs with binds (stamp form): which update handlers run.
    The handler set mid-pass ([PassPlanProofs.HInv]): the registered nodes stamped as changed in
    this pass, and their observers; it is kept by every node of every block (a lhs-change node that
    swaps withdraws the handlers of the nodes it drops), so the update handlers that run at the
    end of a parallel pass are exactly those of the nodes that are registered when the pass returns
    and carry its change stamp, each once. *)
From incr Require Import Base Heap HeapSpec HeapProofs EngineDefs Engine EngineRun EngineWf Spec EngineLemmas EngineLocal
     EngineInv EngineInvProofs PassInv PassProofs PassPlanProofs PassPlanProofs2 PassBind PassBindProofs PassBindSwap
     PassBindSwapProofs PassBindSwapStep PassBindOps PassBindSwapLog PassBindSwapHandlers ParBind ParBindStep ParBindHistory ParBindLog.

Local Arguments valueOf : simpl never.

(** * a node that is not a lhs-change node *)
Lemma step_HInvS fuel s m s' imm :
  BFB s -> HeapSpec.inv (heap s) -> inGraph (nd s m) = true -> isLhs (nkind (nd s m)) = false -> HInv s ->
  recomputeNodeSerial fuel [] s m = Ok (s', None, imm) -> HInv s'.
Proof.
  intros HB I Hg Hnl HI E.
  destruct (rns_stepB fuel s m s' None imm HB (has_inGraph _ _ Hg) I Hnl E) as [_ PP].
  pose proof (stepPostB_sframe _ _ _ _ PP) as F.
  assert (Hother : forall n, n <> m -> changedAt (nd s' n) = changedAt (nd s n)).
  { intros n Hn. rewrite (sq_other _ _ _ _ PP n Hn). reflexivity. }
  assert (Hk : stabNum s' = stabNum s) by apply (sf_stabNum _ _ F).
  destruct (rns_handlersB fuel s m s' imm (has_inGraph _ _ Hg) Hnl E) as [[Hh Hc]|[Hc Hh]].
  - assert (Hall : forall n, changedAt (nd s' n) = changedAt (nd s n)).
    { intros n. destruct (decide (n = m)) as [->|Hn]; [exact Hc|apply Hother, Hn]. }
    intros k. rewrite Hh, (HI k), Hk, (sf_inGraph _ _ F), Hall. apply or_iff_compat_l.
    split; intros (n & H1 & H2 & H3); exists n.
    + rewrite (sf_inGraph _ _ F), (sf_observers _ _ F), Hall. auto.
    + rewrite (sf_inGraph _ _ F), (sf_observers _ _ F), Hall in *. auto.
  - intros k. rewrite (Hh k), (HI k), Hk. split.
    + intros [[[H1 H2]|(n & H1 & H2 & H3)]|[->|Hko]].
      * left. rewrite (sf_inGraph _ _ F). split; [exact H1|].
        destruct (decide (k = m)) as [->|Hn]; [exact Hc|rewrite (Hother k Hn); exact H2].
      * right. exists n. rewrite (sf_inGraph _ _ F), (sf_observers _ _ F). split; [exact H1|]. split; [exact H2|].
        destruct (decide (n = m)) as [->|Hn]; [exact Hc|rewrite (Hother n Hn); exact H3].
      * left. rewrite (sf_inGraph _ _ F). auto.
      * right. exists m. rewrite (sf_inGraph _ _ F), (sf_observers _ _ F). auto.
    + intros [[H1 H2]|(n & H1 & H2 & H3)].
      * destruct (decide (k = m)) as [->|Hn]; [auto|]. left. left.
        rewrite (sf_inGraph _ _ F) in H1. rewrite (Hother k Hn) in H2. auto.
      * rewrite (sf_inGraph _ _ F), (sf_observers _ _ F) in *.
        destruct (decide (n = m)) as [->|Hn]; [auto|]. left. right. exists n. rewrite (Hother n Hn) in H3. auto.
Qed.

Lemma HInv_nodes s s' : nodes s' = nodes s -> handlers s' = handlers s -> stabNum s' = stabNum s -> HInv s -> HInv s'.
Proof.
  intros Hn Hh Hk HI k. pose proof (nodes_eq_nd _ _ Hn) as Hnd. rewrite Hh, Hk, (HI k), Hnd.
  apply or_iff_compat_l. split; intros (n & A & B & C); exists n; rewrite ?Hnd in *; auto.
Qed.

(** * a lhs-change node *)
Lemma bind_HInvP s b R s' :
  PInv s -> PInv s' -> LInvP s (b :: R) -> bfr s b s' -> obs s' = obs s -> HInv s -> HInv s'.
Proof.
  intros P P' L F Hobs HI. set (K := stabNum s).
  assert (HK : stabNum s' = K) by apply (bx_k _ _ _ F).
  assert (Hkpos : 1 <= K) by apply (st_num s (p_stamps s P)).
  pose proof (t_obs _ _ _ (p_t _ P)) as HO. pose proof (t_obs _ _ _ (p_t _ P')) as HO'.
  assert (Hobsl : forall n k, k ∈ observers (nd s' n) <-> k ∈ observers (nd s n)).
  { intros n k. rewrite (ob_iff _ HO' n k), (ob_iff _ HO n k), Hobs. reflexivity. }
  assert (Hfwd : forall n, n <> b -> inGraph (nd s' n) = true ->
            changedAt (nd s' n) = changedAt (nd s n) /\ (changedAt (nd s' n) = K -> inGraph (nd s n) = true)).
  { intros n Hne Hg'. destruct (bx_stamps _ _ _ F n Hne) as [(_ & E2 & _)|[(E1 & _)|(E1 & _)]]; [|congruence|].
    - split; [exact E2|]. intros Hc. destruct (inGraph (nd s n)) eqn:Eg; [reflexivity|exfalso].
      destruct (lp_unreg _ _ L n Eg (bx_regvalid _ _ _ F n Hg')) as [_ H0]. rewrite E2, H0 in Hc. lia.
    - rewrite (t_valid _ _ _ (p_t _ P') n Hg') in E1. discriminate. }
  assert (Hkeepreg : forall n, inGraph (nd s n) = true -> observers (nd s n) <> [] -> inGraph (nd s' n) = true).
  { intros n Hg Ho. rewrite (st_nec _ (PInv_Struct s' P') n). unfold isNecessary.
    destruct (observers (nd s' n)) as [|o l] eqn:Eo.
    - exfalso. destruct (observers (nd s n)) as [|o l] eqn:Eo2; [congruence|].
      assert (Hin : o ∈ observers (nd s' n)) by (apply Hobsl; rewrite Eo2; left). rewrite Eo in Hin. inversion Hin.
    - rewrite (bool_decide_eq_false_2 (o :: l = [])) by discriminate. rewrite orb_true_r. reflexivity. }
  destruct (bx_self _ _ _ F) as [_ Hgb'].
  intros k. rewrite HK. split.
  - intros Hk. destruct (bx_h1 _ _ _ F k Hk) as [->|[Ho|[Hks Hr]]].
    + left. split; [exact Hgb'|apply (bx_changed _ _ _ F)].
    + right. exists b. split; [exact Hgb'|]. split; [exact Ho|apply (bx_changed _ _ _ F)].
    + apply (HI k) in Hks as [[Hg Hc]|(n & Hg & Ho & Hc)].
      * left. destruct (decide (k = b)) as [->|Hne]; [split; [exact Hgb'|apply (bx_changed _ _ _ F)]|].
        pose proof (Hr Hg) as Hg'. split; [exact Hg'|]. fold K in Hc.
        destruct (Hfwd k Hne Hg') as [E _]. congruence.
      * right. fold K in Hc. destruct (decide (n = b)) as [->|Hne].
        { exists b. split; [exact Hgb'|]. split; [apply Hobsl, Ho|apply (bx_changed _ _ _ F)]. }
        exists n.
        assert (Hg' : inGraph (nd s' n) = true).
        { apply (Hkeepreg n Hg). intros E. rewrite E in Ho. inversion Ho. }
        split; [exact Hg'|]. split; [apply Hobsl, Ho|]. destruct (Hfwd n Hne Hg') as [E _]. congruence.
  - intros [[Hg' Hc']|(n & Hg' & Ho' & Hc')].
    + destruct (decide (k = b)) as [Ekb|Hne]; [rewrite Ekb; apply (proj1 (bx_h3 _ _ _ F))|].
      destruct (Hfwd k Hne Hg') as [E Hreg]. pose proof (Hreg Hc') as Hg.
      apply (bx_h2 _ _ _ F k); [|left; auto]. apply (HI k). left. split; [exact Hg|]. fold K. congruence.
    + destruct (decide (n = b)) as [Enb|Hne]; [rewrite Enb in Ho'; apply (proj2 (bx_h3 _ _ _ F)), Ho'|].
      destruct (Hfwd n Hne Hg') as [E Hreg]. pose proof (Hreg Hc') as Hg.
      assert (Ho : k ∈ observers (nd s n)) by (apply Hobsl, Ho').
      apply (bx_h2 _ _ _ F k).
      * apply (HI k). right. exists n. split; [exact Hg|]. split; [exact Ho|]. fold K. congruence.
      * right. apply (ob_iff _ HO n k) in Ho. destruct (ob_ids _ HO k n Ho) as (H1 & H2 & _). auto.
Qed.

(** * the blocks and the loop *)
Lemma rnpH fuel st m R st' :
  Tplain st -> PInv st -> LInvP st (m :: R) -> inGraph (nd st m) = true -> HInv st ->
  recomputeNodeParallel fuel [] st m = Ok (st', None) -> HInv st'.
Proof.
  intros TP P L Hg HI H.
  destruct (recomputeNodeParallel_spec PT PT_struct bind_spec_holds fuel [] st m st' None Logic.I P eq_refl Hg H)
    as [[[Hr|Hr]|(P' & _ & Hk & _)] _]; try discriminate.
  destruct (isLhs (nkind (nd st m))) eqn:El.
  - destruct (nkind (nd st m)) eqn:K; try discriminate El.
    pose proof (p_kinds _ P m (has_inGraph _ _ Hg)) as Hkk. rewrite K in Hkk. destruct Hkk as [-> _].
    destruct (bind_step_frameP fuel st b R st' TP P L Hg K H P') as [BF _].
    destruct (pf_recomputeNodeParallel _ _ _ _ _ _ H) as (Hobs & _).
    exact (bind_HInvP st b R st' P P' L BF Hobs HI).
  - destruct (rnp_rns fuel st m st' H) as (s1 & imm & Hs & Hadd).
    pose proof (PInv_BFB st P (lp_shape _ _ L)) as HB.
    pose proof (step_HInvS fuel st m s1 imm HB (proj1 (PInv_heap st P)) Hg El HI Hs) as HI1.
    destruct imm as [c|]; [|subst; exact HI1]. apply heapAdd_inv in Hadd as (w0 & _ & ->).
    apply (HInv_nodes s1); try reflexivity. exact HI1.
Qed.

Lemma blockH fuel l : forall st al st2 al2,
  Tplain st -> PInv st -> LInvP st l -> HInv st ->
  rfold (blockStep fuel []) l (st, None, al) = Ok (st2, None, al2) -> HInv st2.
Proof.
  induction l as [|m l IH]; intros st al st2 al2 TP P L HI H; simpl in H.
  { injection H as <- <-. exact HI. }
  apply rbind_ok in H as ([[st1 e1] al1] & H1 & H). unfold blockStep in H1.
  destruct (Z.eqb_spec (height (nd st m)) unset) as [Hu|Hu].
  { injection H1 as <- <- <-. apply (IH st al st2 al2 TP P (LInvP_skip st m l (PInv_unset st m P Hu) L) HI H). }
  apply rbind_ok in H1 as ([st' e'] & Hr & [= <- <- <-]).
  destruct e' as [x|]; [pose proof (block_err fuel l _ _ _ _ _ _ H); discriminate|].
  pose proof (PInv_hreg st m P Hu) as Hg.
  destruct (nodeP bind_stepP fuel st m l st' TP P L Hg Hr) as (TP' & P' & L' & _).
  eapply (IH st' _ st2 al2 TP' P' L' (rnpH fuel st m l st' TP P L Hg HI Hr)). exact H.
Qed.

Lemma loopH_par fuel : forall s al s' al',
  Tplain s -> PInv s -> LInvP s [] -> AW s al -> HInv s ->
  parLoop fuel [] s al = Ok (s', None, al') -> HInv s'.
Proof.
  induction fuel as [|fuel IH]; intros s al s' al' TP P L HA HI H; [discriminate|].
  rewrite parLoop_S in H. destruct (PInv_heap s P) as [I Hq].
  destruct (Z.leb_spec (Heap.cnt (heap s)) 0) as [Hc|Hc]; [injection H as <- <-; exact HI|].
  destruct (Heap.takeMinBlock (heap s)) as [block w] eqn:Etb. cbv zeta in H.
  set (sb := s <| heap := w |>) in *.
  set (isL := fun n : nid => match nkind (nd sb n) with KBindLhs _ => true | _ => false end) in *.
  set (order := filter (fun n => isL n = true) block ++ filter (fun n => isL n = false) block) in *.
  apply rbind_ok in H as ([[s2 e2] al2] & H2 & H).
  destruct e2 as [x|]; [discriminate|].
  destruct (heap_takeMinBlock_spec (heap s) block w I Etb) as (_ & Pm & _).
  assert (Hndb : NoDup block).
  { pose proof (inv_nodup _ I) as Hn. rewrite Pm in Hn. apply NoDup_app in Hn as (Hn & _). exact Hn. }
  assert (Hord : forall x, x ∈ order <-> x ∈ block).
  { intros x. unfold order. rewrite elem_of_app, !elem_of_list_filter. destruct (isL x); intuition congruence. }
  assert (Hndo : NoDup order).
  { unfold order. apply NoDup_app. split; [apply stdpp.list.NoDup_filter, Hndb|]. split; [|apply stdpp.list.NoDup_filter, Hndb].
    intros x [A _]%elem_of_list_filter [B _]%elem_of_list_filter. congruence. }
  destruct (block_start s block w order P L Etb Hndo Hord) as [Pb Lb]. fold sb in Pb, Lb.
  pose proof (Tplain_binds s sb eq_refl TP) as TPb.
  destruct (blockP bind_stepP fuel order sb al s2 al2 TPb Pb Lb (AW_heap s w al HA) H2) as (TP2 & P2 & L2 & HA2 & _).
  assert (HIb : HInv sb) by exact HI.
  exact (IH s2 al2 s' al' TP2 P2 L2 HA2 (blockH fuel order sb al s2 al2 TPb Pb Lb HIb H2) H).
Qed.

(** * the pass *)
Theorem parS_handlers s s' :
  Inv s -> ValInvB s -> Tplain s -> parStabilize [] s = Ok (s', None) ->
  exists L H,
    rev (log s') = rev (log s) ++ [EvPassStart] ++ L ++ [EvPassEnd XOk] ++ H /\
    Forall passEv L /\ Forall EngineLocal.isHandlerEv H /\ NoDup H /\
    (forall n, EvUpd n ∈ H <-> inGraph (nd s' n) = true /\ changedAt (nd s' n) = stabNum s) /\
    (forall o v, EvObsUpd o v ∈ H <->
       exists n, obs s' !! o = Some n /\ changedAt (nd s' n) = stabNum s /\ v = valueOf s' n).
Proof.
  intros IV V TP H. pose proof (Inv_wfb s IV) as Hwf. destruct (wfb_transients _ Hwf) as (Hst & Hsd & Hsr & Hh).
  destruct (C13_bracket_and_order_par [] s s' None Hst) as (L & sL & always & EL & Hlog & HL & Hobs & Hsort);
    [intros n Hn; apply (io_lt _ (inv_ids _ IV)); exact Hn|reflexivity|rewrite Hsd, Hsr; constructor|exact H|].
  destruct (Hsort ltac:(rewrite Hh; constructor)) as [_ Hnd].
  set (s1 := EngineLocal.passStart s) in *.
  pose proof (LInvP_start s IV V) as L1. change (PassProofs.passStart s) with s1 in L1.
  pose proof (Inv_PInv_start s IV) as P1. change (PInv s1) in P1.
  pose proof (Tplain_binds s s1 eq_refl TP) as TP1.
  assert (Hnd0 : forall y, isDone s1 y = false).
  { intros y. unfold isDone. apply Z.eqb_neq. pose proof (stamps_node_true _ _ (vb_stamps _ V y)).
    change (recomputedAt (nd s y) <> stabNum s). lia. }
  assert (HA1 : AW s1 []) by (intros y _ Hd _; rewrite Hnd0 in Hd; discriminate).
  assert (HI1 : HInv s1).
  { intros k. change (handlers s1) with (handlers s). rewrite Hh. split; [intros Hk; inversion Hk|].
    intros [[_ Hc]|(n & _ & _ & Hc)]; exfalso.
    - pose proof (stamps_node_true _ _ (vb_stamps _ V k)). change (changedAt (nd s k) = stabNum s) in Hc. lia.
    - pose proof (stamps_node_true _ _ (vb_stamps _ V n)). change (changedAt (nd s n) = stabNum s) in Hc. lia. }
  pose proof (loopH_par _ s1 [] sL always TP1 P1 L1 HA1 HI1 EL) as HIL.
  destruct (loopP bind_stepP _ s1 [] sL always TP1 P1 L1 HA1 EL) as (_ & PL & LL & _ & _ & HkL & _).
  pose proof (PInv_Struct sL PL) as HSL. pose proof (t_obs _ _ _ (p_t _ PL)) as HOL.
  destruct (parStabilize_nil_inv s s' Hst Hsd Hsr H) as (sL' & al' & sR & hev' & EL2 & ER & Es' & _).
  change (emit EvPassStart (s <| status := 1 |>)) with s1 in EL2. rewrite EL in EL2.
  injection EL2 as <- <-.
  specialize (Es' (proj1 (lp_quiet _ _ LL)) (proj2 (lp_quiet _ _ LL))).
  assert (Hnodes : nodes s' = nodes sL) by (rewrite Es'; cbn; apply (oh_nodes _ _ (requeue_only_heap _ _ _ ER))).
  pose proof (nodes_eq_nd _ _ Hnodes) as Hnd'.
  assert (Hobs' : obs s' = obs sL) by (rewrite Es'; cbn; apply (oh_obs _ _ (requeue_only_heap _ _ _ ER))).
  assert (HkLs : stabNum sL = stabNum s) by exact HkL.
  exists L, (map (hev sL) (handlers sL)). split; [exact Hlog|]. split; [exact HL|].
  split; [apply Forall_forall; intros e He; apply elem_of_list_In, elem_of_list_fmap in He as (k & -> & _); apply hev_isHandlerEv|].
  split; [apply NoDup_fmap_2; [intros k1 k2; apply hev_inj|exact Hnd]|].
  split.
  - intros n. rewrite Hnd', <- HkLs, elem_of_list_fmap. split.
    + intros (k & Ek & Hk). unfold hev in Ek. destruct (obs sL !! k) as [n'|] eqn:Eo; [discriminate|].
      injection Ek as ->. apply HIL in Hk as [Hk|(n' & _ & Hin & _)]; [exact Hk|].
      apply (ob_iff _ HOL) in Hin. congruence.
    + intros [Hg Hc]. exists n. split; [|apply HIL; left; auto].
      unfold hev. destruct (obs sL !! n) as [n'|] eqn:Eo; [|reflexivity].
      exfalso. destruct (ob_ids _ HOL n n' Eo) as (_ & Hno & _). apply Hno. apply has_inGraph, Hg.
  - intros o v. rewrite elem_of_list_fmap. split.
    + intros (k & Ek & Hk). unfold hev in Ek. destruct (obs sL !! k) as [n|] eqn:Eo; [|discriminate].
      injection Ek as -> ->. exists n. rewrite Hobs'. split; [exact Eo|].
      rewrite Hnd', <- HkLs, (valueOf_nodes sL s' n Hnodes). split; [|reflexivity].
      apply HIL in Hk as [[Hg _]|(n' & _ & Hin & Hc)].
      * exfalso. destruct (ob_ids _ HOL k n Eo) as (_ & Hno & _). apply Hno. apply has_inGraph, Hg.
      * apply (ob_iff _ HOL) in Hin. congruence.
    + intros (n & Ho & Hc & ->). rewrite Hobs' in Ho. rewrite Hnd', <- HkLs in Hc.
      exists o. split; [unfold hev; rewrite Ho, (valueOf_nodes sL s' n Hnodes); reflexivity|].
      apply HIL. right. exists n. split; [|split; [apply (ob_iff _ HOL), Ho|exact Hc]].
      rewrite (st_nec _ HSL n). unfold isNecessary.
      apply (ob_iff _ HOL) in Ho. destruct (observers (nd sL n)) as [|o' l]; [inversion Ho|].
      rewrite (bool_decide_eq_false_2 (o' :: l = [])) by discriminate. rewrite orb_true_r. reflexivity.
Qed.

(** for a node that stayed registered throughout the pass (no [EvNec] of it) the reading "its value
    changed" is right also for the parallel pass *)
Theorem parS_handlers_value s s' :
  Inv s -> ValInvB s -> Tplain s -> parStabilize [] s = Ok (s', None) ->
  forall evs n, log s' = evs ++ log s -> inGraph (nd s' n) = true -> EvNec n ∉ evs ->
    value (nd s' n) <> value (nd s n) -> EvUpd n ∈ evs.
Proof.
  intros IV V TP H evs n El Hg Hnec Hv.
  pose proof (plp_changed _ _ (parS_log s s' IV V TP H) evs n El Hg Hnec Hv) as Hc.
  destruct (parS_handlers s s' IV V TP H) as (L & Hh & Hlog & _ & _ & _ & Hupd & _).
  assert (Hin : EvUpd n ∈ Hh) by (apply Hupd; auto).
  rewrite El, rev_app_distr in Hlog. apply app_inv_head in Hlog.
  apply elem_of_list_In, in_rev. rewrite Hlog. apply elem_of_list_In. apply elem_of_app. right. apply elem_of_app. right. apply elem_of_app. right. exact Hin.
Qed.
