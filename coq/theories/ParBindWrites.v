(** C12 for ParallelStabilize on graphs with binds: plans that write vars ([ASet] / [AUpdate]
    performed by node / bind / cutoff functions) in a parallel pass.
    Seen through the erasure [PassBindWrites.cl] (of [pending], [setDuring], [setRemoved]) the
    parallel pass with plan [p] is the parallel pass with the faults of [p] only ([parLoop_simG]),
    and a parallel pass whose plan has no writes commutes with the erasure ([parLoop_clG]); so for a
    writes-only plan the pass does what the plan-free parallel pass does, up to the values the
    writes deferred, which [stabilizeEnd] then applies: the invariants hold again, the written vars
    are queued ([parW_pass]). *)
From incr Require Import Base Heap HeapSpec HeapProofs EngineDefs Engine EngineRun EngineWf Spec EngineLemmas EngineLocal
     EngineInv EngineInvProofs PassInv PassProofs PassPlanProofs PassBind PassBindProofs PassBindSwap PassBindSwapProofs
     PassBindSwapStep PassBindOps PassBindFault PassBindWrites PassBindTotal PassBindMixed PassBindFaultGen ParBind ParBindStep ParBindHistory.
From incr Require Import SpecProofs.

Local Arguments valueOf : simpl never.

Definition clE (r : state * option err) : state * option err := (cl r.1, r.2).

(** * 1. The tail of the parallel recompute commutes with the erasure *)
Lemma parTail_cl s n : parTail (cl s) n = rmap clE (parTail s n).
Proof.
  unfold parTail. cbv zeta. change (stabNum (cl s)) with (stabNum s).
  rewrite cl_upd by (intros y; destruct y; reflexivity). rewrite cl_insert_handler.
  set (sA := insert_handler n (upd s n (set changedAt (fun _ => stabNum s)))).
  rewrite children_cl.
  rewrite (rfold_cl (fun s c => if shouldRecomputeChild s c then heapAdd s c else Ok s) (children (nd sA n))).
  2:{ intros t c. rewrite shouldRecomputeChild_cl. destruct (shouldRecomputeChild t c); [apply heapAdd_cl|reflexivity]. }
  destruct (rfold _ (children (nd sA n)) sA) as [s1| |]; cbn [rmap rbind]; try reflexivity.
  rewrite observers_cl, insert_handlers_cl. reflexivity.
Qed.

Lemma recomputeFailed_cl s n prev : recomputeFailed (cl s) n prev = rmap cl (recomputeFailed s n prev).
Proof.
  unfold recomputeFailed. rewrite cl_upd by (intros y; destruct y; reflexivity). apply heapAddIfNotPresent_cl.
Qed.

(* the two error tails of the parallel recompute *)
Definition parErr (s : state) (n : nid) (prev : Z) (e : err) : res (state * option err) :=
  match e with
  | EPanic m =>
    let s := upd s n (set recomputedAt (fun _ => 0)) in
    s <-! heapAddIfNotPresent s n; Ok (errorHandlers s n, Some (EPanic m))
  | e => s <-! recomputeFailed s n prev; Ok (errorHandlers s n, Some e)
  end.

Lemma parErr_cl s n prev e : parErr (cl s) n prev e = rmap clE (parErr s n prev e).
Proof.
  unfold parErr. destruct e;
    try (rewrite recomputeFailed_cl; destruct (recomputeFailed s n prev) as [s1| |]; cbn [rmap rbind]; try reflexivity;
         rewrite cl_errorHandlers; reflexivity).
  rewrite cl_upd by (intros y; destruct y; reflexivity). rewrite heapAddIfNotPresent_cl.
  destruct (heapAddIfNotPresent _ n) as [s1| |]; cbn [rmap rbind]; try reflexivity.
  rewrite cl_errorHandlers. reflexivity.
Qed.

Lemma rnp_unfold2 fuel p s n :
  recomputeNodeParallel fuel p s n =
  let x := nd s n in
  let prev := recomputedAt x in
  let s0 := upd s n (set recomputedAt (fun _ => stabNum s)) in
  '(s1, e, cut) <-! maybeCutoff p s0 n x;
  match e with
  | Some e0 => parErr s1 n prev e0
  | None =>
    if cut then Ok (s1, None) else
    '(s2, e) <-! stabilizeNode fuel p s1 n;
    match e with
    | Some e0 => parErr s2 n prev e0
    | None => parTail s2 n
    end
  end.
Proof.
  rewrite rnp_unfold. cbv zeta. unfold parErr.
  destruct (maybeCutoff p _ n (nd s n)) as [[[s1 [e0|]] cut]| |]; cbn [rbind]; try reflexivity.
  all: try (destruct e0; reflexivity).
  all: destruct cut; [reflexivity|]; destruct (stabilizeNode fuel p s1 n) as [[s2 [e0|]]| |]; cbn [rbind]; try reflexivity.
  all: destruct e0; reflexivity.
Qed.

(** * 2. Any plan, against its faults only; a plan without writes, against itself *)
Lemma rnp_simG fuel p s n s' e :
  status s = 1 ->
  recomputeNodeParallel fuel p s n = Ok (s', e) ->
  recomputeNodeParallel fuel (fo p) (cl s) n = Ok (cl s', e).
Proof.
  intros Hst H. rewrite rnp_unfold2 in H. rewrite rnp_unfold2. cbv zeta in *.
  change (stabNum (cl s)) with (stabNum s). rewrite cl_upd by (intros y; destruct y; reflexivity).
  rewrite nd_cl. change (recomputedAt (clN (nd s n))) with (recomputedAt (nd s n)).
  set (s0 := upd s n (set recomputedAt (fun _ => stabNum s))) in *.
  assert (Hst0 : status s0 = 1) by exact Hst.
  apply rbind_ok in H as ([[s1 e1] cut] & H1 & H).
  assert (C1 : maybeCutoff (fo p) (cl s0) n (clN (nd s n)) = Ok (cl s1, e1, cut) /\ status s1 = 1).
  { unfold maybeCutoff in *. change (nkind (clN (nd s n))) with (nkind (nd s n)).
    destruct (nkind (nd s n)); try (injection H1 as <- <- <-; auto).
    apply rbind_ok in H1 as ([s2 e2] & Hi & H1).
    destruct (invoke_simG p s0 n WCut s2 e2 Hst0 Hi) as (Hi' & Hst2). rewrite Hi'. cbn [rbind].
    change (value (clN (nd s n))) with (value (nd s n)). change (decl (clN (nd s n))) with (decl (nd s n)).
    rewrite valueOf_cl. destruct e2 as [e0|]; injection H1 as <- <- <-; auto. }
  destruct C1 as (C1 & Hst1). rewrite C1. cbn [rbind].
  destruct e1 as [e0|].
  { rewrite parErr_cl. apply (rmap_Ok clE _ _ H). }
  destruct cut; [injection H as <- <-; reflexivity|].
  apply rbind_ok in H as ([s2 e2] & H2 & H).
  assert (Hk1n : nkind (nd s1 n) = nkind (nd s n)).
  { apply maybeCutoff_spec in H1 as (V1 & _). destruct (vps_fields _ _ (V1 n)) as (-> & _).
    apply (nd_upd_proj nkind). reflexivity. }
  assert (Hrec1 : forall eq, nkind (nd s1 n) = KVar eq -> recomputedAt (nd s1 n) = stabNum s1).
  { intros eq K. unfold maybeCutoff in H1. rewrite <- Hk1n, K in H1. injection H1 as <-.
    unfold s0. rewrite nd_upd_eq; [reflexivity|]. apply kind_has. rewrite <- Hk1n, K. discriminate. }
  rewrite (stabilizeNode_simG fuel p s1 n s2 e2 Hst1 Hrec1 H2). cbn [rbind].
  destruct e2 as [e0|].
  - rewrite parErr_cl. apply (rmap_Ok clE _ _ H).
  - rewrite parTail_cl. apply (rmap_Ok clE _ _ H).
Qed.

Lemma rnp_clG fuel q s n : nowrites q ->
  recomputeNodeParallel fuel q (cl s) n = rmap clE (recomputeNodeParallel fuel q s n).
Proof.
  intros Hq. rewrite !rnp_unfold2. cbv zeta.
  change (stabNum (cl s)) with (stabNum s). rewrite cl_upd by (intros y; destruct y; reflexivity).
  rewrite nd_cl. change (recomputedAt (clN (nd s n))) with (recomputedAt (nd s n)).
  set (s0 := upd s n (set recomputedAt (fun _ => stabNum s))).
  assert (C1 : maybeCutoff q (cl s0) n (clN (nd s n)) =
               rmap (fun r : state * option err * bool => (cl r.1.1, r.1.2, r.2)) (maybeCutoff q s0 n (nd s n))).
  { unfold maybeCutoff. change (nkind (clN (nd s n))) with (nkind (nd s n)).
    destruct (nkind (nd s n)); try reflexivity. rewrite (invoke_cl_eq q s0 n WCut Hq).
    change (value (clN (nd s n))) with (value (nd s n)). change (decl (clN (nd s n))) with (decl (nd s n)).
    rewrite valueOf_cl. destruct (invoke q s0 n WCut) as [[s2 e2]| |]; cbn [rmap rbind fst snd]; try reflexivity.
    destruct e2; reflexivity. }
  rewrite C1. destruct (maybeCutoff q s0 n (nd s n)) as [[[s1 e1] cut]| |] eqn:H1; cbn [rmap rbind fst snd]; try reflexivity.
  destruct e1 as [e0|]; [apply parErr_cl|]. destruct cut; [reflexivity|].
  assert (Hk1n : nkind (nd s1 n) = nkind (nd s n)).
  { apply maybeCutoff_spec in H1 as (V1 & _). destruct (vps_fields _ _ (V1 n)) as (-> & _).
    apply (nd_upd_proj nkind). reflexivity. }
  assert (Hrec1 : forall eq, nkind (nd s1 n) = KVar eq -> recomputedAt (nd s1 n) = stabNum s1).
  { intros eq K. unfold maybeCutoff in H1. rewrite <- Hk1n, K in H1. injection H1 as <-.
    unfold s0. rewrite nd_upd_eq; [reflexivity|]. apply kind_has. rewrite <- Hk1n, K. discriminate. }
  rewrite (stabilizeNode_clG fuel q s1 n Hq Hrec1).
  destruct (stabilizeNode fuel q s1 n) as [[s2 e2]| |]; cbn [clM rmap rbind]; try reflexivity.
  destruct e2 as [e0|]; [apply parErr_cl|apply parTail_cl].
Qed.

Definition clB (r : state * option err * list nid) : state * option err * list nid := (cl r.1.1, r.1.2, r.2).

Lemma blockStep_simG fuel p st e al n acc' :
  status st = 1 -> blockStep fuel p (st, e, al) n = Ok acc' ->
  blockStep fuel (fo p) (cl st, e, al) n = Ok (clB acc') /\ status acc'.1.1 = 1.
Proof.
  intros Hst H. unfold blockStep in *. rewrite height_cl.
  destruct (height (nd st n) =? unset); [injection H as <-; auto|].
  apply rbind_ok in H as ([st' e'] & Hr & [= <-]).
  rewrite (rnp_simG fuel p st n st' e' Hst Hr). cbn [rbind]. rewrite nkind_cl. split; [reflexivity|].
  destruct (pf_recomputeNodeParallel _ _ _ _ _ _ Hr) as (_ & _ & Hst1 & _). cbn. rewrite Hst1. exact Hst.
Qed.

Lemma block_simG fuel p l : forall st e al acc',
  status st = 1 -> rfold (blockStep fuel p) l (st, e, al) = Ok acc' ->
  rfold (blockStep fuel (fo p)) l (cl st, e, al) = Ok (clB acc') /\ status acc'.1.1 = 1.
Proof.
  induction l as [|n l IH]; intros st e al acc' Hst H.
  - simpl in H |- *. injection H as <-. auto.
  - rewrite rfold_cons in H. rewrite rfold_cons. apply rbind_ok in H as ([[st1 e1] al1] & H1 & H).
    destruct (blockStep_simG fuel p st e al n _ Hst H1) as [-> Hst1]. cbn [rbind clB fst snd].
    apply (IH st1 e1 al1 acc' Hst1 H).
Qed.

Lemma parLoop_simG fuel p : forall s al s' e al',
  status s = 1 ->
  parLoop fuel p s al = Ok (s', e, al') -> parLoop fuel (fo p) (cl s) al = Ok (cl s', e, al').
Proof.
  induction fuel as [|fuel IH]; intros s al s' e al' Hst H; [discriminate|].
  rewrite parLoop_S in H. rewrite parLoop_S. rewrite heap_cl.
  destruct (Heap.cnt (heap s) <=? 0); [injection H as <- <- <-; reflexivity|].
  destruct (Heap.takeMinBlock (heap s)) as [block w]. cbv zeta in *. rewrite cl_set_heap.
  set (sb := s <| heap := w |>) in *.
  apply rbind_ok in H as ([[s2 e2] al2] & H2 & H).
  assert (Eo : (filter (fun n => match nkind (nd (cl sb) n) with KBindLhs _ => true | _ => false end = true) block ++
                filter (fun n => match nkind (nd (cl sb) n) with KBindLhs _ => true | _ => false end = false) block) =
               (filter (fun n => match nkind (nd sb n) with KBindLhs _ => true | _ => false end = true) block ++
                filter (fun n => match nkind (nd sb n) with KBindLhs _ => true | _ => false end = false) block)).
  { f_equal; apply list_filter_iff; intros n; rewrite nkind_cl; reflexivity. }
  rewrite Eo.
  destruct (block_simG fuel p _ sb None al _ Hst H2) as [-> Hst2]. cbn [rbind clB fst snd].
  destruct e2 as [x|]; [injection H as <- <- <-; reflexivity|].
  apply (IH s2 al2 s' e al' Hst2 H).
Qed.

Lemma blockStep_clG fuel q (Hq : nowrites q) st e al n :
  blockStep fuel q (cl st, e, al) n = rmap clB (blockStep fuel q (st, e, al) n).
Proof.
  unfold blockStep. rewrite height_cl. destruct (height (nd st n) =? unset); [reflexivity|].
  rewrite (rnp_clG fuel q st n Hq).
  destruct (recomputeNodeParallel fuel q st n) as [[st' e']| |]; cbn [rmap rbind clE fst snd]; try reflexivity.
  rewrite nkind_cl. reflexivity.
Qed.

Lemma block_clG fuel q (Hq : nowrites q) l : forall st e al,
  rfold (blockStep fuel q) l (cl st, e, al) = rmap clB (rfold (blockStep fuel q) l (st, e, al)).
Proof.
  induction l as [|n l IH]; intros st e al; [reflexivity|]. rewrite !rfold_cons. rewrite (blockStep_clG fuel q Hq).
  destruct (blockStep fuel q (st, e, al) n) as [[[st1 e1] al1]| |]; cbn [rmap rbind clB fst snd]; try reflexivity.
  apply IH.
Qed.

Lemma parLoop_clG fuel q : nowrites q -> forall s al, parLoop fuel q (cl s) al = rmap clB (parLoop fuel q s al).
Proof.
  intros Hq. induction fuel as [|fuel IH]; intros s al; [reflexivity|].
  rewrite !parLoop_S. rewrite heap_cl. destruct (Heap.cnt (heap s) <=? 0); [reflexivity|].
  destruct (Heap.takeMinBlock (heap s)) as [block w]. cbv zeta. rewrite cl_set_heap.
  set (sb := s <| heap := w |>).
  assert (Eo : (filter (fun n => match nkind (nd (cl sb) n) with KBindLhs _ => true | _ => false end = true) block ++
                filter (fun n => match nkind (nd (cl sb) n) with KBindLhs _ => true | _ => false end = false) block) =
               (filter (fun n => match nkind (nd sb n) with KBindLhs _ => true | _ => false end = true) block ++
                filter (fun n => match nkind (nd sb n) with KBindLhs _ => true | _ => false end = false) block)).
  { f_equal; apply list_filter_iff; intros n; rewrite nkind_cl; reflexivity. }
  rewrite Eo, (block_clG fuel q Hq).
  destruct (rfold (blockStep fuel q) _ (sb, None, al)) as [[[s2 e2] al2]| |]; cbn [rmap rbind clB fst snd]; try reflexivity.
  destruct e2; [reflexivity|apply IH].
Qed.

Lemma Ok_clB_inv tL e1 al1 (X : state) e2 al2 :
  @Ok _ (clB (tL, e1, al1)) = Ok (X, e2, al2) -> cl tL = X /\ e1 = e2 /\ al1 = al2.
Proof. unfold clB. cbn [fst snd]. intros H. injection H as H1 H2 H3. auto. Qed.

Theorem par_loops_agree fuel p s al sLp e al' :
  status s = 1 -> parLoop fuel p s al = Ok (sLp, e, al') ->
  exists tL, parLoop fuel (fo p) s al = Ok (tL, e, al') /\ cl tL = cl sLp.
Proof.
  intros Hst H. pose proof (parLoop_simG fuel p s al sLp e al' Hst H) as LS.
  rewrite (parLoop_clG fuel (fo p) (nowrites_fo p)) in LS.
  destruct (parLoop fuel (fo p) s al) as [[[tL e'] al'']| |]; try discriminate LS.
  cbn [rmap rbind] in LS. apply Ok_clB_inv in LS as (E1 & -> & ->). exists tL. split; [reflexivity|exact E1].
Qed.

(** * 3. A plan-free parallel recompute has no error but a rejected edge *)
Lemma parErr_err s n prev e0 s' e : parErr s n prev e0 = Ok (s', e) -> e = Some e0.
Proof.
  unfold parErr. destruct e0; intros H; apply rbind_ok in H as (s1 & _ & [= _ <-]); reflexivity.
Qed.

Lemma E_rnp fuel s n s' e : recomputeNodeParallel fuel [] s n = Ok (s', e) -> okErr e.
Proof.
  intros H. rewrite rnp_unfold2 in H. cbv zeta in H.
  apply rbind_ok in H as ([[s1 e1] cut] & H1 & H).
  assert (He1 : e1 = None).
  { unfold maybeCutoff in H1. destruct (nkind (nd s n)); injection H1 as _ <- _; reflexivity. }
  subst e1. destruct cut; [injection H as _ <-; exact Logic.I|].
  apply rbind_ok in H as ([s2 e2] & H2 & H). pose proof (E_stabilizeNode _ _ _ _ _ H2) as G.
  destruct e2 as [e0|].
  - apply parErr_err in H as ->. exact G.
  - unfold parTail in H. apply rbind_ok in H as (s3 & _ & [= _ <-]). exact Logic.I.
Qed.

Lemma E_block fuel l : forall st e al st2 e2 al2,
  okErr e -> rfold (blockStep fuel []) l (st, e, al) = Ok (st2, e2, al2) -> okErr e2.
Proof.
  induction l as [|n l IH]; intros st e al st2 e2 al2 He H.
  - simpl in H. injection H as _ <- _. exact He.
  - rewrite rfold_cons in H. apply rbind_ok in H as ([[st1 e1] al1] & H1 & H). apply (IH st1 e1 al1 st2 e2 al2); [|exact H].
    unfold blockStep in H1. destruct (height (nd st n) =? unset); [injection H1 as _ <- _; exact He|].
    apply rbind_ok in H1 as ([st' e'] & Hr & [= _ <- _]). destruct e; [exact He|apply (E_rnp _ _ _ _ _ Hr)].
Qed.

Lemma E_parLoop fuel : forall s al s' e al', parLoop fuel [] s al = Ok (s', e, al') -> okErr e.
Proof.
  induction fuel as [|fuel IH]; intros s al s' e al' H; [discriminate|]. rewrite parLoop_S in H.
  destruct (Heap.cnt (heap s) <=? 0); [injection H as _ <- _; exact Logic.I|].
  destruct (Heap.takeMinBlock (heap s)) as [block w]. cbv zeta in H.
  apply rbind_ok in H as ([[s2 e2] al2] & H2 & H).
  pose proof (E_block fuel _ _ None al s2 e2 al2 Logic.I H2) as G.
  destruct e2 as [x|]; [injection H as _ <- _; exact G|apply (IH _ _ _ _ _ H)].
Qed.

(** * 4. The parallel pass with a writing plan against the parallel pass with its faults only *)
Lemma par_plan_clean_fo s p : par_plan_clean s p = true -> par_plan_clean s (fo p) = true.
Proof.
  unfold par_plan_clean, fo. induction p as [|[[m w] a] p IH]; [reflexivity|]. cbn [forallb List.filter].
  intros H. apply andb_true_iff in H as [Ha Hp]. destruct a; cbn [isFail snd]; [|apply IH, Hp|apply IH, Hp].
  cbn [forallb]. rewrite Ha, (IH Hp). reflexivity.
Qed.

Lemma writes_only_par_clean s p : writes_only p = true -> par_plan_clean s p = true.
Proof.
  unfold writes_only, par_plan_clean. induction p as [|[[m w] a] p IH]; [reflexivity|]. cbn [forallb].
  intros H. apply andb_true_iff in H as [Ha Hp]. rewrite (IH Hp). destruct a; [discriminate|reflexivity|reflexivity].
Qed.

Theorem par_mixed_bb s p s' e :
  Inv s -> ValInvB s -> Tplain s -> plan_ok s p = true -> par_plan_clean s p = true ->
  parStabilize p s = Ok (s', e) -> rejected e = false ->
  (forall tL al, parLoop (passFuel (EngineLocal.passStart s)) (fo p) (EngineLocal.passStart s) [] = Ok (tL, e, al) ->
     setDuring tL = [] /\ setRemoved tL = []) ->
  exists t', parStabilize (fo p) s = Ok (t', e) /\
    (ValInvB t' -> Tplain t' -> CF s t' ->
     Inv s' /\ ValInvB s' /\ Tplain s' /\ CF s s' /\ (forall m, inHeap t' m = true -> inHeap s' m = true) /\
     (forall m, vps (nd t' m) (nd s' m)) /\ log s' = log t').
Proof.
  intros IV V TP Hpok Hcl H Hrej Hquiet. pose proof (Inv_wfb s IV) as Hwf.
  destruct (wfb_transients _ Hwf) as (Hst & Hsd & Hsr & Hh).
  assert (IV' : Inv s').
  { apply (Inv_step_parstabilize s (ParStabilize p) s' e IV); try reflexivity; [exact Hpok|exact Hcl|exact H| |];
      intros ->; discriminate Hrej. }
  destruct (parStabilize_decompose p s s' e Hst H) as (sLp & al & s2p & ELp & ERp & EEp).
  set (s1 := EngineLocal.passStart s) in *.
  assert (Hst1 : status s1 = 1) by reflexivity.
  destruct (par_loops_agree _ p s1 [] sLp e al Hst1 ELp) as (tL & ET & EclL).
  destruct (Hquiet tL al ET) as [HsdL HsrL].
  (* the requeue *)
  unfold requeueAlwaysPar in ERp. rewrite requeuePar_eq in ERp.
  pose proof (requeueAlways_cl al tL) as RQ. rewrite EclL, requeueAlways_cl in RQ.
  change (EngineLocal.requeueAlways al sLp) with (PassProofs.requeueAlways al sLp) in RQ. rewrite ERp in RQ.
  destruct (requeueAlways al tL) as [t2| |] eqn:ERt; try discriminate RQ.
  cbn [rmap rbind] in RQ. apply Ok_cl_inv in RQ. rename RQ into Ecl2.
  pose proof (requeue_only_heap _ _ _ ERt) as ORt. pose proof (requeue_only_heap _ _ _ ERp) as ORp.
  assert (Hsd3 : setDuring t2 = []) by (rewrite (oh_setDuring _ _ ORt); exact HsdL).
  assert (Hsr3 : setRemoved t2 = []) by (rewrite (oh_setRemoved _ _ ORt); exact HsrL).
  set (t' := (endUe e t2) <| setDuring := [] |> <| setRemoved := [] |> <| status := 0 |>).
  pose proof (stabilizeEnd_quiet_okE t2 e Hsd3 Hsr3) as EEt. fold t' in EEt.
  assert (H0 : parStabilize (fo p) s = Ok (t', e)).
  { unfold parStabilize. rewrite Hst. change (negb (0 =? 0)) with false. cbv iota zeta.
    change (emit EvPassStart (s <| status := 1 |>)) with s1. rewrite ET. cbn [rbind].
    rewrite requeuePar_eq. change (PassProofs.requeueAlways al tL) with (requeueAlways al tL). rewrite ERt. cbn [rbind].
    rewrite EEt. reflexivity. }
  exists t'. split; [exact H0|]. intros Vt Tt Ct.
  assert (IVt : Inv t').
  { apply (Inv_step_parstabilize s (ParStabilize (fo p)) t' e IV); try reflexivity;
      [apply plan_ok_fo, Hpok|apply par_plan_clean_fo, Hcl|exact H0| |]; intros ->; discriminate Hrej. }
  (* the write run's epilogue *)
  destruct (stabilizeEnd_unfoldE _ _ _ EEp) as (u1 & Ed & Es').
  assert (EclU : cl t' = cl ((endUe e s2p) <| status := 0 |>)).
  { change (cl t') with ((cl (endUe e t2)) <| status := 0 |>). rewrite cl_endUe, <- Ecl2, <- cl_endUe. reflexivity. }
  pose proof (Inv_Struct t' IVt) as HSt. pose proof (Inv_BFB t' IVt (vb_shape _ Vt)) as HBt.
  assert (HSu : Struct (endUe e s2p)) by exact (Struct_status _ _ (tr_Struct t' _ EclU HSt)).
  assert (HBu : BFB (endUe e s2p)) by exact (BFB_status _ _ (tr_BFB t' _ EclU HBt)).
  assert (Vu : ValInvB (endUe e s2p)).
  { pose proof (tr_ValInvB t' _ EclU HBt Vt) as Vx. revert Vx. apply ValInvB_fields; reflexivity. }
  destruct (endUe_facts e s2p) as (Un & Uh & Ub & Ux & Uk & Usd & Usr).
  assert (HvL : Forall (fun v => isVar sLp v = true) (setRemoved sLp ++ setDuring sLp)).
  { pose proof (pf_parLoop _ _ _ _ _ _ _ ELp) as Hpf.
    assert (Hwv : wvR (fun v => isVar s v = true) s1 sLp).
    { eapply (fr_parLoop (wvR _)); [apply wvR_hyps| |exact ELp]. apply plan_ok_planv, Hpok. }
    eapply (pass_deferred_are_vars s1 sLp p); [|exact Hpok| |exact Hpf|exact Hwv].
    - intros n Hn. apply (io_lt _ (inv_ids _ IV)). exact Hn.
    - change (setDuring s1) with (setDuring s). change (setRemoved s1) with (setRemoved s). rewrite Hsd, Hsr. constructor. }
  set (W := setRemoved (endUe e s2p) ++ setDuring (endUe e s2p)) in *.
  assert (HvU : Forall (fun v => isVar (endUe e s2p) v = true) W).
  { unfold W. rewrite Usr, Usd, (oh_setRemoved _ _ ORp), (oh_setDuring _ _ ORp).
    eapply List.Forall_impl; [|exact HvL]. intros w Hw. unfold isVar in *. rewrite Un, (oh_nodes _ _ ORp). exact Hw. }
  destruct (dsteps_postB W _ u1 HSu HBu Vu HvU Ed) as (A1 & A2 & A3 & (F1 & F2 & F3) & A5 & A6 & A7 & A8 & A9).
  destruct (dsteps_inv _ _ _ HvU Ed) as (((mm & ww & Eu1) & _ & Hisv & _) & _).
  assert (Hb' : binds s' = binds t').
  { rewrite Es'. change (binds u1 = binds t'). rewrite F1. change (binds (endUe e s2p) = binds (cl t')). rewrite EclU. reflexivity. }
  assert (Hndcl : forall m, clN (nd (endUe e s2p) m) = clN (nd t' m)).
  { intros m. rewrite <- !nd_cl. rewrite EclU. reflexivity. }
  split; [exact IV'|]. split.
  { rewrite Es'. apply (ValInvB_fields u1); try reflexivity. exact A3. }
  split; [apply (Tplain_binds t' s' Hb' Tt)|].
  split; [apply (CF_trans s t' s'); [exact Ct|apply CF_binds, Hb']|].
  split.
  { intros m Hm. rewrite Es'. change (inHeap u1 m = true). apply A7.
    change (inHeap (cl t') m = true) in Hm. rewrite EclU in Hm. exact Hm. }
  split.
  { intros m. rewrite Es'. change (vps (nd t' m) (nd u1 m)). eapply vps_trans; [|apply A5].
    apply clN_eq_vps. symmetry. apply Hndcl. }
  rewrite Es'. change (log u1 = log t'). rewrite Eu1. change (log (endUe e s2p) = log (cl t')). rewrite EclU. reflexivity.
Qed.

(** * 5. Writes-only plans under ParStabilize *)
Theorem parW_pass s p s' e :
  Inv s -> ValInvB s -> Tplain s -> writes_only p = true -> plan_ok s p = true ->
  parStabilize p s = Ok (s', e) -> rejected e = false ->
  e = None /\
  exists t', parStabilize [] s = Ok (t', None) /\
    (consistent t' = true /\ Inv t' /\ ValInvB t' /\ Tplain t') /\
    Inv s' /\ ValInvB s' /\ Tplain s' /\ CF s s' /\
    (forall m, inHeap t' m = true -> inHeap s' m = true) /\
    (forall m, vps (nd t' m) (nd s' m)) /\ log s' = log t'.
Proof.
  intros IV V TP Hw Hpok H Hrej. pose proof (writes_only_fo p Hw) as Hfo.
  pose proof (Inv_wfb s IV) as Hwf. destruct (wfb_transients _ Hwf) as (Hst & _).
  assert (He : e = None).
  { destruct (parStabilize_decompose p s s' e Hst H) as (sLp & al & s2p & ELp & _).
    destruct (par_loops_agree _ p (EngineLocal.passStart s) [] sLp e al eq_refl ELp) as (tL & ET & _). rewrite Hfo in ET.
    pose proof (E_parLoop _ _ _ _ _ _ ET) as G. destruct e as [r|]; [|reflexivity].
    destruct G as [-> | ->]; discriminate Hrej. }
  subst e. split; [reflexivity|].
  destruct (par_mixed_bb s p s' None IV V TP Hpok (writes_only_par_clean s p Hw) H eq_refl) as (t' & H0 & K).
  { intros tL al ET. rewrite Hfo in ET.
    pose proof (LInvP_start s IV V) as L1. pose proof (Inv_PInv_start s IV) as P1.
    assert (HA1 : AW (EngineLocal.passStart s) []).
    { intros y _ Hd _. exfalso. pose proof (stamps_node_true _ _ (vb_stamps _ V y)). unfold isDone in Hd. apply Z.eqb_eq in Hd.
      change (recomputedAt (nd s y) = stabNum s) in Hd. lia. }
    destruct (loopP bind_stepP _ (EngineLocal.passStart s) [] tL al (Tplain_binds s (EngineLocal.passStart s) eq_refl TP) P1 L1 HA1 ET) as (_ & _ & LL & _).
    exact (lp_quiet _ _ LL). }
  rewrite Hfo in H0. exists t'. split; [exact H0|].
  destruct (parS_consistent s t' IV V TP H0) as (Hc & It & _ & _ & Vt & Tt & Ct).
  split; [auto|]. destruct (K Vt Tt Ct) as (A & B & C & D & E & F & G). auto 10.
Qed.

(** histories mixing both stabilizers, with writing plans under either *)
Definition isWritePass (o : op) : bool :=
  match o with Stabilize p | ParStabilize p => writes_only p | _ => false end.

Fixpoint histPW_run (s : state) (os : list op) : option state :=
  match os with
  | [] => Some s
  | o :: os =>
    if ParBindHistory.histP_op o && parity_op o && op_ok s o && op_clean s o then
      match step s o with
      | Ok (s', None) => histPW_run s' os
      | _ => None
      end
    else if isWritePass o && op_ok s o then
      match step s o with
      | Ok (s', e) => if rejected e then None else histPW_run s' os
      | _ => None
      end
    else None
  end.

Lemma stepPW_inv s o s' e :
  Inv s -> ValInvB s -> Tplain s -> templates_ok s = true -> isWritePass o = true -> op_ok s o = true ->
  step s o = Ok (s', e) -> rejected e = false ->
  Inv s' /\ ValInvB s' /\ Tplain s' /\ templates_ok s' = true.
Proof.
  intros IV V TP Ht Ho Hok H Hr. destruct o; try discriminate Ho; simpl in Ho, H, Hok.
  - pose proof (pass_writes_result s p s' e IV (writes_only_fo p Ho) H Hr) as ->.
    destruct (pass_writesB s p s' IV V TP Ho Hok H) as (t' & W & E).
    destruct (we_inv _ _ _ _ E) as (A & B & C & D).
    split; [exact A|]. split; [exact B|]. split; [exact C|apply (templates_ok_CF s s' D Ht)].
  - destruct (parW_pass s p s' e IV V TP Ho Hok H Hr) as (_ & t' & _ & _ & A & B & C & D & _).
    split; [exact A|]. split; [exact B|]. split; [exact C|apply (templates_ok_CF s s' D Ht)].
Qed.

Lemma histPW_inv os : forall s0 s,
  Inv s0 -> ValInvB s0 -> Tplain s0 -> templates_ok s0 = true -> histPW_run s0 os = Some s ->
  Inv s /\ ValInvB s /\ Tplain s /\ templates_ok s = true.
Proof.
  induction os as [|o os IH]; intros s0 s IV V TP Ht H; simpl in H; [injection H as <-; auto|].
  destruct (ParBindHistory.histP_op o && parity_op o && op_ok s0 o && op_clean s0 o) eqn:Eo.
  - rewrite !andb_true_iff in Eo. destruct Eo as [[[Ho Hpo] Hok] Hcl].
    destruct (step s0 o) as [[s1 [e|]]| |] eqn:Es; try discriminate.
    destruct (ParBindHistory.stepP_inv s0 o s1 IV V TP Ho Hok Hcl Es) as (I1 & V1 & T1).
    apply (IH s1 s I1 V1 T1 (ParBindHistory.stepP_templates s0 o s1 IV V TP Ho Hpo Es Ht) H).
  - destruct (isWritePass o && op_ok s0 o) eqn:Ef; [|discriminate]. apply andb_true_iff in Ef as [Ef Hok].
    destruct (step s0 o) as [[s1 e]| |] eqn:Es; try discriminate.
    destruct (rejected e) eqn:Er; [discriminate|].
    destruct (stepPW_inv s0 o s1 e IV V TP Ht Ef Hok Es Er) as (I1 & V1 & T1 & Ht1). apply (IH s1 s I1 V1 T1 Ht1 H).
Qed.

Lemma histPW_split os1 : forall s0 o os2 sf,
  histPW_run s0 (os1 ++ o :: os2) = Some sf ->
  exists s1, histPW_run s0 os1 = Some s1 /\ histPW_run s1 (o :: os2) = Some sf.
Proof.
  induction os1 as [|a os1 IH]; intros s0 o os2 sf H; [exists s0; auto|].
  simpl in H |- *.
  destruct (ParBindHistory.histP_op a && parity_op a && op_ok s0 a && op_clean s0 a).
  - destruct (step s0 a) as [[s1 [e|]]| |]; try discriminate. apply (IH s1 o os2 sf H).
  - destruct (isWritePass a && op_ok s0 a); [|discriminate].
    destruct (step s0 a) as [[s1 e]| |]; try discriminate. destruct (rejected e); [discriminate|].
    apply (IH s1 o os2 sf H).
Qed.

(** whatever writing plans the earlier passes (of either stabilizer) carried, every plan-free pass of
    either stabilizer ends consistent, the observers reading the from-scratch values *)
Theorem histPW_planfree mh os1 o os2 sf :
  (0 < mh)%nat -> histPW_run (init mh) (os1 ++ o :: os2) = Some sf ->
  o = Stabilize [] \/ o = ParStabilize [] ->
  exists s1 s2, histPW_run (init mh) os1 = Some s1 /\ step s1 o = Ok (s2, None) /\
    consistent s2 = true /\ observers_agree s2 = true /\ Inv s2 /\ ValInvB s2.
Proof.
  intros Hmh H Ho. destruct (histPW_split os1 (init mh) _ os2 sf H) as (s1 & H1 & H2).
  assert (TP0 : Tplain (init mh)) by (intros b r Hr; inversion Hr).
  destruct (histPW_inv os1 (init mh) s1 (Inv_init mh Hmh) (ValInvB_init mh) TP0 eq_refl H1) as (I1 & V1 & T1 & Ht1).
  destruct Ho as [-> | ->]; simpl in H2.
  - destruct (stabilize [] false s1) as [[s2 [e|]]| |] eqn:Es; try discriminate.
    exists s1, s2. split; [exact H1|]. split; [exact Es|].
    destruct (passS_ValInvB s1 s2 I1 V1 T1 Es) as (V2 & T2 & C2).
    destruct (passS_observers_agree s1 s2 I1 V1 T1 Es (templates_ok_CF s1 s2 C2 Ht1)) as (A & B & C & _).
    auto.
  - destruct (parStabilize [] s1) as [[s2 [e|]]| |] eqn:Es; try discriminate.
    exists s1, s2. split; [exact H1|]. split; [exact Es|].
    destruct (parS_consistent s1 s2 I1 V1 T1 Es) as (Hc & I2 & _ & _ & V2 & _ & C2).
    destruct (parS_agree s1 s2 I1 V1 T1 Es (templates_ok_CF s1 s2 C2 Ht1)) as (_ & B & _ & _).
    auto.
Qed.

(** Example: the bind function sets var 1 and node 4's function updates var 0 (the bind's input) in
    a PARALLEL pass in which the bind swaps; the next parallel pass takes the written values *)
Definition exPW_plan : plan := [(2%nat, WFn, ASet 1%nat 9); (4%nat, WFn, AUpdate 0%nat 1)].
Definition exPW_ops : list op :=
  [ NewVar 2 false; NewVar 3 false;
    NewBind [TMap (Aff 1 1) (TOuter 1%nat); TRet 5] 0%nat;
    NewMap (Aff 2 0) 3%nat;
    Observe 4%nat;
    ParStabilize [];
    SetVar 0%nat 3;
    ParStabilize exPW_plan;
    ParStabilize [];
    Stabilize exPW_plan;
    ParStabilize [] ].

Lemma exPW_runs : exists s, histPW_run (init 64) exPW_ops = Some s.
Proof.
  assert (H : match histPW_run (init 64) exPW_ops with Some _ => true | None => false end = true)
    by (vm_compute; reflexivity).
  destruct (histPW_run (init 64) exPW_ops) as [s|]; [eauto|discriminate H].
Qed.

Lemma exPW_writes :
  match histPW_run (init 64) (take 7 exPW_ops) with
  | Some s =>
    match parStabilize exPW_plan s with
    | Ok (s', None) => (value (nd s 0%nat) =? 3) && (value (nd s' 0%nat) =? 4) && (value (nd s' 1%nat) =? 9)
                       && inHeap s' 0%nat
    | _ => false
    end
  | None => false
  end = true.
Proof. vm_compute. reflexivity. Qed.
