(** Shared vocabulary of the go-incr models.

    Node identities are creation indices ([nid := nat]); heights and stamps are [Z]
    ([-1] is the library's HeightUnset).  Go run-time failures (index out of range, nil
    dereference) are outcomes of the model ([Crash]), never totalised away; recursion
    that Go does with loops over mutable state is structural recursion on explicit fuel,
    and running out of it is a third, distinguishable outcome ([OutOfFuel]). *)
From stdpp Require Export base option list gmap numbers.
From Coq Require Export ZArith Lia Bool.
From Coq Require Import ZifyBool ZifyNat ZifyN.

Global Open Scope Z_scope.

Notation nid := nat (only parsing).

Inductive crash :=
| HeapNegativeHeight      (* recomputeHeap.heights[-1] in addNodeUnsafe *)
| HeapRemoveUnset         (* recomputeHeap.heights[-1] in removeNodeUnsafe *)
| HeapRemoveMissing       (* removeNodeUnsafe on a node its block does not hold *)
| NilDeref                (* a nil pointer dereference *)
| IndexOutOfRange         (* any other slice index fault *)
| MissingNode.            (* model-internal: a node id with no record *)

Inductive res (A : Type) :=
| Ok (a : A)
| Crash (why : crash)
| OutOfFuel.
Global Arguments Ok {A} a.
Global Arguments Crash {A} why.
Global Arguments OutOfFuel {A}.

Definition rbind {A B} (m : res A) (f : A -> res B) : res B :=
  match m with Ok a => f a | Crash w => Crash w | OutOfFuel => OutOfFuel end.
Definition rmap {A B} (f : A -> B) (m : res A) : res B := rbind m (fun a => Ok (f a)).

Notation "x <-! m ; k" := (rbind m (fun x => k))
  (at level 20, m at level 100, k at level 200, right associativity).
Notation "' p <-! m ; k" := (rbind m (fun p => k))
  (at level 20, p pattern, m at level 100, k at level 200, right associativity).

Definition is_ok {A} (m : res A) : bool := match m with Ok _ => true | _ => false end.

Fixpoint rfold {A S} (f : S -> A -> res S) (l : list A) (s : S) : res S :=
  match l with [] => Ok s | a :: l => s' <-! f s a; rfold f l s' end.

Lemma rbind_ok {A B} (m : res A) (f : A -> res B) b :
  rbind m f = Ok b -> exists a, m = Ok a /\ f a = Ok b.
Proof. destruct m; simpl; intros H; try discriminate; eauto. Qed.

Lemma rfold_app {A S} (f : S -> A -> res S) l1 l2 s :
  rfold f (l1 ++ l2) s = (s' <-! rfold f l1 s; rfold f l2 s').
Proof.
  revert s; induction l1 as [|a l1 IH]; intros s; simpl; [reflexivity|].
  destruct (f s a); simpl; auto.
Qed.

(** [HeightUnset] *)
Definition unset : Z := -1.
