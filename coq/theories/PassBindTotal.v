(** What a serial pass on a graph with binds can return (modulo fuel).
    A pass of a state satisfying [EngineInv.Inv] does not crash ([EngineInvProofs.nc_stabilize]);
    a plan-free pass has no error but the rejection of an edge by a swapping bind ([ECycle] /
    [EHeightLimit]); a pass in which the function of [x] fails / panics has that error, or such a
    rejection, or none.  Whether the fuel of the model suffices stays a hypothesis. *)
From incr Require Import Base Heap HeapSpec HeapProofs EngineDefs Engine EngineRun EngineWf Spec EngineLemmas EngineLocal
     EngineInv EngineInvProofs PassInv PassProofs PassPlanProofs PassBind PassBindProofs PassBindSwap PassBindSwapProofs
     PassBindSwapStep PassBindOps PassBindFault.

Lemma E_chain fuel : forall s n s' e at_, recomputeChain fuel [] s n = Ok (s', e, at_) -> okErr e.
Proof.
  induction fuel as [|fuel IH]; intros s n s' e at_ H; [discriminate|]. cbn [recomputeChain] in H.
  destruct (recomputeNodeSerial fuel [] s n) as [[[s1 e1] imm]| |] eqn:E1; simpl in H; try discriminate.
  pose proof (E_rns _ _ _ _ _ _ E1) as G. destruct e1 as [r|].
  - destruct imm; injection H as _ <- _; exact G.
  - destruct imm as [c|]; [eapply IH; eauto|injection H as _ <- _; exact Logic.I].
Qed.

Lemma E_loop fuel : forall s al s' e at_ al', passLoop fuel [] s al = Ok (s', e, at_, al') -> okErr e.
Proof.
  induction fuel as [|fuel IH]; intros s al s' e at_ al' H; [discriminate|]. cbn [passLoop] in H.
  destruct (Heap.cnt (heap s) <=? 0); [injection H as _ <- _ _; exact Logic.I|].
  destruct (Heap.removeMin (heap s)) as [[n w]|]; [|discriminate].
  destruct (recomputeChain fuel [] _ n) as [[[s3 e3] at3]| |] eqn:E3; simpl in H; try discriminate.
  pose proof (E_chain _ _ _ _ _ _ E3) as G. destruct e3 as [r|]; [injection H as _ <- _ _; exact G|eapply IH; eauto].
Qed.

Lemma E_stabilize s s' e : status s = 0 -> stabilize [] false s = Ok (s', e) -> okErr e.
Proof.
  intros Hst H. destruct (stabilize_decompose _ _ _ _ _ Hst H) as (sL & at_ & al & s2 & s3 & EL & _).
  unfold passResult in EL. cbv zeta in EL. simpl in EL. exact (E_loop _ _ _ _ _ _ _ EL).
Qed.

(** a plan-free pass, modulo fuel: it returns, with no error or with a rejected edge *)
Theorem passS_total s :
  Inv s -> stabilize [] false s <> OutOfFuel ->
  exists s' e, stabilize [] false s = Ok (s', e) /\ (e = None \/ e = Some ECycle \/ e = Some EHeightLimit).
Proof.
  intros IV Hf. pose proof (nc_stabilize [] false s IV eq_refl) as Hnc.
  destruct (stabilize [] false s) as [[s' e]|c|] eqn:E; [|exfalso; exact (Hnc c eq_refl)|congruence].
  exists s', e. split; [reflexivity|].
  pose proof (E_stabilize s s' e (q_status _ (inv_quiet _ IV)) E) as G.
  destruct e as [r|]; [|auto]. destruct G as [-> | ->]; auto.
Qed.

(** ... and when it has no error it converges *)
Theorem passS_total_converges s :
  Inv s -> ValInvB s -> Tplain s -> stabilize [] false s <> OutOfFuel ->
  (exists s', stabilize [] false s = Ok (s', None) /\ consistent s' = true /\ Inv s' /\ ValInvB s' /\ Tplain s') \/
  (exists s' e, stabilize [] false s = Ok (s', Some e) /\ (e = ECycle \/ e = EHeightLimit)).
Proof.
  intros IV V TP Hf. destruct (passS_total s IV Hf) as (s' & e & E & [-> |[-> | ->]]).
  - left. exists s'. split; [exact E|]. destruct (passS_consistent s s' IV V TP E) as (A & B & _).
    destruct (passS_ValInvB s s' IV V TP E) as (C & D & _). auto.
  - right. exists s', ECycle. auto.
  - right. exists s', EHeightLimit. auto.
Qed.

(** what a pass in which the function of [x] fails / panics can return *)
Theorem failPlan_resultB s x s' e :
  Inv s -> ValInvB s -> Tplain s -> stabilize (failPlan x) false s = Ok (s', e) ->
  e = None \/ e = Some (EUser x) \/ e = Some ECycle \/ e = Some EHeightLimit.
Proof.
  intros IV V TP H. destruct e as [r|]; [|auto].
  destruct r; try (destruct (passF_error s x s' _ IV V TP H ltac:(discriminate) ltac:(discriminate)) as (E & _); try discriminate E); auto.
  injection E as ->. auto.
Qed.

Theorem panicPlan_resultB s x s' e :
  Inv s -> ValInvB s -> Tplain s -> stabilize (panicPlan x) false s = Ok (s', e) ->
  e = None \/ e = Some (EPanic x) \/ e = Some ECycle \/ e = Some EHeightLimit.
Proof.
  intros IV V TP H. destruct e as [r|]; [|auto].
  destruct r; try (destruct (passF_panic s x s' _ IV V TP H ltac:(discriminate) ltac:(discriminate)) as (E & _); try discriminate E); auto.
  injection E as ->. auto.
Qed.

(** no pass with such a plan crashes *)
Theorem fault_pass_no_crash s x k : Inv s -> nocrash (stabilize (faultPlan x k) false s).
Proof. intros IV. apply (nc_stabilize (faultPlan x k) false s IV). reflexivity. Qed.
