(** C08, the ordering half, as a statement about the log of a serial pass with ANY plan (var writes
    and any number of faults): between a function or cutoff event of a node created by bind [a]
    (directly or through nested binds) and a later run of [a]'s bind function in the same pass, the
    node left the graph or came back. *)
From incr Require Import Base Heap HeapSpec HeapProofs EngineDefs Engine EngineRun EngineWf Spec EngineLemmas EngineLocal
     EngineInv EngineInvProofs PassInv PassProofs PassPlanProofs PassBind PassBindProofs PassBindSwap PassBindSwapProofs
     PassBindSwapStep PassBindOps PassBindSwapLog PassBindFault PassBindWrites PassBindTotal PassBindMixed PassBindFaultGen
     PassBindMultiFault PassBindPlanLog PassBindOrder PassBindOrderLog PassBindOrderPlans.
From incr Require Import SpecProofs.

Local Arguments valueOf : simpl never.

Definition nbq (L : list event) : Prop := Forall (fun x => isBindFn x = false) L /\ Forall quiet L.

(** * 1. The events of a recompute at which a fault fires *)
Lemma errorHandlers_nbq s n : exists L, log (errorHandlers s n) = L ++ log s /\ nbq L.
Proof.
  unfold errorHandlers. destruct (nkind (nd s n)); try (exists [EvErrH n]; split; [reflexivity|split; repeat constructor]).
  eexists [_; _]. split; [reflexivity|split; repeat constructor].
Qed.

Lemma failTail_log t n prev e0 s' e imm :
  failTail t n prev e0 = Ok (s', e, imm) -> exists L, log s' = L ++ log t /\ nbq L.
Proof.
  unfold failTail. intros H.
  assert (G : forall e1, (s <-! recomputeFailed t n prev; Ok (errorHandlers s n, Some e1, None)) = Ok (s', e, imm) ->
                         exists L, log s' = L ++ log t /\ nbq L).
  { intros e1 H1. apply rbind_ok in H1 as (s2 & E2 & [= <- _ _]). unfold recomputeFailed in E2.
    destruct (heapAddIfNotPresent_heapOnly _ _ _ E2) as [w Ew].
    destruct (errorHandlers_nbq s2 n) as (L & El & HL). exists L. split; [|exact HL]. rewrite El, Ew. reflexivity. }
  destruct e0; try (apply G in H; exact H).
  injection H as <- _ _. exists []. split; [reflexivity|split; constructor].
Qed.

Definition faultOf (n : nid) (f : faultkind) : err := match f with FErr => EUser n | FPanic => EPanic n end.

Lemma invoke_one n w f t : invoke [(n, w, AFail f)] t n w = Ok (emit (EvFault n w f) t, Some (faultOf n f)).
Proof.
  rewrite (invoke_nowrites _ t n w (nowrites_one n w f)), actions_one.
  assert (E : which_eqb w w = true) by (destruct w; reflexivity). rewrite E. destruct f; reflexivity.
Qed.

Lemma rns_fault_log fuel n w f s s1 e1 imm :
  has s n -> (match w with WFn => fnKind (nkind (nd s n)) | WCut => cutKind (nkind (nd s n)) end = true) ->
  (forall b, nkind (nd s n) = KBindLhs b -> b = n /\ is_Some (binds s !! b) /\ b_memo (bd s b) = false) ->
  recomputeNodeSerial fuel [(n, w, AFail f)] s n = Ok (s1, e1, imm) ->
  exists L, log s1 = L ++ EvFault n w f :: log s /\ nbq L.
Proof.
  intros Hn Hkd Hb H. rewrite recomputeNodeSerial_unfold in H. cbv zeta in H.
  set (s0 := upd s n (set recomputedAt (fun _ => stabNum s))) in *.
  assert (Hk0 : nkind (nd s0 n) = nkind (nd s n)) by (apply (nd_upd_proj nkind); reflexivity).
  assert (Fin : forall t, log t = EvFault n w f :: log s ->
                          failTail t n (recomputedAt (nd s n)) (faultOf n f) = Ok (s1, e1, imm) ->
                          exists L, log s1 = L ++ EvFault n w f :: log s /\ nbq L).
  { intros t Et Ht. destruct (failTail_log _ _ _ _ _ _ _ Ht) as (L & El & HL). exists L. rewrite El, Et. auto. }
  destruct w.
  - (* the function *)
    assert (Hmc : maybeCutoff [(n, WFn, AFail f)] s0 n (nd s n) = Ok (s0, None, false)).
    { unfold maybeCutoff. unfold fnKind in Hkd. destruct (nkind (nd s n)); try reflexivity; discriminate Hkd. }
    rewrite Hmc in H. cbn [rbind] in H.
    destruct (mapKind (nkind (nd s n))) eqn:Emk.
    + assert (Hsn : stabilizeNode fuel [(n, WFn, AFail f)] s0 n = Ok (emit (EvFault n WFn f) s0, Some (faultOf n f))).
      { unfold stabilizeNode. rewrite Hk0. destruct (nkind (nd s n)); try discriminate Emk; rewrite invoke_one; reflexivity. }
      rewrite Hsn in H. cbn [rbind] in H. apply (Fin (emit (EvFault n WFn f) s0) eq_refl H).
    + unfold fnKind in Hkd. rewrite Emk in Hkd. cbn in Hkd. destruct (nkind (nd s n)) eqn:K0; try discriminate Hkd.
      destruct (Hb b eq_refl) as (-> & [r Hr] & Hmemo).
      assert (Hbd0 : bd s0 n = r) by (unfold bd; change (binds s0) with (binds s); rewrite Hr; reflexivity).
      assert (Hbd : bd s n = r) by (unfold bd; rewrite Hr; reflexivity).
      set (s1b := updb s0 n (set b_rhsNodes (fun _ : list nid => []))) in *.
      set (sF := updb (emit (EvFault n WFn f) s1b) n (set b_rhsNodes (fun _ => b_rhsNodes r))).
      assert (Hsn : stabilizeNode fuel [(n, WFn, AFail f)] s0 n = Ok (sF, Some (faultOf n f))).
      { unfold stabilizeNode. rewrite Hk0. unfold bindLhsStabilize. cbv zeta. rewrite Hbd0.
        rewrite Hbd in Hmemo. rewrite Hmemo. fold s1b. rewrite invoke_one. reflexivity. }
      rewrite Hsn in H. cbn [rbind] in H. apply (Fin sF eq_refl H).
  - (* the cutoff function *)
    assert (Hmc : maybeCutoff [(n, WCut, AFail f)] s0 n (nd s n) = Ok (emit (EvFault n WCut f) s0, Some (faultOf n f), false)).
    { unfold maybeCutoff. destruct (nkind (nd s n)); try discriminate Hkd. rewrite invoke_one. reflexivity. }
    rewrite Hmc in H. cbn [rbind] in H. apply (Fin (emit (EvFault n WCut f) s0) eq_refl H).
Qed.

(** * 2. The log invariant through chain and loop under a plan of faults *)
Lemma rns_frame_p fuel p s m s' e imm : PInv s ->
  recomputeNodeSerial fuel p s m = Ok (s', e, imm) ->
  forall n, has s n -> has s' n /\ scope (nd s' n) = scope (nd s n).
Proof.
  intros P H n Hn. assert (Hids : ids_below s) by (intros x Hx; apply (io_lt _ (p_ids _ P)); exact Hx).
  destruct (pf_recomputeNodeSerial fuel p s m s' e imm H) as (_ & _ & _ & _ & _ & Hhas & Hst & _).
  destruct (Hst Hids) as [_ Hstat]. split; [apply Hhas, Hn|apply (Hstat n Hn)].
Qed.

Lemma LO_fault q (Hq : nowrites q) fuel base s n s1 e1 imm w f :
  PInv s -> inGraph (nd s n) = true -> fireK q (nkind (nd s n)) n = Some (w, f) ->
  recomputeNodeSerial fuel q s n = Ok (s1, e1, imm) -> LOx base s -> LOx base s1.
Proof.
  intros P Hg Ef H (evs & El & O). pose proof (has_inGraph _ _ Hg) as Hn.
  assert (Hb : forall b, nkind (nd s n) = KBindLhs b -> b = n).
  { intros b K. pose proof (p_kinds _ P n Hn) as Hkk. rewrite K in Hkk. symmetry. apply Hkk. }
  pose proof (rns_frame_p fuel q s n s1 e1 imm P H) as Hfr.
  rewrite (rns_fire fuel q s n Hq Hb), Ef in H. cbn [onePlan] in H.
  assert (Hkd : match w with WFn => fnKind (nkind (nd s n)) | WCut => cutKind (nkind (nd s n)) end = true).
  { destruct (fireK_kind q _ n w f Ef) as [(-> & Hf & _)|(-> & Hc & _)]; assumption. }
  assert (Hb2 : forall b, nkind (nd s n) = KBindLhs b -> b = n /\ is_Some (binds s !! b) /\ b_memo (bd s b) = false).
  { intros b K. pose proof (p_kinds _ P n Hn) as Hkk. rewrite K in Hkk. destruct Hkk as [-> [r Hr]].
    split; [reflexivity|]. split; [eauto|]. unfold bd. rewrite Hr. apply (bw_memo _ _ _ (p_binds _ P b r Hr)). }
  destruct (rns_fault_log fuel n w f s s1 e1 imm Hn Hkd Hb2 H) as (L & ElF & [N1 Q1]).
  exists ((L ++ [EvFault n w f]) ++ evs). split; [rewrite ElF, El, <- !app_assoc; reflexivity|].
  apply (LO_frame s s1 evs (L ++ [EvFault n w f]) P Hfr); [| |exact O].
  - apply Forall_app. split; [exact N1|repeat constructor].
  - intros e0 m He Hm. exfalso. apply elem_of_app in He as [He|He].
    + pose proof (proj1 (List.Forall_forall _ _) Q1 e0 (proj1 (elem_of_list_In _ _) He)) as X. unfold quiet in X. congruence.
    + apply elem_of_list_singleton in He. subst e0. discriminate Hm.
Qed.

Lemma chainO3 q (Hq : nowrites q) fuel : forall s0 base s n s' e at_,
  Tplain s -> PInv s -> LInvC s (Some n) -> inGraph (nd s n) = true -> OD s (Some n) -> LGx s0 base s -> LOx base s ->
  recomputeChain fuel q s n = Ok (s', e, at_) -> rejErr e \/ LOx base s'.
Proof.
  induction fuel as [|fuel IH]; intros s0 base s n s' e at_ TP P L Hg K G O H; [discriminate|].
  cbn [recomputeChain] in H.
  destruct (recomputeNodeSerial fuel q s n) as [[[s1 e1] imm]| |] eqn:E1; simpl in H; try discriminate.
  pose proof (rnsM fuel q s n s1 e1 imm Hq TP P L Hg E1) as R.
  destruct (fireK q (nkind (nd s n)) n) as [[w f]|] eqn:Ef.
  - pose proof (LO_fault q Hq fuel base s n s1 e1 imm w f P Hg Ef E1 O) as O1.
    right. destruct f; destruct R as (-> & -> & _); injection H as <- <- <-; exact O1.
  - pose proof (E_rns _ _ _ _ _ _ R) as Ge.
    destruct e1 as [r|].
    { left. exists r. split; [|exact Ge]. destruct imm; injection H as _ <- _; reflexivity. }
    clear E1. rename R into E1.
    destruct (rnsT fuel s n s1 imm TP P L Hg E1) as (TP1 & P1 & L1 & Hk1 & Himm & _).
    destruct O as (evs & Elo & O).
    assert (KO1 : OD s1 imm /\ LOx base s1).
    { destruct (isLhs (nkind (nd s n))) eqn:El.
      - destruct (nkind (nd s n)) eqn:Kn; try discriminate El.
        pose proof (p_kinds _ P n (has_inGraph _ _ Hg)) as Hkk. rewrite Kn in Hkk. destruct Hkk as [-> _].
        destruct (OD_bind fuel s b s1 imm TP P L Hg Kn E1 P1 K) as [-> K1]. split; [exact K1|].
        destruct (LO_bind fuel s0 base s b s1 None evs TP P L Hg Kn E1 K G Elo O) as (new & El1 & O1).
        exists (new ++ evs). split; [rewrite El1, Elo, app_assoc; reflexivity|exact O1].
      - split; [exact (OD_step fuel s n s1 imm TP P L Hg El E1 P1 K)|].
        destruct (LO_step fuel s n s1 imm evs TP P L Hg El E1 O) as (new & El1 & O1).
        exists (new ++ evs). split; [rewrite El1, Elo, app_assoc; reflexivity|exact O1]. }
    destruct KO1 as [K1 O1].
    destruct G as (evg & Elg & G).
    destruct (rnsL fuel s0 s n s1 imm evg TP P L Hg E1 G) as (new & El1 & G1).
    assert (G1x : LGx s0 base s1) by (exists (new ++ evg); split; [rewrite El1, Elg, app_assoc; reflexivity|exact G1]).
    destruct imm as [c|].
    + exact (IH s0 base s1 c s' e at_ TP1 P1 L1 (Himm c eq_refl) K1 G1x O1 H).
    + injection H as <- <- _. right. exact O1.
Qed.

Lemma loopO3 q (Hq : nowrites q) fuel : forall s0 base s always s' e at_ always',
  Tplain s -> PInv s -> LInvC s None -> OD s None -> LGx s0 base s -> LOx base s ->
  passLoop fuel q s always = Ok (s', e, at_, always') -> rejErr e \/ LOx base s'.
Proof.
  induction fuel as [|fuel IH]; intros s0 base s always s' e at_ always' TP P L K G O H; [discriminate|].
  cbn [passLoop] in H.
  destruct (Z.leb_spec (Heap.cnt (heap s)) 0) as [Hc|Hc]; [injection H as <- <- _ _; right; exact O|].
  destruct (Heap.removeMin (heap s)) as [[n w]|] eqn:Erm; [|discriminate].
  set (s2 := s <| heap := w |>) in *.
  destruct (recomputeChain fuel q s2 n) as [[[s3 e3] at3]| |] eqn:E3; simpl in H; try discriminate.
  destruct (pop_LInvC s n w P L Erm) as (L2 & P2 & Hgn). fold s2 in L2, P2.
  pose proof (Tplain_binds s s2 eq_refl TP) as TP2.
  pose proof (OD_pop s n w P L Erm K) as K2. fold s2 in K2.
  assert (G2 : LGx s0 base s2).
  { destruct G as (evs & El & G). exists evs. split; [exact El|]. apply (LG_ext s0 s s2 evs); auto. }
  assert (O2 : LOx base s2).
  { destruct O as (evs & El & [EH KK]). exists evs. split; [exact El|]. split; [exact EH|].
    intros pre x root a mid e0 post m E Hm Hs. apply (KK pre x root a mid e0 post m E Hm).
    apply (sub_ext s s2); [reflexivity|exact Hs]. }
  destruct (chainO3 q Hq fuel s0 base s2 n s3 e3 at3 TP2 P2 L2 Hgn K2 G2 O2 E3) as [Rj|O3].
  { left. destruct Rj as (r & -> & Hr). injection H as _ <- _ _. exists r. auto. }
  destruct e3 as [e3|].
  - injection H as <- <- _ _. right. exact O3.
  - destruct (chainOp q Hq fuel s0 base s2 n TP2 P2 L2 Hgn K2 G2) as [_ F2].
    destruct (F2 s3 at3 E3) as (TP3 & P3 & L3 & K3 & G3).
    exact (IH s0 base s3 _ s' e at_ always' TP3 P3 L3 K3 G3 O3 H).
Qed.

(** * 3. The pass under a plan of faults *)
Lemma recoverPanic_nbq s2 e at_ s3 :
  recoverPanic s2 e at_ = Ok s3 -> exists LP, log s3 = LP ++ log s2 /\ nbq LP.
Proof.
  unfold recoverPanic. intros H.
  assert (Id : Ok s2 = Ok s3 -> exists LP, log s3 = LP ++ log s2 /\ nbq LP).
  { intros [= <-]. exists []. split; [reflexivity|split; constructor]. }
  destruct e as [[| |u|k| | |]|]; try (apply Id, H).
  apply rbind_ok in H as (s3' & E3 & [= <-]).
  destruct (heapAddIfNotPresent_heapOnly _ _ _ E3) as [w Ew].
  destruct (errorHandlers_nbq s3' at_) as (L & El & HL). exists L. split; [|exact HL]. rewrite El, Ew. reflexivity.
Qed.

Theorem pass_order_log_faults s q s' e :
  nowrites q -> Inv s -> ValInvB s -> Tplain s -> stabilize q false s = Ok (s', e) -> rejected e = false ->
  forall evs pre x root a mid e0 post n, log s' = evs ++ log s ->
    evs = pre ++ EvBindFn a x root :: mid ++ e0 :: post ->
    ev_node e0 = Some n -> sub s' n a -> EvNec n ∈ mid \/ EvUnnec n ∈ mid.
Proof.
  intros Hq IV V TP H Hrej. pose proof (Inv_wfb s IV) as Hwf. destruct (wfb_transients _ Hwf) as (Hst & Hsd & Hsr & Hh).
  destruct (stabilize_decompose _ _ _ _ _ Hst H) as (sL & at_ & always & s2 & s3 & EL & ER & EP & EE).
  pose proof EL as EL'. unfold passResult in EL'. cbv zeta in EL'. simpl in EL'.
  set (s1 := EngineLocal.passStart s) in *.
  destruct (pass_start_factsB s IV V TP) as (TP1 & P1 & L1 & HA1). fold s1 in TP1, P1, L1, HA1.
  assert (Hnd0 : forall y, isDone s1 y = false).
  { intros y. unfold isDone. apply Z.eqb_neq. pose proof (stamps_node_true _ _ (vb_stamps _ V y)).
    change (recomputedAt (nd s y) <> stabNum s). lia. }
  assert (G1 : LGx s1 (log s1) s1) by (exists []; split; [reflexivity|apply LG_start]).
  assert (O1 : LOx (log s1) s1).
  { exists []. split; [reflexivity|]. split; [intros e1 n He; inversion He|].
    intros pre x root a mid e1 post n E. destruct pre; discriminate E. }
  destruct (loopO3 q Hq _ s1 (log s1) s1 [] sL e at_ always TP1 P1 L1 (OD_start s1 Hnd0) G1 O1 EL')
    as [(r & -> & [-> | ->])|(evsL & ElL & [_ KL])]; [discriminate Hrej|discriminate Hrej|].
  (* quietness of the loop's final state *)
  assert (Fin : setDuring sL = [] /\ setRemoved sL = []).
  { destruct (loopM q Hq _ s1 [] sL e at_ always TP1 P1 L1 HA1 EL')
      as [(r & -> & [-> | ->])|[(_ & (_ & PL & LL & _) & _)|[(x & _ & _ & (_ & PL & LL & _) & _)|(x & _ & _ & _ & sG & G)]]];
      [discriminate Hrej|discriminate Hrej| | |].
    - exact (lc_quiet _ _ LL).
    - exact (lc_quiet _ _ LL).
    - destruct G as (_ & PG & LG & _ & _ & _ & _ & _ & KG). destruct (pk_fields _ _ _ KG) as (_ & _ & Ksd & Ksr).
      rewrite Ksd, Ksr. exact (lc_quiet _ _ LG). }
  destruct Fin as [HsdL HsrL].
  pose proof (requeue_only_heap _ _ _ ER) as OR.
  destruct (recoverPanic_spec _ _ _ _ EP) as (_ & _ & _ & _ & _ & _ & _ & SD3 & SR3 & N3 & _).
  destruct (recoverPanic_nbq _ _ _ _ EP) as (LP & ElP & [NP QP]).
  assert (Hsd3 : setDuring s3 = []) by (rewrite SD3, (oh_setDuring _ _ OR); exact HsdL).
  assert (Hsr3 : setRemoved s3 = []) by (rewrite SR3, (oh_setRemoved _ _ OR); exact HsrL).
  destruct (stabilizeEnd_quiet s3 _ s' Hsd3 Hsr3 EE) as (En & _).
  destruct (stabilizeEnd_log s3 e s' Hsd3 Hsr3 EE) as (hev & ElE & Hhev).
  assert (Hsc : forall m, scope (nd s' m) = scope (nd sL m)).
  { intros m. destruct (N3 m) as [r Er]. rewrite (nodes_eq_nd _ _ En m), Er, (oh_nd _ _ OR). reflexivity. }
  set (Q := (hev ++ [EvPassEnd (classify e)]) ++ LP).
  assert (Hlog : log s' = Q ++ evsL ++ [EvPassStart] ++ log s).
  { unfold Q. rewrite ElE, ElP, (oh_log _ _ OR), ElL. rewrite <- !app_assoc. reflexivity. }
  assert (HNB : Forall (fun x => isBindFn x = false) Q).
  { unfold Q. apply Forall_app. split; [|exact NP]. apply Forall_app. split; [|constructor; [reflexivity|constructor]].
    eapply List.Forall_impl; [|exact Hhev]. intros e1 He1. destruct e1; try reflexivity; destruct He1. }
  intros evs pre x root a mid e0 post n E1 E2 Hne Hs.
  assert (Hevs : evs = Q ++ evsL ++ [EvPassStart]).
  { apply (app_inv_tail (log s)). rewrite <- E1, Hlog, <- !app_assoc. reflexivity. }
  rewrite Hevs in E2.
  destruct (split_nobind_l _ _ pre (EvBindFn a x root) _ E2 eq_refl HNB) as (pre2 & -> & E3).
  change (pre2 ++ EvBindFn a x root :: mid ++ e0 :: post) with (pre2 ++ (EvBindFn a x root :: mid) ++ e0 :: post) in E3.
  rewrite app_assoc in E3.
  destruct (split_quiet_r evsL [EvPassStart] _ e0 post E3 ltac:(constructor; [reflexivity|constructor]) ltac:(congruence))
    as (post2 & -> & E4).
  rewrite <- app_assoc in E4. cbn [app] in E4.
  apply (KL pre2 x root a mid e0 post2 n E4 Hne). apply (sub_ext sL s'); [exact Hsc|exact Hs].
Qed.

(** * 4. ANY plan: the log is the log of the pass under the faults of the plan alone *)
Theorem pass_order_log_any s p s' e :
  Inv s -> ValInvB s -> Tplain s -> plan_ok s p = true -> stabilize p false s = Ok (s', e) -> rejected e = false ->
  forall evs pre x root a mid e0 post n, log s' = evs ++ log s ->
    evs = pre ++ EvBindFn a x root :: mid ++ e0 :: post ->
    ev_node e0 = Some n -> sub s' n a -> EvNec n ∈ mid \/ EvUnnec n ∈ mid.
Proof.
  intros IV V TP Hpok H Hrej.
  destruct (passL_any s p s' e IV V TP Hpok H Hrej) as (t' & H0 & _ & Hl & Hv).
  intros evs pre x root a mid e0 post n E1 E2 Hne Hs. rewrite Hl in E1.
  apply (pass_order_log_faults s (fo p) t' e (nowrites_fo p) IV V TP H0 Hrej evs pre x root a mid e0 post n E1 E2 Hne).
  apply (sub_ext t' s'); [|exact Hs]. intros m. destruct (vps_fields _ _ (Hv m)) as (_ & _ & E & _). exact E.
Qed.
