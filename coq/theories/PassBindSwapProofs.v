(** Stage B2 (proofs): the serial pass without a plan on a graph with binds, bind functions may
    run.  [LInvC] (PassBindSwap.v) is preserved by a call of [recomputeNodeSerial] on a node that is
    not a lhs-change node ([step_LInvC]; the graph structure comes from [PInv]); the call on a
    lhs-change node is the hypothesis [bind_value_spec]. *)
From stdpp Require Import sorting.
From incr Require Import Base Heap HeapSpec HeapProofs EngineDefs Engine EngineRun EngineWf Spec
     EngineLemmas EngineInv EngineInvProofs PassInv PassProofs PassBind PassBindProofs PassBindSwap.

Local Ltac inv H := inversion H; subst; clear H.
Local Arguments valueOf : simpl never.

Lemma clean_ok_notlhs s n : isLhs (nkind (nd s n)) = false -> clean_ok s n = consistent_valB s n (value (nd s n)).
Proof. unfold clean_ok. destruct (nkind (nd s n)); try discriminate; intros _; apply andb_true_r. Qed.

Lemma clean_ok_ext s s' n :
  BFB s -> binds s' = binds s -> next s' = next s ->
  (forall x, nkind (nd s' x) = nkind (nd s x) /\ decl (nd s' x) = decl (nd s x) /\ scope (nd s' x) = scope (nd s x)) ->
  (forall x, inGraph (nd s' x) = inGraph (nd s x)) ->
  (forall x, nkind (nd s x) = KReturn -> value (nd s' x) = value (nd s x)) ->
  value (nd s' n) = value (nd s n) ->
  (forall p, p ∈ decl (nd s n) -> valueOf s' p = valueOf s p) ->
  clean_ok s' n = clean_ok s n.
Proof.
  intros HB Hb Hx Hst Hg Hr Hv Hp. unfold clean_ok. destruct (Hst n) as (Ek & Ed & _).
  rewrite Hv, (consistent_valB_ext s s' n _ HB Hb Ek Ed Hp). f_equal. rewrite Ek.
  destruct (nkind (nd s n)) eqn:K; try reflexivity.
  rewrite Hg. destruct (Hst (S b)) as (-> & _).
  destruct (decide (n = b)) as [->|Hne]; [|rewrite (bool_decide_eq_false_2 _ Hne); reflexivity].
  rewrite (matchesOK_ext s s' b Hb Hx Hst Hr); [reflexivity|].
  apply Hp. destruct (bb_lhs _ HB b b K) as [_ ->]. left.
Qed.

Section StepC.
  Context (s : state) (m : nid) (s' : state) (imm : option nid).
  Context (HS : Struct s) (HBF : BFB s)
          (Hh : HeapSpec.inv (heap s) /\
                forall q, q ∈ Heap.ids (heap s) ->
                  inGraph (nd s q) = true /\ Heap.hinOf (heap s) q = height (nd s q))
          (L : LInvC s (Some m)) (Hmreg0 : inGraph (nd s m) = true)
          (Hnl : isLhs (nkind (nd s m)) = false)
          (P : stepPostB s m s' imm).

  Let k := stabNum s.
  Let I : HeapSpec.inv (heap s) := proj1 Hh.
  Let I' : HeapSpec.inv (heap s') := sq_hinv _ _ _ _ P.
  Let F : sframe s s' := stepPostB_sframe _ _ _ _ P.

  Local Lemma Hk' : stabNum s' = k.
  Proof. apply (sf_stabNum _ _ F). Qed.

  Local Lemma HmW : inW s (Some m) m = true.
  Proof. apply inW_iff; [exact I|]. right; reflexivity. Qed.

  Local Lemma Hmreg : inGraph (nd s m) = true.
  Proof. exact Hmreg0. Qed.

  Local Lemma Hmnd : isDone s m = false.
  Proof. apply (lc_B _ _ L m m HmW). apply rtc_refl. Qed.

  Local Lemma Hst n : 0 <= changedAt (nd s n) <= k /\ 0 <= recomputedAt (nd s n) <= k /\
                      (changedAt (nd s n) = k -> recomputedAt (nd s n) = k).
  Proof. apply stamps_node_false, (lc_stamps _ _ L). Qed.

  (* a node that has not run in this pass has not changed in it *)
  Local Lemma Hm_clt : changedAt (nd s m) < k.
  Proof.
    pose proof (Hst m) as (H1 & H2 & H3). pose proof Hmnd as Hd. unfold isDone in Hd. apply Z.eqb_neq in Hd. fold k in Hd.
    destruct (Z.eq_dec (changedAt (nd s m)) k) as [E|E]; [exfalso; apply Hd, H3, E|lia].
  Qed.

  Local Lemma Hm_lt : recomputedAt (nd s m) < k.
  Proof.
    pose proof (Hst m). pose proof Hmnd as H1. unfold isDone in H1. apply Z.eqb_neq in H1. fold k in H1. lia.
  Qed.

  Local Lemma Hm_notq : m ∉ Heap.ids (heap s).
  Proof. intros Hq. exact (lc_M _ _ L m m eq_refl Hq (rtc_refl _ _)). Qed.

  Local Lemma Hrec_m : recomputedAt (nd s' m) = k.
  Proof. rewrite (sq_self _ _ _ _ P). reflexivity. Qed.

  Local Lemma Hnd_ne n : n <> m -> nd s' n = nd s n.
  Proof. apply (sq_other _ _ _ _ P). Qed.

  Local Lemma done'_iff n : isDone s' n = true <-> isDone s n = true \/ n = m.
  Proof.
    rewrite !isDone_iff, Hk'. destruct (decide (n = m)) as [->|Hn].
    - rewrite Hrec_m. tauto.
    - rewrite (Hnd_ne n Hn). fold k. tauto.
  Qed.

  Local Lemma done'_false n : isDone s' n = false <-> isDone s n = false /\ n <> m.
  Proof.
    rewrite <- !not_true_iff_false, done'_iff. destruct (decide (n = m)); tauto.
  Qed.

  (* heap facts shared by both cases *)
  Local Lemma Hmono x : x ∈ Heap.ids (heap s) -> x ∈ Heap.ids (heap s').
  Proof.
    intros Hx. destruct (sq_case _ _ _ _ P) as [C|R].
    - rewrite (cp_heap _ _ _ _ C). exact Hx.
    - apply (rq_mono _ _ _ _ R), Hx.
  Qed.

  Local Lemma Hnewmem x : x ∈ Heap.ids (heap s') \/ imm = Some x ->
    x ∈ Heap.ids (heap s) \/ (runPostB s m s' imm /\ x ∈ children (nd s m) /\ owedC s' x = true).
  Proof.
    intros Hx. destruct (sq_case _ _ _ _ P) as [C|R].
    - rewrite (cp_heap _ _ _ _ C), (cp_imm _ _ _ _ C) in Hx. destruct Hx; [auto|discriminate].
    - apply (rq_mem _ _ _ _ R) in Hx as [?|[? ?]]; auto.
  Qed.

  Local Lemma Hhin x : x ∈ Heap.ids (heap s') -> Heap.hinOf (heap s') x = height (nd s x).
  Proof.
    intros Hx. destruct (sq_case _ _ _ _ P) as [C|R].
    - rewrite (cp_heap _ _ _ _ C) in *. apply Hh, Hx.
    - destruct (decide (x ∈ Heap.ids (heap s))) as [Ho|Hn].
      + rewrite (rq_old _ _ _ _ R) by exact Ho. apply Hh, Ho.
      + apply (rq_new _ _ _ _ R); assumption.
  Qed.

  Local Lemma inW'_cases x : inW s' imm x = true ->
    x ∈ Heap.ids (heap s) \/ (runPostB s m s' imm /\ x ∈ children (nd s m) /\ owedC s' x = true).
  Proof. intros Hx. apply Hnewmem. apply inW_iff in Hx; [exact Hx|exact I']. Qed.

  Local Lemma inW_keep x : inW s (Some m) x = true -> x <> m -> inW s' imm x = true.
  Proof.
    intros Hx Hn. apply (inW_iff s (Some m) x I) in Hx as [Hx|Hx]; [|congruence].
    apply inW_iff; [exact I'|]. left. apply Hmono, Hx.
  Qed.

  Local Lemma child_of_m x : x ∈ children (nd s m) -> x <> m /\ reach s m x /\ inGraph (nd s x) = true.
  Proof.
    intros Hx. split; [|split].
    - intros ->. pose proof (edge_height s HS m m Hx). lia.
    - apply rtc_once. exact Hx.
    - apply (child_reg s HS m x Hx).
  Qed.

  (* values *)
  Local Lemma Hkd n : nkind (nd s' n) = nkind (nd s n) /\ decl (nd s' n) = decl (nd s n).
  Proof. split; [apply (sf_nkind _ _ F)|apply (sf_decl _ _ F)]. Qed.

  Local Lemma Hvalue_ne n : n <> m -> value (nd s' n) = value (nd s n).
  Proof. intros Hn. rewrite (Hnd_ne n Hn). reflexivity. Qed.

  Local Lemma Hval p : inGraph (nd s p) = true -> p <> m ->
    ~ (nkind (nd s p) = KAlways /\ reach s m p) -> valueOf s' p = valueOf s p.
  Proof. intros. apply (valueOf_changed s s' m p HS Hkd Hvalue_ne); assumption. Qed.

  Local Lemma Hval_cut p : cutPost s m s' imm -> valueOf s' p = valueOf s p.
  Proof.
    intros C. apply valueOf_ext. intros n. destruct (Hkd n) as [-> ->]. split; [reflexivity|]. split; [reflexivity|].
    destruct (decide (n = m)) as [->|Hn]; [apply C|apply Hvalue_ne, Hn].
  Qed.

  (* the declared inputs of [m] itself read the same *)
  Local Lemma Hval_decl_m p : p ∈ decl (nd s m) -> valueOf s' p = valueOf s p.
  Proof.
    intros Hp. assert (Hpar : p ∈ parents (nd s m)) by (apply (st_par _ HS); [exact Hmreg|exact Hp]).
    pose proof (parent_edge s HS _ _ Hpar) as He.
    apply Hval.
    - apply (edge_reg s HS _ _ He).
    - intros ->. pose proof (edge_height s HS _ _ He). lia.
    - intros [_ Hr]. exact (parent_not_reach s HS _ _ Hpar Hr).
  Qed.

  (** ** the clauses *)
  Local Lemma Hbd b : bd s' b = bd s b.
  Proof. apply bd_binds, (sf_binds _ _ F). Qed.

  Local Lemma S_bf : BFB s'.
  Proof.
    constructor.
    - intros n Hn. rewrite (sf_next _ _ F). apply (bb_lt _ HBF). apply (sf_has _ _ F). exact Hn.
    - intros n x E. rewrite <- (nd_lookup _ _ _ E).
      pose proof (bb_shape_nd s HBF n) as Hb. unfold shape_node in *. rewrite !andb_true_iff in *.
      destruct Hb as [[H5 H6] H7]. split; [split|].
      + unfold arity_ok in *. rewrite (sf_nkind _ _ F), (sf_decl _ _ F). exact H5.
      + destruct (decide (n = m)) as [->|Hne]; [|rewrite (Hnd_ne n Hne); exact H6].
        unfold cutalways_zero in *. rewrite (sf_nkind _ _ F).
        destruct (nkind (nd s m)) eqn:K; try reflexivity. destruct c; try reflexivity.
        destruct (sq_case _ _ _ _ P) as [C|R].
        * rewrite (cp_value _ _ _ _ C). exact H6.
        * pose proof (rq_val _ _ _ _ R) as Hv. unfold consistent_valB in Hv. rewrite K in Hv.
          pose proof (bb_arity s HBF m) as Har. unfold arity_ok in Har. rewrite K in Har.
          apply bool_decide_eq_true in Har. destruct (decl (nd s m)) as [|a [|]]; try discriminate Har.
          exact Hv.
      + unfold always_lt in *. rewrite (sf_nkind _ _ F), (sf_decl _ _ F). exact H7.
    - intros n. rewrite (sf_inGraph _ _ F), (sf_valid _ _ F). apply (bb_valid _ HBF).
    - intros b. rewrite Hbd. apply (bb_memo _ HBF).
    - intros n b K. rewrite (sf_nkind _ _ F) in K. rewrite (sf_nkind _ _ F), (sf_decl _ _ F), Hbd.
      apply (bb_main _ HBF n b K).
    - intros n b K. rewrite (sf_nkind _ _ F) in K. rewrite (sf_decl _ _ F), Hbd. apply (bb_lhs _ HBF n b K).
  Qed.

  Local Lemma S_heap : HeapSpec.inv (heap s') /\
    forall q, q ∈ Heap.ids (heap s') -> inGraph (nd s' q) = true /\ Heap.hinOf (heap s') q = height (nd s' q).
  Proof.
    split; [exact I'|]. intros q Hq. rewrite (sf_inGraph _ _ F), (sf_height _ _ F). split; [|apply Hhin, Hq].
    destruct (Hnewmem q (or_introl Hq)) as [Ho|(_ & Hc & _)].
    - apply Hh, Ho.
    - apply (child_of_m q Hc).
  Qed.

  Local Lemma S_stamps n : stamps_node s' false n = true.
  Proof.
    pose proof (Hst n) as Hn. unfold stamps_node. rewrite Hk'. fold k.
    destruct (decide (n = m)) as [->|Hne].
    - rewrite Hrec_m. pose proof (Hst m) as Hm. destruct (sq_case _ _ _ _ P) as [C|R].
      + rewrite (cp_changed _ _ _ _ C). rewrite !andb_true_iff, !Z.leb_le. lia.
      + rewrite (rq_changed _ _ _ _ R). fold k. rewrite !andb_true_iff, !Z.leb_le. lia.
    - rewrite (Hnd_ne n Hne). rewrite !andb_true_iff, !Z.leb_le. lia.
  Qed.

  Local Lemma S_B w n : inW s' imm w = true -> reach s' w n -> isDone s' n = false.
  Proof.
    intros Hw Hr. apply (sf_reach _ _ F) in Hr. apply done'_false.
    destruct (inW'_cases w Hw) as [Ho|(_ & Hc & _)].
    - split.
      + apply (lc_B _ _ L w n); [|exact Hr]. apply inW_iff; [exact I|]. left; exact Ho.
      + intros ->. exact (lc_M _ _ L m w eq_refl Ho Hr).
    - destruct (child_of_m w Hc) as (Hwm & Hmw & _). split.
      + apply (lc_B _ _ L m n HmW). eapply rtc_l; [exact Hc|exact Hr].
      + intros ->. pose proof (edge_height s HS _ _ Hc). destruct (reach_height s HS _ _ Hr); [congruence|lia].
  Qed.

  Local Lemma S_M c w : imm = Some c -> w ∈ Heap.ids (heap s') -> reach s' w c -> False.
  Proof.
    intros Himm Hw Hr. destruct (sq_case _ _ _ _ P) as [C|R]; [pose proof (cp_imm _ _ _ _ C); congruence|].
    destruct (rq_imm _ _ _ _ R c Himm) as [Hcn Hcan].
    assert (Hcm : c ∈ children (nd s m)).
    { destruct (proj1 (rq_mem _ _ _ _ R c) (or_intror Himm)) as [Hq|[Hc _]]; [|exact Hc].
      exfalso. apply Hcn, Hmono, Hq. }
    apply (sf_reach _ _ F) in Hr.
    unfold canRecomputeImmediately in Hcan.
    destruct (isAlways (nkind (nd s' c)) || requiresHeapOrdering (nkind (nd s' c))
              || (height (nd s' m) <=? scopeHeight s' (scope (nd s' c)))); [discriminate|].
    destruct (negb (scopeHeight s' (scope (nd s' c)) =? unset) &&
              match Heap.minHeight (heap s') with
              | Some m0 => m0 <=? scopeHeight s' (scope (nd s' c))
              | None => false
              end); [discriminate|].
    destruct (bool_decide (length (parents (nd s' c)) = 1%nat)) eqn:E1.
    - apply bool_decide_eq_true in E1. rewrite (sf_parents _ _ F) in E1.
      assert (Hpar : m ∈ parents (nd s c)) by (apply (st_edge _ HS); exact Hcm).
      destruct (parents (nd s c)) as [|p [|]] eqn:Ep; try discriminate E1.
      apply elem_of_list_singleton in Hpar as <-.
      destruct (reach_last s _ _ Hr) as [->|(x & Hwx & Hxc)]; [contradiction|].
      apply (st_edge _ HS) in Hxc. rewrite Ep in Hxc. apply elem_of_list_singleton in Hxc as ->.
      assert (Hd : isDone s' m = false).
      { apply (S_B w m); [apply inW_iff; [exact I'|left; exact Hw]|apply (sf_reach _ _ F); exact Hwx]. }
      apply done'_false in Hd. tauto.
    - destruct (Heap.minHeight (heap s')) as [mh|] eqn:Emh.
      + apply Z.leb_le in Hcan. rewrite (sf_height _ _ F) in Hcan.
        pose proof (heap_cursor_sound _ _ I' Emh w Hw) as Hle. rewrite (Hhin w Hw) in Hle.
        destruct (reach_height s HS _ _ Hr) as [->|Hlt]; [contradiction|lia].
      + unfold Heap.minHeight in Emh. destruct (Z.eqb_spec (Heap.cnt (heap s')) 0) as [E0|]; [|discriminate].
        rewrite (cnt_zero_ids _ I') in Hw by lia. inv Hw.
  Qed.

  Local Lemma owedC_child x : x ∈ children (nd s m) -> isDone s' x = false ->
    isStale s' x = true -> owedC s' x = true.
  Proof.
    intros Hc Hd Hs. destruct (child_of_m x Hc) as (_ & _ & Hg).
    unfold owedC. rewrite (sf_isNecessary _ _ F), <- (st_nec _ HS), Hg, (sf_valid _ _ F), (bb_valid _ HBF x Hg). simpl.
    destruct (negb (hasStaler (nkind (nd s' x))) && (recomputedAt (nd s' x) <? stabNum s')); [reflexivity|exact Hs].
  Qed.

  Local Lemma S_owed n : inGraph (nd s' n) = true -> isDone s' n = false -> isStale s' n = true ->
    inW s' imm n = true.
  Proof.
    intros Hg Hd Hs. rewrite (sf_inGraph _ _ F) in Hg. pose proof Hd as Hd'. apply done'_false in Hd as [Hd Hne].
    assert (Hold : isStale s n = true -> inW s' imm n = true).
    { intros Hs0. apply inW_keep; [|exact Hne]. apply (lc_owed _ _ L); assumption. }
    assert (Hsame : (forall p, p ∈ parents (nd s n) -> changedAt (nd s' p) = changedAt (nd s p)) ->
                    inW s' imm n = true).
    { intros Hp. apply Hold. rewrite <- (isStale_same s s' n (Hnd_ne n Hne) Hk' Hp). exact Hs. }
    destruct (sq_case _ _ _ _ P) as [C|R].
    - apply Hsame. intros p _. destruct (decide (p = m)) as [->|Hp]; [apply C|rewrite (Hnd_ne p Hp); reflexivity].
    - destruct (decide (m ∈ parents (nd s n))) as [Hin|Hnin].
      + assert (Hc : n ∈ children (nd s m)) by (apply (st_edge _ HS); exact Hin).
        apply inW_iff; [exact I'|]. apply (rq_mem _ _ _ _ R). right. split; [exact Hc|].
        apply owedC_child; assumption.
      + apply Hsame. intros p Hp. assert (p <> m) by congruence. rewrite (Hnd_ne p); auto.
  Qed.

  Local Lemma S_clean n : inGraph (nd s' n) = true -> inW s' imm n = false ->
    guarded s' imm n = true -> clean_ok s' n = true.
  Proof.
    intros Hg HnW Hgd. rewrite (sf_inGraph _ _ F) in Hg.
    destruct (decide (n = m)) as [->|Hne].
    - (* the node that just ran *)
      rewrite clean_ok_notlhs by (rewrite (sf_nkind _ _ F); exact Hnl).
      rewrite (consistent_valB_ext s s' m _ HBF (sf_binds _ _ F) (proj1 (Hkd m)) (proj2 (Hkd m)) Hval_decl_m).
      destruct (sq_case _ _ _ _ P) as [C|R]; [|apply R].
      rewrite (cp_value _ _ _ _ C). destruct (cp_kind _ _ _ _ C) as (c0 & K & Hcut & _).
      pose proof (bb_arity s HBF m) as Har. unfold arity_ok in Har. rewrite K in Har.
      apply bool_decide_eq_true in Har.
      pose proof (bb_cutalways s HBF m) as Hz. unfold cutalways_zero in Hz. rewrite K in Hz.
      unfold consistent_valB. rewrite K. destruct (decl (nd s m)) as [|a [|]]; try discriminate Har.
      cbn [hd] in Hcut. destruct c0; simpl in Hcut; try reflexivity; try assumption; discriminate.
    - (* another node *)
      assert (Hgd_p : forall p, p ∈ parents (nd s n) ->
                 changedAt (nd s' p) <= recomputedAt (nd s n) /\ volq s' imm p = false).
      { intros p Hp. unfold guarded in Hgd. rewrite (sf_parents _ _ F) in Hgd.
        pose proof (forallb_elem _ _ _ Hgd Hp) as H. cbv beta in H.
        apply andb_true_iff in H as [H1 H2]. apply Z.leb_le in H1. apply negb_true_iff in H2.
        rewrite (Hnd_ne n Hne) in H1. auto. }
      (* (1) if [m] is an input of [n], [m] was cut off *)
      assert (Hcutm : m ∈ parents (nd s n) -> cutPost s m s' imm).
      { intros Hin. destruct (sq_case _ _ _ _ P) as [C|R]; [exact C|exfalso].
        destruct (Hgd_p m Hin) as [H1 _]. rewrite (rq_changed _ _ _ _ R) in H1. fold k in H1.
        assert (Hdn : isDone s n = false).
        { apply (lc_B _ _ L m n HmW). apply rtc_once. apply (st_edge _ HS). exact Hin. }
        unfold isDone in Hdn. apply Z.eqb_neq in Hdn. pose proof (Hst n). fold k in Hdn. lia. }
      assert (Hm_kind : m ∈ parents (nd s n) -> exists c0, nkind (nd s m) = KCutoff c0).
      { intros Hin. destruct (cp_kind _ _ _ _ (Hcutm Hin)) as (c0 & K & _). eauto. }
      (* (2) [n] was guarded before the step *)
      assert (Hgd0 : guarded s (Some m) n = true).
      { unfold guarded. apply forallb_intro. intros p Hp. destruct (Hgd_p p Hp) as [H1 H2].
        apply andb_true_iff. split.
        - apply Z.leb_le. destruct (decide (p = m)) as [->|Hpm].
          + rewrite <- (cp_changed _ _ _ _ (Hcutm Hp)). exact H1.
          + rewrite <- (Hnd_ne p Hpm). exact H1.
        - apply negb_true_iff. unfold volq in *. rewrite (sf_nkind _ _ F) in H2.
          destruct (nkind (nd s p)) eqn:Kp; try reflexivity.
          + (* a var *)
            assert (Hpm : p <> m) by (intros ->; destruct (Hm_kind Hp) as [c0 K]; congruence).
            destruct (inW s (Some m) p) eqn:Ew; [|reflexivity].
            rewrite (inW_keep p Ew Hpm) in H2. discriminate.
          + (* an always node *)
            assert (Hpm : p <> m) by (intros ->; destruct (Hm_kind Hp) as [c0 K]; congruence).
            rewrite (Hnd_ne p Hpm), Hk' in H2. exact H2. }
      (* (3) [n] was not owed before the step *)
      assert (HnW0 : inW s (Some m) n = false).
      { destruct (inW s (Some m) n) eqn:Ew; [|reflexivity]. rewrite (inW_keep n Ew Hne) in HnW. discriminate. }
      pose proof (lc_clean _ _ L n Hg HnW0 Hgd0) as Hc.
      rewrite (clean_ok_ext s s' n HBF (sf_binds _ _ F) (sf_next _ _ F)); [exact Hc| | | | |].
      { intros x. split; [apply (sf_nkind _ _ F)|]. split; [apply (sf_decl _ _ F)|apply (sf_scope _ _ F)]. }
      { apply (sf_inGraph _ _ F). }
      { intros x Kr. destruct (decide (x = m)) as [->|Hxm]; [|apply Hvalue_ne, Hxm].
        destruct (sq_case _ _ _ _ P) as [C|R]; [apply C|apply (rq_ret _ _ _ _ R Kr)]. }
      { rewrite (Hnd_ne n Hne). reflexivity. }
      intros p Hp. destruct (sq_case _ _ _ _ P) as [C|R]; [apply Hval_cut, C|].
      assert (Hpar : p ∈ parents (nd s n)) by (apply (st_par _ HS); assumption).
      assert (Hpm : p <> m).
      { intros ->. destruct (cp_kind _ _ _ _ (Hcutm Hpar)) as (c0 & K & _).
        pose proof (cp_imm _ _ _ _ (Hcutm Hpar)). pose proof (cp_changed _ _ _ _ (Hcutm Hpar)) as Hcc.
        rewrite (rq_changed _ _ _ _ R) in Hcc. pose proof (Hst m). pose proof Hm_lt. fold k in Hcc. lia. }
      apply Hval.
      + apply (edge_reg s HS p n). apply (parent_edge s HS). exact Hpar.
      + exact Hpm.
      + intros [Ka Hr]. destruct (Hgd_p p Hpar) as [_ H2]. unfold volq in H2.
        rewrite (sf_nkind _ _ F), Ka in H2. apply Z.ltb_ge in H2.
        assert (Hdp : isDone s' p = true).
        { apply isDone_iff. pose proof (stamps_node_false _ _ (S_stamps p)). lia. }
        apply done'_iff in Hdp as [Hdp|?]; [|contradiction].
        pose proof (lc_B _ _ L m p HmW Hr). congruence.
  Qed.

  Local Lemma S_unreg n : inGraph (nd s' n) = false -> valid (nd s' n) = true ->
    recomputedAt (nd s' n) = 0 /\ changedAt (nd s' n) = 0.
  Proof.
    rewrite (sf_inGraph _ _ F), (sf_valid _ _ F). intros Hg Hv.
    assert (Hne : n <> m) by (intros ->; rewrite Hmreg in Hg; discriminate).
    rewrite (Hnd_ne n Hne). apply (lc_unreg _ _ L n Hg Hv).
  Qed.

  Lemma step_LInvC : LInvC s' imm.
  Proof.
    constructor.
    - exact (bb_shape _ S_bf).
    - exact S_stamps.
    - exact S_B.
    - exact S_M.
    - exact S_owed.
    - exact S_clean.
    - exact S_unreg.
    - rewrite (sf_setDuring _ _ F), (sf_setRemoved _ _ F). apply (lc_quiet _ _ L).
  Qed.

  Lemma step_BFB : BFB s'. Proof. exact S_bf. Qed.
  Lemma step_heap : HeapSpec.inv (heap s') /\
    forall q, q ∈ Heap.ids (heap s') -> inGraph (nd s' q) = true /\ Heap.hinOf (heap s') q = height (nd s' q).
  Proof. exact S_heap. Qed.
End StepC.

(** * Structure from [PInv] *)
Lemma PInv_Struct s : PInv s -> Struct s.
Proof.
  intros P. pose proof (p_t _ P) as T. constructor.
  - intros a b. rewrite <- !count_pos_iff. rewrite (t_edges _ _ _ T b a). reflexivity.
  - intros n Hg. destruct (t_zero _ _ _ T n Hg) as (H1 & H2 & _). auto.
  - intros n. apply (t_nec _ _ _ T n); [apply not_elem_of_nil|intros []].
  - intros n p Hg. rewrite (t_par _ _ _ T n (not_elem_of_nil _) Hg). reflexivity.
  - intros n p Hg Hp. apply (t_height _ _ _ T n Hg). exact Hp.
  - intros n Hg. apply (t_height _ _ _ T n Hg).
Qed.

Lemma PInv_BFB s : PInv s -> Shape s -> BFB s.
Proof.
  intros P HSh. constructor.
  - intros n Hn. apply (io_lt _ (p_ids _ P)). exact Hn.
  - exact HSh.
  - apply (t_valid _ _ _ (p_t _ P)).
  - intros b. unfold bd. destruct (binds s !! b) as [r|] eqn:E; [|reflexivity].
    apply (bw_memo _ _ _ (p_binds _ P b r E)).
  - intros n b K. assert (Hn : has s n) by (apply kind_has; rewrite K; discriminate).
    pose proof (p_kinds _ P n Hn) as Hk. rewrite K in Hk. destruct Hk as [-> [r E]].
    pose proof (p_binds _ P b r E) as W. split; [reflexivity|]. split; [apply W|].
    rewrite (bw_decl_main _ _ _ W). unfold bd. rewrite E. simpl. destruct (b_rhs r); reflexivity.
  - intros n b K. assert (Hn : has s n) by (apply kind_has; rewrite K; discriminate).
    pose proof (p_kinds _ P n Hn) as Hk. rewrite K in Hk. destruct Hk as [-> [r E]].
    pose proof (p_binds _ P b r E) as W. split; [reflexivity|].
    rewrite (bw_decl_lhs _ _ _ W). unfold bd. rewrite E. reflexivity.
Qed.

Lemma PInv_heap s : PInv s ->
  HeapSpec.inv (heap s) /\
  forall q, q ∈ Heap.ids (heap s) -> inGraph (nd s q) = true /\ Heap.hinOf (heap s) q = height (nd s q).
Proof. intros P. destruct (t_heap _ _ _ (p_t _ P)) as [Hi Hq]. split; [apply hinv_inv, Hi|exact Hq]. Qed.

(** * The chain and the loop *)
Definition PT : state -> Prop := fun _ => True.
Lemma PT_struct s s' : same_struct s s' -> PT s -> PT s'.
Proof. intros _ _. exact Logic.I. Qed.

(** the one missing step: the recompute of a lhs-change node (the bind function runs, the bind
    swaps its right-hand side) preserves the value clauses; the structural invariant [PInv] after
    it is [EngineInvProofs.bind_spec_holds] *)
Definition bind_value_spec : Prop := forall fuel s b s' imm,
  PInv s -> LInvC s (Some b) -> inGraph (nd s b) = true -> nkind (nd s b) = KBindLhs b ->
  recomputeNodeSerial fuel [] s b = Ok (s', None, imm) -> PInv s' -> LInvC s' imm.

Lemma clean_ok_nodes s s' n :
  nodes s' = nodes s -> binds s' = binds s -> next s' = next s -> clean_ok s' n = clean_ok s n.
Proof.
  intros Hn Hb Hx. pose proof (nodes_eq_nd _ _ Hn) as Hnd. unfold clean_ok.
  rewrite (consistent_valB_nodes s s' n _ Hn Hb), !Hnd. f_equal.
  destruct (nkind (nd s n)); try reflexivity. rewrite (matchesOK_nodes s s' _ Hn Hb Hx), !Hnd. reflexivity.
Qed.

Lemma LInvC_heap_change s cur w cur' :
  LInvC s cur ->
  (forall x, inW (s <| heap := w |>) cur' x = inW s cur x) ->
  (forall m x, cur' = Some m -> x ∈ Heap.ids w -> reach s x m -> False) ->
  LInvC (s <| heap := w |>) cur'.
Proof.
  intros L HW HM. set (s2 := s <| heap := w |>) in *.
  assert (Hn : nodes s2 = nodes s) by reflexivity.
  assert (Hr : forall a b, reach s2 a b <-> reach s a b) by (apply sf_reach, sframe_set_heap).
  constructor.
  - exact (lc_shape _ _ L).
  - exact (lc_stamps _ _ L).
  - intros x n Hx Hxn. rewrite HW in Hx. apply (lc_B _ _ L x n Hx). apply Hr, Hxn.
  - intros m x Hc Hx Hxm. apply (HM m x Hc Hx). apply Hr, Hxm.
  - intros n Hg Hd Hs. rewrite HW. apply (lc_owed _ _ L n Hg Hd). exact Hs.
  - intros n Hg Hw Hgd. rewrite HW in Hw.
    rewrite (guarded_ext s s2 cur cur' n Hn eq_refl HW) in Hgd.
    rewrite (clean_ok_nodes s s2 n Hn eq_refl eq_refl).
    apply (lc_clean _ _ L n Hg Hw Hgd).
  - exact (lc_unreg _ _ L).
  - exact (lc_quiet _ _ L).
Qed.

Lemma pop_LInvC s n w :
  PInv s -> LInvC s None -> Heap.removeMin (heap s) = Some (n, w) ->
  LInvC (s <| heap := w |>) (Some n) /\ PInv (s <| heap := w |>) /\ inGraph (nd s n) = true.
Proof.
  intros P L Hrm. pose proof (PInv_Struct s P) as HS. destruct (PInv_heap s P) as [I Hq].
  destruct (heap_removeMin_spec _ _ _ I Hrm) as ([Hnin Hmin] & Iw & Hperm & Hhin).
  pose proof (inv_nodup _ I) as Hnd. rewrite Hperm in Hnd. apply NoDup_cons_1_1 in Hnd as Hnw.
  split; [|split; [|apply Hq, Hnin]].
  - apply (LInvC_heap_change s None w (Some n)); [exact L|..].
    + intros x. assert (Iw' : HeapSpec.inv (heap (s <| heap := w |>))) by exact Iw.
      apply eq_true_iff_eq. rewrite (inW_iff (s <| heap := w |>) (Some n) x Iw'), (inW_iff s None x I).
      change (heap (s <| heap := w |>)) with w. rewrite Hperm, elem_of_cons.
      split; [intros [?|[= ->]]; auto|intros [[->|?]|?]; auto; discriminate].
    + intros m x [= <-] Hx Hr.
      assert (Hxin : x ∈ Heap.ids (heap s)) by (rewrite Hperm; right; exact Hx).
      pose proof (Hmin x Hxin) as Hle.
      rewrite (proj2 (Hq n Hnin)), (proj2 (Hq x Hxin)) in Hle.
      destruct (reach_height s HS _ _ Hr) as [->|Hlt]; [contradiction|lia].
  - destruct (t_heap _ _ _ (p_t s P)) as [Hi Hqd].
    destruct (removeMin_spec (heap s) n w Hi Hrm) as (Hi' & Pm & Hin).
    apply (PInv_of_soft s); [exact P|].
    apply soft_only_heap; [apply only_heap_set|]. intros _ _. split; [exact Hi'|].
    intros m Hm. assert (Hm' : m ∈ Heap.ids (heap s)) by (rewrite Pm; right; exact Hm).
    destruct (Hqd m Hm') as [A B]. split; [exact A|]. cbn. rewrite Hin.
    pose proof (inv_nodup _ (hinv_inv _ Hi)) as Hnd'. rewrite Pm in Hnd'.
    apply stdpp.list.NoDup_cons in Hnd' as [Hnn _].
    rewrite decide_False by (intros ->; contradiction). exact B.
Qed.

Section Swap.
  Hypothesis HBV : bind_value_spec.

  Lemma rnsC fuel s m s' imm :
    PInv s -> LInvC s (Some m) -> inGraph (nd s m) = true ->
    recomputeNodeSerial fuel [] s m = Ok (s', None, imm) ->
    PInv s' /\ LInvC s' imm /\ stabNum s' = stabNum s /\ (forall c, imm = Some c -> inGraph (nd s' c) = true).
  Proof.
    intros P L Hg H.
    destruct (recomputeNodeSerial_spec PT PT_struct bind_spec_holds fuel [] s m s' None imm Logic.I P eq_refl Hg H)
      as [[Hr|Hr]|[(P' & _ & Hk & _) Himm]]; try discriminate.
    split; [exact P'|]. split; [|split; [exact Hk|exact Himm]].
    destruct (isLhs (nkind (nd s m))) eqn:El.
    - destruct (nkind (nd s m)) eqn:K; try discriminate El.
      pose proof (p_kinds _ P m (has_inGraph _ _ Hg)) as Hkk. rewrite K in Hkk. destruct Hkk as [-> _].
      apply (HBV fuel s b s' imm P L Hg K H P').
    - pose proof (PInv_BFB s P (lc_shape _ _ L)) as HB.
      destruct (rns_stepB fuel s m s' None imm HB (has_inGraph _ _ Hg) (proj1 (PInv_heap s P)) El H) as [_ PP].
      exact (step_LInvC s m s' imm (PInv_Struct s P) HB (PInv_heap s P) L Hg El PP).
  Qed.

  Lemma chainC fuel : forall s n s' at_,
    PInv s -> LInvC s (Some n) -> inGraph (nd s n) = true ->
    recomputeChain fuel [] s n = Ok (s', None, at_) ->
    PInv s' /\ LInvC s' None /\ stabNum s' = stabNum s.
  Proof.
    induction fuel as [|fuel IH]; intros s n s' at_ P L Hg H; [discriminate|].
    cbn [recomputeChain] in H.
    destruct (recomputeNodeSerial fuel [] s n) as [[[s1 e1] imm]| |] eqn:E1; simpl in H; try discriminate.
    destruct e1 as [e1|]; [destruct imm; injection H as _ ? _; discriminate|].
    destruct (rnsC fuel s n s1 imm P L Hg E1) as (P1 & L1 & Hk1 & Himm).
    destruct imm as [c|].
    - destruct (IH s1 c s' at_ P1 L1 (Himm c eq_refl) H) as (P' & L' & Hk'). split; [exact P'|]. split; [exact L'|congruence].
    - injection H as <- _. auto.
  Qed.

  Lemma loopC fuel : forall s always s' at_ always',
    PInv s -> LInvC s None ->
    passLoop fuel [] s always = Ok (s', None, at_, always') ->
    PInv s' /\ LInvC s' None /\ Heap.ids (heap s') = [] /\ stabNum s' = stabNum s.
  Proof.
    induction fuel as [|fuel IH]; intros s always s' at_ always' P L H; [discriminate|].
    cbn [passLoop] in H. destruct (PInv_heap s P) as [I _].
    destruct (Z.leb_spec (Heap.cnt (heap s)) 0) as [Hc|Hc].
    { injection H as <- _ _. split; [exact P|]. split; [exact L|]. split; [apply cnt_zero_ids; assumption|reflexivity]. }
    destruct (Heap.removeMin (heap s)) as [[n w]|] eqn:Erm; [|discriminate].
    set (s2 := s <| heap := w |>) in *.
    destruct (recomputeChain fuel [] s2 n) as [[[s3 e3] at3]| |] eqn:E3; simpl in H; try discriminate.
    destruct e3 as [e3|]; [injection H as _ ? _ _; discriminate|].
    destruct (pop_LInvC s n w P L Erm) as (L2 & P2 & Hgn). fold s2 in L2, P2.
    destruct (chainC fuel s2 n s3 at3 P2 L2 Hgn E3) as (P3 & L3 & Hk3).
    destruct (IH s3 _ s' at_ always' P3 L3 H) as (P' & L' & Hemp & Hk').
    split; [exact P'|]. split; [exact L'|]. split; [exact Hemp|]. rewrite Hk', Hk3. reflexivity.
  Qed.
End Swap.

(** * The end of the loop: nothing is owed, every registered node is clean *)
Section EndC.
  Context (sL : state) (PL : PInv sL) (LL : LInvC sL None) (Hemp : Heap.ids (heap sL) = []).
  Let k := stabNum sL.
  Let HSL : Struct sL := PInv_Struct sL PL.
  Let IL : HeapSpec.inv (heap sL) := proj1 (PInv_heap sL PL).
  Let HBFL : BFB sL := PInv_BFB sL PL (lc_shape _ _ LL).

  Local Lemma notW n : inW sL None n = false.
  Proof. apply inW_false_iff; [exact IL|]. rewrite Hemp. split; [apply not_elem_of_nil|discriminate]. Qed.

  Local Lemma stL n : 0 <= changedAt (nd sL n) <= k /\ 0 <= recomputedAt (nd sL n) <= k /\
                      (changedAt (nd sL n) = k -> recomputedAt (nd sL n) = k).
  Proof. apply stamps_node_false, (lc_stamps _ _ LL). Qed.

  (* with nothing owed, a registered node that has not run is not stale *)
  Local Lemma not_stale n : inGraph (nd sL n) = true -> isDone sL n = false -> isStale sL n = false.
  Proof.
    intros Hg Hd. destruct (isStale sL n) eqn:Es; [|reflexivity].
    pose proof (lc_owed _ _ LL n Hg Hd Es) as Hw. rewrite notW in Hw. discriminate.
  Qed.

  Local Lemma always_done n : inGraph (nd sL n) = true -> nkind (nd sL n) = KAlways -> isDone sL n = true.
  Proof.
    intros Hg Hk. destruct (isDone sL n) eqn:Ed; [reflexivity|].
    pose proof (not_stale n Hg Ed) as Hs. unfold isStale in Hs. rewrite (bb_valid _ HBFL n Hg), Hk in Hs. discriminate.
  Qed.

  Local Lemma no_parents n : inGraph (nd sL n) = true ->
    (exists e, nkind (nd sL n) = KVar e) \/ nkind (nd sL n) = KReturn -> parents (nd sL n) = [].
  Proof.
    intros Hg Hk. pose proof (bb_arity sL HBFL n) as Ha. unfold arity_ok in Ha.
    assert (Hd : decl (nd sL n) = []).
    { destruct Hk as [[e Hk]|Hk]; rewrite Hk in Ha; apply bool_decide_eq_true in Ha; exact Ha. }
    destruct (parents (nd sL n)) as [|p l] eqn:Ep; [reflexivity|].
    assert (p ∈ decl (nd sL n)) as Hin by (apply (st_par _ HSL n p Hg); rewrite Ep; left).
    rewrite Hd in Hin. inv Hin.
  Qed.

  Local Lemma fresh n p : inGraph (nd sL n) = true -> p ∈ parents (nd sL n) ->
    changedAt (nd sL p) <= recomputedAt (nd sL n).
  Proof.
    intros Hg Hp. destruct (isDone sL n) eqn:Ed.
    - apply isDone_iff in Ed. rewrite Ed. pose proof (stL p). lia.
    - pose proof (not_stale n Hg Ed) as Hs. unfold isStale in Hs. rewrite (bb_valid _ HBFL n Hg) in Hs. simpl in Hs.
      assert (Hnp : parents (nd sL n) = [] -> changedAt (nd sL p) <= recomputedAt (nd sL n)).
      { intros En. rewrite En in Hp. inv Hp. }
      assert (Hsw : staleWrtParents sL (nd sL n) = false -> changedAt (nd sL p) <= recomputedAt (nd sL n)).
      { intros Hf. unfold staleWrtParents in Hf.
        destruct (Z.gtb_spec (changedAt (nd sL p)) (recomputedAt (nd sL n))) as [Hgt|]; [|lia].
        assert (existsb (fun p => changedAt (nd sL p) >? recomputedAt (nd sL n)) (parents (nd sL n)) = true) as Ht.
        { apply existsb_elem. exists p. split; [exact Hp|]. apply Z.gtb_lt. lia. }
        congruence. }
      destruct (nkind (nd sL n)) eqn:K; try discriminate Hs;
        try (apply orb_false_iff in Hs as [_ Hs]; apply Hsw, Hs).
      + apply Hnp, no_parents; eauto.
      + apply Hnp, no_parents; eauto.
  Qed.

  Local Lemma all_guarded n : inGraph (nd sL n) = true -> guarded sL None n = true.
  Proof.
    intros Hg. unfold guarded. apply forallb_intro. intros p Hp. apply andb_true_iff. split.
    - apply Z.leb_le. apply fresh; assumption.
    - apply negb_true_iff. unfold volq. destruct (nkind (nd sL p)) eqn:K; try reflexivity.
      + apply notW.
      + assert (Hgp : inGraph (nd sL p) = true) by (apply (edge_reg sL HSL p n), (parent_edge sL HSL), Hp).
        pose proof (always_done p Hgp K) as Hd. apply isDone_iff in Hd. apply Z.ltb_ge. lia.
  Qed.

  Lemma endC_clean n : inGraph (nd sL n) = true -> clean_ok sL n = true.
  Proof. intros Hg. apply (lc_clean _ _ LL n Hg (notW n) (all_guarded n Hg)). Qed.

  Lemma endC_consistent_node n : inGraph (nd sL n) = true -> node_consistent sL n = true.
  Proof.
    intros Hg. rewrite (node_consistent_split sL n HBFL). pose proof (endC_clean n Hg) as Hc.
    unfold clean_ok in Hc. apply andb_true_iff in Hc as [Hv _]. apply andb_true_iff. split; [exact Hv|].
    destruct (nkind (nd sL n)) eqn:K; try reflexivity.
    destruct (bb_main _ HBFL n b K) as (-> & KL & Hd).
    assert (E1 : edge sL b (S b)) by (apply (decl_parent sL HSL _ _ Hg); rewrite Hd; left).
    destruct (edge_reg sL HSL _ _ E1) as [HgL _].
    pose proof (endC_clean b HgL) as HcL. unfold clean_ok in HcL. apply andb_true_iff in HcL as [_ HcL].
    rewrite KL, Hg, K in HcL. rewrite !bool_decide_eq_true_2 in HcL by reflexivity. exact HcL.
  Qed.

  Lemma endC_consistent s' :
    nodes s' = nodes sL -> binds s' = binds sL -> next s' = next sL -> consistent s' = true.
  Proof.
    intros Hn Hb Hx. pose proof (nodes_eq_nd _ _ Hn) as Hnd.
    pose proof (BFB_nodes sL s' Hn Hb Hx HBFL) as HB'.
    unfold consistent, registered. apply forallb_intro. intros n Hin. apply elem_of_list_filter in Hin as [Hg _].
    rewrite (bb_valid _ HB' n Hg). simpl. rewrite Hnd in Hg.
    pose proof (endC_consistent_node n Hg) as Hc. rewrite (node_consistent_split sL n HBFL) in Hc.
    rewrite (node_consistent_split s' n HB'), Hnd, (consistent_valB_nodes sL s' n _ Hn Hb).
    apply andb_true_iff in Hc as [H1 H2]. rewrite H1. simpl.
    destruct (nkind (nd sL n)); try reflexivity. rewrite (matchesOK_nodes sL s' _ Hn Hb Hx). exact H2.
  Qed.
End EndC.

(** * The whole pass *)
Lemma LInvC_start s : Inv s -> ValInvB s -> LInvC (passStart s) None.
Proof.
  intros IV V. pose proof (Inv_wfb s IV) as Hwf. destruct (wfb_queued _ Hwf) as [I Hq]. set (s1 := passStart s).
  assert (Hn : nodes s1 = nodes s) by reflexivity.
  assert (Hnd : forall n, isDone s1 n = false).
  { intros n. unfold isDone. apply Z.eqb_neq. pose proof (stamps_node_true _ _ (vb_stamps _ V n)).
    change (recomputedAt (nd s n) <> stabNum s). lia. }
  assert (HW : forall n, inW s1 None n = inHeap s n) by (intros n; unfold inW; rewrite orb_false_r; reflexivity).
  constructor.
  - exact (vb_shape _ V).
  - intros n. pose proof (stamps_node_true _ _ (vb_stamps _ V n)) as Hs. unfold stamps_node.
    change (nd s1 n) with (nd s n). change (stabNum s1) with (stabNum s).
    rewrite !andb_true_iff, !Z.leb_le. lia.
  - intros w n _ _. apply Hnd.
  - discriminate.
  - intros n Hg _ Hs. rewrite HW. apply (vb_owed _ V n Hg). rewrite <- Hs. symmetry. apply isStale_nodes. exact Hn.
  - intros n Hg Hw Hgd. rewrite HW in Hw. rewrite (clean_ok_nodes s s1 n Hn eq_refl eq_refl).
    change (nd s1 n) with (nd s n) in Hg.
    assert (Hgd0 : guarded s None n = true) by exact Hgd.
    unfold clean_ok. apply andb_true_iff. split; [apply (vb_clean _ V n Hg Hw Hgd0)|].
    destruct (nkind (nd s n)) eqn:K; try reflexivity.
    destruct (decide (n = b)) as [->|Hne]; [|rewrite (bool_decide_eq_false_2 _ Hne); reflexivity].
    destruct (inGraph (nd s (S b))) eqn:Hgm; [|rewrite !orb_true_r; reflexivity].
    destruct (decide (nkind (nd s (S b)) = KBindMain b)) as [Km|Km];
      [|rewrite (bool_decide_eq_false_2 _ Km); rewrite !orb_true_r; reflexivity].
    rewrite (vb_match _ V b Hgm Km Hw Hgd0). apply orb_true_r.
  - exact (vb_unreg _ V).
  - split; [apply (q_setDuring _ (inv_quiet _ IV))|apply (q_setRemoved _ (inv_quiet _ IV))].
Qed.

(** C01 for every serial pass without a plan on a graph with binds (binds may swap, nested binds
    included), given the step [bind_value_spec] *)
Theorem passC_consistent :
  bind_value_spec -> forall s s',
  Inv s -> ValInvB s -> stabilize [] false s = Ok (s', None) ->
  consistent s' = true /\ Inv s' /\ wfb s' = true /\ Shape s'.
Proof.
  intros HBV s s' IV V H. pose proof (Inv_wfb s IV) as Hwf.
  destruct (wfb_transients _ Hwf) as (Hst & Hsd & Hsr & Hh).
  destruct (stabilize_nil_inv s s' Hst Hsd Hsr H) as (sL & at_ & always & sR & hev & EL & ER & Es & Hhev).
  fold (passStart s) in EL. set (s1 := passStart s) in *.
  pose proof (LInvC_start s IV V) as L1. fold s1 in L1.
  pose proof (Inv_PInv_start s IV) as P1. fold (passStart s) in P1. fold s1 in P1.
  destruct (loopC HBV _ s1 [] sL at_ always P1 L1 EL) as (PL & LL & Hemp & _).
  specialize (Es (proj1 (lc_quiet _ _ LL)) (proj2 (lc_quiet _ _ LL))).
  pose proof (requeue_only_heap _ _ _ ER) as OR.
  assert (Hn : nodes s' = nodes sL) by (rewrite Es; cbn; apply (oh_nodes _ _ OR)).
  assert (Hb : binds s' = binds sL) by (rewrite Es; cbn; apply (oh_binds _ _ OR)).
  assert (Hx : next s' = next sL) by (rewrite Es; cbn; apply (oh_next _ _ OR)).
  split; [exact (endC_consistent sL PL LL Hemp s' Hn Hb Hx)|].
  destruct (passB_Inv s s' IV H) as [I' Hwf']. split; [exact I'|]. split; [exact Hwf'|].
  intros n x E. rewrite Hn in E. exact (lc_shape _ _ LL n x E).
Qed.

From incr Require Import SpecProofs.

Theorem passC_observers_agree :
  bind_value_spec -> forall s s',
  Inv s -> ValInvB s -> stabilize [] false s = Ok (s', None) -> templates_ok s' = true ->
  consistent s' = true /\ observers_agree s' = true /\ Inv s' /\ wfb s' = true.
Proof.
  intros HBV s s' IV V H Ht. destruct (passC_consistent HBV s s' IV V H) as (Hc & I' & Hwf' & HSh).
  split; [exact Hc|]. split; [|auto].
  exact (C01_observers_agree_proof s' Hwf' (Inv_closed s' I' HSh) Ht Hc).
Qed.

Lemma rnsC_nonlhs fuel s m s' imm :
  PInv s -> LInvC s (Some m) -> inGraph (nd s m) = true -> isLhs (nkind (nd s m)) = false ->
  recomputeNodeSerial fuel [] s m = Ok (s', None, imm) ->
  PInv s' /\ LInvC s' imm.
Proof.
  intros P L Hg Hl H.
  destruct (recomputeNodeSerial_spec PT PT_struct bind_spec_holds fuel [] s m s' None imm Logic.I P eq_refl Hg H)
    as [[Hr|Hr]|[(P' & _) _]]; try discriminate.
  split; [exact P'|].
  pose proof (PInv_BFB s P (lc_shape _ _ L)) as HB.
  destruct (rns_stepB fuel s m s' None imm HB (has_inGraph _ _ Hg) (proj1 (PInv_heap s P)) Hl H) as [_ PP].
  exact (step_LInvC s m s' imm (PInv_Struct s P) HB (PInv_heap s P) L Hg Hl PP).
Qed.

(** * An example: the first pass of [exB_ops] runs the bind function (the bind gets its first
    right-hand side); the checker of [LInvC] finds no failing clause at any step of that pass *)
Definition exS_pre : state := match run_clean (init 64) (take 5 exB_ops) with Some s => s | None => init 0 end.
Lemma exS_codes : pass_codesC exS_pre = [] /\
  match stabilize [] false exS_pre with
  | Ok (s', None) => consistent s' && bool_decide (EvBindFn 2 2 (Some 6%nat) ∈ log s')
  | _ => false
  end = true.
Proof. split; vm_compute; reflexivity. Qed.
