(** C13 for serial passes without a plan in which binds MAY swap: which update handlers run.

    The handler set mid-pass ([PassPlanProofs.HInv]): the registered nodes stamped as changed in this
    pass ([changedAt] = the pass number), and their observers.  A swapping bind that drops a node
    withdraws its queued handler ([zeroNode]) and resets its stamps, so the characterization by
    stamps survives swaps; what does NOT survive is its reading as "the nodes whose value changed":
    a node that changed, was dropped, was linked again later in the pass and whose second
    recompute was cut off ends registered, with a new value, and without its handler
    ([C13_binds_swap_refuted], the K06 history). *)
From incr Require Import Base Heap HeapSpec HeapProofs EngineDefs Engine EngineRun EngineWf Spec EngineLemmas EngineLocal
     EngineInv EngineInvProofs PassInv PassProofs PassPlanProofs PassPlanProofs2 PassBind PassBindProofs PassBindSwap
     PassBindSwapProofs PassBindSwapStep PassBindOps PassBindSwapLog.

Local Arguments valueOf : simpl never.

(** * one recompute of a node that is not a lhs-change node *)
Lemma rns_handlersB fuel s m s' imm :
  has s m -> isLhs (nkind (nd s m)) = false -> recomputeNodeSerial fuel [] s m = Ok (s', None, imm) ->
  (handlers s' = handlers s /\ changedAt (nd s' m) = changedAt (nd s m)) \/
  (changedAt (nd s' m) = stabNum s /\
   forall k, k ∈ handlers s' <-> k ∈ handlers s \/ k = m \/ k ∈ observers (nd s m)).
Proof.
  intros Hm Hnl H. rewrite recomputeNodeSerial_unfold in H. cbv zeta in H.
  set (s0 := upd s m (set recomputedAt (fun _ => stabNum s))) in *.
  assert (Hnd0 : nd s0 m = nd s m <| recomputedAt := stabNum s |>) by (apply nd_upd_eq; exact Hm).
  apply rbind_ok in H as ([[s1 e1] cut] & H1 & H).
  pose proof (pf_maybeCutoff _ _ _ _ _ _ _ H1) as (_ & K1 & _ & _ & _ & Hs1 & _).
  apply maybeCutoff_spec in H1 as (V1 & _ & Hh1 & Hrest).
  assert (He1 : e1 = None).
  { destruct (nkind (nd s m)); destruct Hrest as (-> & _); reflexivity. }
  subst e1.
  destruct (vps_fields _ _ (V1 m)) as (Ek1 & _ & _ & _ & _ & _ & Ec1 & _ & _ & Eo1 & _).
  destruct cut.
  - injection H as <- <-. left. split; [exact Hh1|]. rewrite Ec1, Hnd0. reflexivity.
  - apply rbind_ok in H as ([s2 e2] & H2 & H).
    pose proof (pf_stabilizeNode _ _ _ _ _ _ H2) as (_ & K2 & _ & _ & _ & Hs2 & _).
    apply stabilizeNode_shallow in H2 as (V2 & _ & Hh2 & He2).
    2:{ intros b Hb. rewrite Ek1, Hnd0 in Hb. cbn in Hb. rewrite Hb in Hnl. discriminate. }
    assert (e2 = None) as ->.
    { rewrite He2. destruct (nkind (nd s1 m)); reflexivity. }
    destruct (vps_fields _ _ (V2 m)) as (_ & _ & _ & _ & _ & _ & _ & _ & _ & Eo2 & _).
    right. pose proof (successTail_shape _ _ _ _ _ H) as (_ & (w & h & Es')).
    destruct (C13_changed_node_is_queued_for_handler _ _ _ _ _ H) as (A1 & A2 & A3 & A4).
    assert (Hm2 : has s2 m) by (apply Hs2, Hs1, has_upd, Hm).
    split.
    + rewrite Es'. change (changedAt (nd (upd s2 m (set changedAt (fun _ => stabNum s2))) m) = stabNum s).
      rewrite nd_upd_eq by exact Hm2. cbn. rewrite K2, K1. reflexivity.
    + intros k. rewrite Eo2, Eo1, Hnd0 in A4. rewrite Hh2, Hh1 in A3, A4. split.
      * intros Hk. apply A4 in Hk. exact Hk.
      * intros [Hk|[->|Hk]]; [apply A3, Hk|exact A1|]. apply A2.
        rewrite Es'. change (k ∈ observers (nd (upd s2 m (set changedAt (fun _ => stabNum s2))) m)).
        rewrite (nd_upd_proj observers) by reflexivity. rewrite Eo2, Eo1, Hnd0. exact Hk.
Qed.

Lemma step_HInvB fuel s m s' imm :
  PInv s -> LInvC s (Some m) -> inGraph (nd s m) = true -> isLhs (nkind (nd s m)) = false -> HInv s ->
  recomputeNodeSerial fuel [] s m = Ok (s', None, imm) -> HInv s'.
Proof.
  intros P L Hg Hnl HI E.
  pose proof (PInv_BFB s P (lc_shape _ _ L)) as HB. destruct (PInv_heap s P) as [I _].
  destruct (rns_stepB fuel s m s' None imm HB (has_inGraph _ _ Hg) I Hnl E) as [_ PP].
  pose proof (stepPostB_sframe _ _ _ _ PP) as F.
  assert (Hother : forall n, n <> m -> changedAt (nd s' n) = changedAt (nd s n)).
  { intros n Hn. rewrite (sq_other _ _ _ _ PP n Hn). reflexivity. }
  assert (Hk : stabNum s' = stabNum s) by apply (sf_stabNum _ _ F).
  destruct (rns_handlersB fuel s m s' imm (has_inGraph _ _ Hg) Hnl E) as [[Hh Hc]|[Hc Hh]].
  - assert (Hall : forall n, changedAt (nd s' n) = changedAt (nd s n)).
    { intros n. destruct (decide (n = m)) as [->|Hn]; [exact Hc|apply Hother, Hn]. }
    intros k. rewrite Hh, (HI k), Hk, (sf_inGraph _ _ F), Hall. apply or_iff_compat_l.
    split; intros (n & H1 & H2 & H3); exists n.
    + rewrite (sf_inGraph _ _ F), (sf_observers _ _ F), Hall. auto.
    + rewrite (sf_inGraph _ _ F), (sf_observers _ _ F), Hall in *. auto.
  - intros k. rewrite (Hh k), (HI k), Hk. split.
    + intros [[[H1 H2]|(n & H1 & H2 & H3)]|[->|Hko]].
      * left. rewrite (sf_inGraph _ _ F). split; [exact H1|].
        destruct (decide (k = m)) as [->|Hn]; [exact Hc|rewrite (Hother k Hn); exact H2].
      * right. exists n. rewrite (sf_inGraph _ _ F), (sf_observers _ _ F). split; [exact H1|]. split; [exact H2|].
        destruct (decide (n = m)) as [->|Hn]; [exact Hc|rewrite (Hother n Hn); exact H3].
      * left. rewrite (sf_inGraph _ _ F). auto.
      * right. exists m. rewrite (sf_inGraph _ _ F), (sf_observers _ _ F). auto.
    + intros [[H1 H2]|(n & H1 & H2 & H3)].
      * destruct (decide (k = m)) as [->|Hn]; [auto|]. left. left.
        rewrite (sf_inGraph _ _ F) in H1. rewrite (Hother k Hn) in H2. auto.
      * rewrite (sf_inGraph _ _ F), (sf_observers _ _ F) in *.
        destruct (decide (n = m)) as [->|Hn]; [auto|]. left. right. exists n. rewrite (Hother n Hn) in H3. auto.
Qed.

(** * the recompute of a lhs-change node *)
Lemma bind_HInv s b s' :
  PInv s -> PInv s' -> LInvC s (Some b) -> bfr s b s' -> obs s' = obs s -> HInv s -> HInv s'.
Proof.
  intros P P' L F Hobs HI. set (K := stabNum s).
  assert (HK : stabNum s' = K) by apply (bx_k _ _ _ F).
  assert (Hkpos : 1 <= K) by apply (st_num s (p_stamps s P)).
  assert (HWb : inW s (Some b) b = true).
  { unfold inW. rewrite (bool_decide_eq_true_2 _ eq_refl). apply orb_true_r. }
  assert (Hb_nd : isDone s b = false) by (apply (lc_B _ _ L b b HWb), rtc_refl).
  pose proof (t_obs _ _ _ (p_t _ P)) as HO. pose proof (t_obs _ _ _ (p_t _ P')) as HO'.
  assert (Hobsl : forall n k, k ∈ observers (nd s' n) <-> k ∈ observers (nd s n)).
  { intros n k. rewrite (ob_iff _ HO' n k), (ob_iff _ HO n k), Hobs. reflexivity. }
  (* a registered node stamped as changed (other than [b]) was so before, and conversely *)
  assert (Hst : forall n, 0 <= changedAt (nd s n) <= K /\ 0 <= recomputedAt (nd s n) <= K /\
                         (changedAt (nd s n) = K -> recomputedAt (nd s n) = K)).
  { intros n. apply stamps_node_false, (lc_stamps _ _ L). }
  assert (Hnb : forall n, changedAt (nd s n) = K -> n <> b).
  { intros n Hc ->. destruct (Hst b) as (_ & _ & H3). unfold isDone in Hb_nd. apply Z.eqb_neq in Hb_nd. apply Hb_nd, H3, Hc. }
  assert (Hfwd : forall n, n <> b -> inGraph (nd s' n) = true ->
            changedAt (nd s' n) = changedAt (nd s n) /\ (changedAt (nd s' n) = K -> inGraph (nd s n) = true)).
  { intros n Hne Hg'. destruct (bx_stamps _ _ _ F n Hne) as [(_ & E2 & _)|[(E1 & _)|(E1 & _)]]; [|congruence|].
    - split; [exact E2|]. intros Hc. destruct (inGraph (nd s n)) eqn:Eg; [reflexivity|exfalso].
      destruct (lc_unreg _ _ L n Eg (bx_regvalid _ _ _ F n Hg')) as [_ H0]. rewrite E2, H0 in Hc. lia.
    - rewrite (t_valid _ _ _ (p_t _ P') n Hg') in E1. discriminate. }
  assert (Hkeepreg : forall n, inGraph (nd s n) = true -> observers (nd s n) <> [] -> inGraph (nd s' n) = true).
  { intros n Hg Ho. rewrite (st_nec _ (PInv_Struct s' P') n). unfold isNecessary.
    destruct (observers (nd s' n)) as [|o l] eqn:Eo.
    - exfalso. destruct (observers (nd s n)) as [|o l] eqn:Eo2; [congruence|].
      assert (Hin : o ∈ observers (nd s' n)) by (apply Hobsl; rewrite Eo2; left). rewrite Eo in Hin. inversion Hin.
    - rewrite (bool_decide_eq_false_2 (o :: l = [])) by discriminate. rewrite orb_true_r. reflexivity. }
  intros k. rewrite HK. split.
  - intros Hk. destruct (bx_h1 _ _ _ F k Hk) as [->|[Ho|[Hks Hr]]].
    + left. destruct (bx_self _ _ _ F) as [_ Hg]. split; [exact Hg|apply (bx_changed _ _ _ F)].
    + right. exists b. destruct (bx_self _ _ _ F) as [_ Hg]. split; [exact Hg|]. split; [exact Ho|apply (bx_changed _ _ _ F)].
    + apply (HI k) in Hks as [[Hg Hc]|(n & Hg & Ho & Hc)].
      * left. pose proof (Hr Hg) as Hg'. split; [exact Hg'|]. fold K in Hc.
        destruct (Hfwd k (Hnb k Hc) Hg') as [E _]. congruence.
      * right. exists n. fold K in Hc.
        assert (Hg' : inGraph (nd s' n) = true).
        { apply (Hkeepreg n Hg). intros E. rewrite E in Ho. inversion Ho. }
        split; [exact Hg'|]. split; [apply Hobsl, Ho|]. destruct (Hfwd n (Hnb n Hc) Hg') as [E _]. congruence.
  - intros [[Hg' Hc']|(n & Hg' & Ho' & Hc')].
    + destruct (decide (k = b)) as [Ekb|Hne]; [rewrite Ekb; apply (proj1 (bx_h3 _ _ _ F))|].
      destruct (Hfwd k Hne Hg') as [E Hreg]. pose proof (Hreg Hc') as Hg.
      apply (bx_h2 _ _ _ F k); [|left; auto]. apply (HI k). left. split; [exact Hg|]. fold K. congruence.
    + destruct (decide (n = b)) as [Enb|Hne]; [rewrite Enb in Ho'; apply (proj2 (bx_h3 _ _ _ F)), Ho'|].
      destruct (Hfwd n Hne Hg') as [E Hreg]. pose proof (Hreg Hc') as Hg.
      assert (Ho : k ∈ observers (nd s n)) by (apply Hobsl, Ho').
      apply (bx_h2 _ _ _ F k).
      * apply (HI k). right. exists n. split; [exact Hg|]. split; [exact Ho|]. fold K. congruence.
      * right. apply (ob_iff _ HO n k) in Ho. destruct (ob_ids _ HO k n Ho) as (H1 & H2 & _). auto.
Qed.

(** * the loop *)
Lemma rnsH fuel s m s' imm :
  Tplain s -> PInv s -> LInvC s (Some m) -> inGraph (nd s m) = true -> HInv s ->
  recomputeNodeSerial fuel [] s m = Ok (s', None, imm) -> HInv s'.
Proof.
  intros TP P L Hg HI H.
  destruct (recomputeNodeSerial_spec PT PT_struct bind_spec_holds fuel [] s m s' None imm Logic.I P eq_refl Hg H)
    as [[Hr|Hr]|[(P' & _ & Hk & _) Himm]]; try discriminate.
  destruct (isLhs (nkind (nd s m))) eqn:El.
  - destruct (nkind (nd s m)) eqn:K; try discriminate El.
    pose proof (p_kinds _ P m (has_inGraph _ _ Hg)) as Hkk. rewrite K in Hkk. destruct Hkk as [-> _].
    pose proof (bind_step_frame fuel s b s' imm TP P L Hg K H P') as BF.
    destruct (pf_recomputeNodeSerial _ _ _ _ _ _ _ H) as (Hobs & _).
    exact (bind_HInv s b s' P P' L BF Hobs HI).
  - exact (step_HInvB fuel s m s' imm P L Hg El HI H).
Qed.

Lemma chainH fuel : forall s n s' at_,
  Tplain s -> PInv s -> LInvC s (Some n) -> inGraph (nd s n) = true -> HInv s ->
  recomputeChain fuel [] s n = Ok (s', None, at_) -> HInv s'.
Proof.
  induction fuel as [|fuel IH]; intros s n s' at_ TP P L Hg HI H; [discriminate|].
  cbn [recomputeChain] in H.
  destruct (recomputeNodeSerial fuel [] s n) as [[[s1 e1] imm]| |] eqn:E1; simpl in H; try discriminate.
  destruct e1 as [e1|]; [destruct imm; injection H as _ ? _; discriminate|].
  destruct (rnsT fuel s n s1 imm TP P L Hg E1) as (TP1 & P1 & L1 & Hk1 & Himm & _).
  pose proof (rnsH fuel s n s1 imm TP P L Hg HI E1) as HI1.
  destruct imm as [c|].
  - exact (IH s1 c s' at_ TP1 P1 L1 (Himm c eq_refl) HI1 H).
  - injection H as <- _. exact HI1.
Qed.

Lemma loopH fuel : forall s always s' at_ always',
  Tplain s -> PInv s -> LInvC s None -> HInv s ->
  passLoop fuel [] s always = Ok (s', None, at_, always') -> HInv s'.
Proof.
  induction fuel as [|fuel IH]; intros s always s' at_ always' TP P L HI H; [discriminate|].
  cbn [passLoop] in H.
  destruct (Z.leb_spec (Heap.cnt (heap s)) 0) as [Hc|Hc]; [injection H as <- _ _; exact HI|].
  destruct (Heap.removeMin (heap s)) as [[n w]|] eqn:Erm; [|discriminate].
  set (s2 := s <| heap := w |>) in *.
  destruct (recomputeChain fuel [] s2 n) as [[[s3 e3] at3]| |] eqn:E3; simpl in H; try discriminate.
  destruct e3 as [e3|]; [injection H as _ ? _ _; discriminate|].
  destruct (pop_LInvC s n w P L Erm) as (L2 & P2 & Hgn). fold s2 in L2, P2.
  pose proof (Tplain_binds s s2 eq_refl TP) as TP2.
  destruct (chainT fuel s2 n s3 at3 TP2 P2 L2 Hgn E3) as (TP3 & P3 & L3 & Hk3 & _).
  assert (HI2 : HInv s2) by exact HI.
  pose proof (chainH fuel s2 n s3 at3 TP2 P2 L2 Hgn HI2 E3) as HI3.
  exact (IH s3 _ s' at_ always' TP3 P3 L3 HI3 H).
Qed.

(** * the pass *)
Theorem passS_handlers s s' :
  Inv s -> ValInvB s -> Tplain s -> stabilize [] false s = Ok (s', None) ->
  exists L H,
    rev (log s') = rev (log s) ++ [EvPassStart] ++ L ++ [EvPassEnd XOk] ++ H /\
    Forall passEv L /\ Forall EngineLocal.isHandlerEv H /\ NoDup H /\
    (forall n, EvUpd n ∈ H <-> inGraph (nd s' n) = true /\ changedAt (nd s' n) = stabNum s) /\
    (forall o v, EvObsUpd o v ∈ H <->
       exists n, obs s' !! o = Some n /\ changedAt (nd s' n) = stabNum s /\ v = valueOf s' n).
Proof.
  intros IV V TP H. pose proof (Inv_wfb s IV) as Hwf. destruct (wfb_transients _ Hwf) as (Hst & Hsd & Hsr & Hh).
  destruct (C13_bracket_and_order [] false s s' None Hst) as (L & sL & at_ & always & EL & Hlog & HL & Hobs & Hsort);
    [intros n Hn; apply (io_lt _ (inv_ids _ IV)); exact Hn|reflexivity|rewrite Hsd, Hsr; constructor|exact H|].
  destruct (Hsort ltac:(rewrite Hh; constructor)) as [_ Hnd].
  pose proof EL as EL'. unfold passResult in EL'. cbv zeta in EL'. simpl in EL'.
  set (s1 := EngineLocal.passStart s) in *.
  pose proof (LInvC_start s IV V) as L1. change (PassProofs.passStart s) with s1 in L1.
  pose proof (Inv_PInv_start s IV) as P1. change (PInv s1) in P1.
  pose proof (Tplain_binds s s1 eq_refl TP) as TP1.
  assert (HI1 : HInv s1).
  { intros k. change (handlers s1) with (handlers s). rewrite Hh. split; [intros Hk; inversion Hk|].
    intros [[_ Hc]|(n & _ & _ & Hc)]; exfalso.
    - pose proof (stamps_node_true _ _ (vb_stamps _ V k)). change (changedAt (nd s k) = stabNum s) in Hc. lia.
    - pose proof (stamps_node_true _ _ (vb_stamps _ V n)). change (changedAt (nd s n) = stabNum s) in Hc. lia. }
  pose proof (loopH _ s1 [] sL at_ always TP1 P1 L1 HI1 EL') as HIL.
  destruct (loopT _ s1 [] sL at_ always TP1 P1 L1 EL') as (_ & PL & LL & _ & HkL & _).
  pose proof (PInv_Struct sL PL) as HSL. pose proof (t_obs _ _ _ (p_t _ PL)) as HOL.
  destruct (stabilize_nil_inv s s' Hst Hsd Hsr H) as (sL' & at' & al' & sR & hev' & EL2 & ER & Es' & _).
  change (emit EvPassStart (s <| status := 1 |>)) with s1 in EL2. rewrite EL' in EL2.
  injection EL2 as <- <- <-.
  specialize (Es' (proj1 (lc_quiet _ _ LL)) (proj2 (lc_quiet _ _ LL))).
  assert (Hnodes : nodes s' = nodes sL) by (rewrite Es'; cbn; apply (oh_nodes _ _ (requeue_only_heap _ _ _ ER))).
  pose proof (nodes_eq_nd _ _ Hnodes) as Hnd'.
  assert (Hobs' : obs s' = obs sL) by (rewrite Es'; cbn; apply (oh_obs _ _ (requeue_only_heap _ _ _ ER))).
  assert (HkLs : stabNum sL = stabNum s) by exact HkL.
  exists L, (map (hev sL) (handlers sL)). split; [exact Hlog|]. split; [exact HL|].
  split; [apply Forall_forall; intros e He; apply elem_of_list_In, elem_of_list_fmap in He as (k & -> & _); apply hev_isHandlerEv|].
  split; [apply NoDup_fmap_2; [intros k1 k2; apply hev_inj|exact Hnd]|].
  split.
  - intros n. rewrite Hnd', <- HkLs, elem_of_list_fmap. split.
    + intros (k & Ek & Hk). unfold hev in Ek. destruct (obs sL !! k) as [n'|] eqn:Eo; [discriminate|].
      injection Ek as ->. apply HIL in Hk as [Hk|(n' & _ & Hin & _)]; [exact Hk|].
      apply (ob_iff _ HOL) in Hin. congruence.
    + intros [Hg Hc]. exists n. split; [|apply HIL; left; auto].
      unfold hev. destruct (obs sL !! n) as [n'|] eqn:Eo; [|reflexivity].
      exfalso. destruct (ob_ids _ HOL n n' Eo) as (_ & Hno & _). apply Hno. apply has_inGraph, Hg.
  - intros o v. rewrite elem_of_list_fmap. split.
    + intros (k & Ek & Hk). unfold hev in Ek. destruct (obs sL !! k) as [n|] eqn:Eo; [|discriminate].
      injection Ek as -> ->. exists n. rewrite Hobs'. split; [exact Eo|].
      rewrite Hnd', <- HkLs, (valueOf_nodes sL s' n Hnodes). split; [|reflexivity].
      apply HIL in Hk as [[Hg _]|(n' & _ & Hin & Hc)].
      * exfalso. destruct (ob_ids _ HOL k n Eo) as (_ & Hno & _). apply Hno. apply has_inGraph, Hg.
      * apply (ob_iff _ HOL) in Hin. congruence.
    + intros (n & Ho & Hc & ->). rewrite Hobs' in Ho. rewrite Hnd', <- HkLs in Hc.
      exists o. split; [unfold hev; rewrite Ho, (valueOf_nodes sL s' n Hnodes); reflexivity|].
      apply HIL. right. exists n. split; [|split; [apply (ob_iff _ HOL), Ho|exact Hc]].
      rewrite (st_nec _ HSL n). unfold isNecessary.
      apply (ob_iff _ HOL) in Ho. destruct (observers (nd sL n)) as [|o' l]; [inversion Ho|].
      rewrite (bool_decide_eq_false_2 (o' :: l = [])) by discriminate. rewrite orb_true_r. reflexivity.
Qed.

(** for a node that stayed registered throughout the pass the reading "its value changed" is right:
    a different value at the end means a handler event in this pass *)
Theorem passS_handlers_value s s' :
  Inv s -> ValInvB s -> Tplain s -> stabilize [] false s = Ok (s', None) ->
  forall evs n, log s' = evs ++ log s -> inGraph (nd s' n) = true -> EvNec n ∉ evs ->
    value (nd s' n) <> value (nd s n) -> EvUpd n ∈ evs.
Proof.
  intros IV V TP H evs n El Hg Hnec Hv.
  pose proof (pl_changed _ _ (passS_log s s' IV V TP H) evs n El Hg Hnec Hv) as Hc.
  destruct (passS_handlers s s' IV V TP H) as (L & Hh & Hlog & _ & _ & _ & Hupd & _).
  assert (Hin : EvUpd n ∈ Hh) by (apply Hupd; auto).
  rewrite El, rev_app_distr in Hlog. apply app_inv_head in Hlog.
  apply elem_of_list_In, in_rev. rewrite Hlog. apply elem_of_list_In. apply elem_of_app. right. apply elem_of_app. right. apply elem_of_app. right. exact Hin.
Qed.

(** ... but not for a node that was dropped and linked again: K06.
    Var 0 = 5, var 1 = 6, cutoff 2 = CutoffEqual(var 0), bind 4/5 over var 1 whose two cases each map
    an inner bind; with var 1 even the inner bind selects node 2, with var 1 odd the other inner bind
    selects node 2 as well.  After [var 0 += 3; var 1 += 1] the pass recomputes node 2 (5 -> 8, it
    changed: handler queued), the outer bind swaps (node 2 leaves the graph: handler withdrawn,
    stamps reset), the new inner bind links node 2 again, its second recompute is cut off
    (8 = 8): node 2 is in the graph with a new value and no update handler ran for it. *)
Definition k06_ops : list op :=
  [ NewVar 5 false; NewVar 6 false; NewCutoff CEq 0%nat; Observe 1%nat;
    NewBind [TMap (Aff 1 0) (TBind [TRet 3; TOuter 2%nat; TX] (TRet 4));
             TMap (Aff 1 0) (TBind [TOuter 0%nat; TX; TOuter 2%nat] (TRet 2))] 1%nat;
    Observe 5%nat; Stabilize []; UpdateVar 0%nat 3; UpdateVar 1%nat 1 ].

Definition C13_value_statement : Prop :=
  forall s s', Inv s -> ValInvB s -> Tplain s -> stabilize [] false s = Ok (s', None) ->
  forall evs n, log s' = evs ++ log s -> inGraph (nd s' n) = true ->
    value (nd s' n) <> value (nd s n) -> EvUpd n ∈ evs.

Theorem C13_value_statement_refuted : ~ C13_value_statement.
Proof.
  intros Hall.
  assert (Hc : match histB_run (init 64) k06_ops with
               | Some s => match stabilize [] false s with
                           | Ok (s', None) =>
                             let evs := take (length (log s') - length (log s)) (log s') in
                             bool_decide (log s' = evs ++ log s) && inGraph (nd s' 2%nat) &&
                             negb (value (nd s' 2%nat) =? value (nd s 2%nat)) && negb (bool_decide (EvUpd 2%nat ∈ evs))
                           | _ => false end
               | None => false end = true) by (vm_compute; reflexivity).
  destruct (histB_run (init 64) k06_ops) as [s|] eqn:E; [|discriminate Hc].
  destruct (stabilize [] false s) as [[s' [e|]]| |] eqn:E2; try discriminate Hc.
  cbv zeta in Hc. rewrite !andb_true_iff in Hc. destruct Hc as [[[H1 H2] H3] H4].
  apply bool_decide_eq_true in H1. apply negb_true_iff, Z.eqb_neq in H3. apply negb_true_iff, bool_decide_eq_false in H4.
  assert (TP0 : Tplain (init 64)) by (intros b r Hr; inversion Hr).
  destruct (histB_inv k06_ops (init 64) s (Inv_init 64 ltac:(lia)) (ValInvB_init 64) TP0 eq_refl E) as (I1 & V1 & T1 & _).
  exact (H4 (Hall s s' I1 V1 T1 E2 _ 2%nat H1 H2 H3)).
Qed.
