(** Model of /repo/incrutil/mapi (property C17).

    Every operator is a state record plus a [Stabilize] written like the Go method of the
    same name: read the current input(s), iterate [last.SymmetricDiff(current, equal)],
    edit the carried output / accumulator, then [last := current].

    Abstractions (fixed by the design, see DESIGN.md §5 C17):
    - a [pmap.Map] is its contents, a [gmap Z Z]; [Set]/[Delete]/[Get] are
      [insert]/[delete]/[lookup]; [SymmetricDiff] is the spec diff [merge_diff] that C16
      proves the AVL walk computes; [Range lo hi] is the in-order list of entries inside the
      bounds; [pmap.Reducer.Reduce] is its contract, the in-order fold.
    - the engine is reduced to what the operators depend on: WHEN a node's Stabilize runs
      (the history is the list of inputs at those recomputes; versions skipped while the
      node was unobserved simply make the next diff larger), and, for Selector and Join,
      the necessity / notification discipline spelled out in their sections. *)
From incr Require Import Base MapiSpec.

(** * MapValues  (map_values.go) *)
Module MapValues.
  Record t := Mk { last : zmap; value : zmap }.
  Definition init : t := Mk ∅ ∅.
  Definition Stabilize (equal : eqfn) (fn : Z -> Z -> Z) (m : t) (current : zmap) : t :=
    let out := fold_left (fun out change =>
        match change with
        | Removed key _ => delete key out
        | Added key new | Updated key _ new => <[key := fn key new]> out
        end) (merge_diff equal (last m) current) (value m) in
    Mk current out.
End MapValues.

(** * FilterMapValues  (filter_map_values.go) *)
Module FilterMapValues.
  Record t := Mk { last : zmap; value : zmap }.
  Definition init : t := Mk ∅ ∅.
  Definition Stabilize (equal : eqfn) (fn : Z -> Z -> option Z) (m : t) (current : zmap) : t :=
    let out := fold_left (fun out change =>
        match change with
        | Removed key _ => delete key out
        | Added key new | Updated key _ new =>
            match fn key new with
            | Some mapped => <[key := mapped]> out
            | None => delete key out
            end
        end) (merge_diff equal (last m) current) (value m) in
    Mk current out.
End FilterMapValues.

(** * Merge  (merge.go) *)
Module Merge.
  Record t := Mk { lastLeft : zmap; lastRight : zmap; value : zmap }.
  Definition init : t := Mk ∅ ∅ ∅.

  (* the loop over the sorted [touched] slice, skipping a key equal to the previous one *)
  Fixpoint loop (fn : Z -> merge_element -> option Z) (currentLeft currentRight : zmap)
      (touched : list Z) (first : bool) (previous : Z) (out : zmap) : zmap :=
    match touched with
    | [] => out
    | key :: touched =>
      if negb first && (key =? previous) then loop fn currentLeft currentRight touched false previous out
      else
        let l := currentLeft !! key in
        let r := currentRight !! key in
        let out :=
          match l, r with
          | None, None => delete key out
          | _, _ => match fn key (mk_element l r) with
                    | Some merged => <[key := merged]> out
                    | None => delete key out
                    end
          end in
        loop fn currentLeft currentRight touched false key out
    end.

  Definition Stabilize (equalLeft equalRight : eqfn) (fn : Z -> merge_element -> option Z)
      (m : t) (currentLeft currentRight : zmap) : t :=
    let touched := map ckey (merge_diff equalLeft (lastLeft m) currentLeft)
                   ++ map ckey (merge_diff equalRight (lastRight m) currentRight) in
    let touched := merge_sort Z.le touched in
    Mk currentLeft currentRight (loop fn currentLeft currentRight touched true 0 (value m)).
End Merge.

(** * UnorderedFold  (unordered_fold.go) and Sum / Cardinality / Counti  (aggregates.go) *)
Module UnorderedFold.
  Record t (B : Type) := Mk { last : zmap; value : B }.
  Arguments Mk {B}. Arguments last {B}. Arguments value {B}.
  Definition init {B} (initial : B) : t B := Mk ∅ initial.
  Definition Stabilize {B} (equal : eqfn) (add remove : B -> Z -> Z -> B) (f : t B) (current : zmap) : t B :=
    let acc := fold_left (fun acc change =>
        match change with
        | Added key new => add acc key new
        | Removed key old => remove acc key old
        | Updated key old new => add (remove acc key old) key new
        end) (merge_diff equal (last f) current) (value f) in
    Mk current acc.

  (* aggregates.go *)
  Definition sum_add (acc _ value : Z) : Z := acc + value.
  Definition sum_remove (acc _ value : Z) : Z := acc - value.
  Definition card_add (acc _ _ : Z) : Z := acc + 1.
  Definition card_remove (acc _ _ : Z) : Z := acc - 1.
  Definition count (predicate : Z -> Z -> bool) (acc key value delta : Z) : Z :=
    if predicate key value then acc + delta else acc.
  Definition counti_add predicate (acc key value : Z) : Z := count predicate acc key value 1.
  Definition counti_remove predicate (acc key value : Z) : Z := count predicate acc key value (-1).

  Definition Sum_init : t Z := init 0.
  Definition Sum_Stabilize (equal : eqfn) := Stabilize equal sum_add sum_remove.
  Definition Cardinality_init : t Z := init 0.
  Definition Cardinality_Stabilize := Stabilize None card_add card_remove.
  Definition Counti_init : t Z := init 0.
  Definition Counti_Stabilize (equal : eqfn) (predicate : Z -> Z -> bool) :=
    Stabilize equal (counti_add predicate) (counti_remove predicate).
End UnorderedFold.

(** * Reduce, MaxValue, MinValue  (reduce.go)

    [pmap.Reducer.Reduce] by its contract (C16_reducer): the in-order fold of the map,
    [false] for the empty map.  The memo is therefore not part of the state. *)
Module Reduce.
  Definition reducer_Reduce {R} (project : Z -> Z -> R) (combine : R -> R -> R) (m : zmap) : option R :=
    fold1 combine (map (fun kv => project kv.1 kv.2) (entries m)).
  Definition init {R} (empty : R) : R := empty.
  Definition Stabilize {R} (empty : R) (project : Z -> Z -> R) (combine : R -> R -> R)
      (_ : R) (current : zmap) : R :=
    match reducer_Reduce project combine current with
    | Some value => value
    | None => empty
    end.

  (* Optional[V] = (Value, Present) *)
  Definition optional_empty : Z * bool := (0, false).
  Definition optional_project (_ value : Z) : Z * bool := (value, true).
  Definition max_combine (a b : Z * bool) : Z * bool := if a.1 <? b.1 then b else a.
  Definition min_combine (a b : Z * bool) : Z * bool := if b.1 <? a.1 then b else a.
  Definition MaxValue_Stabilize := Stabilize optional_empty optional_project max_combine.
  Definition MinValue_Stabilize := Stabilize optional_empty optional_project min_combine.
End Reduce.

(** * Subrange  (subrange.go) *)
Module Subrange.
  Record t := Mk { last : zmap; lastBounds : Z * Z; haveBounds : bool; value : zmap }.
  Definition init : t := Mk ∅ (0, 0) false ∅.
  (* pmap.Map.Range: entries with low <= key <= high, in order *)
  Definition Range (m : zmap) (low high : Z) : list (Z * Z) :=
    filter (fun kv => in_bounds low high kv.1 = true) (entries m).
  Definition bounds_eqb (a b : Z * Z) : bool := (a.1 =? b.1) && (a.2 =? b.2).
  Definition Stabilize (equal : eqfn) (s : t) (current : zmap) (bounds : Z * Z) : t :=
    if negb (haveBounds s) || negb (bounds_eqb bounds (lastBounds s)) then
      let out := fold_left (fun out kv => <[kv.1 := kv.2]> out) (Range current bounds.1 bounds.2) ∅ in
      Mk current bounds true out
    else
      let out := fold_left (fun out change =>
          if (ckey change <? bounds.1) || (bounds.2 <? ckey change) then out
          else match change with
               | Removed key _ => delete key out
               | Added key new | Updated key _ new => <[key := new]> out
               end) (merge_diff equal (last s) current) (value s) in
      Mk current (lastBounds s) (haveBounds s) out.
End Subrange.

(** * Partition  (partition.go) *)
Module Partition.
  Record t := Mk { last : zmap; value : zmap * zmap }.   (* Halves{Matching, NotMatching} *)
  Definition init : t := Mk ∅ (∅, ∅).
  Definition Stabilize (equal : eqfn) (predicate : Z -> Z -> bool) (p : t) (current : zmap) : t :=
    let out := fold_left (fun (out : zmap * zmap) change =>
        match change with
        | Removed key _ => (delete key out.1, delete key out.2)
        | Added key new | Updated key _ new =>
            if predicate key new then (<[key := new]> out.1, delete key out.2)
            else (delete key out.1, <[key := new]> out.2)
        end) (merge_diff equal (last p) current) (value p) in
    Mk current out.
End Partition.

(** * Keys  (aggregates.go): an [incr.Map] over the input, rebuilt on every recompute *)
Module Keys.
  Definition init : list Z := [].
  Definition Stabilize (_ : list Z) (current : zmap) : list Z := map fst (entries current).
End Keys.

(** * Changes  (changes.go) *)
Module Changes.
  Record t := Mk { last : zmap; value : change_set }.
  Definition init : t := Mk ∅ (ChangeSet ∅ ∅ ∅).
  Definition Stabilize (equal : eqfn) (c : t) (current : zmap) : t :=
    let next := fold_left (fun next change =>
        match change with
        | Added key new => ChangeSet (<[key := new]> (cs_added next)) (cs_removed next) (cs_updated next)
        | Removed key old => ChangeSet (cs_added next) (<[key := old]> (cs_removed next)) (cs_updated next)
        | Updated key _ new => ChangeSet (cs_added next) (cs_removed next) (<[key := new]> (cs_updated next))
        end) (merge_diff equal (last c) current) (ChangeSet ∅ ∅ ∅) in
    Mk current next.
End Changes.

(** * Added / Removed  (added.go, removed.go, symmetric_diff.go): builtin maps, full scans *)
Module AddedOp.
  Record t := Mk { last : zmap; val : zmap }.
  Definition init : t := Mk ∅ ∅.
  Definition symmetricDiffAdded (m0 m1 : zmap) : zmap :=
    map_fold (fun k v added => match m0 !! k with None => <[k := v]> added | Some _ => added end) ∅ m1.
  Definition Stabilize (mfn : t) (newVal : zmap) : t := Mk newVal (symmetricDiffAdded (last mfn) newVal).
End AddedOp.

Module RemovedOp.
  Record t := Mk { last : zmap; val : zmap }.
  Definition init : t := Mk ∅ ∅.
  Definition symmetricDiffRemoved (m0 m1 : zmap) : zmap :=
    map_fold (fun k v removed => match m1 !! k with None => <[k := v]> removed | Some _ => removed end) ∅ m0.
  Definition Stabilize (mfn : t) (newVal : zmap) : t := Mk newVal (symmetricDiffRemoved (last mfn) newVal).
End RemovedOp.

(** * Selector  (select.go)

    One fan-out node over the input plus one node per selected key.  Engine discipline
    modelled: the fan-out node is necessary exactly while some per-key node is observed;
    a pass recomputes the fan-out node (when necessary) before the per-key nodes, and
    recomputes a necessary per-key node iff its [Stale()] override says so.  (The engine
    recomputes the fan-out node only when the input was set or it has just become
    necessary; its Stabilize on an unchanged input is the identity, so the model runs it in
    every pass.) *)
Module Selector.
  Record node := MkNode { value : Z; dirty : bool; seeded : bool; necessary : bool }.
  Record t := Mk {
    last : zmap;               (* selectorIncr.last *)
    current : zmap;            (* selectorIncr.current *)
    selected : gmap Z node;    (* Selector.selected *)
    input : zmap               (* current value of the input var *)
  }.
  Definition init : t := Mk ∅ ∅ ∅ ∅.

  Inductive ev :=
  | Select (key : Z)           (* Selector.Select(key), not yet observed *)
  | Observe (key : Z)
  | Unobserve (key : Z)
  | SetInput (m : zmap)
  | Pass.

  (* selectorIncr.Stabilize *)
  Definition fanout_Stabilize (equal : eqfn) (s : t) : t :=
    let current := input s in
    let selected := fold_left (fun (sel : gmap Z node) change =>
        match sel !! ckey change with
        | Some n => <[ckey change := MkNode (value n) true (seeded n) (necessary n)]> sel
        | None => sel
        end) (merge_diff equal (last s) current) (selected s) in
    Mk current current selected (input s).

  Definition Stale (n : node) : bool := dirty n || negb (seeded n).

  (* selectedIncr.Stabilize *)
  Definition node_Stabilize (s : t) (key : Z) (n : node) : node :=
    MkNode (default 0 (current s !! key)) false true (necessary n).

  Definition any_necessary (sel : gmap Z node) : bool :=
    map_fold (fun _ n acc => acc || necessary n) false sel.

  Definition pass (equal : eqfn) (s : t) : t :=
    if any_necessary (selected s) then
      let s := fanout_Stabilize equal s in
      Mk (last s) (current s)
         (map_imap (fun key n => Some (if necessary n && Stale n then node_Stabilize s key n else n)) (selected s))
         (input s)
    else s.

  Definition set_necessary (b : bool) (n : node) : node := MkNode (value n) (dirty n) (seeded n) b.

  Definition step (equal : eqfn) (s : t) (e : ev) : t :=
    match e with
    | Select key =>
        match selected s !! key with
        | Some _ => s
        | None => Mk (last s) (current s) (<[key := MkNode 0 false false false]> (selected s)) (input s)
        end
    | Observe key => Mk (last s) (current s) (alter (set_necessary true) key (selected s)) (input s)
    | Unobserve key => Mk (last s) (current s) (alter (set_necessary false) key (selected s)) (input s)
    | SetInput m => Mk (last s) (current s) (selected s) m
    | Pass => pass equal s
    end.
End Selector.

(** * Join  (join.go)

    Inner incrementals are identified by integers.  They are either VARS ([vals] holds the
    value last written, which is what a var's [Value()] returns) or COMPUTED nodes
    ([cdefs]: [incr.Map]/[incr.Map2] nodes over two shared base vars, value
    [a*base0 + b*base1 + c] as of their last recompute, also kept in [vals]).  A computed
    node is either observed directly by someone else (always necessary) or [lazy]
    (necessary only while the join links it).  Engine discipline modelled (graph.go):
    - [edges]: inner nodes that have the join node among their children.  [link] adds one
      through [ExpertGraph.AddChild]; [unlink] calls [RemoveParent], and [Graph.unlink]
      drops EVERY edge between the pair at once.
    - a write to an inner var queues it for recompute only if it is necessary, i.e. (in
      these histories) has the join among its children; at the next pass each queued var
      recomputes before the join and calls [ChildChanged] on the join iff the edge exists.
    - a computed node is stale ([cstale]) when one of its base vars was written or when it
      has just become necessary; a stale necessary node recomputes in the next pass and
      calls [ChildChanged] on the join iff the edge exists at that moment.  A node that
      already has the join among its children is lower than the join and recomputes BEFORE
      it ([phaseA]).  Any other stale node is scheduled independently of the join (heights,
      queue order, the engine's recompute-the-only-child-at-once shortcut): whether it runs
      before or after the join's first run of the pass is an INPUT of the model, the [early]
      list of a [Pass] event (the harness observes it on the real engine).  The late ones
      ([phaseC]) are what the [SetStale] in [link] exists for: the join has linked the node
      and read its OLD value, the node then recomputes and notifies the join over the new
      edge, and the join, marked stale by [link], runs a second time and reads the new
      value.  (The engine does not re-queue the join on behalf of a parent that changes
      after the join's own recompute in the same pass: [shouldRecomputeChild].)
    - unobserving the join tears down all its edges and un-queues the inner vars
      ([zeroNode], which also zeroes [changedAt]); observing it again links everything
      [Parents()] reports and recomputes it ([recomputedAt = 0]), but re-delivers no
      notification.

    [fixed] selects the variant of Stabilize: [true] is join.go with the relink repair (a
    node whose [ChangedAt()] is 0 re-reads every linked inner incremental first), [false]
    the code before it.  The harness probes which one /repo holds. *)
Module Join.
  (* a computed inner node: value = a*base0 + b*base1 + c *)
  Record cdef := CDef { cd_lazy : bool; cd_a : Z; cd_b : Z; cd_c : Z }.

  Record t := Mk {
    last : zmap;         (* key -> inner id *)
    linked : zmap;       (* key -> inner id *)
    byNode : zmap;       (* inner id -> key *)
    value : zmap;
    parents : list Z;    (* inner ids (the outer input is left out) *)
    pending : list Z;
    changedAt0 : bool;   (* ExpertNode(j).ChangedAt() == 0 *)
    restale : bool;      (* SetStale(j) was called by link during this recompute *)
    ingraph : bool;
    edges : gset Z;
    dirty : gset Z;      (* inner vars queued for recompute *)
    vals : zmap;         (* Value() of every inner node *)
    outer : zmap;
    bvals : zmap;        (* the base vars 0 and 1 *)
    cdefs : list (Z * cdef);
    cstale : gset Z      (* computed nodes that recompute at the next pass in which they are necessary *)
  }.
  Definition init (vals0 bvals0 : zmap) (cdefs0 : list (Z * cdef)) : t :=
    Mk ∅ ∅ ∅ ∅ [] [] true false false ∅ ∅ vals0 ∅ bvals0 cdefs0 (list_to_set (map fst cdefs0)).

  Inductive ev :=
  | SetOuter (m : zmap)
  | SetInner (x v : Z)
  | SetBase (i v : Z)
  | Unobserve
  | Observe
  | Pass (early : list Z).   (* computed nodes the engine took before the join's first run *)

  Definition with_value_pending (j : t) (value : zmap) (pending : list Z) (last : zmap) (changedAt0 : bool) : t :=
    Mk last (linked j) (byNode j) value (parents j) pending changedAt0 (restale j)
       (ingraph j) (edges j) (dirty j) (vals j) (outer j) (bvals j) (cdefs j) (cstale j).

  (* the linking state *)
  Definition with_links (j : t) (linked byNode : zmap) (parents : list Z) (restale : bool)
      (edges dirty cstale : gset Z) : t :=
    Mk (last j) linked byNode (value j) parents (pending j) (changedAt0 j) restale
       (ingraph j) edges dirty (vals j) (outer j) (bvals j) (cdefs j) cstale.

  (* what the engine and the outside world own *)
  Definition with_env (j : t) (restale ingraph : bool) (edges dirty : gset Z) (vals outer bvals : zmap)
      (cstale : gset Z) (changedAt0 : bool) : t :=
    Mk (last j) (linked j) (byNode j) (value j) (parents j) (pending j) changedAt0 restale
       ingraph edges dirty vals outer bvals (cdefs j) cstale.

  Definition cdef_of (j : t) (x : Z) : option cdef :=
    match list_find (fun p : Z * cdef => p.1 = x) (cdefs j) with Some (_, p) => Some p.2 | None => None end.
  Definition is_lazy (j : t) (x : Z) : bool :=
    match cdef_of j x with Some d => cd_lazy d | None => false end.
  Definition cval (d : cdef) (bvals : zmap) : Z :=
    cd_a d * val_of bvals 0 + cd_b d * val_of bvals 1 + cd_c d.
  Definition depends (d : cdef) (i : Z) : bool :=
    if i =? 0 then negb (cd_a d =? 0) else negb (cd_b d =? 0).

  (* joinIncr.ChildChanged *)
  Definition ChildChanged (j : t) (child : Z) : t :=
    match byNode j !! child with
    | Some key => with_value_pending j (value j) (pending j ++ [key]) (last j) (changedAt0 j)
    | None => j
    end.

  (* joinIncr.link *)
  Definition link (j : t) (key inner : Z) : t :=
    with_links j (<[key := inner]> (linked j)) (<[inner := key]> (byNode j)) (parents j ++ [inner])
      true                               (* GraphForNode(j).SetStale(j) *)
      (edges j ∪ {[inner]})              (* ExpertGraph.AddChild(j, inner) *)
      (dirty j)
      (* a lazy computed node that nothing needed becomes necessary, hence stale *)
      (if is_lazy j inner && negb (bool_decide (inner ∈ edges j)) then cstale j ∪ {[inner]} else cstale j).

  Fixpoint remove_first (x : Z) (l : list Z) : list Z :=
    match l with
    | [] => []
    | y :: l => if x =? y then l else y :: remove_first x l
    end.

  (* joinIncr.unlink *)
  Definition unlink (j : t) (key : Z) : t :=
    match linked j !! key with
    | None => j
    | Some inner =>
      with_links j (delete key (linked j)) (delete inner (byNode j)) (remove_first inner (parents j)) (restale j)
        (edges j ∖ {[inner]})   (* RemoveParent: every edge between the pair *)
        (dirty j ∖ {[inner]})   (* an inner var that became unnecessary leaves the queue *)
        (cstale j)
    end.

  (* one iteration of the structural loop of joinIncr.Stabilize *)
  Definition struct_step (jo : t * zmap) (change : change) : t * zmap :=
    let '(j, out) := jo in
    match change with
    | Removed key _ => (unlink j key, delete key out)
    | Added key new => (link j key new, <[key := val_of (vals j) new]> out)
    | Updated key _ new => (link (unlink j key) key new, <[key := val_of (vals j) new]> out)
    end.

  (* the relink repair: re-read every linked key *)
  Definition refresh_all (j : t) (out : zmap) : zmap :=
    fold_left (fun out kv => <[kv.1 := val_of (vals j) kv.2]> out) (entries (linked j)) out.

  (* the loop over j.pending *)
  Definition apply_pending (j : t) (out : zmap) : zmap :=
    fold_left (fun out key =>
        match linked j !! key with
        | Some inner => <[key := val_of (vals j) inner]> out
        | None => out   (* the key was removed in this same pass *)
        end) (pending j) out.

  (* joinIncr.Stabilize; sameNode compares identities.  The engine stamps changedAt after it. *)
  Definition Stabilize (fixed : bool) (j : t) : t :=
    let current := outer j in
    let out := value j in
    let out := if fixed && changedAt0 j then refresh_all j out else out in
    let jo := fold_left struct_step (merge_diff (Some Z.eqb) (last j) current) (j, out) in
    let j := jo.1 in
    let out := apply_pending j jo.2 in
    with_value_pending j out [] current false.

  Definition clear_restale (j : t) : t :=
    with_links j (linked j) (byNode j) (parents j) false (edges j) (dirty j) (cstale j).

  (* queued inner vars recompute first and notify the join over existing edges *)
  Definition notify_vars (j : t) : t :=
    let notified := filter (fun x => bool_decide (x ∈ edges j)) (sorted_keys (dirty j)) in
    let j := fold_left ChildChanged notified j in
    with_links j (linked j) (byNode j) (parents j) false (edges j) ∅ (cstale j).

  (* a computed node recomputes: new value, no longer stale, the join is told if it is a child *)
  Definition recompute_one (j : t) (x : Z) (d : cdef) : t :=
    let j := with_env j (restale j) (ingraph j) (edges j) (dirty j) (<[x := cval d (bvals j)]> (vals j)) (outer j)
                      (bvals j) (cstale j ∖ {[x]}) (changedAt0 j) in
    if ingraph j && bool_decide (x ∈ edges j) then ChildChanged j x else j.

  Definition necessary (j : t) (x : Z) (d : cdef) : bool :=
    if cd_lazy d then ingraph j && bool_decide (x ∈ edges j) else true.

  (* stale computed nodes that run before the join: those below it, and the [early] ones *)
  Definition phaseA (early : list Z) (j : t) : t :=
    fold_left (fun j (p : Z * cdef) =>
        if bool_decide (p.1 ∈ cstale j) && necessary j p.1 p.2 &&
           (ingraph j && bool_decide (p.1 ∈ edges j) || bool_decide (p.1 ∈ early))
        then recompute_one j p.1 p.2 else j) (cdefs j) j.

  (* the other stale necessary computed nodes, taken after the join's first run *)
  Definition phaseC (j : t) : t :=
    fold_left (fun j (p : Z * cdef) =>
        if bool_decide (p.1 ∈ cstale j) && necessary j p.1 p.2
        then recompute_one j p.1 p.2 else j) (cdefs j) j.

  Definition first_run (fixed : bool) (early : list Z) (j : t) : t :=
    phaseC (Stabilize fixed (phaseA early (notify_vars j))).

  Definition pass (fixed : bool) (early : list Z) (j : t) : t :=
    if ingraph j then
      let j := first_run fixed early j in
      (* link marked the join stale: it runs again, after the nodes it has just linked *)
      if restale j then clear_restale (Stabilize fixed (clear_restale j)) else j
    else phaseC j.

  Definition step (fixed : bool) (j : t) (e : ev) : t :=
    match e with
    | SetOuter m =>
      with_env j (restale j) (ingraph j) (edges j) (dirty j) (vals j) m (bvals j) (cstale j) (changedAt0 j)
    | SetInner x v =>
      with_env j (restale j) (ingraph j) (edges j)
        (if ingraph j && bool_decide (x ∈ edges j) then dirty j ∪ {[x]} else dirty j)
        (<[x := v]> (vals j)) (outer j) (bvals j) (cstale j) (changedAt0 j)
    | SetBase i v =>
      with_env j (restale j) (ingraph j) (edges j) (dirty j) (vals j) (outer j) (<[i := v]> (bvals j))
        (cstale j ∪ list_to_set (map fst (filter (fun p : Z * cdef => depends p.2 i = true) (cdefs j))))
        (changedAt0 j)
    | Unobserve =>
      if ingraph j then
        with_env j (restale j) false ∅ ∅ (vals j) (outer j) (bvals j) (cstale j) true   (* zeroNode *)
      else j
    | Observe =>
      if ingraph j then j else
        with_env j (restale j) true (list_to_set (parents j)) ∅ (vals j) (outer j) (bvals j)
          (cstale j ∪ list_to_set (filter (fun x => is_lazy j x = true) (parents j)))
          (changedAt0 j)
    | Pass early => pass fixed early j
    end.
End Join.
