(** Proofs about the BIND-FREE fragment of the engine model (properties C01, C02, C03, pass half
    of C11).  Contents:
    A  basics; the boolean heap invariant of [EngineWf] vs [HeapSpec.inv]; the heap cursor
    B  the fragment [BF] and the structural facts [Struct] derived from [wfb]; reachability
    C  [valueOf] / [node_consistent] read kinds, declarations and values only
    D  the frame [sframe] of a bind-free pass (the graph structure is constant)
    E  the children loop and the tail of [recomputeNodeSerial]
    F  what one call of [recomputeNodeSerial] does ([stepPost])
    G  one call preserves the loop invariant [PassInv.LInv]
    H  the direct-recompute chain and the pass loop
    I  the whole pass ([PassEnd]); J consequences; K the pass theorems (C02, C01, C03, C11, [wfb])
    L  soundness of the boolean checker of [ValInv]; M an example history; N statement forms
    O  from local consistency to [Spec.eval] (uses SpecProofs' Theorem A)
    P  every other operation of the fragment preserves [ValInv]; Q histories ([static_run]). *)
From stdpp Require Import sorting.
From incr Require Import Base Heap HeapSpec HeapProofs EngineDefs Engine EngineRun EngineWf Spec
     EngineLemmas PassInv.

Local Ltac inv H := inversion H; subst; clear H.

(** * A. Basics *)

Lemma forallb_elem {A} (f : A -> bool) l x : forallb f l = true -> x ∈ l -> f x = true.
Proof. rewrite forallb_forall. intros H Hx. apply H, elem_of_list_In, Hx. Qed.

Lemma forallb_intro {A} (f : A -> bool) l : (forall x, x ∈ l -> f x = true) -> forallb f l = true.
Proof. intros H. apply forallb_forall. intros x Hx. apply H, elem_of_list_In, Hx. Qed.

Lemma existsb_elem {A} (f : A -> bool) l : existsb f l = true <-> exists x, x ∈ l /\ f x = true.
Proof.
  rewrite existsb_exists. split; intros (x & Hx & Hf); exists x; (split; [|exact Hf]);
    apply elem_of_list_In; exact Hx.
Qed.

Lemma wfb_all s : wfb s = true ->
  edges_symmetric s = true /\ unregistered_zeroed s = true /\ registered_iff_necessary s = true
  /\ parents_are_declared s = true /\ heights_ordered s = true /\ queued_ok s = true
  /\ counts_ok s = true /\ transients_empty s = true /\ observers_ok s = true /\ binds_ok s = true.
Proof.
  unfold wfb, codes. intros H. apply bool_decide_eq_true in H.
  destruct (edges_symmetric s); [|discriminate H].
  destruct (unregistered_zeroed s); [|discriminate H].
  destruct (registered_iff_necessary s); [|discriminate H].
  destruct (parents_are_declared s); [|discriminate H].
  destruct (heights_ordered s); [|discriminate H].
  destruct (queued_ok s); [|discriminate H].
  destruct (counts_ok s); [|discriminate H].
  destruct (transients_empty s); [|discriminate H].
  destruct (observers_ok s); [|discriminate H].
  destruct (binds_ok s); [|discriminate H].
  repeat split.
Qed.

Lemma wfb_intro s :
  edges_symmetric s = true -> unregistered_zeroed s = true -> registered_iff_necessary s = true ->
  parents_are_declared s = true -> heights_ordered s = true -> queued_ok s = true ->
  counts_ok s = true -> transients_empty s = true -> observers_ok s = true -> binds_ok s = true ->
  wfb s = true.
Proof.
  intros H1 H2 H3 H4 H5 H6 H7 H8 H9 H10. unfold wfb, codes.
  rewrite H1, H2, H3, H4, H5, H6, H7, H8, H9, H10. reflexivity.
Qed.

Lemma elem_allNodes s n : n ∈ allNodes s <-> has s n /\ (n < next s)%nat.
Proof.
  unfold allNodes. rewrite elem_of_list_filter, elem_of_seq. unfold has. intuition lia.
Qed.

(** ** The heap wrappers, against [HeapSpec.inv] directly (self-contained copies: the invariant
    [EngineLemmas.hinv] is owned by another component and has changed shape) *)
Lemma inHeap_iff0 s n : HeapSpec.inv (heap s) -> (inHeap s n = true <-> n ∈ Heap.ids (heap s)).
Proof.
  intros I. unfold inHeap. split.
  - intros Hm. destruct (mem_true_inv _ _ I Hm) as (h & Hh & _ & _ & Hb).
    apply elem_ids. eauto.
  - intros Hin. destruct (Heap.mem (heap s) n) eqn:E; [reflexivity|].
    destruct (mem_false_inv _ _ I E) as [Hn _]. contradiction.
Qed.

Lemma inHeap_false_iff0 s n : HeapSpec.inv (heap s) -> (inHeap s n = false <-> n ∉ Heap.ids (heap s)).
Proof.
  intros I. rewrite <- (inHeap_iff0 s n I). destruct (inHeap s n); split; congruence.
Qed.

Lemma heapAdd_spec0 s n s' :
  HeapSpec.inv (heap s) -> inHeap s n = false -> 0 <= height (nd s n) ->
  heapAdd s n = Ok s' ->
  only_heap s s' /\ HeapSpec.inv (heap s') /\ Heap.ids (heap s') ≡ₚ n :: Heap.ids (heap s) /\
  forall m, Heap.hinOf (heap s') m = if decide (m = n) then height (nd s n) else Heap.hinOf (heap s) m.
Proof.
  intros I Hm Hh H. apply heapAdd_inv in H as (w & E & ->).
  destruct (heap_add_spec _ _ _ I Hm Hh) as (w' & E' & I' & P & Hin).
  rewrite E in E'. injection E' as <-. split; [apply only_heap_set|]. auto.
Qed.

Lemma heapAddIfNotPresent_spec0 s n s' :
  HeapSpec.inv (heap s) -> 0 <= height (nd s n) ->
  heapAddIfNotPresent s n = Ok s' ->
  only_heap s s' /\ HeapSpec.inv (heap s') /\
  (forall m, m ∈ Heap.ids (heap s') <-> m = n \/ m ∈ Heap.ids (heap s)) /\
  (forall m, Heap.hinOf (heap s') m =
             if decide (m = n) then (if inHeap s n then Heap.hinOf (heap s) n else height (nd s n))
             else Heap.hinOf (heap s) m).
Proof.
  intros I Hh H. unfold heapAddIfNotPresent in H. destruct (inHeap s n) eqn:Hm.
  - injection H as <-. split; [apply only_heap_refl|]. split; [exact I|]. split.
    + intros m. split; [auto|]. intros [->|]; [|assumption]. apply inHeap_iff0; assumption.
    + intros m. destruct (decide (m = n)) as [->|]; reflexivity.
  - destruct (heapAdd_spec0 s n s' I Hm Hh H) as (F & I' & P & Hin).
    split; [exact F|]. split; [exact I'|]. split; [|exact Hin].
    intros m. rewrite P, elem_of_cons. reflexivity.
Qed.

(** ** The boolean heap invariant of [EngineWf] and [HeapSpec.inv] *)
Lemma sanity_bucket w x n :
  Heap.sanity w = true -> n ∈ Heap.bucket w x -> Heap.hinOf w n = Z.of_nat x.
Proof.
  unfold Heap.sanity. intros H Hn. apply andb_true_iff in H as [_ H].
  unfold Heap.bucket in Hn. destruct (Heap.buckets w !! x) as [b|] eqn:E; simpl in Hn; [|inv Hn].
  assert (Hin : (x, b) ∈ imap (fun x b => (x, b)) (Heap.buckets w)).
  { apply elem_of_lookup_imap. exists x, b. auto. }
  pose proof (forallb_elem _ _ _ H Hin) as Hb. cbv beta iota in Hb.
  pose proof (forallb_elem _ _ _ Hb Hn) as Hx. apply Z.eqb_eq in Hx. exact Hx.
Qed.

Lemma heap_inv_b_sound w : heap_inv_b w = true -> HeapSpec.inv w.
Proof.
  unfold heap_inv_b. rewrite !andb_true_iff.
  intros [[[[[Hnd Hcnt] Hsan] Hne] Hperm] Hcur].
  apply bool_decide_eq_true in Hnd. apply Z.eqb_eq in Hcnt. apply bool_decide_eq_true in Hperm.
  assert (Hids : forall n, n ∈ Heap.ids w <-> exists x, n ∈ Heap.bucket w x) by (intros; apply elem_ids).
  assert (Hhin : forall n x, Heap.hin w !! n = Some x <-> n ∈ Heap.ids w /\ x = Heap.hinOf w n).
  { intros n x. rewrite <- elem_of_map_to_list, Hperm, elem_of_list_fmap. split.
    - intros (n' & [= -> ->] & Hin). auto.
    - intros [Hin ->]. eauto. }
  constructor.
  - exact Hnd.
  - intros n x. rewrite Hhin. split.
    + intros [Hin ->]. apply Hids in Hin as [y Hy].
      rewrite (sanity_bucket _ _ _ Hsan Hy). split; [lia|]. rewrite Nat2Z.id. exact Hy.
    + intros [Hx Hb]. split; [apply Hids; eauto|].
      rewrite (sanity_bucket _ _ _ Hsan Hb). lia.
  - exact Hcnt.
  - intros Hpos. assert (0 <? Heap.cnt w = true) as Hp by (apply Z.ltb_lt; exact Hpos).
    rewrite Hp in Hcur. rewrite !andb_true_iff in Hcur. destruct Hcur as [[H0 Hmx] Hall].
    apply Z.leb_le in H0. apply Z.ltb_lt in Hmx. split; [exact H0|]. split; [|exact Hmx].
    intros x Hx. destruct (Heap.bucket w x) as [|n b] eqn:E; [congruence|].
    assert (Hn : n ∈ Heap.bucket w x) by (rewrite E; left).
    assert (Hin : n ∈ Heap.ids w) by (apply Hids; eauto).
    pose proof (forallb_elem _ _ _ Hall Hin) as Hb. cbv beta in Hb.
    rewrite (sanity_bucket _ _ _ Hsan Hn) in Hb. lia.
Qed.


(** ** The cursor of the recompute heap points at a non-empty bucket ([Heap.sanity], not part of
    [HeapSpec.inv]) *)
Definition cursor_ok (w : Heap.t) : Prop :=
  0 < Heap.cnt w -> Heap.bucket w (Z.to_nat (Heap.minH w)) <> [].

Lemma add_shape w n h w' : Heap.add w n h = Ok w' ->
  0 <= h /\ Heap.cnt w' = Heap.cnt w + 1 /\
  Heap.minH w' = (if Heap.cnt w =? 0 then h else Z.min (Heap.minH w) h) /\
  forall y, Heap.bucket w' y = if decide (y = Z.to_nat h) then Heap.bucket w (Z.to_nat h) ++ [n] else Heap.bucket w y.
Proof.
  unfold Heap.add. destruct (Z.ltb_spec h 0) as [|Hh]; [discriminate|].
  destruct (if Heap.cnt w =? 0 then (h, h) else (Z.min (Heap.minH w) h, Z.max (Heap.maxH w) h)) as [mn mx] eqn:Emm.
  intros [= <-]. split; [exact Hh|]. split; [reflexivity|]. split.
  - cbn. destruct (Heap.cnt w =? 0); injection Emm as <- _; reflexivity.
  - intros y. set (hn := Z.to_nat h). set (g := grow (Heap.buckets w) hn).
    destruct (grow_length (Heap.buckets w) hn) as [Hg1 Hg2]. fold g in Hg1, Hg2.
    assert (Hgbk : forall y, bk g y = Heap.bucket w y) by (intros z; apply bk_grow).
    destruct (lookup_lt_is_Some_2 g hn Hg1) as [b0 Hb0].
    assert (Eb0 : b0 = Heap.bucket w hn) by (rewrite <- Hgbk; symmetry; apply bk_lookup, Hb0).
    unfold Heap.bucket at 1; cbn [Heap.buckets]. fold hn. fold g.
    fold (bk (<[hn:=default [] (g !! hn) ++ [n]]> g) y).
    rewrite (bk_insert _ _ _ _ Hg1). rewrite Hgbk. rewrite Hb0. simpl. rewrite Eb0. reflexivity.
Qed.

Lemma cursor_add w n h w' : HeapSpec.inv w -> cursor_ok w -> Heap.add w n h = Ok w' -> cursor_ok w'.
Proof.
  intros I C H. destruct (add_shape _ _ _ _ H) as (Hh & Hc & Hm & Hb). intros _.
  rewrite Hm, Hb. pose proof (cnt_nonneg w I) as Hcn.
  destruct (Z.eqb_spec (Heap.cnt w) 0) as [E0|E0].
  - rewrite decide_True by reflexivity. intros E. apply app_eq_nil in E as [_ E]. discriminate.
  - assert (Hpos : 0 < Heap.cnt w) by lia. destruct (inv_cursor w I Hpos) as (C1 & _).
    destruct (decide (Z.to_nat (Z.min (Heap.minH w) h) = Z.to_nat h)) as [E|E].
    + intros E'. apply app_eq_nil in E' as [_ E']. discriminate.
    + assert (Z.min (Heap.minH w) h = Heap.minH w) as -> by lia. apply C, Hpos.
Qed.

Lemma cursor_removeMin w n w' : HeapSpec.inv w -> Heap.removeMin w = Some (n, w') -> cursor_ok w'.
Proof.
  intros I H. destruct (heap_removeMin_spec w n w' I H) as (_ & I' & _ & _).
  unfold Heap.removeMin in H.
  destruct (Z.leb_spec (Heap.cnt w) 0) as [|Hpos]; [discriminate|].
  destruct (inv_cursor w I Hpos) as (C1 & C2 & C3).
  pose proof (scan_drop_spec (Heap.buckets w) (Z.to_nat (Heap.minH w))) as S.
  destruct (scan_from _ _) as [x|]; [|discriminate].
  destruct S as (S1 & S2 & S3).
  destruct (Z.of_nat x <=? Heap.maxH w); [|discriminate].
  destruct (bk_nonempty_lookup _ _ S2) as (b & Elk & _).
  assert (Eb : Heap.bucket w x = b) by (apply bk_lookup, Elk).
  rewrite Eb in H. destruct b as [|n0 b']; [discriminate|].
  injection H as Hn Hw. subst n0.
  assert (Hlen : (x < length (Heap.buckets w))%nat) by (eapply lookup_lt_Some; eauto).
  assert (Hleast : forall y, Heap.bucket w y <> [] -> (x <= y)%nat).
  { apply (scan_least w (Z.to_nat (Heap.minH w))); auto. lia. }
  set (bs := <[x:=b']> (Heap.buckets w)) in *.
  assert (Hbk : forall y, Heap.bucket w' y = if decide (y = x) then b' else Heap.bucket w y).
  { intros y. subst w'. unfold Heap.bucket at 1. cbn [Heap.buckets]. fold (bk bs y). unfold bs.
    apply (bk_insert _ _ _ _ Hlen). }
  intros Hpos'.
  assert (Hmin : Heap.minH w' = match b' with [] => nextMinFrom bs (Heap.cnt w - 1) (Z.of_nat x + 1) | _ => Z.of_nat x end)
    by (subst w'; reflexivity).
  assert (Hcnt : Heap.cnt w' = Heap.cnt w - 1) by (subst w'; reflexivity).
  rewrite Hmin, Hbk. destruct b' as [|n1 b''].
  - unfold nextMinFrom. destruct (Z.eqb_spec (Heap.cnt w - 1) 0) as [E0|_]; [lia|].
    pose proof (scan_drop_spec bs (Z.to_nat (Z.max 0 (Z.of_nat x + 1)))) as S'.
    destruct (scan_from _ _) as [x'|].
    + destruct S' as (T1 & T2 & _). rewrite Nat2Z.id.
      assert (x' <> x) by lia. rewrite decide_False by assumption.
      unfold bs in T2. rewrite (bk_insert _ _ _ _ Hlen), decide_False in T2 by assumption. exact T2.
    + exfalso. assert (Hne : Heap.ids w' <> []).
      { intros E. pose proof (inv_cnt w' I') as Hc. rewrite E in Hc. simpl in Hc. lia. }
      destruct (ids_nonempty_bucket w' Hne) as [y Hy]. rewrite Hbk in Hy.
      destruct (decide (y = x)) as [->|Hyx]; [congruence|].
      pose proof (Hleast y Hy). apply Hy.
      specialize (S' y). unfold bs in S'. rewrite (bk_insert _ _ _ _ Hlen), decide_False in S' by assumption.
      apply S'. lia.
  - rewrite Nat2Z.id, decide_True by reflexivity. discriminate.
Qed.

Lemma heap_inv_b_complete w : HeapSpec.inv w -> cursor_ok w -> heap_inv_b w = true.
Proof.
  intros I C. pose proof (inv_nodup _ I) as Hnd. pose proof (inv_cnt _ I) as Hcnt.
  assert (Hb : forall n x, n ∈ Heap.bucket w x -> Heap.hinOf w n = Z.of_nat x)
    by (intros; apply hinOf_bucket; assumption).
  assert (Hin : forall n, n ∈ Heap.ids w -> exists x, n ∈ Heap.bucket w x) by (intros n; apply elem_ids).
  unfold heap_inv_b. rewrite !andb_true_iff. repeat split.
  - apply bool_decide_eq_true. exact Hnd.
  - apply Z.eqb_eq. exact Hcnt.
  - unfold Heap.sanity. apply andb_true_iff. split.
    + destruct (0 <? Heap.cnt w) eqn:Hp; [|reflexivity]. apply Z.ltb_lt in Hp.
      destruct (inv_cursor _ I Hp) as (H0 & _).
      apply andb_true_iff. split; [|apply Z.leb_le; exact H0].
      apply negb_true_iff, bool_decide_eq_false. apply C, Hp.
    + apply forallb_intro. intros [x b] Hxb. apply elem_of_lookup_imap in Hxb as (i & b0 & [= -> ->] & Hl).
      apply forallb_intro. intros n Hn. apply Z.eqb_eq. apply Hb. unfold Heap.bucket. rewrite Hl. exact Hn.
  - apply forallb_intro. intros n Hn. apply negb_true_iff, Z.eqb_neq. destruct (Hin n Hn) as [x Hx].
    rewrite (Hb n x Hx). unfold unset. lia.
  - apply bool_decide_eq_true. apply NoDup_Permutation.
    + apply NoDup_map_to_list.
    + apply NoDup_fmap_2; [|exact Hnd]. intros a b [= ->]. reflexivity.
    + intros [n z]. rewrite elem_of_map_to_list, elem_of_list_fmap, (inv_hin w I n z). split.
      * intros [Hz Hbz]. exists n. split; [|apply elem_ids; eauto]. f_equal. rewrite (Hb n _ Hbz). lia.
      * intros (n' & [= -> ->] & Hn'). destruct (Hin n' Hn') as [x Hx]. rewrite (Hb n' x Hx).
        split; [lia|]. rewrite Nat2Z.id. exact Hx.
  - destruct (0 <? Heap.cnt w) eqn:Hp; [|reflexivity]. apply Z.ltb_lt in Hp.
    destruct (inv_cursor _ I Hp) as (H0 & Hbk & Hmx). rewrite !andb_true_iff. repeat split.
    + apply Z.leb_le. exact H0.
    + apply Z.ltb_lt. exact Hmx.
    + apply forallb_intro. intros n Hn. destruct (Hin n Hn) as [x Hx]. rewrite (Hb n x Hx).
      assert (Heap.bucket w x <> []) as Hne by (intros E; rewrite E in Hx; inversion Hx).
      specialize (Hbk x Hne). apply andb_true_iff. split; apply Z.leb_le; lia.
Qed.

Lemma heap_inv_b_cursor w : heap_inv_b w = true -> cursor_ok w.
Proof.
  unfold heap_inv_b. rewrite !andb_true_iff. intros [[[[[_ _] Hsan] _] _] _] Hpos.
  unfold Heap.sanity in Hsan. apply andb_true_iff in Hsan as [Hs _].
  assert (0 <? Heap.cnt w = true) as Hp by (apply Z.ltb_lt; exact Hpos). rewrite Hp in Hs.
  apply andb_true_iff in Hs as [Hs _]. apply negb_true_iff, bool_decide_eq_false in Hs. exact Hs.
Qed.

(** * B. The bind-free fragment and the structural facts used below *)

Lemma bf_b_sound s : bf_b s = true -> BF s.
Proof.
  unfold bf_b. intros [Hb Hn]%andb_true_iff. apply bool_decide_eq_true in Hb. split; [exact Hb|].
  intros n x E. apply elem_of_map_to_list in E.
  exact (forallb_elem _ _ _ Hn E).
Qed.

Lemma bf_b_complete s : BF s -> bf_b s = true.
Proof.
  intros [Hb Hn]. unfold bf_b. apply andb_true_iff. split; [apply bool_decide_eq_true; exact Hb|].
  apply forallb_intro. intros [n x] E. apply elem_of_map_to_list in E. exact (Hn n x E).
Qed.

Lemma dummy_fields :
  nkind dummy = KReturn /\ decl dummy = [] /\ scope dummy = None /\ valid dummy = true
  /\ inGraph dummy = false /\ parents dummy = [] /\ children dummy = [] /\ value dummy = 0
  /\ recomputedAt dummy = 0 /\ changedAt dummy = 0 /\ observers dummy = [] /\ forceNec dummy = false.
Proof. repeat split. Qed.

Lemma bf_node_iff s n x : bf_node s n x = true <->
  (n < next s)%nat /\ isBindKind (nkind x) = false /\ scope x = None /\ valid x = true /\
  arity_ok x = true /\ cutalways_zero x = true /\ always_lt n x = true.
Proof.
  unfold bf_node. rewrite !andb_true_iff, Nat.ltb_lt, negb_true_iff, bool_decide_eq_true. tauto.
Qed.

Section BFfacts.
  Context (s : state) (HBF : BF s).

  Lemma bf_node_nd n : has s n -> bf_node s n (nd s n) = true.
  Proof. intros Hn. exact (proj2 HBF n _ (has_lookup _ _ Hn)). Qed.

  Lemma bf_has_lt n : has s n -> (n < next s)%nat.
  Proof. intros Hn. apply (bf_node_iff s n (nd s n)), bf_node_nd, Hn. Qed.

  Lemma bf_valid n : valid (nd s n) = true.
  Proof.
    destruct (decide (has s n)) as [Hn|Hn]; [|rewrite not_has_nd by exact Hn; reflexivity].
    apply (bf_node_iff s n (nd s n)), bf_node_nd, Hn.
  Qed.

  Lemma bf_scope n : scope (nd s n) = None.
  Proof.
    destruct (decide (has s n)) as [Hn|Hn]; [|rewrite not_has_nd by exact Hn; reflexivity].
    apply (bf_node_iff s n (nd s n)), bf_node_nd, Hn.
  Qed.

  Lemma bf_kind n : isBindKind (nkind (nd s n)) = false.
  Proof.
    destruct (decide (has s n)) as [Hn|Hn]; [|rewrite not_has_nd by exact Hn; reflexivity].
    apply (bf_node_iff s n (nd s n)), bf_node_nd, Hn.
  Qed.

  Lemma bf_arity n : arity_ok (nd s n) = true.
  Proof.
    destruct (decide (has s n)) as [Hn|Hn]; [|rewrite not_has_nd by exact Hn; reflexivity].
    apply (bf_node_iff s n (nd s n)), bf_node_nd, Hn.
  Qed.

  Lemma bf_cutalways n : cutalways_zero (nd s n) = true.
  Proof.
    destruct (decide (has s n)) as [Hn|Hn]; [|rewrite not_has_nd by exact Hn; reflexivity].
    apply (bf_node_iff s n (nd s n)), bf_node_nd, Hn.
  Qed.

  Lemma bf_always_lt n : always_lt n (nd s n) = true.
  Proof.
    destruct (decide (has s n)) as [Hn|Hn]; [|rewrite not_has_nd by exact Hn; reflexivity].
    apply (bf_node_iff s n (nd s n)), bf_node_nd, Hn.
  Qed.

  Lemma bf_allNodes n : n ∈ allNodes s <-> has s n.
  Proof. rewrite elem_allNodes. split; [tauto|]. intros H; split; [exact H|apply bf_has_lt, H]. Qed.
End BFfacts.

(** the structural facts about a quiescent state that the pass proofs use, as [Prop]s over all
    identifiers (a missing record reads as the dummy node, which satisfies them) *)
Record Struct (s : state) : Prop := {
  st_edge : forall a b, b ∈ children (nd s a) <-> a ∈ parents (nd s b);
  st_unreg : forall n, inGraph (nd s n) = false -> parents (nd s n) = [] /\ children (nd s n) = [];
  st_nec : forall n, inGraph (nd s n) = isNecessary (nd s n);
  st_par : forall n p, inGraph (nd s n) = true -> (p ∈ parents (nd s n) <-> p ∈ decl (nd s n));
  st_height : forall n p, inGraph (nd s n) = true -> p ∈ parents (nd s n) ->
                          height (nd s p) < height (nd s n);
  st_hnonneg : forall n, inGraph (nd s n) = true -> 0 <= height (nd s n)
}.

Lemma sortn_elem (l1 l2 : list nid) x : EngineWf.sortn l1 = EngineWf.sortn l2 -> (x ∈ l1 <-> x ∈ l2).
Proof.
  unfold EngineWf.sortn. intros H.
  rewrite <- (merge_sort_Permutation Nat.le l1), <- (merge_sort_Permutation Nat.le l2), H. reflexivity.
Qed.

Lemma wfb_Struct s : wfb s = true -> BF s -> Struct s.
Proof.
  intros Hwf HBF. destruct (wfb_all _ Hwf) as (He & Hu & Hn & Hp & Hh & _).
  assert (Hall : forall n, has s n -> n ∈ allNodes s) by (intros n; apply (bf_allNodes s HBF)).
  assert (Hunreg : forall n, inGraph (nd s n) = false -> parents (nd s n) = [] /\ children (nd s n) = []).
  { intros n Hg. destruct (decide (has s n)) as [Hhas|Hno]; [|rewrite not_has_nd by exact Hno; auto].
    pose proof (forallb_elem _ _ _ Hu (Hall _ Hhas)) as H. cbv beta zeta in H. rewrite Hg in H.
    simpl in H. rewrite !andb_true_iff in H. destruct H as [[[[H1 H2] _] _] _].
    apply bool_decide_eq_true in H1, H2. auto. }
  constructor.
  - intros a b. split.
    + intros Hb. assert (Ha : has s a) by (eapply has_children; eauto).
      pose proof (forallb_elem _ _ _ He (Hall _ Ha)) as H. cbv beta in H.
      apply andb_true_iff in H as [_ H]. pose proof (forallb_elem _ _ _ H Hb) as Hc. cbv beta in Hc.
      apply Nat.eqb_eq in Hc. apply count_pos_iff. rewrite <- Hc. apply count_pos_iff. exact Hb.
    + intros Ha. assert (Hb : has s b) by (eapply has_parents; eauto).
      pose proof (forallb_elem _ _ _ He (Hall _ Hb)) as H. cbv beta in H.
      apply andb_true_iff in H as [H _]. pose proof (forallb_elem _ _ _ H Ha) as Hc. cbv beta in Hc.
      apply Nat.eqb_eq in Hc. apply count_pos_iff. rewrite <- Hc. apply count_pos_iff. exact Ha.
  - exact Hunreg.
  - intros n. destruct (decide (has s n)) as [Hhas|Hno]; [|rewrite not_has_nd by exact Hno; reflexivity].
    pose proof (forallb_elem _ _ _ Hn (Hall _ Hhas)) as H. cbv beta in H.
    apply eqb_prop in H. exact H.
  - intros n p Hg. assert (Hhas : has s n) by (apply has_inGraph; exact Hg).
    pose proof (forallb_elem _ _ _ Hp (Hall _ Hhas)) as H. cbv beta zeta in H.
    rewrite Hg, (bf_valid s HBF) in H. simpl in H. apply bool_decide_eq_true in H.
    apply sortn_elem. exact H.
  - intros n p Hg Hpar. assert (Hhas : has s n) by (apply has_inGraph; exact Hg).
    pose proof (forallb_elem _ _ _ Hh (Hall _ Hhas)) as H. cbv beta zeta in H.
    rewrite Hg in H. simpl in H. rewrite !andb_true_iff in H. destruct H as [[_ H] _].
    pose proof (forallb_elem _ _ _ H Hpar) as Hlt. apply Z.ltb_lt in Hlt. exact Hlt.
  - intros n Hg. assert (Hhas : has s n) by (apply has_inGraph; exact Hg).
    pose proof (forallb_elem _ _ _ Hh (Hall _ Hhas)) as H. cbv beta zeta in H.
    rewrite Hg in H. simpl in H. rewrite !andb_true_iff in H. destruct H as [[[H _] _] _].
    apply Z.leb_le in H. exact H.
Qed.

(** ** Reachability and heights *)
Section StructFacts.
  Context (s : state) (HS : Struct s).

  Lemma edge_reg a b : edge s a b -> inGraph (nd s a) = true /\ inGraph (nd s b) = true.
  Proof.
    unfold edge. intros Hb. split.
    - destruct (inGraph (nd s a)) eqn:E; [reflexivity|].
      destruct (st_unreg _ HS a E) as [_ Hc]. rewrite Hc in Hb. inv Hb.
    - apply (st_edge _ HS) in Hb. destruct (inGraph (nd s b)) eqn:E; [reflexivity|].
      destruct (st_unreg _ HS b E) as [Hc _]. rewrite Hc in Hb. inv Hb.
  Qed.

  Lemma edge_height a b : edge s a b -> height (nd s a) < height (nd s b).
  Proof.
    intros Hb. destruct (edge_reg _ _ Hb) as [_ Hg]. apply (st_height _ HS); [exact Hg|].
    apply (st_edge _ HS). exact Hb.
  Qed.

  Lemma reach_height a b : reach s a b -> a = b \/ height (nd s a) < height (nd s b).
  Proof.
    induction 1 as [|a c b Hac Hcb IH]; [left; reflexivity|].
    right. pose proof (edge_height _ _ Hac). destruct IH as [->|IH]; lia.
  Qed.

  Lemma reach_reg a b : reach s a b -> inGraph (nd s a) = true -> inGraph (nd s b) = true.
  Proof.
    induction 1 as [|a c b Hac Hcb IH]; [auto|]. intros _. apply IH. apply (edge_reg _ _ Hac).
  Qed.

  Lemma reach_last a b : reach s a b -> a = b \/ exists x, reach s a x /\ edge s x b.
  Proof. intros H. apply rtc_inv_r in H as [->|(x & H1 & H2)]; eauto. Qed.

  Lemma parent_edge n p : p ∈ parents (nd s n) -> edge s p n.
  Proof. intros H. apply (st_edge _ HS). exact H. Qed.

  Lemma parent_not_reach n p : p ∈ parents (nd s n) -> ~ reach s n p.
  Proof.
    intros Hp Hr. pose proof (edge_height _ _ (parent_edge _ _ Hp)).
    destruct (reach_height _ _ Hr) as [->|]; lia.
  Qed.

  Lemma child_reg a b : b ∈ children (nd s a) -> inGraph (nd s b) = true.
  Proof. intros H. apply (edge_reg a b H). Qed.

  Lemma decl_parent n p : inGraph (nd s n) = true -> p ∈ decl (nd s n) -> edge s p n.
  Proof. intros Hg Hd. apply parent_edge, (st_par _ HS); assumption. Qed.
End StructFacts.

(** * C. Values: [valueOf] and [node_consistent] read kinds, declarations and values only *)

Lemma valueOf__ext fuel : forall s s' p,
  (forall n, nkind (nd s' n) = nkind (nd s n) /\ decl (nd s' n) = decl (nd s n)
             /\ value (nd s' n) = value (nd s n)) ->
  valueOf_ fuel s' p = valueOf_ fuel s p.
Proof.
  induction fuel as [|fuel IH]; intros s s' p H; [reflexivity|].
  simpl. destruct (H p) as (-> & -> & ->). destruct (nkind (nd s p)); try reflexivity.
  destruct (decl (nd s p)); [reflexivity|]. apply IH, H.
Qed.

Lemma valueOf_ext s s' p :
  (forall n, nkind (nd s' n) = nkind (nd s n) /\ decl (nd s' n) = decl (nd s n)
             /\ value (nd s' n) = value (nd s n)) ->
  valueOf s' p = valueOf s p.
Proof. apply valueOf__ext. Qed.

(* only [m]'s value differs: [Value()] of [p] differs only if [p] is [m] or reads through to it *)
Lemma valueOf__changed fuel : forall s s' m p,
  Struct s ->
  (forall n, nkind (nd s' n) = nkind (nd s n) /\ decl (nd s' n) = decl (nd s n)) ->
  (forall n, n <> m -> value (nd s' n) = value (nd s n)) ->
  inGraph (nd s p) = true ->
  valueOf_ fuel s' p <> valueOf_ fuel s p ->
  p = m \/ (nkind (nd s p) = KAlways /\ reach s m p).
Proof.
  induction fuel as [|fuel IH]; intros s s' m p HS Hk Hv Hg Hne; [simpl in Hne; congruence|].
  simpl in Hne. destruct (Hk p) as [Ek Ed]. rewrite Ek, Ed in Hne.
  assert (Hplain : value (nd s' p) <> value (nd s p) -> p = m \/ (nkind (nd s p) = KAlways /\ reach s m p)).
  { intros Hx. left. destruct (decide (p = m)); [assumption|]. exfalso. apply Hx, Hv. assumption. }
  destruct (nkind (nd s p)) eqn:K; try (apply Hplain; exact Hne).
  destruct (decl (nd s p)) as [|a l] eqn:D; [apply Hplain; exact Hne|].
  right. split; [reflexivity|].
  assert (Hap : edge s a p) by (apply decl_parent; [assumption..|rewrite D; left]).
  destruct (IH s s' m a HS Hk Hv (proj1 (edge_reg s HS _ _ Hap)) Hne) as [->|[_ Hr]].
  - apply rtc_once. exact Hap.
  - eapply rtc_r; eauto.
Qed.

Lemma valueOf_changed s s' m p :
  Struct s ->
  (forall n, nkind (nd s' n) = nkind (nd s n) /\ decl (nd s' n) = decl (nd s n)) ->
  (forall n, n <> m -> value (nd s' n) = value (nd s n)) ->
  inGraph (nd s p) = true ->
  p <> m -> ~ (nkind (nd s p) = KAlways /\ reach s m p) ->
  valueOf s' p = valueOf s p.
Proof.
  intros HS Hk Hv Hg Hpm Hna. destruct (decide (valueOf s' p = valueOf s p)) as [|Hne]; [assumption|].
  exfalso. destruct (valueOf__changed _ s s' m p HS Hk Hv Hg Hne); tauto.
Qed.

(** [node_consistent] with the node's held value as a parameter *)
Definition consistent_val (s : state) (n : nid) (v : Z) : bool :=
  let x := nd s n in
  match nkind x with
  | KVar _ | KReturn | KAlways | KBindLhs _ => true
  | KMap f => match decl x with [a] => v =? ap1 f (valueOf s a) | _ => false end
  | KMap2 f => match decl x with [a; b] => v =? ap2 f (valueOf s a) (valueOf s b) | _ => false end
  | KMapN f => v =? apN f (map (valueOf s) (decl x))
  | KCutoff c => match decl x with
                 | [a] => match c with
                          | CEq | CNever => v =? valueOf s a
                          | CAlways => v =? 0
                          | CParity => true
                          end
                 | _ => false
                 end
  | KBindMain b => false
  end.

Lemma node_consistent_val s n :
  isBindKind (nkind (nd s n)) = false -> node_consistent s n = consistent_val s n (value (nd s n)).
Proof.
  unfold node_consistent, consistent_val. destruct (nkind (nd s n)); simpl; try reflexivity; discriminate.
Qed.

Lemma consistent_val_ext s s' n v :
  nkind (nd s' n) = nkind (nd s n) -> decl (nd s' n) = decl (nd s n) ->
  (forall p, p ∈ decl (nd s n) -> valueOf s' p = valueOf s p) ->
  consistent_val s' n v = consistent_val s n v.
Proof.
  intros Ek Ed Hv. unfold consistent_val. rewrite Ek, Ed.
  destruct (nkind (nd s n)); try reflexivity.
  - destruct (decl (nd s n)) as [|a [|b l]]; try reflexivity. rewrite Hv by left. reflexivity.
  - destruct (decl (nd s n)) as [|a [|b [|c l]]]; try reflexivity.
    rewrite (Hv a), (Hv b) by (repeat constructor). reflexivity.
  - f_equal. f_equal. apply map_ext_in. intros p Hp. apply Hv, elem_of_list_In, Hp.
  - destruct (decl (nd s n)) as [|a [|b l]]; try reflexivity. rewrite Hv by left. reflexivity.
Qed.

(** * D. The frame of a bind-free pass: what no step of it changes *)
Definition skel (x : node) : node :=
  x <| recomputedAt := 0 |> <| changedAt := 0 |> <| value := 0 |> <| pending := None |>.

Record sframe (s s' : state) : Prop := {
  sf_nd : forall n, skel (nd s' n) = skel (nd s n);
  sf_has : forall n, has s' n <-> has s n;
  sf_binds : binds s' = binds s;
  sf_next : next s' = next s;
  sf_reg : reg s' = reg s;
  sf_obs : obs s' = obs s;
  sf_adj : adj s' = adj s;
  sf_invq : invq s' = invq s;
  sf_stabNum : stabNum s' = stabNum s;
  sf_status : status s' = status s;
  sf_numNodes : numNodes s' = numNodes s;
  sf_setDuring : setDuring s' = setDuring s;
  sf_setRemoved : setRemoved s' = setRemoved s;
  sf_maxHeight : maxHeight s' = maxHeight s
}.

Lemma sframe_refl s : sframe s s.
Proof. constructor; reflexivity. Qed.

Lemma sframe_trans s1 s2 s3 : sframe s1 s2 -> sframe s2 s3 -> sframe s1 s3.
Proof.
  intros A B. constructor; intros; try (etransitivity; [apply B|apply A]).
Qed.

Section sframe_proj.
  Context (s s' : state) (F : sframe s s').
  Local Ltac pj f := intros n; exact (f_equal f (sf_nd _ _ F n)).
  Lemma sf_nkind : forall n, nkind (nd s' n) = nkind (nd s n). Proof. pj nkind. Qed.
  Lemma sf_decl : forall n, decl (nd s' n) = decl (nd s n). Proof. pj decl. Qed.
  Lemma sf_scope : forall n, scope (nd s' n) = scope (nd s n). Proof. pj scope. Qed.
  Lemma sf_height : forall n, height (nd s' n) = height (nd s n). Proof. pj height. Qed.
  Lemma sf_hAdj : forall n, hAdj (nd s' n) = hAdj (nd s n). Proof. pj hAdj. Qed.
  Lemma sf_setAt : forall n, setAt (nd s' n) = setAt (nd s n). Proof. pj setAt. Qed.
  Lemma sf_parents : forall n, parents (nd s' n) = parents (nd s n). Proof. pj parents. Qed.
  Lemma sf_children : forall n, children (nd s' n) = children (nd s n). Proof. pj children. Qed.
  Lemma sf_observers : forall n, observers (nd s' n) = observers (nd s n). Proof. pj observers. Qed.
  Lemma sf_valid : forall n, valid (nd s' n) = valid (nd s n). Proof. pj valid. Qed.
  Lemma sf_forceNec : forall n, forceNec (nd s' n) = forceNec (nd s n). Proof. pj forceNec. Qed.
  Lemma sf_inGraph : forall n, inGraph (nd s' n) = inGraph (nd s n). Proof. pj inGraph. Qed.

  Lemma sf_isNecessary n : isNecessary (nd s' n) = isNecessary (nd s n).
  Proof. apply isNecessary_ext; [apply sf_forceNec|apply sf_children|apply sf_observers]. Qed.

  Lemma sf_edge a b : edge s' a b <-> edge s a b.
  Proof. unfold edge. rewrite sf_children. reflexivity. Qed.

  Lemma sf_reach a b : reach s' a b <-> reach s a b.
  Proof.
    unfold reach. split; induction 1; try apply rtc_refl; eapply rtc_l; eauto; apply sf_edge; auto.
  Qed.

  Lemma sf_Struct : Struct s -> Struct s'.
  Proof.
    intros HS. constructor; intros *.
    - rewrite sf_children, sf_parents. apply (st_edge _ HS).
    - rewrite sf_inGraph, sf_parents, sf_children. apply (st_unreg _ HS).
    - rewrite sf_inGraph, sf_isNecessary. apply (st_nec _ HS).
    - rewrite sf_inGraph, sf_parents, sf_decl. apply (st_par _ HS).
    - rewrite sf_inGraph, sf_parents, !sf_height. apply (st_height _ HS).
    - rewrite sf_inGraph, sf_height. apply (st_hnonneg _ HS).
  Qed.
End sframe_proj.

(** * E. The children loop of [recomputeNodeSerial] *)

(** the part of [shouldRecomputeChild] that does not read the heap *)
Definition owedC (s : state) (c : nid) : bool :=
  let x := nd s c in
  isNecessary x && valid x &&
  (if negb (hasStaler (nkind x)) && (recomputedAt x <? stabNum s) then true else isStale s c).

Lemma src_eq s c : shouldRecomputeChild s c = negb (inHeap s c) && owedC s c.
Proof.
  unfold shouldRecomputeChild, owedC. destruct (inHeap s c), (isNecessary (nd s c)), (valid (nd s c));
    reflexivity.
Qed.

Lemma owedC_nodes s s' c : nodes s' = nodes s -> stabNum s' = stabNum s -> owedC s' c = owedC s c.
Proof.
  intros Hn Hk. unfold owedC, isStale, staleWrtParents, nd. rewrite Hn, Hk. reflexivity.
Qed.

Lemma add_ok_nonneg w n h w' : Heap.add w n h = Ok w' -> 0 <= h.
Proof. unfold Heap.add. destruct (Z.ltb_spec h 0); [discriminate|lia]. Qed.

Lemma heapAdd_ok_nonneg s n s' : heapAdd s n = Ok s' -> 0 <= height (nd s n).
Proof. intros H. apply heapAdd_inv in H as (w & E & _). eapply add_ok_nonneg; eauto. Qed.

Definition clBody : state * option nid -> nid -> res (state * option nid) :=
  fun '(s, held) c =>
    if bool_decide (held = Some c) then Ok (s, held)
    else if negb (shouldRecomputeChild s c) then Ok (s, held)
    else s <-! (match held with Some h => heapAdd s h | None => Ok s end); Ok (s, Some c).

Lemma childrenLoop_eq s n : childrenLoop s n = rfold clBody (children (nd s n)) (s, None).
Proof. reflexivity. Qed.

Record clPost (l : list nid) (s : state) (held : option nid) (s' : state) (held' : option nid) : Prop := {
  cl_only : only_heap s s';
  cl_hinv : HeapSpec.inv (heap s');
  cl_cur : cursor_ok (heap s) -> cursor_ok (heap s');
  cl_held : forall h, held' = Some h -> h ∉ Heap.ids (heap s');
  cl_mono : forall x, x ∈ Heap.ids (heap s) -> x ∈ Heap.ids (heap s');
  cl_mem : forall x, (x ∈ Heap.ids (heap s') \/ held' = Some x) <->
                     (x ∈ Heap.ids (heap s) \/ held = Some x \/ (x ∈ l /\ owedC s x = true));
  cl_old : forall x, x ∈ Heap.ids (heap s) -> Heap.hinOf (heap s') x = Heap.hinOf (heap s) x;
  cl_new : forall x, x ∈ Heap.ids (heap s') -> x ∉ Heap.ids (heap s) ->
                     Heap.hinOf (heap s') x = height (nd s x)
}.

Lemma rfold_cons {A S} (f : S -> A -> res S) a l s : rfold f (a :: l) s = (s' <-! f s a; rfold f l s').
Proof. reflexivity. Qed.

Lemma clBody_spec s held c s1 held1 :
  HeapSpec.inv (heap s) -> (forall h, held = Some h -> h ∉ Heap.ids (heap s)) ->
  clBody (s, held) c = Ok (s1, held1) -> clPost [c] s held s1 held1.
Proof.
  intros I Hh H. unfold clBody in H.
  assert (Hsame : (c ∈ Heap.ids (heap s) \/ held = Some c \/ owedC s c = false) ->
                  clPost [c] s held s held).
  { intros Hc. constructor; auto using only_heap_refl.
    - intros x. split; [tauto|]. intros [?|[?|[Hx Ho]]]; [tauto..|].
      apply elem_of_list_singleton in Hx as ->. destruct Hc as [?|[?|Hc]]; [tauto..|congruence].
    - tauto. }
  destruct (bool_decide (held = Some c)) eqn:Eh.
  { injection H as <- <-. apply bool_decide_eq_true in Eh. apply Hsame. tauto. }
  apply bool_decide_eq_false in Eh.
  rewrite src_eq in H. destruct (inHeap s c) eqn:Ein.
  { simpl in H. injection H as <- <-. apply Hsame. left. apply inHeap_iff0; assumption. }
  destruct (owedC s c) eqn:Eo; simpl in H.
  2:{ injection H as <- <-. apply Hsame. tauto. }
  assert (Hcn : c ∉ Heap.ids (heap s)) by (apply inHeap_false_iff0; assumption).
  destruct held as [h|].
  - destruct (heapAdd s h) as [s2| |] eqn:Ea; simpl in H; try discriminate. injection H as <- <-.
    assert (Hhn : h ∉ Heap.ids (heap s)) by (apply Hh; reflexivity).
    destruct (heapAdd_spec0 s h s2 I (proj2 (inHeap_false_iff0 s h I) Hhn) (heapAdd_ok_nonneg _ _ _ Ea) Ea)
      as (Ho & I2 & Hp & Hhin).
    assert (Hne : c <> h) by congruence.
    assert (Hcur : cursor_ok (heap s) -> cursor_ok (heap s2)).
    { intros C. apply heapAdd_inv in Ea as (w & Ew & ->). exact (cursor_add _ _ _ _ I C Ew). }
    constructor; auto.
    + intros h' [= <-]. rewrite Hp, elem_of_cons. tauto.
    + intros x Hx. rewrite Hp, elem_of_cons. tauto.
    + intros x. rewrite Hp, elem_of_cons, elem_of_list_singleton. split.
      * intros [[->|?]|[= ->]]; auto.
      * intros [?|[[= ->]|[-> _]]]; auto.
    + intros x Hx. rewrite Hhin. destruct (decide (x = h)) as [->|]; [contradiction|reflexivity].
    + intros x Hx Hnx. rewrite Hp, elem_of_cons in Hx. destruct Hx as [->|?]; [|contradiction].
      rewrite Hhin, decide_True by reflexivity. reflexivity.
  - injection H as <- <-. constructor; auto using only_heap_refl.
    + intros h [= <-]. exact Hcn.
    + intros x. rewrite elem_of_list_singleton. split.
      * intros [?|[= ->]]; auto.
      * intros [?|[?|[-> _]]]; auto. discriminate.
    + tauto.
Qed.

Lemma clLoop_spec l : forall s held s' held',
  HeapSpec.inv (heap s) -> (forall h, held = Some h -> h ∉ Heap.ids (heap s)) ->
  rfold clBody l (s, held) = Ok (s', held') -> clPost l s held s' held'.
Proof.
  induction l as [|c l IH]; intros s held s' held' I Hh H.
  - injection H as <- <-. constructor; auto using only_heap_refl.
    + intros x. split; [tauto|]. intros [?|[?|[Hx _]]]; [tauto..|inv Hx].
    + tauto.
  - rewrite rfold_cons in H.
    destruct (clBody (s, held) c) as [[s1 held1]| |] eqn:E1; simpl in H; try discriminate.
    pose proof (clBody_spec _ _ _ _ _ I Hh E1) as P1.
    pose proof (IH s1 held1 s' held' (cl_hinv _ _ _ _ _ P1) (cl_held _ _ _ _ _ P1) H) as P2.
    assert (Hn : nodes s1 = nodes s) by (apply oh_nodes, P1).
    assert (Hk : stabNum s1 = stabNum s) by (apply oh_stabNum, P1).
    constructor.
    + eapply only_heap_trans; [apply P1|apply P2].
    + apply P2.
    + intros C. apply P2, P1, C.
    + apply P2.
    + intros x Hx. apply P2, P1, Hx.
    + intros x. rewrite (cl_mem _ _ _ _ _ P2 x).
      rewrite (owedC_nodes s s1 x Hn Hk).
      pose proof (cl_mem _ _ _ _ _ P1 x) as M1. rewrite elem_of_list_singleton in M1.
      rewrite elem_of_cons. tauto.
    + intros x Hx. rewrite (cl_old _ _ _ _ _ P2) by (apply P1, Hx). apply P1, Hx.
    + intros x Hx Hnx. destruct (decide (x ∈ Heap.ids (heap s1))) as [H1|H1].
      * rewrite (cl_old _ _ _ _ _ P2) by exact H1. apply P1; assumption.
      * rewrite (cl_new _ _ _ _ _ P2) by assumption. f_equal. apply oh_nd, P1.
Qed.

(** ** The tail of a successful recompute: stamp [changedAt], queue the owed children *)
Definition tailR (s : state) (n : nid) : res (state * option err * option nid) :=
  let s := upd s n (set changedAt (fun _ => stabNum s)) in
  let s := insert_handler n s in
  '(s, held) <-! childrenLoop s n;
  '(s, imm) <-! (match held with
                 | None => Ok (s, None)
                 | Some h => if canRecomputeImmediately s n h then Ok (s, Some h)
                             else s <-! heapAdd s h; Ok (s, None)
                 end);
  let s := foldl (fun s o => insert_handler o s) s (observers (nd s n)) in
  Ok (s, None, imm).

Record tailPost (s3 : state) (m : nid) (s' : state) (imm : option nid) : Prop := {
  tp_shape : exists w h, s' = (upd s3 m (set changedAt (fun _ => stabNum s3))) <| heap := w |> <| handlers := h |>;
  tp_hinv : HeapSpec.inv (heap s');
  tp_cur : cursor_ok (heap s3) -> cursor_ok (heap s');
  tp_imm : forall c, imm = Some c -> c ∉ Heap.ids (heap s') /\ canRecomputeImmediately s' m c = true;
  tp_mono : forall x, x ∈ Heap.ids (heap s3) -> x ∈ Heap.ids (heap s');
  tp_mem : forall x, (x ∈ Heap.ids (heap s') \/ imm = Some x) <->
                     (x ∈ Heap.ids (heap s3) \/ (x ∈ children (nd s3 m) /\ owedC s' x = true));
  tp_old : forall x, x ∈ Heap.ids (heap s3) -> Heap.hinOf (heap s') x = Heap.hinOf (heap s3) x;
  tp_new : forall x, x ∈ Heap.ids (heap s') -> x ∉ Heap.ids (heap s3) ->
                     Heap.hinOf (heap s') x = height (nd s3 x)
}.

Lemma insert_handlers_shape l : forall s, exists h, foldl (fun s o => insert_handler o s) s l = s <| handlers := h |>.
Proof.
  induction l as [|o l IH]; intros s; simpl.
  - exists (handlers s). destruct s; reflexivity.
  - destruct (IH (insert_handler o s)) as [h ->]. exists h. destruct s; reflexivity.
Qed.

Lemma tailR_spec s3 m s' e imm :
  HeapSpec.inv (heap s3) -> tailR s3 m = Ok (s', e, imm) -> e = None /\ tailPost s3 m s' imm.
Proof.
  intros I H. unfold tailR in H.
  set (s4 := insert_handler m (upd s3 m (set changedAt (fun _ => stabNum s3)))) in *.
  assert (E4 : s4 = (upd s3 m (set changedAt (fun _ => stabNum s3))) <| handlers := handlers s4 |>).
  { unfold s4, insert_handler. generalize (upd s3 m (set changedAt (fun _ => stabNum s3))).
    intros X. destruct X; reflexivity. }
  assert (Hnd4 : forall x, nd s4 x = nd (upd s3 m (set changedAt (fun _ => stabNum s3))) x) by reflexivity.
  assert (Hheap4 : heap s4 = heap s3) by reflexivity.
  rewrite childrenLoop_eq in H.
  destruct (rfold clBody (children (nd s4 m)) (s4, None)) as [[s5 held]| |] eqn:E5; simpl in H; try discriminate.
  assert (P : clPost (children (nd s4 m)) s4 None s5 held).
  { apply clLoop_spec; [rewrite Hheap4; exact I|discriminate|exact E5]. }
  assert (Hch : children (nd s4 m) = children (nd s3 m)).
  { rewrite Hnd4. apply (nd_upd_proj children). reflexivity. }
  assert (Hhe : forall x, height (nd s4 x) = height (nd s3 x)).
  { intros x. rewrite Hnd4. apply (nd_upd_proj height). reflexivity. }
  rewrite Hch in P. destruct P as [Po Pi Pcur Ph Pmono Pm Pold Pnew]. rewrite Hheap4 in *.
  assert (E5' : s5 = (upd s3 m (set changedAt (fun _ => stabNum s3))) <| heap := heap s5 |> <| handlers := handlers s4 |>).
  { transitivity (s4 <| heap := heap s5 |>); [exact Po|]. rewrite E4.
    generalize (handlers s4). generalize (upd s3 m (set changedAt (fun _ => stabNum s3))).
    intros X hx. destruct X; reflexivity. }
  (* the final insertion of the observers' handlers *)
  assert (Hfin : forall s6, (exists w, s6 = s5 <| heap := w |>) ->
            foldl (fun s o => insert_handler o s) s6 (observers (nd s6 m)) = s' ->
            exists w h, s' = (upd s3 m (set changedAt (fun _ => stabNum s3))) <| heap := w |> <| handlers := h |>
                        /\ heap s' = heap s6 /\ nodes s' = nodes s5 /\ stabNum s' = stabNum s5
                        /\ (forall c, canRecomputeImmediately s' m c = canRecomputeImmediately s6 m c)).
  { intros s6 [w ->] <-. destruct (insert_handlers_shape (observers (nd (s5 <| heap := w |>) m)) (s5 <| heap := w |>)) as [h ->].
    exists w, h. split.
    - rewrite E5'. generalize (handlers s4). generalize (upd s3 m (set changedAt (fun _ => stabNum s3))).
      intros X hx. destruct X; reflexivity.
    - repeat split. }
  assert (Hn5 : nodes s5 = nodes s4) by (apply oh_nodes, Po).
  assert (Hk5 : stabNum s5 = stabNum s4) by (apply oh_stabNum, Po).
  assert (Hown : forall s'' x, nodes s'' = nodes s5 -> stabNum s'' = stabNum s5 -> owedC s4 x = owedC s'' x).
  { intros s'' x Hn Hk. symmetry. apply owedC_nodes; congruence. }
  assert (Pm' : forall x, (x ∈ Heap.ids (heap s5) \/ held = Some x) <->
                          (x ∈ Heap.ids (heap s3) \/ (x ∈ children (nd s3 m) /\ owedC s4 x = true))).
  { intros x. rewrite (Pm x). split; [intros [?|[?|?]]|intros [?|?]]; auto; discriminate. }
  clear Pm.
  destruct held as [h|].
  - destruct (canRecomputeImmediately s5 m h) eqn:Ecan; simpl in H.
    + injection H as H <- <-. split; [reflexivity|].
      destruct (Hfin s5 ltac:(exists (heap s5); destruct s5; reflexivity) H)
        as (w & hh & Es & Hh' & Hn' & Hk' & Hcan).
      constructor.
      * eauto.
      * rewrite Hh'. exact Pi.
      * rewrite Hh'. exact Pcur.
      * intros c [= <-]. rewrite Hh', Hcan. split; [apply Ph; reflexivity|exact Ecan].
      * intros x Hx. rewrite Hh'. apply Pmono, Hx.
      * intros x. rewrite Hh', <- (Hown s' x Hn' Hk'). apply Pm'.
      * intros x Hx. rewrite Hh'. apply Pold, Hx.
      * intros x Hx Hnx. rewrite Hh' in Hx |- *. rewrite Pnew by assumption. apply Hhe.
    + destruct (heapAdd s5 h) as [s6| |] eqn:Ea; simpl in H; try discriminate.
      injection H as H <- <-. split; [reflexivity|].
      assert (Hhn : h ∉ Heap.ids (heap s5)) by (apply Ph; reflexivity).
      destruct (heapAdd_spec0 s5 h s6 Pi (proj2 (inHeap_false_iff0 s5 h Pi) Hhn) (heapAdd_ok_nonneg _ _ _ Ea) Ea)
        as (Ho6 & I6 & Hp6 & Hhin6).
      destruct (Hfin s6 ltac:(exists (heap s6); exact Ho6) H)
        as (w & hh & Es & Hh' & Hn' & Hk' & Hcan).
      constructor.
      * eauto.
      * rewrite Hh'. exact I6.
      * rewrite Hh'. intros C. apply heapAdd_inv in Ea as (w6 & Ew6 & ->). exact (cursor_add _ _ _ _ Pi (Pcur C) Ew6).
      * discriminate.
      * intros x Hx. rewrite Hh', Hp6, elem_of_cons. right. apply Pmono, Hx.
      * intros x. rewrite Hh', Hp6, elem_of_cons, <- (Hown s' x Hn' Hk'). pose proof (Pm' x) as M.
        split.
        -- intros [[->|Hx]|?]; [|..|discriminate].
           ++ apply M. right. reflexivity.
           ++ apply M. left. exact Hx.
        -- intros Hx. apply M in Hx as [Hx|[= ->]]; auto.
      * intros x Hx. rewrite Hh', Hhin6. destruct (decide (x = h)) as [->|].
        -- exfalso. apply Hhn, Pmono, Hx.
        -- apply Pold, Hx.
      * intros x Hx Hnx. rewrite Hh' in Hx |- *. rewrite Hp6, elem_of_cons in Hx. rewrite Hhin6.
        destruct (decide (x = h)) as [->|Hne].
        -- rewrite (oh_nd _ _ Po). apply Hhe.
        -- destruct Hx as [?|Hx]; [contradiction|]. rewrite Pnew by assumption. apply Hhe.
  - simpl in H. injection H as H <- <-. split; [reflexivity|].
    destruct (Hfin s5 ltac:(exists (heap s5); destruct s5; reflexivity) H)
      as (w & hh & Es & Hh' & Hn' & Hk' & Hcan).
    constructor.
    + eauto.
    + rewrite Hh'. exact Pi.
    + rewrite Hh'. exact Pcur.
    + discriminate.
    + intros x Hx. rewrite Hh'. apply Pmono, Hx.
    + intros x. rewrite Hh', <- (Hown s' x Hn' Hk'). pose proof (Pm' x) as M.
      split; [intros [?|?]; [|discriminate]|intros Hx]; [tauto|].
      apply M in Hx as [?|?]; [auto|discriminate].
    + intros x Hx. rewrite Hh'. apply Pold, Hx.
    + intros x Hx Hnx. rewrite Hh' in Hx |- *. rewrite Pnew by assumption. apply Hhe.
Qed.

(** * F. What one call of [recomputeNodeSerial] does in a bind-free pass without a plan *)

Definition same_fields (s s' : state) : Prop :=
  binds s' = binds s /\ next s' = next s /\ reg s' = reg s /\ obs s' = obs s /\ adj s' = adj s /\
  invq s' = invq s /\ stabNum s' = stabNum s /\ status s' = status s /\ numNodes s' = numNodes s /\
  setDuring s' = setDuring s /\ setRemoved s' = setRemoved s /\ maxHeight s' = maxHeight s.

Lemma same_fields_refl s : same_fields s s.
Proof. repeat split. Qed.

Lemma same_fields_trans s1 s2 s3 : same_fields s1 s2 -> same_fields s2 s3 -> same_fields s1 s3.
Proof. unfold same_fields. intuition congruence. Qed.

Definition new_events (s : state) (m : nid) (v : Z) (evs : list event) : Prop :=
  evs = [] \/ evs = [EvInvoked m (map (valueOf s) (decl (nd s m))) v] \/
  exists o, evs = [EvCutoff m o v false].

(* the state after the stamp and the node's own stabilize, before the tail *)
Record pre3 (s : state) (m : nid) (v : Z) (evs : list event) (s3 : state) : Prop := {
  p3_other : forall n, n <> m -> nd s3 n = nd s n;
  p3_self : nd s3 m = nd s m <| recomputedAt := stabNum s |> <| value := v |>;
  p3_has : forall n, has s3 n <-> has s n;
  p3_fields : same_fields s s3;
  p3_heap : heap s3 = heap s;
  p3_log : log s3 = evs ++ log s
}.

Record runPost (s : state) (m : nid) (s' : state) (imm : option nid) : Prop := {
  rp_changed : changedAt (nd s' m) = stabNum s;
  rp_val : consistent_val s m (value (nd s' m)) = true;
  rp_log : exists evs, log s' = evs ++ log s /\ new_events s m (value (nd s' m)) evs;
  rp_imm : forall c, imm = Some c -> c ∉ Heap.ids (heap s') /\ canRecomputeImmediately s' m c = true;
  rp_mono : forall x, x ∈ Heap.ids (heap s) -> x ∈ Heap.ids (heap s');
  rp_mem : forall x, (x ∈ Heap.ids (heap s') \/ imm = Some x) <->
                     (x ∈ Heap.ids (heap s) \/ (x ∈ children (nd s m) /\ owedC s' x = true));
  rp_old : forall x, x ∈ Heap.ids (heap s) -> Heap.hinOf (heap s') x = Heap.hinOf (heap s) x;
  rp_new : forall x, x ∈ Heap.ids (heap s') -> x ∉ Heap.ids (heap s) ->
                     Heap.hinOf (heap s') x = height (nd s x)
}.

Record cutPost (s : state) (m : nid) (s' : state) (imm : option nid) : Prop := {
  cp_kind : exists c0, nkind (nd s m) = KCutoff c0 /\
              apCut c0 (value (nd s m)) (valueOf s (hd 0%nat (decl (nd s m)))) = true /\
              log s' = EvCutoff m (value (nd s m)) (valueOf s (hd 0%nat (decl (nd s m)))) true :: log s;
  cp_value : value (nd s' m) = value (nd s m);
  cp_changed : changedAt (nd s' m) = changedAt (nd s m);
  cp_heap : heap s' = heap s;
  cp_imm : imm = None
}.

Definition stamp (k v c : Z) (x : node) : node :=
  x <| recomputedAt := k |> <| value := v |> <| changedAt := c |>.

Record stepPost (s : state) (m : nid) (s' : state) (imm : option nid) : Prop := {
  sp_other : forall n, n <> m -> nd s' n = nd s n;
  sp_self : nd s' m = stamp (stabNum s) (value (nd s' m)) (changedAt (nd s' m)) (nd s m);
  sp_has : forall n, has s' n <-> has s n;
  sp_fields : same_fields s s';
  sp_hinv : HeapSpec.inv (heap s');
  sp_cur : cursor_ok (heap s) -> cursor_ok (heap s');
  sp_case : cutPost s m s' imm \/ runPost s m s' imm
}.

Lemma run_post s m v evs s3 s' e imm :
  has s m -> HeapSpec.inv (heap s) -> pre3 s m v evs s3 ->
  consistent_val s m v = true -> new_events s m v evs ->
  tailR s3 m = Ok (s', e, imm) ->
  e = None /\ stepPost s m s' imm.
Proof.
  intros Hm I P3 Hv Hev H. destruct P3 as [Po Ps Ph Pf Pheap Plog].
  assert (Hm3 : has s3 m) by (apply Ph; exact Hm).
  destruct (tailR_spec s3 m s' e imm ltac:(rewrite Pheap; exact I) H) as [-> T]. split; [reflexivity|].
  destruct T as [(w & h & Es) Thinv Tcur Timm Tmono Tmem Told Tnew].
  assert (Hnd : forall n, nd s' n = nd (upd s3 m (set changedAt (fun _ => stabNum s3))) n).
  { intros n. rewrite Es. reflexivity. }
  assert (Hk3 : stabNum s3 = stabNum s) by apply Pf.
  assert (Hself : nd s' m = nd s m <| recomputedAt := stabNum s |> <| value := v |> <| changedAt := stabNum s |>).
  { rewrite Hnd, nd_upd_eq by exact Hm3. rewrite Ps, Hk3. reflexivity. }
  assert (Hother : forall n, n <> m -> nd s' n = nd s n).
  { intros n Hn. rewrite Hnd, nd_upd_ne by exact Hn. apply Po, Hn. }
  rewrite Pheap in *.
  assert (Hch : children (nd s3 m) = children (nd s m)) by (rewrite Ps; reflexivity).
  assert (Hhe : forall x, height (nd s3 x) = height (nd s x)).
  { intros x. destruct (decide (x = m)) as [->|Hx]; [rewrite Ps; reflexivity|rewrite Po by exact Hx; reflexivity]. }
  constructor.
  - exact Hother.
  - rewrite Hself. reflexivity.
  - intros n. rewrite Es. change (has (upd s3 m (set changedAt (fun _ => stabNum s3))) n <-> has s n).
    rewrite has_upd. apply Ph.
  - rewrite Es. eapply same_fields_trans; [exact Pf|]. repeat split.
  - exact Thinv.
  - exact Tcur.
  - right. constructor.
    + rewrite Hself. reflexivity.
    + rewrite Hself. exact Hv.
    + exists evs. split; [rewrite Es; exact Plog|]. rewrite Hself. exact Hev.
    + exact Timm.
    + exact Tmono.
    + intros x. rewrite (Tmem x), Hch. reflexivity.
    + exact Told.
    + intros x Hx Hnx. rewrite Tnew by assumption. apply Hhe.
Qed.

Local Arguments valueOf : simpl never.

Lemma rns_unfold fuel s n :
  recomputeNodeSerial fuel [] s n =
  let x := nd s n in
  let s1 := upd s n (set recomputedAt (fun _ => stabNum s)) in
  let after := fun (r : res (state * option err)) =>
    '(s3, e) <-! r;
    match e with
    | Some (EPanic m) => Ok (s3, Some (EPanic m), None)
    | Some e => s <-! recomputeFailed s3 n (recomputedAt x); Ok (errorHandlers s n, Some e, None)
    | None => tailR s3 n
    end in
  match nkind x with
  | KCutoff c =>
    let old := value x in
    let new := valueOf s1 (hd 0%nat (decl x)) in
    let s2 := emit (EvCutoff n old new (apCut c old new)) s1 in
    if apCut c old new then Ok (s2, None, None) else after (stabilizeNode fuel [] s2 n)
  | _ => after (stabilizeNode fuel [] s1 n)
  end.
Proof.
  unfold recomputeNodeSerial, tailR. cbv zeta. destruct (nkind (nd s n)); reflexivity.
Qed.

Lemma valueOf_stamped s m f p :
  (forall x, nkind (f x) = nkind x /\ decl (f x) = decl x /\ value (f x) = value x) ->
  valueOf (upd s m f) p = valueOf s p.
Proof.
  intros Hf. apply valueOf_ext. intros n.
  rewrite (nd_upd_proj nkind), (nd_upd_proj decl), (nd_upd_proj value) by (intros; apply Hf). auto.
Qed.

Lemma rns_step fuel s m s' e imm :
  BF s -> has s m -> HeapSpec.inv (heap s) ->
  recomputeNodeSerial fuel [] s m = Ok (s', e, imm) ->
  e = None /\ stepPost s m s' imm.
Proof.
  intros HBF Hm I H. rewrite rns_unfold in H. cbv zeta in H.
  set (s1 := upd s m (set recomputedAt (fun _ => stabNum s))) in *.
  assert (Hm1 : has s1 m) by (apply has_upd; exact Hm).
  assert (Hnd1 : nd s1 m = nd s m <| recomputedAt := stabNum s |>) by (apply nd_upd_eq; exact Hm).
  assert (Hk1 : nkind (nd s1 m) = nkind (nd s m)) by (rewrite Hnd1; reflexivity).
  assert (Hd1 : decl (nd s1 m) = decl (nd s m)) by (rewrite Hnd1; reflexivity).
  assert (Hv1 : forall p, valueOf s1 p = valueOf s p).
  { intros p. apply valueOf_stamped. intros x. repeat split. }
  pose proof (bf_kind s HBF m) as Hnb. pose proof (bf_arity s HBF m) as Har.
  (* the three shapes of the state handed to the tail *)
  assert (P1 : forall evs, pre3 s m (value (nd s m)) evs (s1 <| log := evs ++ log s |>)).
  { intros evs. constructor.
    - intros n Hn. change (nd s1 n = nd s n). apply nd_upd_ne, Hn.
    - change (nd s1 m = nd s m <| recomputedAt := stabNum s |> <| value := value (nd s m) |>).
      rewrite Hnd1. destruct (nd s m); reflexivity.
    - intros n. change (has s1 n <-> has s n). apply has_upd.
    - repeat split.
    - reflexivity.
    - reflexivity. }
  assert (P2 : forall evs v, pre3 s m v evs ((upd s1 m (set value (fun _ => v))) <| log := evs ++ log s |>)).
  { intros evs v. constructor.
    - intros n Hn. change (nd (upd s1 m (set value (fun _ => v))) n = nd s n).
      rewrite nd_upd_ne by exact Hn. apply nd_upd_ne, Hn.
    - change (nd (upd s1 m (set value (fun _ => v))) m = nd s m <| recomputedAt := stabNum s |> <| value := v |>).
      rewrite nd_upd_eq by exact Hm1. rewrite Hnd1. reflexivity.
    - intros n. change (has (upd s1 m (set value (fun _ => v))) n <-> has s n). rewrite has_upd. apply has_upd.
    - repeat split.
    - reflexivity.
    - reflexivity. }
  assert (E1 : s1 = s1 <| log := [] ++ log s |>) by (unfold s1, upd; destruct s; reflexivity).
  destruct (nkind (nd s m)) eqn:K; try discriminate Hnb.
  - (* Var *)
    assert (Hs : stabilizeNode fuel [] s1 m = ok s1).
    { unfold stabilizeNode. cbv zeta. rewrite Hk1. rewrite Hnd1. cbn.
      destruct (pending (nd s m)); [|reflexivity]. change (stabNum s1) with (stabNum s).
      rewrite Z.eqb_refl. reflexivity. }
    rewrite Hs in H. cbn in H. rewrite E1 in H.
    eapply run_post; eauto.
    + unfold consistent_val. rewrite K. reflexivity.
    + left. reflexivity.
  - (* Return *)
    assert (Hs : stabilizeNode fuel [] s1 m = ok s1) by (unfold stabilizeNode; cbv zeta; rewrite Hk1; reflexivity).
    rewrite Hs in H. cbn in H. rewrite E1 in H.
    eapply run_post; eauto.
    + unfold consistent_val. rewrite K. reflexivity.
    + left. reflexivity.
  - (* Map *)
    unfold arity_ok in Har. rewrite K in Har. apply bool_decide_eq_true in Har.
    destruct (decl (nd s m)) as [|a [|]] eqn:D; try discriminate Har.
    assert (Hs : stabilizeNode fuel [] s1 m =
                 ok (emit (EvInvoked m [valueOf s a] (ap1 f (valueOf s a)))
                          (upd s1 m (set value (fun _ => ap1 f (valueOf s a)))))).
    { unfold stabilizeNode. cbv zeta. rewrite Hk1, Hd1, ?D. cbn. rewrite Hv1. reflexivity. }
    rewrite Hs in H. cbn in H.
    eapply (run_post s m (ap1 f (valueOf s a)) [EvInvoked m [valueOf s a] (ap1 f (valueOf s a))]);
      [exact Hm|exact I|apply P2| | |exact H].
    + unfold consistent_val. rewrite K, D. apply Z.eqb_refl.
    + right. left. rewrite D. reflexivity.
  - (* Map2 *)
    unfold arity_ok in Har. rewrite K in Har. apply bool_decide_eq_true in Har.
    destruct (decl (nd s m)) as [|a [|b [|]]] eqn:D; try discriminate Har.
    assert (Hs : stabilizeNode fuel [] s1 m =
                 ok (emit (EvInvoked m [valueOf s a; valueOf s b] (ap2 f (valueOf s a) (valueOf s b)))
                          (upd s1 m (set value (fun _ => ap2 f (valueOf s a) (valueOf s b)))))).
    { unfold stabilizeNode. cbv zeta. rewrite Hk1, Hd1, ?D. cbn. rewrite !Hv1. reflexivity. }
    rewrite Hs in H. cbn in H.
    eapply (run_post s m _ [EvInvoked m [valueOf s a; valueOf s b] (ap2 f (valueOf s a) (valueOf s b))]);
      [exact Hm|exact I|apply P2| | |exact H].
    + unfold consistent_val. rewrite K, D. apply Z.eqb_refl.
    + right. left. rewrite D. reflexivity.
  - (* MapN *)
    assert (Hs : stabilizeNode fuel [] s1 m =
                 ok (emit (EvInvoked m (map (valueOf s) (decl (nd s m))) (apN f (map (valueOf s) (decl (nd s m)))))
                          (upd s1 m (set value (fun _ => apN f (map (valueOf s) (decl (nd s m)))))))).
    { unfold stabilizeNode. cbv zeta. rewrite Hk1, Hd1. cbn.
      rewrite (map_ext _ _ Hv1). reflexivity. }
    rewrite Hs in H. cbn in H.
    eapply (run_post s m _ [EvInvoked m (map (valueOf s) (decl (nd s m))) (apN f (map (valueOf s) (decl (nd s m))))]);
      [exact Hm|exact I|apply P2| | |exact H].
    + unfold consistent_val. rewrite K. apply Z.eqb_refl.
    + right. left. reflexivity.
  - (* Cutoff *)
    unfold arity_ok in Har. rewrite K in Har. apply bool_decide_eq_true in Har.
    destruct (decl (nd s m)) as [|a [|]] eqn:D; try discriminate Har. cbn [hd] in H.
    rewrite Hv1 in H.
    destruct (apCut c (value (nd s m)) (valueOf s a)) eqn:Ecut.
    + injection H as <- <- <-. split; [reflexivity|]. constructor.
      * intros n Hn. change (nd s1 n = nd s n). apply nd_upd_ne, Hn.
      * change (nd s1 m = stamp (stabNum s) (value (nd s1 m)) (changedAt (nd s1 m)) (nd s m)).
        rewrite Hnd1. unfold stamp. destruct (nd s m); reflexivity.
      * intros n. change (has s1 n <-> has s n). apply has_upd.
      * repeat split.
      * exact I.
      * auto.
      * left. constructor; try reflexivity.
        -- exists c. rewrite ?D. cbn [hd]. split; [exact K|]. split; [exact Ecut|]. reflexivity.
        -- change (value (nd s1 m) = value (nd s m)). rewrite Hnd1. reflexivity.
        -- change (changedAt (nd s1 m) = changedAt (nd s m)). rewrite Hnd1. reflexivity.
    + set (s2 := emit (EvCutoff m (value (nd s m)) (valueOf s a) false) s1) in *.
      assert (Hs : stabilizeNode fuel [] s2 m = ok (upd s2 m (set value (fun _ => valueOf s a)))).
      { unfold stabilizeNode. cbv zeta. change (nd s2 m) with (nd s1 m). rewrite Hk1, Hd1, ?D. cbn [hd].
        rewrite (valueOf_ext s1 s2 a) by (intros; repeat split). rewrite Hv1. reflexivity. }
      rewrite Hs in H. cbn in H.
      eapply (run_post s m (valueOf s a) [EvCutoff m (value (nd s m)) (valueOf s a) false]);
        [exact Hm|exact I|apply P2| | |exact H].
      * unfold consistent_val. rewrite K, D. destruct c; try apply Z.eqb_refl; try reflexivity.
        discriminate Ecut.
      * right. right. eauto.
  - (* Always *)
    assert (Hs : stabilizeNode fuel [] s1 m = ok s1) by (unfold stabilizeNode; cbv zeta; rewrite Hk1; reflexivity).
    rewrite Hs in H. cbn in H. rewrite E1 in H.
    eapply run_post; eauto.
    + unfold consistent_val. rewrite K. reflexivity.
    + left. reflexivity.
Qed.

(** * G. One step preserves the loop invariant *)

Lemma inW_iff s cur x : HeapSpec.inv (heap s) -> (inW s cur x = true <-> x ∈ Heap.ids (heap s) \/ cur = Some x).
Proof.
  intros I. unfold inW. rewrite orb_true_iff, bool_decide_eq_true, (inHeap_iff0 s x I). reflexivity.
Qed.

Lemma inW_false_iff s cur x :
  HeapSpec.inv (heap s) -> (inW s cur x = false <-> x ∉ Heap.ids (heap s) /\ cur <> Some x).
Proof.
  intros I. rewrite <- not_true_iff_false, (inW_iff s cur x I). tauto.
Qed.

Lemma isDone_iff s n : isDone s n = true <-> recomputedAt (nd s n) = stabNum s.
Proof. unfold isDone. apply Z.eqb_eq. Qed.

Lemma stamps_node_false s n : stamps_node s false n = true ->
  0 <= changedAt (nd s n) <= stabNum s /\ 0 <= recomputedAt (nd s n) <= stabNum s /\
  (changedAt (nd s n) = stabNum s -> recomputedAt (nd s n) = stabNum s).
Proof.
  unfold stamps_node. rewrite !andb_true_iff, !Z.leb_le. intros [[H1 H2] [[H3 H4] H5]].
  split; [lia|]. split; [lia|]. intros E. rewrite E, Z.eqb_refl in H5. simpl in H5. apply Z.eqb_eq in H5. exact H5.
Qed.

Lemma stamps_node_false_intro s n :
  0 <= changedAt (nd s n) <= stabNum s -> 0 <= recomputedAt (nd s n) <= stabNum s ->
  (changedAt (nd s n) = stabNum s -> recomputedAt (nd s n) = stabNum s) -> stamps_node s false n = true.
Proof.
  intros H1 H2 H3. unfold stamps_node. rewrite !andb_true_iff, !Z.leb_le. split; [lia|]. split; [lia|].
  destruct (Z.eqb_spec (changedAt (nd s n)) (stabNum s)) as [E|E]; [|reflexivity]. simpl. apply Z.eqb_eq, H3, E.
Qed.

Lemma stamps_node_true s n : stamps_node s true n = true ->
  0 <= changedAt (nd s n) < stabNum s /\ 0 <= recomputedAt (nd s n) < stabNum s.
Proof. unfold stamps_node. rewrite !andb_true_iff, !Z.leb_le, !Z.ltb_lt. lia. Qed.

Lemma stamps_node_true_intro s n :
  0 <= changedAt (nd s n) < stabNum s -> 0 <= recomputedAt (nd s n) < stabNum s -> stamps_node s true n = true.
Proof. intros. unfold stamps_node. rewrite !andb_true_iff, !Z.leb_le, !Z.ltb_lt. lia. Qed.

Lemma stepPost_sframe s m s' imm : stepPost s m s' imm -> sframe s s'.
Proof.
  intros P. destruct (sp_fields _ _ _ _ P) as (? & ? & ? & ? & ? & ? & ? & ? & ? & ? & ? & ?).
  constructor; try assumption; [|apply P].
  intros n. destruct (decide (n = m)) as [->|Hn].
  - rewrite (sp_self _ _ _ _ P). unfold stamp, skel. destruct (nd s m); reflexivity.
  - rewrite (sp_other _ _ _ _ P n Hn). reflexivity.
Qed.

Lemma isStale_same s s' n :
  nd s' n = nd s n -> stabNum s' = stabNum s ->
  (forall p, p ∈ parents (nd s n) -> changedAt (nd s' p) = changedAt (nd s p)) ->
  isStale s' n = isStale s n.
Proof.
  intros En Ek Hp. unfold isStale. rewrite En. f_equal.
  destruct (nkind (nd s n)); try reflexivity; f_equal; unfold staleWrtParents;
    (apply eq_true_iff_eq; rewrite !existsb_elem; split; intros (p & Hin & Hc); exists p; (split; [exact Hin|]);
     [rewrite <- (Hp p Hin)|rewrite (Hp p Hin)]; exact Hc).
Qed.

Section Step.
  Context (h0 : list nid) (base : list event) (s : state) (m : nid) (s' : state) (imm : option nid).
  Context (HS : Struct s) (L : LInv h0 base s (Some m)) (P : stepPost s m s' imm).

  Let k := stabNum s.
  Let I : HeapSpec.inv (heap s) := proj1 (li_heap _ _ _ _ L).
  Let I' : HeapSpec.inv (heap s') := sp_hinv _ _ _ _ P.
  Let F : sframe s s' := stepPost_sframe _ _ _ _ P.
  Let HBF : BF s := li_bf _ _ _ _ L.

  Local Lemma Hk' : stabNum s' = k.
  Proof. apply (sf_stabNum _ _ F). Qed.

  Local Lemma HmW : inW s (Some m) m = true.
  Proof. apply inW_iff; [exact I|]. right; reflexivity. Qed.

  Local Lemma Hmreg : inGraph (nd s m) = true.
  Proof. apply (li_orig _ _ _ _ L m). left. exact HmW. Qed.

  Local Lemma Hmnd : isDone s m = false.
  Proof. apply (li_B _ _ _ _ L m m HmW). apply rtc_refl. Qed.

  Local Lemma Hst n : 0 <= changedAt (nd s n) <= k /\ 0 <= recomputedAt (nd s n) <= k /\
                      (changedAt (nd s n) = k -> recomputedAt (nd s n) = k).
  Proof. apply stamps_node_false, (li_stamps _ _ _ _ L). Qed.

  (* a node that has not run in this pass has not changed in it *)
  Local Lemma Hm_clt : changedAt (nd s m) < k.
  Proof.
    pose proof (Hst m) as (H1 & H2 & H3). pose proof Hmnd as Hd. unfold isDone in Hd. apply Z.eqb_neq in Hd. fold k in Hd.
    destruct (Z.eq_dec (changedAt (nd s m)) k) as [E|E]; [exfalso; apply Hd, H3, E|lia].
  Qed.

  Local Lemma Hm_lt : recomputedAt (nd s m) < k.
  Proof.
    pose proof (Hst m). pose proof Hmnd as H1. unfold isDone in H1. apply Z.eqb_neq in H1. fold k in H1. lia.
  Qed.

  Local Lemma Hm_notq : m ∉ Heap.ids (heap s).
  Proof. intros Hq. exact (li_M _ _ _ _ L m m eq_refl Hq (rtc_refl _ _)). Qed.

  Local Lemma Hrec_m : recomputedAt (nd s' m) = k.
  Proof. rewrite (sp_self _ _ _ _ P). reflexivity. Qed.

  Local Lemma Hnd_ne n : n <> m -> nd s' n = nd s n.
  Proof. apply (sp_other _ _ _ _ P). Qed.

  Local Lemma done'_iff n : isDone s' n = true <-> isDone s n = true \/ n = m.
  Proof.
    rewrite !isDone_iff, Hk'. destruct (decide (n = m)) as [->|Hn].
    - rewrite Hrec_m. tauto.
    - rewrite (Hnd_ne n Hn). fold k. tauto.
  Qed.

  Local Lemma done'_false n : isDone s' n = false <-> isDone s n = false /\ n <> m.
  Proof.
    rewrite <- !not_true_iff_false, done'_iff. destruct (decide (n = m)); tauto.
  Qed.

  (* heap facts shared by both cases *)
  Local Lemma Hmono x : x ∈ Heap.ids (heap s) -> x ∈ Heap.ids (heap s').
  Proof.
    intros Hx. destruct (sp_case _ _ _ _ P) as [C|R].
    - rewrite (cp_heap _ _ _ _ C). exact Hx.
    - apply (rp_mono _ _ _ _ R), Hx.
  Qed.

  Local Lemma Hnewmem x : x ∈ Heap.ids (heap s') \/ imm = Some x ->
    x ∈ Heap.ids (heap s) \/ (runPost s m s' imm /\ x ∈ children (nd s m) /\ owedC s' x = true).
  Proof.
    intros Hx. destruct (sp_case _ _ _ _ P) as [C|R].
    - rewrite (cp_heap _ _ _ _ C), (cp_imm _ _ _ _ C) in Hx. destruct Hx; [auto|discriminate].
    - apply (rp_mem _ _ _ _ R) in Hx as [?|[? ?]]; auto.
  Qed.

  Local Lemma Hhin x : x ∈ Heap.ids (heap s') -> Heap.hinOf (heap s') x = height (nd s x).
  Proof.
    intros Hx. destruct (sp_case _ _ _ _ P) as [C|R].
    - rewrite (cp_heap _ _ _ _ C) in *. apply (li_heap _ _ _ _ L), Hx.
    - destruct (decide (x ∈ Heap.ids (heap s))) as [Ho|Hn].
      + rewrite (rp_old _ _ _ _ R) by exact Ho. apply (li_heap _ _ _ _ L), Ho.
      + apply (rp_new _ _ _ _ R); assumption.
  Qed.

  Local Lemma inW'_cases x : inW s' imm x = true ->
    x ∈ Heap.ids (heap s) \/ (runPost s m s' imm /\ x ∈ children (nd s m) /\ owedC s' x = true).
  Proof. intros Hx. apply Hnewmem. apply inW_iff in Hx; [exact Hx|exact I']. Qed.

  Local Lemma inW_keep x : inW s (Some m) x = true -> x <> m -> inW s' imm x = true.
  Proof.
    intros Hx Hn. apply (inW_iff s (Some m) x I) in Hx as [Hx|Hx]; [|congruence].
    apply inW_iff; [exact I'|]. left. apply Hmono, Hx.
  Qed.

  Local Lemma child_of_m x : x ∈ children (nd s m) -> x <> m /\ reach s m x /\ inGraph (nd s x) = true.
  Proof.
    intros Hx. split; [|split].
    - intros ->. pose proof (edge_height s HS m m Hx). lia.
    - apply rtc_once. exact Hx.
    - apply (child_reg s HS m x Hx).
  Qed.

  (* values *)
  Local Lemma Hkd n : nkind (nd s' n) = nkind (nd s n) /\ decl (nd s' n) = decl (nd s n).
  Proof. split; [apply (sf_nkind _ _ F)|apply (sf_decl _ _ F)]. Qed.

  Local Lemma Hvalue_ne n : n <> m -> value (nd s' n) = value (nd s n).
  Proof. intros Hn. rewrite (Hnd_ne n Hn). reflexivity. Qed.

  Local Lemma Hval p : inGraph (nd s p) = true -> p <> m ->
    ~ (nkind (nd s p) = KAlways /\ reach s m p) -> valueOf s' p = valueOf s p.
  Proof. intros. apply (valueOf_changed s s' m p HS Hkd Hvalue_ne); assumption. Qed.

  Local Lemma Hval_cut p : cutPost s m s' imm -> valueOf s' p = valueOf s p.
  Proof.
    intros C. apply valueOf_ext. intros n. destruct (Hkd n) as [-> ->]. split; [reflexivity|]. split; [reflexivity|].
    destruct (decide (n = m)) as [->|Hn]; [apply C|apply Hvalue_ne, Hn].
  Qed.

  (* the declared inputs of [m] itself read the same *)
  Local Lemma Hval_decl_m p : p ∈ decl (nd s m) -> valueOf s' p = valueOf s p.
  Proof.
    intros Hp. assert (Hpar : p ∈ parents (nd s m)) by (apply (st_par _ HS); [exact Hmreg|exact Hp]).
    pose proof (parent_edge s HS _ _ Hpar) as He.
    apply Hval.
    - apply (edge_reg s HS _ _ He).
    - intros ->. pose proof (edge_height s HS _ _ He). lia.
    - intros [_ Hr]. exact (parent_not_reach s HS _ _ Hpar Hr).
  Qed.

  (* a done node's inputs read the same *)
  Local Lemma Hval_done n p : isDone s n = true -> p ∈ decl (nd s n) -> valueOf s' p = valueOf s p.
  Proof.
    intros Hd Hp. destruct (sp_case _ _ _ _ P) as [C|R]; [apply Hval_cut, C|].
    assert (Hg : inGraph (nd s n) = true) by (apply (li_orig _ _ _ _ L n); right; exact Hd).
    pose proof (decl_parent s HS n p Hg Hp) as He.
    assert (Hnr : ~ reach s m p).
    { intros Hr. assert (reach s m n) as Hrn by (eapply rtc_r; eauto).
      pose proof (li_B _ _ _ _ L m n HmW Hrn). congruence. }
    apply Hval.
    - apply (edge_reg s HS _ _ He).
    - intros ->. apply Hnr, rtc_refl.
    - tauto.
  Qed.

  (** ** the clauses *)
  Local Lemma S_bf : BF s'.
  Proof.
    split; [rewrite (sf_binds _ _ F); apply HBF|].
    intros n x E. assert (Hn' : has s' n) by (exists x; exact E).
    assert (Hn : has s n) by (apply (sf_has _ _ F), Hn').
    rewrite <- (nd_lookup _ _ _ E). pose proof (bf_node_nd s HBF n Hn) as Hb.
    apply bf_node_iff in Hb as (H1 & H2 & H3 & H4 & H5 & H6 & H7). apply bf_node_iff.
    rewrite (sf_next _ _ F), (sf_nkind _ _ F), (sf_scope _ _ F), (sf_valid _ _ F).
    repeat split; try assumption.
    - unfold arity_ok in *. rewrite (sf_nkind _ _ F), (sf_decl _ _ F). exact H5.
    - destruct (decide (n = m)) as [->|Hne]; [|rewrite (Hnd_ne n Hne); exact H6].
      unfold cutalways_zero in *. rewrite (sf_nkind _ _ F).
      destruct (nkind (nd s m)) eqn:K; try reflexivity. destruct c; try reflexivity.
      destruct (sp_case _ _ _ _ P) as [C|R].
      + rewrite (cp_value _ _ _ _ C). exact H6.
      + pose proof (rp_val _ _ _ _ R) as Hv. unfold consistent_val in Hv. rewrite K in Hv.
        pose proof (bf_arity s HBF m) as Har. unfold arity_ok in Har. rewrite K in Har.
        apply bool_decide_eq_true in Har. destruct (decl (nd s m)) as [|a [|]]; try discriminate Har.
        exact Hv.
    - unfold always_lt in *. rewrite (sf_nkind _ _ F), (sf_decl _ _ F). exact H7.
  Qed.

  Local Lemma S_heap : HeapSpec.inv (heap s') /\
    forall q, q ∈ Heap.ids (heap s') -> inGraph (nd s' q) = true /\ Heap.hinOf (heap s') q = height (nd s' q).
  Proof.
    split; [exact I'|]. intros q Hq. rewrite (sf_inGraph _ _ F), (sf_height _ _ F). split; [|apply Hhin, Hq].
    destruct (Hnewmem q (or_introl Hq)) as [Ho|(_ & Hc & _)].
    - apply (li_heap _ _ _ _ L), Ho.
    - apply (child_of_m q Hc).
  Qed.

  Local Lemma S_stamps n : stamps_node s' false n = true.
  Proof.
    pose proof (Hst n) as Hn. unfold stamps_node. rewrite Hk'. fold k.
    destruct (decide (n = m)) as [->|Hne].
    - rewrite Hrec_m. pose proof (Hst m) as Hm. destruct (sp_case _ _ _ _ P) as [C|R].
      + rewrite (cp_changed _ _ _ _ C). rewrite !andb_true_iff, !Z.leb_le. lia.
      + rewrite (rp_changed _ _ _ _ R). fold k. rewrite !andb_true_iff, !Z.leb_le. lia.
    - rewrite (Hnd_ne n Hne). rewrite !andb_true_iff, !Z.leb_le. lia.
  Qed.

  Local Lemma S_B w n : inW s' imm w = true -> reach s' w n -> isDone s' n = false.
  Proof.
    intros Hw Hr. apply (sf_reach _ _ F) in Hr. apply done'_false.
    destruct (inW'_cases w Hw) as [Ho|(_ & Hc & _)].
    - split.
      + apply (li_B _ _ _ _ L w n); [|exact Hr]. apply inW_iff; [exact I|]. left; exact Ho.
      + intros ->. exact (li_M _ _ _ _ L m w eq_refl Ho Hr).
    - destruct (child_of_m w Hc) as (Hwm & Hmw & _). split.
      + apply (li_B _ _ _ _ L m n HmW). eapply rtc_l; [exact Hc|exact Hr].
      + intros ->. pose proof (edge_height s HS _ _ Hc). destruct (reach_height s HS _ _ Hr); [congruence|lia].
  Qed.

  Local Lemma S_M c w : imm = Some c -> w ∈ Heap.ids (heap s') -> reach s' w c -> False.
  Proof.
    intros Himm Hw Hr. destruct (sp_case _ _ _ _ P) as [C|R]; [pose proof (cp_imm _ _ _ _ C); congruence|].
    destruct (rp_imm _ _ _ _ R c Himm) as [Hcn Hcan].
    assert (Hcm : c ∈ children (nd s m)).
    { destruct (proj1 (rp_mem _ _ _ _ R c) (or_intror Himm)) as [Hq|[Hc _]]; [|exact Hc].
      exfalso. apply Hcn, Hmono, Hq. }
    apply (sf_reach _ _ F) in Hr.
    unfold canRecomputeImmediately in Hcan.
    destruct (isAlways (nkind (nd s' c)) || requiresHeapOrdering (nkind (nd s' c))
              || (height (nd s' m) <=? scopeHeight s' (scope (nd s' c)))); [discriminate|].
    rewrite (bf_scope s' S_bf c) in Hcan. cbn [scopeHeight] in Hcan.
    rewrite Z.eqb_refl in Hcan. cbn [negb andb] in Hcan.
    destruct (bool_decide (length (parents (nd s' c)) = 1%nat)) eqn:E1.
    - apply bool_decide_eq_true in E1. rewrite (sf_parents _ _ F) in E1.
      assert (Hpar : m ∈ parents (nd s c)) by (apply (st_edge _ HS); exact Hcm).
      destruct (parents (nd s c)) as [|p [|]] eqn:Ep; try discriminate E1.
      apply elem_of_list_singleton in Hpar as <-.
      destruct (reach_last s _ _ Hr) as [->|(x & Hwx & Hxc)]; [contradiction|].
      apply (st_edge _ HS) in Hxc. rewrite Ep in Hxc. apply elem_of_list_singleton in Hxc as ->.
      assert (Hd : isDone s' m = false).
      { apply (S_B w m); [apply inW_iff; [exact I'|left; exact Hw]|apply (sf_reach _ _ F); exact Hwx]. }
      apply done'_false in Hd. tauto.
    - destruct (Heap.minHeight (heap s')) as [mh|] eqn:Emh.
      + apply Z.leb_le in Hcan. rewrite (sf_height _ _ F) in Hcan.
        pose proof (heap_cursor_sound _ _ I' Emh w Hw) as Hle. rewrite (Hhin w Hw) in Hle.
        destruct (reach_height s HS _ _ Hr) as [->|Hlt]; [contradiction|lia].
      + unfold Heap.minHeight in Emh. destruct (Z.eqb_spec (Heap.cnt (heap s')) 0) as [E0|]; [|discriminate].
        rewrite (cnt_zero_ids _ I') in Hw by lia. inv Hw.
  Qed.

  Local Lemma owedC_child x : x ∈ children (nd s m) -> isDone s' x = false ->
    isStale s' x = true -> owedC s' x = true.
  Proof.
    intros Hc Hd Hs. destruct (child_of_m x Hc) as (_ & _ & Hg).
    unfold owedC. rewrite (sf_isNecessary _ _ F), <- (st_nec _ HS), Hg, (bf_valid s' S_bf). simpl.
    destruct (negb (hasStaler (nkind (nd s' x))) && (recomputedAt (nd s' x) <? stabNum s')); [reflexivity|exact Hs].
  Qed.

  Local Lemma S_owed n : inGraph (nd s' n) = true -> isDone s' n = false -> isStale s' n = true ->
    inW s' imm n = true.
  Proof.
    intros Hg Hd Hs. rewrite (sf_inGraph _ _ F) in Hg. pose proof Hd as Hd'. apply done'_false in Hd as [Hd Hne].
    assert (Hold : isStale s n = true -> inW s' imm n = true).
    { intros Hs0. apply inW_keep; [|exact Hne]. apply (li_owed _ _ _ _ L); assumption. }
    assert (Hsame : (forall p, p ∈ parents (nd s n) -> changedAt (nd s' p) = changedAt (nd s p)) ->
                    inW s' imm n = true).
    { intros Hp. apply Hold. rewrite <- (isStale_same s s' n (Hnd_ne n Hne) Hk' Hp). exact Hs. }
    destruct (sp_case _ _ _ _ P) as [C|R].
    - apply Hsame. intros p _. destruct (decide (p = m)) as [->|Hp]; [apply C|rewrite (Hnd_ne p Hp); reflexivity].
    - destruct (decide (m ∈ parents (nd s n))) as [Hin|Hnin].
      + assert (Hc : n ∈ children (nd s m)) by (apply (st_edge _ HS); exact Hin).
        apply inW_iff; [exact I'|]. apply (rp_mem _ _ _ _ R). right. split; [exact Hc|].
        apply owedC_child; assumption.
      + apply Hsame. intros p Hp. assert (p <> m) by congruence. rewrite (Hnd_ne p); auto.
  Qed.

  Local Lemma S_clean n : inGraph (nd s' n) = true -> inW s' imm n = false ->
    guarded s' imm n = true -> node_consistent s' n = true.
  Proof.
    intros Hg HnW Hgd. rewrite (sf_inGraph _ _ F) in Hg.
    rewrite node_consistent_val by (apply (bf_kind s' S_bf)).
    destruct (decide (n = m)) as [->|Hne].
    - (* the node that just ran *)
      rewrite (consistent_val_ext s s' m _ (proj1 (Hkd m)) (proj2 (Hkd m)) Hval_decl_m).
      destruct (sp_case _ _ _ _ P) as [C|R]; [|apply R].
      rewrite (cp_value _ _ _ _ C). destruct (cp_kind _ _ _ _ C) as (c0 & K & Hcut & _).
      pose proof (bf_arity s HBF m) as Har. unfold arity_ok in Har. rewrite K in Har.
      apply bool_decide_eq_true in Har.
      pose proof (bf_cutalways s HBF m) as Hz. unfold cutalways_zero in Hz. rewrite K in Hz.
      unfold consistent_val. rewrite K. destruct (decl (nd s m)) as [|a [|]]; try discriminate Har.
      cbn [hd] in Hcut. destruct c0; simpl in Hcut; try reflexivity; try assumption; discriminate.
    - (* another node *)
      assert (Hgd_p : forall p, p ∈ parents (nd s n) ->
                 changedAt (nd s' p) <= recomputedAt (nd s n) /\ volq s' imm p = false).
      { intros p Hp. unfold guarded in Hgd. rewrite (sf_parents _ _ F) in Hgd.
        pose proof (forallb_elem _ _ _ Hgd Hp) as H. cbv beta in H.
        apply andb_true_iff in H as [H1 H2]. apply Z.leb_le in H1. apply negb_true_iff in H2.
        rewrite (Hnd_ne n Hne) in H1. auto. }
      (* (1) if [m] is an input of [n], [m] was cut off *)
      assert (Hcutm : m ∈ parents (nd s n) -> cutPost s m s' imm).
      { intros Hin. destruct (sp_case _ _ _ _ P) as [C|R]; [exact C|exfalso].
        destruct (Hgd_p m Hin) as [H1 _]. rewrite (rp_changed _ _ _ _ R) in H1. fold k in H1.
        assert (Hdn : isDone s n = false).
        { apply (li_B _ _ _ _ L m n HmW). apply rtc_once. apply (st_edge _ HS). exact Hin. }
        unfold isDone in Hdn. apply Z.eqb_neq in Hdn. pose proof (Hst n). fold k in Hdn. lia. }
      assert (Hm_kind : m ∈ parents (nd s n) -> exists c0, nkind (nd s m) = KCutoff c0).
      { intros Hin. destruct (cp_kind _ _ _ _ (Hcutm Hin)) as (c0 & K & _). eauto. }
      (* (2) [n] was guarded before the step *)
      assert (Hgd0 : guarded s (Some m) n = true).
      { unfold guarded. apply forallb_intro. intros p Hp. destruct (Hgd_p p Hp) as [H1 H2].
        apply andb_true_iff. split.
        - apply Z.leb_le. destruct (decide (p = m)) as [->|Hpm].
          + rewrite <- (cp_changed _ _ _ _ (Hcutm Hp)). exact H1.
          + rewrite <- (Hnd_ne p Hpm). exact H1.
        - apply negb_true_iff. unfold volq in *. rewrite (sf_nkind _ _ F) in H2.
          destruct (nkind (nd s p)) eqn:Kp; try reflexivity.
          + (* a var *)
            assert (Hpm : p <> m) by (intros ->; destruct (Hm_kind Hp) as [c0 K]; congruence).
            destruct (inW s (Some m) p) eqn:Ew; [|reflexivity].
            rewrite (inW_keep p Ew Hpm) in H2. discriminate.
          + (* an always node *)
            assert (Hpm : p <> m) by (intros ->; destruct (Hm_kind Hp) as [c0 K]; congruence).
            rewrite (Hnd_ne p Hpm), Hk' in H2. exact H2. }
      (* (3) [n] was not owed before the step *)
      assert (HnW0 : inW s (Some m) n = false).
      { destruct (inW s (Some m) n) eqn:Ew; [|reflexivity]. rewrite (inW_keep n Ew Hne) in HnW. discriminate. }
      pose proof (li_clean _ _ _ _ L n Hg HnW0 Hgd0) as Hc.
      rewrite node_consistent_val in Hc by (apply (bf_kind s HBF)).
      rewrite (Hnd_ne n Hne).
      rewrite (consistent_val_ext s s' n _ (proj1 (Hkd n)) (proj2 (Hkd n))); [exact Hc|].
      intros p Hp. destruct (sp_case _ _ _ _ P) as [C|R]; [apply Hval_cut, C|].
      assert (Hpar : p ∈ parents (nd s n)) by (apply (st_par _ HS); assumption).
      assert (Hpm : p <> m).
      { intros ->. destruct (cp_kind _ _ _ _ (Hcutm Hpar)) as (c0 & K & _).
        pose proof (cp_imm _ _ _ _ (Hcutm Hpar)). pose proof (cp_changed _ _ _ _ (Hcutm Hpar)) as Hcc.
        rewrite (rp_changed _ _ _ _ R) in Hcc. pose proof (Hst m). pose proof Hm_lt. fold k in Hcc. lia. }
      apply Hval.
      + apply (edge_reg s HS p n). apply (parent_edge s HS). exact Hpar.
      + exact Hpm.
      + intros [Ka Hr]. destruct (Hgd_p p Hpar) as [_ H2]. unfold volq in H2.
        rewrite (sf_nkind _ _ F), Ka in H2. apply Z.ltb_ge in H2.
        assert (Hdp : isDone s' p = true).
        { apply isDone_iff. pose proof (stamps_node_false _ _ (S_stamps p)). lia. }
        apply done'_iff in Hdp as [Hdp|?]; [|contradiction].
        pose proof (li_B _ _ _ _ L m p HmW Hr). congruence.
  Qed.

  Local Lemma origin_mono n : origin s h0 n = true -> origin s' h0 n = true.
  Proof.
    unfold origin. rewrite !orb_true_iff, !existsb_elem, (sf_parents _ _ F), Hk'. intros [?|(p & Hp & Hc)]; [auto|].
    right. exists p. split; [exact Hp|]. apply Z.eqb_eq in Hc. fold k in Hc.
    destruct (decide (p = m)) as [->|Hpm]; [|rewrite (Hnd_ne p Hpm); apply Z.eqb_eq; exact Hc].
    pose proof (Hst m). pose proof Hm_lt. lia.
  Qed.

  Local Lemma S_orig n : inW s' imm n = true \/ isDone s' n = true ->
    inGraph (nd s' n) = true /\ origin s' h0 n = true.
  Proof.
    rewrite (sf_inGraph _ _ F). intros [Hw|Hd].
    - destruct (inW'_cases n Hw) as [Ho|(R & Hc & _)].
      + destruct (li_orig _ _ _ _ L n) as [Hg Hor]; [left; apply inW_iff; [exact I|left; exact Ho]|].
        split; [exact Hg|apply origin_mono, Hor].
      + split; [apply (child_of_m n Hc)|].
        unfold origin. apply orb_true_iff. right. apply existsb_elem. exists m. split.
        * rewrite (sf_parents _ _ F). apply (st_edge _ HS). exact Hc.
        * rewrite (rp_changed _ _ _ _ R), Hk'. apply Z.eqb_refl.
    - apply done'_iff in Hd as [Hd| ->].
      + destruct (li_orig _ _ _ _ L n (or_intror Hd)) as [Hg Hor]. split; [exact Hg|apply origin_mono, Hor].
      + destruct (li_orig _ _ _ _ L m (or_introl HmW)) as [Hg Hor]. split; [exact Hg|apply origin_mono, Hor].
  Qed.

  Local Lemma S_prog n : n ∈ h0 -> inW s' imm n = true \/ isDone s' n = true.
  Proof.
    intros Hn. destruct (decide (n = m)) as [->|Hne]; [right; apply done'_iff; auto|].
    destruct (li_prog _ _ _ _ L n Hn) as [Hw|Hd].
    - left. apply inW_keep; assumption.
    - right. apply done'_iff. auto.
  Qed.

  Local Lemma ev_ok_keep e : ev_ok s e = true -> ev_ok s' e = true.
  Proof.
    destruct e; try (intros; reflexivity); unfold ev_ok; rewrite !andb_true_iff.
    - intros [[Hd Ha] Hr]. assert (Hne : n <> m) by (intros ->; rewrite Hmnd in Hd; discriminate).
      split; [split|].
      + apply done'_iff. auto.
      + apply bool_decide_eq_true in Ha. apply bool_decide_eq_true. rewrite Ha, (sf_decl _ _ F).
        apply map_ext_in. intros p Hp. symmetry. apply (Hval_done n p Hd). apply elem_of_list_In, Hp.
      + rewrite (Hnd_ne n Hne). exact Hr.
    - intros [Hd Hv]. assert (Hne : n <> m) by (intros ->; rewrite Hmnd in Hd; discriminate).
      split; [apply done'_iff; auto|]. rewrite (Hnd_ne n Hne), Hk'. exact Hv.
  Qed.

  Local Lemma m_not_invoked evs : Forall (fun e => ev_ok s e = true) evs -> m ∉ invoked_of evs.
  Proof.
    intros Hall Hin. unfold invoked_of in Hin. apply elem_of_list_omap in Hin as (e & He & Hm).
    destruct e; try discriminate Hm. injection Hm as ->.
    rewrite Forall_forall in Hall. apply elem_of_list_In in He. pose proof (Hall _ He) as Hok. unfold ev_ok in Hok.
    rewrite !andb_true_iff in Hok. destruct Hok as [[Hd _] _]. rewrite Hmnd in Hd. discriminate.
  Qed.

  Local Lemma S_log : exists evs, log s' = evs ++ base /\ Forall (fun e => ev_ok s' e = true) evs /\
                                  NoDup (invoked_of evs).
  Proof.
    destruct (li_log _ _ _ _ L) as (evs & Hlog & Hall & Hnd).
    assert (Hall' : Forall (fun e => ev_ok s' e = true) evs).
    { eapply List.Forall_impl; [|exact Hall]. intros e. apply ev_ok_keep. }
    assert (Hdm : isDone s' m = true) by (apply done'_iff; auto).
    destruct (sp_case _ _ _ _ P) as [C|R].
    - destruct (cp_kind _ _ _ _ C) as (c0 & K & Hcut & Hl).
      exists (EvCutoff m (value (nd s m)) (valueOf s (hd 0%nat (decl (nd s m)))) true :: evs).
      split; [rewrite Hl, Hlog; reflexivity|]. split; [|exact Hnd].
      constructor; [|exact Hall']. unfold ev_ok. rewrite Hdm. simpl.
      rewrite (cp_changed _ _ _ _ C), (cp_value _ _ _ _ C), Hk', Z.eqb_refl, andb_true_r.
      apply Z.ltb_lt. pose proof (Hst m). pose proof Hm_lt. lia.
    - destruct (rp_log _ _ _ _ R) as (nev & Hl & Hnev). exists (nev ++ evs).
      split; [rewrite Hl, Hlog, app_assoc; reflexivity|].
      destruct Hnev as [->|[->|(o & ->)]]; simpl.
      + auto.
      + split.
        * constructor; [|exact Hall']. unfold ev_ok. rewrite Hdm. simpl. apply andb_true_iff. split.
          -- apply bool_decide_eq_true. rewrite (sf_decl _ _ F). apply map_ext_in. intros p Hp.
             symmetry. apply Hval_decl_m. apply elem_of_list_In, Hp.
          -- apply Z.eqb_refl.
        * constructor; [apply m_not_invoked; exact Hall|exact Hnd].
      + split; [|exact Hnd]. constructor; [|exact Hall']. unfold ev_ok. rewrite Hdm. simpl. apply Z.eqb_refl.
  Qed.

  Lemma step_LInv : LInv h0 base s' imm.
  Proof.
    constructor.
    - exact S_bf.
    - exact S_heap.
    - exact S_stamps.
    - exact S_B.
    - exact S_M.
    - exact S_owed.
    - exact S_clean.
    - exact S_orig.
    - exact S_prog.
    - exact S_log.
  Qed.
End Step.

(** * H. The chain and the loop *)

Lemma nodes_eq_nd s s' : nodes s' = nodes s -> forall n, nd s' n = nd s n.
Proof. intros H n. unfold nd. rewrite H. reflexivity. Qed.

Lemma valueOf_nodes s s' p : nodes s' = nodes s -> valueOf s' p = valueOf s p.
Proof. intros H. apply valueOf_ext. intros n. rewrite (nodes_eq_nd _ _ H). auto. Qed.

Lemma node_consistent_nodes s s' n :
  nodes s' = nodes s -> isBindKind (nkind (nd s n)) = false -> node_consistent s' n = node_consistent s n.
Proof.
  intros H Hk. pose proof (nodes_eq_nd _ _ H) as Hnd.
  rewrite !node_consistent_val by (rewrite ?Hnd; exact Hk). rewrite Hnd.
  apply consistent_val_ext; rewrite ?Hnd; try reflexivity. intros p _. apply valueOf_nodes, H.
Qed.

Lemma isStale_nodes s s' n : nodes s' = nodes s -> isStale s' n = isStale s n.
Proof. intros H. unfold isStale, staleWrtParents, nd. rewrite H. reflexivity. Qed.

Lemma forallb_ext {A} (f g : A -> bool) l : (forall x, x ∈ l -> f x = g x) -> forallb f l = forallb g l.
Proof.
  induction l as [|a l IH]; intros H; [reflexivity|]. simpl. rewrite (H a) by left.
  rewrite IH; [reflexivity|]. intros x Hx. apply H. right. exact Hx.
Qed.

Lemma guarded_ext s s' cur cur' n :
  nodes s' = nodes s -> stabNum s' = stabNum s -> (forall x, inW s' cur' x = inW s cur x) ->
  guarded s' cur' n = guarded s cur n.
Proof.
  intros H Hk Hw. pose proof (nodes_eq_nd _ _ H) as Hnd. unfold guarded, volq. rewrite Hnd.
  apply forallb_ext. intros p _. rewrite !Hnd, Hk. destruct (nkind (nd s p)); try reflexivity.
  rewrite Hw. reflexivity.
Qed.


Lemma sframe_set_heap s w : sframe s (s <| heap := w |>).
Proof. constructor; reflexivity. Qed.

Lemma LInv_heap_change h0 base s cur w cur' :
  LInv h0 base s cur -> HeapSpec.inv w ->
  (forall x, inW (s <| heap := w |>) cur' x = inW s cur x) ->
  (forall q, q ∈ Heap.ids w -> q ∈ Heap.ids (heap s) /\ Heap.hinOf w q = Heap.hinOf (heap s) q) ->
  (forall m x, cur' = Some m -> x ∈ Heap.ids w -> reach s x m -> False) ->
  LInv h0 base (s <| heap := w |>) cur'.
Proof.
  intros L Iw HW Hq HM. set (s2 := s <| heap := w |>) in *.
  assert (Hn : nodes s2 = nodes s) by reflexivity.
  assert (Hnd : forall n, nd s2 n = nd s n) by reflexivity.
  assert (Hr : forall a b, reach s2 a b <-> reach s a b) by (apply sf_reach, sframe_set_heap).
  constructor.
  - exact (li_bf _ _ _ _ L).
  - split; [exact Iw|]. intros q Hin. destruct (Hq q Hin) as [Ho Hh]. change (heap s2) with w.
    rewrite Hh. apply (li_heap _ _ _ _ L), Ho.
  - exact (li_stamps _ _ _ _ L).
  - intros x n Hx Hxn. rewrite HW in Hx. apply (li_B _ _ _ _ L x n Hx). apply Hr, Hxn.
  - intros m x Hc Hx Hxm. apply (HM m x Hc Hx). apply Hr, Hxm.
  - intros n Hg Hd Hs. rewrite HW. apply (li_owed _ _ _ _ L n Hg Hd). exact Hs.
  - intros n Hg Hw Hgd. rewrite HW in Hw.
    rewrite (guarded_ext s s2 cur cur' n Hn eq_refl HW) in Hgd.
    rewrite (node_consistent_nodes s s2 n Hn (bf_kind s (li_bf _ _ _ _ L) n)).
    apply (li_clean _ _ _ _ L n Hg Hw Hgd).
  - intros n Hn'. rewrite HW in Hn'. apply (li_orig _ _ _ _ L n Hn').
  - intros n Hn'. rewrite HW. apply (li_prog _ _ _ _ L n Hn').
  - destruct (li_log _ _ _ _ L) as (evs & Hl & Hall & Hnd'). exists evs. split; [exact Hl|]. split; [|exact Hnd'].
    eapply List.Forall_impl; [|exact Hall]. intros e He. destruct e; try reflexivity.
    + unfold ev_ok in *. rewrite (map_ext _ _ (fun p => valueOf_nodes s s2 p Hn)). exact He.
    + exact He.
Qed.

Lemma pop_LInv h0 base s n w :
  Struct s -> LInv h0 base s None -> Heap.removeMin (heap s) = Some (n, w) ->
  LInv h0 base (s <| heap := w |>) (Some n).
Proof.
  intros HS L Hrm. pose proof (proj1 (li_heap _ _ _ _ L)) as I.
  destruct (heap_removeMin_spec _ _ _ I Hrm) as ([Hnin Hmin] & Iw & Hperm & Hhin).
  pose proof (inv_nodup _ I) as Hnd. rewrite Hperm in Hnd. apply NoDup_cons_1_1 in Hnd as Hnw.
  apply (LInv_heap_change h0 base s None w (Some n)); [exact L|exact Iw|..].
  - intros x. assert (Iw' : HeapSpec.inv (heap (s <| heap := w |>))) by exact Iw.
    apply eq_true_iff_eq. rewrite (inW_iff (s <| heap := w |>) (Some n) x Iw'), (inW_iff s None x I).
    change (heap (s <| heap := w |>)) with w. rewrite Hperm, elem_of_cons.
    split; [intros [?|[= ->]]; auto|intros [[->|?]|?]; auto; discriminate].
  - intros q Hq. split; [rewrite Hperm; right; exact Hq|]. rewrite Hhin.
    destruct (decide (q = n)) as [->|]; [contradiction|reflexivity].
  - intros m x [= <-] Hx Hr.
    assert (Hxin : x ∈ Heap.ids (heap s)) by (rewrite Hperm; right; exact Hx).
    pose proof (Hmin x Hxin) as Hle.
    rewrite (proj2 (proj2 (li_heap _ _ _ _ L) n Hnin)), (proj2 (proj2 (li_heap _ _ _ _ L) x Hxin)) in Hle.
    destruct (reach_height s HS _ _ Hr) as [->|Hlt]; [contradiction|lia].
Qed.

Lemma chain_LInv h0 base fuel : forall s n s' e at_,
  Struct s -> LInv h0 base s (Some n) ->
  recomputeChain fuel [] s n = Ok (s', e, at_) ->
  e = None /\ LInv h0 base s' None /\ sframe s s' /\
  (forall x, isDone s' x = true -> isDone s x = true \/ x = n \/ isAlways (nkind (nd s x)) = false) /\
  (forall x, isDone s' x = false -> nd s' x = nd s x /\ isDone s x = false) /\
  (cursor_ok (heap s) -> cursor_ok (heap s')).
Proof.
  induction fuel as [|fuel IH]; intros s n s' e at_ HS L H; [discriminate|].
  cbn [recomputeChain] in H.
  destruct (recomputeNodeSerial fuel [] s n) as [[[s1 e1] imm]| |] eqn:E1; simpl in H; try discriminate.
  assert (Hg : inGraph (nd s n) = true).
  { apply (li_orig _ _ _ _ L n). left. apply inW_iff; [apply (li_heap _ _ _ _ L)|]. right; reflexivity. }
  destruct (rns_step fuel s n s1 e1 imm (li_bf _ _ _ _ L) (has_inGraph _ _ Hg) (proj1 (li_heap _ _ _ _ L)) E1)
    as [-> P].
  pose proof (step_LInv h0 base s n s1 imm HS L P) as L1.
  pose proof (stepPost_sframe _ _ _ _ P) as F1.
  assert (Hd1 : forall x, isDone s1 x = true -> isDone s x = true \/ x = n).
  { intros x. apply (done'_iff s n s1 imm P). }
  assert (Hu1 : forall x, isDone s1 x = false -> nd s1 x = nd s x /\ isDone s x = false).
  { intros x Hx. apply (done'_false s n s1 imm P) in Hx as [Hx Hne]. split; [apply (sp_other _ _ _ _ P x Hne)|exact Hx]. }
  destruct imm as [c|].
  - destruct (IH s1 c s' e at_ (sf_Struct _ _ F1 HS) L1 H) as (-> & L' & F' & Hd' & Hu' & Hc').
    split; [reflexivity|]. split; [exact L'|]. split; [eapply sframe_trans; eauto|].
    split; [|split; [intros x Hx; destruct (Hu' x Hx) as [E1' Hx1]; destruct (Hu1 x Hx1) as [E2' Hx0]; split; congruence|]];
      [|intros C; apply Hc', (sp_cur _ _ _ _ P), C].
    intros x Hx. destruct (Hd' x Hx) as [Hx1|[->|Hna]].
    + destruct (Hd1 x Hx1); auto.
    + right. right. rewrite <- (sf_nkind _ _ F1).
      destruct (sp_case _ _ _ _ P) as [C|R]; [pose proof (cp_imm _ _ _ _ C); discriminate|].
      destruct (rp_imm _ _ _ _ R c eq_refl) as [_ Hcan]. unfold canRecomputeImmediately in Hcan.
      destruct (isAlways (nkind (nd s1 c))); [discriminate|reflexivity].
    + right. right. rewrite <- (sf_nkind _ _ F1). exact Hna.
  - injection H as <- <- <-. split; [reflexivity|]. split; [exact L1|]. split; [exact F1|].
    split; [|split; [exact Hu1|exact (sp_cur _ _ _ _ P)]]. intros x Hx. destruct (Hd1 x Hx); auto.
Qed.

(** the list of Always nodes the loop has popped so far *)
Definition AlwaysOK (s : state) (always : list nid) : Prop :=
  (forall x, isAlways (nkind (nd s x)) = true -> isDone s x = true -> x ∈ always) /\
  (forall x, x ∈ always -> inGraph (nd s x) = true /\ isAlways (nkind (nd s x)) = true).

Lemma loop_LInv h0 base fuel : forall s always s' e at_ always',
  Struct s -> LInv h0 base s None -> AlwaysOK s always ->
  passLoop fuel [] s always = Ok (s', e, at_, always') ->
  e = None /\ LInv h0 base s' None /\ Heap.ids (heap s') = [] /\ sframe s s' /\ AlwaysOK s' always' /\
  (forall x, isDone s' x = false -> nd s' x = nd s x /\ isDone s x = false) /\
  (cursor_ok (heap s) -> cursor_ok (heap s')).
Proof.
  induction fuel as [|fuel IH]; intros s always s' e at_ always' HS L HA H; [discriminate|].
  cbn [passLoop] in H. pose proof (proj1 (li_heap _ _ _ _ L)) as I.
  destruct (Z.leb_spec (Heap.cnt (heap s)) 0) as [Hc|Hc].
  { injection H as <- <- <- <-. split; [reflexivity|]. split; [exact L|].
    split; [apply cnt_zero_ids; assumption|]. split; [apply sframe_refl|]. split; [exact HA|]. split; auto. }
  destruct (Heap.removeMin (heap s)) as [[n w]|] eqn:Erm; [|discriminate].
  set (s2 := s <| heap := w |>) in *.
  set (always2 := if isAlways (nkind (nd s2 n)) then always ++ [n] else always) in *.
  destruct (recomputeChain fuel [] s2 n) as [[[s3 e3] at3]| |] eqn:E3; simpl in H; try discriminate.
  pose proof (pop_LInv h0 base s n w HS L Erm) as L2.
  assert (F2 : sframe s s2) by apply sframe_set_heap.
  destruct (chain_LInv h0 base fuel s2 n s3 e3 at3 (sf_Struct _ _ F2 HS) L2 E3) as (-> & L3 & F3 & Hd3 & Hu3 & Hc3).
  assert (Hng : inGraph (nd s n) = true).
  { apply (li_orig _ _ _ _ L2 n). left. apply inW_iff; [apply (li_heap _ _ _ _ L2)|]. right; reflexivity. }
  assert (HA3 : AlwaysOK s3 always2).
  { destruct HA as [HA1 HA2]. split.
    - intros x Hk Hd. rewrite (sf_nkind _ _ F3) in Hk. change (nd s2 x) with (nd s x) in Hk.
      destruct (Hd3 x Hd) as [Hx|[->|Hx]].
      + unfold always2. destruct (isAlways (nkind (nd s2 n))); [apply elem_of_app; left|]; apply HA1; assumption.
      + unfold always2. change (nd s2 n) with (nd s n). rewrite Hk. apply elem_of_app. right. left.
      + change (nd s2 x) with (nd s x) in Hx. congruence.
    - intros x Hx. rewrite (sf_inGraph _ _ F3), (sf_nkind _ _ F3). change (nd s2 x) with (nd s x).
      unfold always2 in Hx. change (nd s2 n) with (nd s n) in Hx.
      destruct (isAlways (nkind (nd s n))) eqn:Ek; [|apply HA2, Hx].
      apply elem_of_app in Hx as [Hx|Hx]; [apply HA2, Hx|]. apply elem_of_list_singleton in Hx as ->. auto. }
  destruct (IH s3 always2 s' e at_ always' (sf_Struct _ _ F3 (sf_Struct _ _ F2 HS)) L3 HA3 H)
    as (-> & L' & Hemp & F' & HA' & Hu' & Hc').
  split; [reflexivity|]. split; [exact L'|]. split; [exact Hemp|].
  split; [eapply sframe_trans; [exact F2|]; eapply sframe_trans; eauto|]. split; [exact HA'|].
  split.
  - intros x Hx. destruct (Hu' x Hx) as [E1' Hx1]. destruct (Hu3 x Hx1) as [E2' Hx0].
    split; [rewrite E1', E2'; reflexivity|exact Hx0].
  - intros _. apply Hc', Hc3. exact (cursor_removeMin _ _ _ I Erm).
Qed.

(** * I. The whole pass *)

Definition isHandlerEv (e : event) : Prop :=
  match e with EvUpd _ | EvObsUpd _ _ => True | _ => False end.

Lemma set_log_id (s : state) : s <| log := log s |> = s.
Proof. destruct s; reflexivity. Qed.

Lemma handlers_fold_shape l : forall s0,
  exists L, foldl (fun s k => match obs s !! k with
                              | Some n => emit (EvObsUpd k (valueOf s n)) s
                              | None => emit (EvUpd k) s
                              end) s0 l = s0 <| log := L ++ log s0 |> /\ Forall isHandlerEv L.
Proof.
  induction l as [|a l IH]; intros s0; simpl.
  - exists []. split; [symmetry; apply set_log_id|constructor].
  - set (s1 := match obs s0 !! a with Some n => emit (EvObsUpd a (valueOf s0 n)) s0 | None => emit (EvUpd a) s0 end).
    assert (exists e, s1 = emit e s0 /\ isHandlerEv e) as (e & E1 & He).
    { unfold s1. destruct (obs s0 !! a); eexists; split; try reflexivity; exact Logic.I. }
    destruct (IH s1) as (L & -> & HL). exists (L ++ [e]). split.
    + rewrite E1. unfold emit. rewrite <- app_assoc. destruct s0; reflexivity.
    + apply Forall_app. split; [exact HL|]. constructor; [exact He|constructor].
Qed.

Lemma runUpdateHandlers_shape s :
  exists L, runUpdateHandlers s = s <| status := 2 |> <| handlers := [] |> <| log := L ++ log s |>
            /\ Forall isHandlerEv L.
Proof.
  unfold runUpdateHandlers.
  destruct (handlers_fold_shape (handlers (s <| status := 2 |>)) (s <| status := 2 |>)) as (L & -> & HL).
  exists L. split; [destruct s; reflexivity|exact HL].
Qed.

Definition requeueAlways (always : list nid) (s : state) : res state :=
  rfold (fun s n => if height (nd s n) =? unset then Ok s else heapAddIfNotPresent s n) always s.

Lemma requeue_spec always : forall s sR,
  HeapSpec.inv (heap s) -> (forall x, x ∈ always -> 0 <= height (nd s x)) ->
  (forall x, x ∈ Heap.ids (heap s) -> Heap.hinOf (heap s) x = height (nd s x)) ->
  requeueAlways always s = Ok sR ->
  only_heap s sR /\ HeapSpec.inv (heap sR) /\
  (forall x, x ∈ Heap.ids (heap sR) <-> x ∈ Heap.ids (heap s) \/ x ∈ always) /\
  (forall x, x ∈ Heap.ids (heap sR) -> Heap.hinOf (heap sR) x = height (nd s x)) /\
  (cursor_ok (heap s) -> cursor_ok (heap sR)).
Proof.
  induction always as [|a l IH]; intros s sR I Hh Hq H; unfold requeueAlways in H.
  - injection H as <-. split; [apply only_heap_refl|]. split; [exact I|]. split; [|split; [exact Hq|auto]].
    intros x. rewrite elem_of_nil. tauto.
  - rewrite rfold_cons in H. assert (Ha : 0 <= height (nd s a)) by (apply Hh; left).
    destruct (Z.eqb_spec (height (nd s a)) unset) as [E|_]; [unfold unset in E; lia|].
    destruct (heapAddIfNotPresent s a) as [s1| |] eqn:E1; simpl in H; try discriminate.
    destruct (heapAddIfNotPresent_spec0 s a s1 I Ha E1) as (O1 & I1 & M1 & Hin1).
    assert (Hnd1 : forall x, nd s1 x = nd s x) by (intros; apply (oh_nd _ _ O1)).
    assert (Hc1 : cursor_ok (heap s) -> cursor_ok (heap s1)).
    { intros C. unfold heapAddIfNotPresent in E1. destruct (inHeap s a); [injection E1 as <-; exact C|].
      apply heapAdd_inv in E1 as (w1 & Ew1 & ->). exact (cursor_add _ _ _ _ I C Ew1). }
    destruct (IH s1 sR I1) as (O2 & I2 & M2 & Hin2 & Hc2); [| |exact H|].
    + intros x Hx. rewrite Hnd1. apply Hh. right. exact Hx.
    + intros x Hx. rewrite Hin1, Hnd1. destruct (decide (x = a)) as [->|Hne].
      * destruct (inHeap s a) eqn:Ea; [apply Hq, inHeap_iff0; assumption|reflexivity].
      * apply Hq. apply M1 in Hx as [?|?]; [contradiction|assumption].
    + split; [eapply only_heap_trans; eauto|]. split; [exact I2|]. split.
      * intros x. rewrite M2, M1, elem_of_cons. tauto.
      * split; [intros x Hx; rewrite Hin2 by exact Hx; rewrite Hnd1; reflexivity|].
        intros C. apply Hc2, Hc1, C.
Qed.

Lemma requeue_only_heap always : forall s sR, requeueAlways always s = Ok sR -> only_heap s sR.
Proof.
  induction always as [|a l IH]; intros s sR H; unfold requeueAlways in H.
  - injection H as <-. apply only_heap_refl.
  - rewrite rfold_cons in H. destruct (height (nd s a) =? unset); [apply IH, H|].
    destruct (heapAddIfNotPresent s a) as [s1| |] eqn:E1; simpl in H; try discriminate.
    eapply only_heap_trans; [|apply IH, H].
    unfold heapAddIfNotPresent in E1. destruct (inHeap s a); [injection E1 as <-; apply only_heap_refl|].
    apply heapAdd_inv in E1 as (w & _ & ->). apply only_heap_set.
Qed.

Lemma stabilize_nil_inv s s' :
  status s = 0 -> setDuring s = [] -> setRemoved s = [] ->
  stabilize [] false s = Ok (s', None) ->
  let s1 := emit EvPassStart (s <| status := 1 |>) in
  exists sL at_ always sR hev,
    passLoop (passFuel s1) [] s1 [] = Ok (sL, None, at_, always) /\
    requeueAlways always sL = Ok sR /\
    (setDuring sL = [] -> setRemoved sL = [] ->
     s' = sR <| status := 0 |> <| handlers := [] |> <| setDuring := [] |> <| setRemoved := [] |>
             <| stabNum := stabNum sR + 1 |> <| log := hev ++ EvPassEnd XOk :: log sR |>) /\
    Forall isHandlerEv hev.
Proof.
  intros Hst Hsd Hsr H s1. unfold stabilize in H. rewrite Hst in H. simpl in H.
  fold s1 in H.
  destruct (passLoop (passFuel s1) [] s1 []) as [[[[sL e] at_] always]| |] eqn:EL; simpl in H; try discriminate.
  fold (requeueAlways always sL) in H.
  destruct (requeueAlways always sL) as [sR| |] eqn:ER; simpl in H; try discriminate.
  destruct e as [e|].
  { exfalso. destruct (match e with EPanic _ => _ | _ => Ok sR end) as [s3| |]; simpl in H; try discriminate.
    destruct (stabilizeEnd s3 (Some e)) as [s4| |]; simpl in H; discriminate. }
  simpl in H. unfold stabilizeEnd in H.
  destruct (runUpdateHandlers_shape (emit (EvPassEnd (classify None)) sR)) as (hev & Eh & Hhev).
  rewrite Eh in H. clear Eh.
  exists sL, at_, always, sR, hev. split; [reflexivity|]. split; [exact ER|]. split; [|exact Hhev].
  intros HsdL HsrL.
  pose proof (requeue_only_heap _ _ _ ER) as OR.
  assert (HsdR : setDuring sR = [] /\ setRemoved sR = []).
  { rewrite (oh_setDuring _ _ OR), (oh_setRemoved _ _ OR). auto. }
  destruct HsdR as [HsdR HsrR].
  unfold applyDeferredSets in H. cbn in H. rewrite HsdR, HsrR in H. simpl in H.
  injection H as <-. unfold emit. cbn. destruct sR; reflexivity.
Qed.

Definition passStart (s : state) : state := emit EvPassStart (s <| status := 1 |>).

Lemma wfb_transients s : wfb s = true ->
  status s = 0 /\ setDuring s = [] /\ setRemoved s = [] /\ handlers s = [].
Proof.
  intros H. destruct (wfb_all _ H) as (_ & _ & _ & _ & _ & _ & _ & Ht & _).
  unfold transients_empty in Ht. rewrite !andb_true_iff in Ht.
  destruct Ht as [[[[[[[_ _] H3] H4] H5] H6] _] _].
  apply Z.eqb_eq in H3. apply bool_decide_eq_true in H4, H5, H6. auto.
Qed.

Lemma wfb_queued s : wfb s = true ->
  HeapSpec.inv (heap s) /\ forall q, q ∈ Heap.ids (heap s) ->
    inGraph (nd s q) = true /\ Heap.hinOf (heap s) q = height (nd s q).
Proof.
  intros H. destruct (wfb_all _ H) as (_ & _ & _ & _ & _ & Hq & _).
  unfold queued_ok in Hq. apply andb_true_iff in Hq as [H1 H2]. split; [apply heap_inv_b_sound, H1|].
  intros q Hin. pose proof (forallb_elem _ _ _ H2 Hin) as Hb. cbv beta in Hb.
  apply andb_true_iff in Hb as [Ha Hb]. apply Z.eqb_eq in Hb. auto.
Qed.

Lemma LInv_start s : wfb s = true -> ValInv s ->
  LInv (Heap.ids (heap s)) (EvPassStart :: log s) (passStart s) None.
Proof.
  intros Hwf V. destruct (wfb_queued _ Hwf) as [I Hq]. set (s1 := passStart s).
  assert (Hn : nodes s1 = nodes s) by reflexivity.
  assert (Hnd : forall n, isDone s1 n = false).
  { intros n. unfold isDone. apply Z.eqb_neq. pose proof (stamps_node_true _ _ (vi_stamps _ V n)).
    change (recomputedAt (nd s n) <> stabNum s). lia. }
  constructor.
  - exact (vi_bf _ V).
  - split; [exact I|exact Hq].
  - intros n. pose proof (stamps_node_true _ _ (vi_stamps _ V n)) as Hs. unfold stamps_node.
    change (nd s1 n) with (nd s n). change (stabNum s1) with (stabNum s).
    rewrite !andb_true_iff, !Z.leb_le. lia.
  - intros w n _ _. apply Hnd.
  - discriminate.
  - intros n Hg _ Hs. change (inW s1 None n) with (inW s None n). unfold inW. rewrite orb_false_r.
    apply (vi_owed _ V n Hg). rewrite <- Hs. symmetry. apply isStale_nodes. exact Hn.
  - intros n Hg Hw Hgd. rewrite (node_consistent_nodes s s1 n Hn (bf_kind s (vi_bf _ V) n)).
    apply (vi_clean _ V n Hg).
    + change (inW s1 None n) with (inW s None n) in Hw. unfold inW in Hw. rewrite orb_false_r in Hw. exact Hw.
    + exact Hgd.
  - intros n [Hw|Hd]; [|rewrite Hnd in Hd; discriminate].
    apply (inW_iff s1 None n I) in Hw as [Hw|?]; [|discriminate].
    split; [apply Hq, Hw|]. unfold origin. apply orb_true_iff. left. apply bool_decide_eq_true. exact Hw.
  - intros n Hn'. left. apply (inW_iff s1 None n I). left. exact Hn'.
  - exists []. split; [reflexivity|]. split; constructor.
Qed.

(** everything the theorems below need about a successful bind-free pass without a plan *)
Record PassEnd (s s' sL : state) (hev : list event) : Prop := {
  pe_inv : LInv (Heap.ids (heap s)) (EvPassStart :: log s) sL None;
  pe_struct : Struct sL;
  pe_empty : Heap.ids (heap sL) = [];
  pe_frame : sframe (passStart s) sL;
  pe_untouched : forall x, isDone sL x = false -> nd sL x = nd s x;
  pe_nodes : nodes s' = nodes sL;
  pe_fields : binds s' = binds sL /\ next s' = next sL /\ reg s' = reg sL /\ obs s' = obs sL /\
              adj s' = adj sL /\ invq s' = invq sL /\ numNodes s' = numNodes sL /\
              maxHeight s' = maxHeight sL;
  pe_stabNum : stabNum sL = stabNum s /\ stabNum s' = stabNum s + 1;
  pe_kpos : 1 <= stabNum s;
  pe_quiet : status s' = 0 /\ handlers s' = [] /\ setDuring s' = [] /\ setRemoved s' = [];
  pe_log : log s' = hev ++ EvPassEnd XOk :: log sL /\ Forall isHandlerEv hev;
  pe_heap : HeapSpec.inv (heap s') /\
            (forall x, x ∈ Heap.ids (heap s') <->
                       inGraph (nd sL x) = true /\ isAlways (nkind (nd sL x)) = true) /\
            (forall x, x ∈ Heap.ids (heap s') -> Heap.hinOf (heap s') x = height (nd sL x)) /\
            cursor_ok (heap s')
}.

Lemma pass_end s s' :
  wfb s = true -> ValInv s -> stabilize [] false s = Ok (s', None) ->
  exists sL hev, PassEnd s s' sL hev.
Proof.
  intros Hwf V H. destruct (wfb_transients _ Hwf) as (Hst & Hsd & Hsr & Hh).
  destruct (stabilize_nil_inv s s' Hst Hsd Hsr H) as (sL & at_ & always & sR & hev & EL & ER & Es & Hhev).
  fold (passStart s) in EL. set (s1 := passStart s) in *.
  pose proof (wfb_Struct s Hwf (vi_bf _ V)) as HS.
  assert (HS1 : Struct s1).
  { destruct HS. constructor; assumption. }
  pose proof (LInv_start s Hwf V) as L1. fold s1 in L1.
  assert (HA1 : AlwaysOK s1 []).
  { split; [|intros x Hx; inv Hx]. intros x _ Hd. exfalso.
    pose proof (stamps_node_true _ _ (vi_stamps _ V x)). unfold isDone in Hd. apply Z.eqb_eq in Hd.
    change (recomputedAt (nd s x) = stabNum s) in Hd. lia. }
  destruct (loop_LInv _ _ _ s1 [] sL None at_ always HS1 L1 HA1 EL) as (_ & LL & Hemp & FL & HAL & HuL & HcL).
  pose proof (sf_Struct _ _ FL HS1) as HSL.
  pose proof (proj1 (li_heap _ _ _ _ LL)) as IL.
  destruct (requeue_spec always sL sR IL) as (OR & IR & MR & HinR & HcR); [| |exact ER|].
  { intros x Hx. apply (st_hnonneg _ HSL). apply (proj2 HAL x Hx). }
  { intros x Hx. rewrite Hemp in Hx. inv Hx. }
  assert (HsdL : setDuring sL = []) by (rewrite (sf_setDuring _ _ FL); exact Hsd).
  assert (HsrL : setRemoved sL = []) by (rewrite (sf_setRemoved _ _ FL); exact Hsr).
  specialize (Es HsdL HsrL).
  assert (HndR : forall x, nd sR x = nd sL x) by (intros; apply (oh_nd _ _ OR)).
  exists sL, hev. constructor.
  - exact LL.
  - exact HSL.
  - exact Hemp.
  - exact FL.
  - intros x Hx. apply (HuL x Hx).
  - rewrite Es. cbn. apply (oh_nodes _ _ OR).
  - rewrite Es. cbn. rewrite (oh_binds _ _ OR), (oh_next _ _ OR), (oh_reg _ _ OR), (oh_obs _ _ OR),
      (oh_adj _ _ OR), (oh_invq _ _ OR), (oh_numNodes _ _ OR), (oh_maxHeight _ _ OR). repeat split.
  - split; [apply (sf_stabNum _ _ FL)|]. rewrite Es. cbn. rewrite (oh_stabNum _ _ OR), (sf_stabNum _ _ FL).
    reflexivity.
  - pose proof (stamps_node_true _ _ (vi_stamps _ V 0%nat)). lia.
  - rewrite Es. cbn. auto.
  - split; [|exact Hhev]. rewrite Es. cbn. rewrite (oh_log _ _ OR). reflexivity.
  - assert (Eh : heap s' = heap sR) by (rewrite Es; reflexivity). rewrite Eh. split; [exact IR|]. split.
    + intros x. rewrite MR, Hemp, elem_of_nil. split.
      * intros [[]|Hx]. apply (proj2 HAL x Hx).
      * intros [Hg Hk]. right. apply (proj1 HAL x Hk).
        destruct (isDone sL x) eqn:Ed; [reflexivity|exfalso].
        assert (Hs : isStale sL x = true).
        { unfold isStale. rewrite (bf_valid sL (li_bf _ _ _ _ LL)). simpl.
          destruct (nkind (nd sL x)); try discriminate Hk. reflexivity. }
        pose proof (li_owed _ _ _ _ LL x Hg Ed Hs) as Hw.
        apply (inW_iff sL None x IL) in Hw as [Hw|?]; [|discriminate]. rewrite Hemp in Hw. inv Hw.
    + split; [intros x Hx; rewrite HinR by exact Hx; reflexivity|].
      apply HcR, HcL. destruct (wfb_all _ Hwf) as (_ & _ & _ & _ & _ & Hq & _).
      unfold queued_ok in Hq. apply andb_true_iff in Hq as [Hq _]. exact (heap_inv_b_cursor _ Hq).
Qed.

(** * J. Consequences *)
Lemma invoked_of_handlers l : Forall isHandlerEv l -> invoked_of l = [].
Proof.
  induction 1 as [|e l He _ IH]; [reflexivity|].
  unfold invoked_of in *. simpl. destruct e; try contradiction; exact IH.
Qed.

Section End.
  Context (s s' sL : state) (hev : list event) (E : PassEnd s s' sL hev) (V : ValInv s).
  Let k := stabNum s.
  Let LL := pe_inv _ _ _ _ E.
  Let HSL := pe_struct _ _ _ _ E.
  Let IL : HeapSpec.inv (heap sL) := proj1 (li_heap _ _ _ _ LL).
  Let HBFL : BF sL := li_bf _ _ _ _ LL.

  Local Lemma kL : stabNum sL = k. Proof. apply E. Qed.

  Local Lemma notW n : inW sL None n = false.
  Proof. apply inW_false_iff; [exact IL|]. rewrite (pe_empty _ _ _ _ E). split; [apply not_elem_of_nil|discriminate]. Qed.

  Local Lemma stL n : 0 <= changedAt (nd sL n) <= k /\ 0 <= recomputedAt (nd sL n) <= k /\
                      (changedAt (nd sL n) = k -> recomputedAt (nd sL n) = k).
  Proof. rewrite <- kL. apply stamps_node_false, (li_stamps _ _ _ _ LL). Qed.

  (* with nothing owed, a registered node that has not run is not stale *)
  Local Lemma not_stale n : inGraph (nd sL n) = true -> isDone sL n = false -> isStale sL n = false.
  Proof.
    intros Hg Hd. destruct (isStale sL n) eqn:Es; [|reflexivity].
    pose proof (li_owed _ _ _ _ LL n Hg Hd Es) as Hw. rewrite notW in Hw. discriminate.
  Qed.

  Local Lemma always_done n : inGraph (nd sL n) = true -> nkind (nd sL n) = KAlways -> isDone sL n = true.
  Proof.
    intros Hg Hk. destruct (isDone sL n) eqn:Ed; [reflexivity|].
    pose proof (not_stale n Hg Ed) as Hs. unfold isStale in Hs. rewrite (bf_valid sL HBFL), Hk in Hs. discriminate.
  Qed.

  Local Lemma no_parents n : inGraph (nd sL n) = true ->
    (exists e, nkind (nd sL n) = KVar e) \/ nkind (nd sL n) = KReturn -> parents (nd sL n) = [].
  Proof.
    intros Hg Hk. pose proof (bf_arity sL HBFL n) as Ha. unfold arity_ok in Ha.
    assert (Hd : decl (nd sL n) = []).
    { destruct Hk as [[e Hk]|Hk]; rewrite Hk in Ha; apply bool_decide_eq_true in Ha; exact Ha. }
    destruct (parents (nd sL n)) as [|p l] eqn:Ep; [reflexivity|].
    assert (p ∈ decl (nd sL n)) as Hin by (apply (st_par _ HSL n p Hg); rewrite Ep; left).
    rewrite Hd in Hin. inv Hin.
  Qed.

  Local Lemma fresh n p : inGraph (nd sL n) = true -> p ∈ parents (nd sL n) ->
    changedAt (nd sL p) <= recomputedAt (nd sL n).
  Proof.
    intros Hg Hp. destruct (isDone sL n) eqn:Ed.
    - apply isDone_iff in Ed. rewrite Ed, kL. pose proof (stL p). lia.
    - pose proof (not_stale n Hg Ed) as Hs. unfold isStale in Hs. rewrite (bf_valid sL HBFL) in Hs. simpl in Hs.
      assert (Hnp : parents (nd sL n) = [] -> changedAt (nd sL p) <= recomputedAt (nd sL n)).
      { intros En. rewrite En in Hp. inv Hp. }
      assert (Hsw : staleWrtParents sL (nd sL n) = false -> changedAt (nd sL p) <= recomputedAt (nd sL n)).
      { intros Hf. unfold staleWrtParents in Hf.
        destruct (Z.gtb_spec (changedAt (nd sL p)) (recomputedAt (nd sL n))) as [Hgt|]; [|lia].
        assert (existsb (fun p => changedAt (nd sL p) >? recomputedAt (nd sL n)) (parents (nd sL n)) = true) as Ht.
        { apply existsb_elem. exists p. split; [exact Hp|]. apply Z.gtb_lt. lia. }
        congruence. }
      destruct (nkind (nd sL n)) eqn:K; try discriminate Hs;
        try (apply orb_false_iff in Hs as [_ Hs]; apply Hsw, Hs).
      + apply Hnp, no_parents; eauto.
      + apply Hnp, no_parents; eauto.
  Qed.

  Local Lemma all_guarded n : inGraph (nd sL n) = true -> guarded sL None n = true.
  Proof.
    intros Hg. unfold guarded. apply forallb_intro. intros p Hp. apply andb_true_iff. split.
    - apply Z.leb_le. apply fresh; assumption.
    - apply negb_true_iff. unfold volq. destruct (nkind (nd sL p)) eqn:K; try reflexivity.
      + apply notW.
      + assert (Hgp : inGraph (nd sL p) = true) by (apply (edge_reg sL HSL p n), (parent_edge sL HSL), Hp).
        pose proof (always_done p Hgp K) as Hd. apply isDone_iff in Hd. apply Z.ltb_ge. lia.
  Qed.

  Local Lemma all_consistent_L n : inGraph (nd sL n) = true -> node_consistent sL n = true.
  Proof. intros Hg. apply (li_clean _ _ _ _ LL n Hg (notW n) (all_guarded n Hg)). Qed.

  Local Lemma nd' n : nd s' n = nd sL n.
  Proof. apply nodes_eq_nd, E. Qed.

  Lemma end_consistent_node n : inGraph (nd s' n) = true -> node_consistent s' n = true.
  Proof.
    rewrite nd'. intros Hg. rewrite (node_consistent_nodes sL s' n (pe_nodes _ _ _ _ E) (bf_kind sL HBFL n)).
    apply all_consistent_L, Hg.
  Qed.

  Lemma end_BF : BF s'.
  Proof.
    destruct (pe_fields _ _ _ _ E) as (Hb & Hn & _). destruct HBFL as [B1 B2]. split; [congruence|].
    intros n x Hx. rewrite (pe_nodes _ _ _ _ E) in Hx. pose proof (B2 n x Hx) as H. unfold bf_node in *.
    rewrite Hn. exact H.
  Qed.

  Lemma end_consistent : consistent s' = true.
  Proof.
    unfold consistent, registered. apply forallb_intro. intros n Hn. apply elem_of_list_filter in Hn as [Hg _].
    rewrite (bf_valid s' end_BF). simpl. apply end_consistent_node, Hg.
  Qed.

  Lemma end_isStale n : isStale s' n = isStale sL n.
  Proof. apply isStale_nodes, E. Qed.


  Local Lemma kpos : 1 <= k. Proof. apply E. Qed.

  (* after the loop the only stale registered nodes are the Always nodes *)
  Local Lemma stale_is_always n : inGraph (nd sL n) = true -> isStale sL n = true -> nkind (nd sL n) = KAlways.
  Proof.
    intros Hg Hs. destruct (isDone sL n) eqn:Ed; [|rewrite (not_stale n Hg Ed) in Hs; discriminate].
    apply isDone_iff in Ed. rewrite kL in Ed. pose proof kpos as Hk.
    unfold isStale in Hs. rewrite (bf_valid sL HBFL) in Hs. simpl in Hs.
    assert (Hsw : staleWrtParents sL (nd sL n) = false).
    { unfold staleWrtParents. destruct (existsb _ _) eqn:Ex; [|reflexivity].
      apply existsb_elem in Ex as (p & _ & Hp). apply Z.gtb_lt in Hp. pose proof (stL p). lia. }
    assert (H0 : (recomputedAt (nd sL n) =? 0) = false) by (apply Z.eqb_neq; lia).
    destruct (nkind (nd sL n)) eqn:K; try reflexivity; try discriminate Hs;
      rewrite ?H0, ?Hsw in Hs; discriminate Hs.
  Qed.

  Lemma end_ValInv : ValInv s'.
  Proof.
    destruct (pe_stabNum _ _ _ _ E) as [_ Hk']. constructor.
    - exact end_BF.
    - intros n. unfold stamps_node. rewrite nd', Hk'. pose proof (stL n). fold k.
      rewrite !andb_true_iff, !Z.leb_le, Z.ltb_lt. lia.
    - intros n Hg. rewrite nd' in *. assert (Hd : isDone sL n = false).
      { destruct (isDone sL n) eqn:Ed; [|reflexivity].
        destruct (li_orig _ _ _ _ LL n (or_intror Ed)) as [Hg' _]. congruence. }
      rewrite (pe_untouched _ _ _ _ E n Hd). apply (vi_unreg _ V). rewrite <- Hg.
      symmetry. rewrite <- (pe_untouched _ _ _ _ E n Hd). reflexivity.
    - intros n Hg Hs. rewrite nd' in Hg. rewrite end_isStale in Hs.
      apply inHeap_iff0; [apply E|]. apply (proj1 (proj2 (pe_heap _ _ _ _ E))). split; [exact Hg|].
      rewrite (stale_is_always n Hg Hs). reflexivity.
    - intros n Hg _ _. apply end_consistent_node, Hg.
  Qed.

  (** the events of the pass *)
  Lemma end_log : exists evs, log s' = hev ++ EvPassEnd XOk :: evs ++ EvPassStart :: log s /\
                              Forall (fun e => ev_ok sL e = true) evs /\ NoDup (invoked_of evs).
  Proof.
    destruct (li_log _ _ _ _ LL) as (evs & Hl & Hall & Hnd). exists evs. split; [|auto].
    rewrite (proj1 (pe_log _ _ _ _ E)), Hl. reflexivity.
  Qed.

  Local Lemma handler_not e : isHandlerEv e -> ev_node e = None.
  Proof. destruct e; simpl; tauto. Qed.

  Lemma end_events evs' e n : log s' = evs' ++ log s -> e ∈ evs' -> ev_node e = Some n -> ev_ok sL e = true.
  Proof.
    intros Hl He Hn. destruct end_log as (evs & Hl' & Hall & _).
    assert (evs' = hev ++ EvPassEnd XOk :: evs ++ [EvPassStart]) as ->.
    { apply (app_inv_tail (log s)). rewrite <- Hl, Hl', <- !app_assoc. simpl. rewrite <- app_assoc. reflexivity. }
    apply elem_of_app in He as [He|He].
    - pose proof (proj2 (pe_log _ _ _ _ E)) as Hh. rewrite Forall_forall in Hh.
      apply elem_of_list_In in He. rewrite (handler_not e (Hh e He)) in Hn. discriminate.
    - apply elem_of_cons in He as [->|He]; [discriminate|].
      apply elem_of_app in He as [He|He].
      + rewrite Forall_forall in Hall. apply Hall, elem_of_list_In, He.
      + apply elem_of_list_singleton in He as ->. discriminate.
  Qed.

  Lemma end_invoked_nodup evs' : log s' = evs' ++ log s -> NoDup (invoked_of evs').
  Proof.
    intros Hl. destruct end_log as (evs & Hl' & _ & Hnd).
    assert (evs' = hev ++ EvPassEnd XOk :: evs ++ [EvPassStart]) as ->.
    { apply (app_inv_tail (log s)). rewrite <- Hl, Hl', <- !app_assoc. simpl. rewrite <- app_assoc. reflexivity. }
    assert (Hh : invoked_of hev = []) by (apply invoked_of_handlers, E).
    unfold invoked_of in *. rewrite omap_app, Hh. simpl. rewrite omap_app. simpl. rewrite app_nil_r. exact Hnd.
  Qed.

  (* C02 *)
  Lemma end_args_final evs' n args r :
    log s' = evs' ++ log s -> EvInvoked n args r ∈ evs' ->
    args = map (valueOf s') (decl (nd s' n)) /\ r = value (nd s' n) /\ recomputedAt (nd s' n) = k.
  Proof.
    intros Hl He. pose proof (end_events evs' _ n Hl He eq_refl) as Hok. unfold ev_ok in Hok.
    rewrite !andb_true_iff in Hok. destruct Hok as [[Hd Ha] Hr].
    apply bool_decide_eq_true in Ha. apply Z.eqb_eq in Hr. apply isDone_iff in Hd. rewrite kL in Hd.
    rewrite nd'. split; [|auto]. rewrite Ha. apply map_ext. intros p. symmetry. apply valueOf_nodes, E.
  Qed.

  (* structure carried from the start of the pass *)
  Local Lemma FL : sframe (passStart s) sL. Proof. apply E. Qed.
  Lemma end_inGraph n : inGraph (nd s' n) = inGraph (nd s n).
  Proof. rewrite nd'. apply (sf_inGraph _ _ FL). Qed.
  Lemma end_parents n : parents (nd s' n) = parents (nd s n).
  Proof. rewrite nd'. apply (sf_parents _ _ FL). Qed.
  Lemma end_children n : children (nd s' n) = children (nd s n).
  Proof. rewrite nd'. apply (sf_children _ _ FL). Qed.
  Lemma end_skel n : skel (nd s' n) = skel (nd s n).
  Proof. rewrite nd'. apply (sf_nd _ _ FL). Qed.

  (* C03: whoever ran was registered and owed *)
  Lemma end_ran_was_owed n : recomputedAt (nd s' n) = k ->
    inGraph (nd s n) = true /\
    (n ∈ Heap.ids (heap s) \/ exists p, p ∈ parents (nd s n) /\ changedAt (nd s' p) = k).
  Proof.
    rewrite nd'. intros Hd. rewrite <- kL in Hd. apply isDone_iff in Hd.
    destruct (li_orig _ _ _ _ LL n (or_intror Hd)) as [Hg Ho]. rewrite (sf_inGraph _ _ FL) in Hg.
    split; [exact Hg|]. unfold origin in Ho. apply orb_true_iff in Ho as [Ho|Ho].
    - left. apply bool_decide_eq_true in Ho. exact Ho.
    - right. apply existsb_elem in Ho as (p & Hp & Hc). rewrite (sf_parents _ _ FL) in Hp.
      exists p. split; [exact Hp|]. rewrite nd'. apply Z.eqb_eq in Hc. rewrite kL in Hc. exact Hc.
  Qed.

  Lemma end_event_ran evs' e n : log s' = evs' ++ log s -> e ∈ evs' -> ev_node e = Some n ->
    recomputedAt (nd s' n) = k.
  Proof.
    intros Hl He Hn. pose proof (end_events evs' e n Hl He Hn) as Hok. rewrite nd', <- kL. apply isDone_iff.
    destruct e; try discriminate Hn; injection Hn as ->; unfold ev_ok in Hok; rewrite !andb_true_iff in Hok; tauto.
  Qed.

  (* C03: whoever was owed ran *)
  Lemma end_owed_ran n : inGraph (nd s n) = true ->
    (n ∈ Heap.ids (heap s) \/ exists p, p ∈ parents (nd s n) /\ changedAt (nd s' p) = k) ->
    recomputedAt (nd s' n) = k.
  Proof.
    intros Hg Ho. rewrite nd', <- kL. apply isDone_iff. rewrite <- end_inGraph, nd' in Hg.
    destruct Ho as [Hq|(p & Hp & Hc)].
    - destruct (li_prog _ _ _ _ LL n Hq) as [Hw|Hd]; [rewrite notW in Hw; discriminate|exact Hd].
    - destruct (isDone sL n) eqn:Ed; [reflexivity|exfalso].
      rewrite <- end_parents, nd' in Hp. rewrite nd' in Hc.
      pose proof (fresh n p Hg Hp) as Hf. pose proof (stL n) as Hn.
      unfold isDone in Ed. apply Z.eqb_neq in Ed. rewrite kL in Ed. lia.
  Qed.

  (* C11: a cut node's stamp and value are untouched, and no dependent ran on its account *)
  Lemma end_cut_stops evs' n old new :
    log s' = evs' ++ log s -> EvCutoff n old new true ∈ evs' ->
    changedAt (nd s' n) < k /\ value (nd s' n) = old /\
    forall c, c ∈ children (nd s n) -> recomputedAt (nd s' c) = k ->
      c ∈ Heap.ids (heap s) \/ exists p, p ∈ parents (nd s c) /\ p <> n /\ changedAt (nd s' p) = k.
  Proof.
    intros Hl He. pose proof (end_events evs' _ n Hl He eq_refl) as Hok. unfold ev_ok in Hok.
    rewrite !andb_true_iff in Hok. destruct Hok as [_ [Hc Hv]]. apply Z.ltb_lt in Hc. apply Z.eqb_eq in Hv.
    rewrite kL in Hc. rewrite nd'. split; [exact Hc|]. split; [exact Hv|].
    intros c _ Hd. destruct (end_ran_was_owed c Hd) as [_ [?|(p & Hp & Hpc)]]; [auto|].
    right. exists p. split; [exact Hp|]. split; [|exact Hpc]. intros ->. rewrite nd' in Hpc. lia.
  Qed.
End End.

(** ** [wfb] after the pass: the structural clauses read only what the pass keeps *)
Section WfbTransfer.
  Context (s s' : state).
  Context (Hsk : forall n, skel (nd s' n) = skel (nd s n)).
  Context (Hhas : forall n, has s' n <-> has s n) (Hnext : next s' = next s).

  Local Lemma wt_all : allNodes s' = allNodes s.
  Proof.
    unfold allNodes. rewrite Hnext. apply list_filter_iff. intros n. apply Hhas.
  Qed.
  Local Ltac pj f := intros n; exact (f_equal f (Hsk n)).
  Local Lemma wt_parents : forall n, parents (nd s' n) = parents (nd s n). Proof. pj parents. Qed.
  Local Lemma wt_children : forall n, children (nd s' n) = children (nd s n). Proof. pj children. Qed.
  Local Lemma wt_observers : forall n, observers (nd s' n) = observers (nd s n). Proof. pj observers. Qed.
  Local Lemma wt_inGraph : forall n, inGraph (nd s' n) = inGraph (nd s n). Proof. pj inGraph. Qed.
  Local Lemma wt_height : forall n, height (nd s' n) = height (nd s n). Proof. pj height. Qed.
  Local Lemma wt_hAdj : forall n, hAdj (nd s' n) = hAdj (nd s n). Proof. pj hAdj. Qed.
  Local Lemma wt_valid : forall n, valid (nd s' n) = valid (nd s n). Proof. pj valid. Qed.
  Local Lemma wt_decl : forall n, decl (nd s' n) = decl (nd s n). Proof. pj decl. Qed.
  Local Lemma wt_scope : forall n, scope (nd s' n) = scope (nd s n). Proof. pj scope. Qed.
  Local Lemma wt_forceNec : forall n, forceNec (nd s' n) = forceNec (nd s n). Proof. pj forceNec. Qed.
  Local Lemma wt_nec n : isNecessary (nd s' n) = isNecessary (nd s n).
  Proof. apply isNecessary_ext; [apply wt_forceNec|apply wt_children|apply wt_observers]. Qed.

  Lemma wt_edges : edges_symmetric s' = edges_symmetric s.
  Proof.
    unfold edges_symmetric. rewrite wt_all. apply forallb_ext. intros c _.
    rewrite wt_parents, wt_children. f_equal; apply forallb_ext; intros x _.
    - rewrite wt_children. reflexivity.
    - rewrite wt_parents. reflexivity.
  Qed.

  Lemma wt_nec_clause : registered_iff_necessary s' = registered_iff_necessary s.
  Proof.
    unfold registered_iff_necessary. rewrite wt_all. apply forallb_ext. intros n _.
    rewrite wt_inGraph, wt_nec. reflexivity.
  Qed.

  Lemma wt_declared : parents_are_declared s' = parents_are_declared s.
  Proof.
    unfold parents_are_declared. rewrite wt_all. apply forallb_ext. intros n _.
    rewrite wt_inGraph, wt_valid, wt_parents, wt_decl. reflexivity.
  Qed.

  Lemma wt_heights : maxHeight s' = maxHeight s -> heights_ordered s' = heights_ordered s.
  Proof.
    intros Hm. unfold heights_ordered. rewrite wt_all, Hm. apply forallb_ext. intros n _.
    rewrite wt_inGraph, wt_height, wt_parents, wt_scope. f_equal. f_equal; [f_equal|].
    - apply forallb_ext. intros p _. rewrite wt_height. reflexivity.
    - unfold scopeHeight. destruct (scope (nd s n)); [rewrite wt_height|]; reflexivity.
  Qed.

  Lemma wt_counts : reg s' = reg s -> obs s' = obs s -> numNodes s' = numNodes s ->
    counts_ok s' = counts_ok s.
  Proof.
    intros Hr Ho Hn. unfold counts_ok. rewrite wt_all, Hr, Ho, Hn. f_equal. f_equal. f_equal.
    apply bool_decide_ext. split; intros ->; apply list_filter_iff; intros n; rewrite wt_inGraph; reflexivity.
  Qed.

  Lemma wt_observers_clause : obs s' = obs s -> observers_ok s' = observers_ok s.
  Proof.
    intros Ho. unfold observers_ok. rewrite wt_all, Ho. f_equal.
    - apply forallb_ext. intros n _. rewrite wt_observers. reflexivity.
    - apply forallb_ext. intros [o n] _. rewrite wt_observers. reflexivity.
  Qed.

  Lemma wt_unreg : unregistered_zeroed s = true ->
    (forall n, inHeap s' n = true -> inGraph (nd s' n) = true) -> unregistered_zeroed s' = true.
  Proof.
    intros H Hq. unfold unregistered_zeroed in *. rewrite wt_all. apply forallb_intro. intros n Hn.
    pose proof (forallb_elem _ _ _ H Hn) as Hb. cbv beta zeta in Hb |- *.
    rewrite wt_inGraph, wt_parents, wt_children, wt_observers, wt_height.
    destruct (inGraph (nd s n)) eqn:Eg; [reflexivity|]. simpl in *.
    rewrite !andb_true_iff in Hb. rewrite !andb_true_iff. destruct Hb as [[[[H1 H2] H3] H4] _].
    repeat split; try assumption. apply negb_true_iff. destruct (inHeap s' n) eqn:Eh; [|reflexivity].
    specialize (Hq n Eh). rewrite wt_inGraph in Hq. congruence.
  Qed.

  Lemma wt_transients :
    transients_empty s = true -> adj s' = adj s -> invq s' = invq s -> status s' = 0 ->
    setDuring s' = [] -> setRemoved s' = [] -> handlers s' = [] -> transients_empty s' = true.
  Proof.
    intros H Ha Hi Hst Hsd Hsr Hh. unfold transients_empty in *. rewrite wt_all, Ha, Hi, Hst, Hsd, Hsr, Hh.
    rewrite !andb_true_iff in H. destruct H as [[[[[[[H1 H2] _] _] _] _] H7] H8].
    rewrite !andb_true_iff. repeat split; try assumption; try reflexivity.
    erewrite forallb_ext; [exact H7|]. intros n _. rewrite wt_forceNec, wt_hAdj. reflexivity.
  Qed.
End WfbTransfer.

(** * K. The pass theorems *)

(** C02: every function invocation of the pass saw the values its inputs hold when the pass
    returns, and returned the value its node holds then; the node ran in this pass *)
Theorem pass_args_final s s' :
  wfb s = true -> ValInv s -> stabilize [] false s = Ok (s', None) ->
  forall evs n args r, log s' = evs ++ log s -> EvInvoked n args r ∈ evs ->
    args = map (valueOf s') (decl (nd s' n)) /\ r = value (nd s' n) /\
    recomputedAt (nd s' n) = stabNum s.
Proof.
  intros Hwf V H evs n args r Hl He. destruct (pass_end s s' Hwf V H) as (sL & hev & E).
  exact (end_args_final s s' sL hev E evs n args r Hl He).
Qed.

(** C01, pass half: local consistency of every registered node, and the quiescent invariant again *)
Theorem pass_consistent s s' :
  wfb s = true -> ValInv s -> stabilize [] false s = Ok (s', None) ->
  consistent s' = true /\ ValInv s'.
Proof.
  intros Hwf V H. destruct (pass_end s s' Hwf V H) as (sL & hev & E).
  split; [exact (end_consistent s s' sL hev E)|exact (end_ValInv s s' sL hev E V)].
Qed.

(** the frame of the pass: the graph structure is constant *)
Theorem pass_structure_const s s' :
  wfb s = true -> ValInv s -> stabilize [] false s = Ok (s', None) ->
  (forall n, skel (nd s' n) = skel (nd s n)) /\ (forall n, has s' n <-> has s n) /\
  binds s' = binds s /\ next s' = next s /\ reg s' = reg s /\ obs s' = obs s /\ adj s' = adj s /\
  invq s' = invq s /\ numNodes s' = numNodes s /\ maxHeight s' = maxHeight s /\
  stabNum s' = stabNum s + 1 /\ status s' = 0 /\ handlers s' = [] /\ setDuring s' = [] /\ setRemoved s' = [].
Proof.
  intros Hwf V H. destruct (pass_end s s' Hwf V H) as (sL & hev & E).
  pose proof (pe_frame _ _ _ _ E) as F.
  destruct (pe_fields _ _ _ _ E) as (H1 & H2 & H3 & H4 & H5 & H6 & H7 & H8).
  destruct (pe_quiet _ _ _ _ E) as (Q1 & Q2 & Q3 & Q4).
  split; [intros n; apply (end_skel s s' sL hev E)|].
  split. { intros n. unfold has. rewrite (pe_nodes _ _ _ _ E). apply (sf_has _ _ F). }
  rewrite H1, H2, H3, H4, H5, H6, H7, H8.
  rewrite (sf_binds _ _ F), (sf_next _ _ F), (sf_reg _ _ F), (sf_obs _ _ F), (sf_adj _ _ F), (sf_invq _ _ F),
    (sf_numNodes _ _ F), (sf_maxHeight _ _ F).
  repeat split; try assumption. apply E.
Qed.

(** the structural invariant after the pass *)
Theorem pass_wfb s s' :
  wfb s = true -> ValInv s -> stabilize [] false s = Ok (s', None) -> wfb s' = true.
Proof.
  intros Hwf V H. destruct (pass_structure_const s s' Hwf V H)
    as (Hsk & Hhas & Hb & Hn & Hr & Ho & Ha & Hi & Hnn & Hm & _ & Hst & Hh & Hsd & Hsr).
  destruct (pass_end s s' Hwf V H) as (sL & hev & E).
  destruct (wfb_all _ Hwf) as (W1 & W2 & W3 & W4 & W5 & W6 & W7 & W8 & W9 & W10).
  destruct (pe_heap _ _ _ _ E) as (IR & MR & HinR & CR).
  assert (Hnd' : forall n, nd s' n = nd sL n) by (apply nodes_eq_nd, E).
  apply wfb_intro.
  - rewrite (wt_edges s s' Hsk Hhas Hn). exact W1.
  - apply (wt_unreg s s' Hsk Hhas Hn W2). intros n Hq. apply inHeap_iff0 in Hq; [|exact IR].
    rewrite Hnd'. apply MR, Hq.
  - rewrite (wt_nec_clause s s' Hsk Hhas Hn). exact W3.
  - rewrite (wt_declared s s' Hsk Hhas Hn). exact W4.
  - rewrite (wt_heights s s' Hsk Hhas Hn Hm). exact W5.
  - unfold queued_ok. apply andb_true_iff. split; [apply heap_inv_b_complete; assumption|].
    apply forallb_intro. intros x Hx. rewrite Hnd'. apply andb_true_iff. split; [apply MR, Hx|].
    apply Z.eqb_eq, HinR, Hx.
  - rewrite (wt_counts s s' Hsk Hhas Hn Hr Ho Hnn). exact W7.
  - apply (wt_transients s s' Hsk Hhas Hn W8 Ha Hi Hst Hsd Hsr Hh).
  - rewrite (wt_observers_clause s s' Hsk Hhas Hn Ho). exact W9.
  - unfold binds_ok. rewrite Hb, (proj1 (vi_bf _ V)), map_to_list_empty. reflexivity.
Qed.

(** the loop-level form of the frame lemma *)
Lemma passLoop_structure_const h0 base fuel s always s' e at_ always' :
  Struct s -> LInv h0 base s None -> AlwaysOK s always ->
  passLoop fuel [] s always = Ok (s', e, at_, always') -> sframe s s'.
Proof. intros HS L HA H. apply (loop_LInv h0 base fuel s always s' e at_ always' HS L HA H). Qed.

(** C03: exactly the owed nodes ran, each once *)
Theorem pass_runs_owed s s' :
  wfb s = true -> ValInv s -> stabilize [] false s = Ok (s', None) ->
  let k := stabNum s in
  forall evs, log s' = evs ++ log s ->
  (* (a) a node with an event ran; a node that ran was registered, and queued at the start or
         has an input that changed in this pass *)
  (forall e n, e ∈ evs -> ev_node e = Some n -> recomputedAt (nd s' n) = k) /\
  (forall n, recomputedAt (nd s' n) = k ->
     inGraph (nd s n) = true /\
     (n ∈ Heap.ids (heap s) \/ exists p, p ∈ parents (nd s n) /\ changedAt (nd s' p) = k)) /\
  (* (b) no node's function ran twice *)
  NoDup (invoked_of evs) /\
  (* (c) every registered node that was stale or queued at the start, or one of whose inputs
         changed in this pass, ran *)
  (forall n, inGraph (nd s n) = true ->
     (isStale s n = true \/ n ∈ Heap.ids (heap s) \/
      exists p, p ∈ parents (nd s n) /\ changedAt (nd s' p) = k) ->
     recomputedAt (nd s' n) = k) /\
  (* nodes that did not run are untouched *)
  (forall n, recomputedAt (nd s' n) <> k ->
     value (nd s' n) = value (nd s n) /\ recomputedAt (nd s' n) = recomputedAt (nd s n)
     /\ changedAt (nd s' n) = changedAt (nd s n)).
Proof.
  intros Hwf V H k evs Hl. destruct (pass_end s s' Hwf V H) as (sL & hev & E).
  split; [intros e n; apply (end_event_ran s s' sL hev E evs e n Hl)|].
  split; [apply (end_ran_was_owed s s' sL hev E)|].
  split; [apply (end_invoked_nodup s s' sL hev E evs Hl)|].
  split.
  - intros n Hg [Hs|Ho]; apply (end_owed_ran s s' sL hev E n Hg); [|exact Ho].
    left. apply inHeap_iff0; [apply (wfb_queued s Hwf)|]. apply (vi_owed _ V n Hg Hs).
  - intros n Hn. assert (Hd : isDone sL n = false).
    { unfold isDone. apply Z.eqb_neq. rewrite (proj1 (pe_stabNum _ _ _ _ E)).
      rewrite <- (nodes_eq_nd _ _ (pe_nodes _ _ _ _ E) n). exact Hn. }
    rewrite (nodes_eq_nd _ _ (pe_nodes _ _ _ _ E) n), (pe_untouched _ _ _ _ E n Hd). auto.
Qed.

(** C11, pass half: a cutoff whose verdict was "unchanged" keeps its value and stamp, and no
    dependent of it ran on its account *)
Theorem pass_cut_stops s s' :
  wfb s = true -> ValInv s -> stabilize [] false s = Ok (s', None) ->
  forall evs n old new, log s' = evs ++ log s -> EvCutoff n old new true ∈ evs ->
    changedAt (nd s' n) < stabNum s /\ value (nd s' n) = old /\
    forall c, c ∈ children (nd s n) -> recomputedAt (nd s' c) = stabNum s ->
      c ∈ Heap.ids (heap s) \/
      exists p, p ∈ parents (nd s c) /\ p <> n /\ changedAt (nd s' p) = stabNum s.
Proof.
  intros Hwf V H evs n old new Hl He. destruct (pass_end s s' Hwf V H) as (sL & hev & E).
  exact (end_cut_stops s s' sL hev E evs n old new Hl He).
Qed.

(** * L. The boolean checker of the quiescent invariant is sound *)
Lemma valinv_b_sound s : valinv_b s = true -> ValInv s.
Proof.
  unfold valinv_b, vi_codes, code. intros [Hk H]%andb_true_iff. apply Z.leb_le in Hk.
  apply bool_decide_eq_true in H.
  destruct (bf_b s) eqn:Hbf; [|discriminate H].
  destruct (forallb (stamps_node s true) (allNodes s)) eqn:H1; [|discriminate H].
  destruct (forallb _ (allNodes s)) eqn:H2 in H; [|discriminate H].
  destruct (forallb _ (allNodes s)) eqn:H3 in H; [|discriminate H].
  destruct (forallb _ (allNodes s)) eqn:H4 in H; [|discriminate H].
  clear H. pose proof (bf_b_sound s Hbf) as HBF.
  assert (Hall : forall n, has s n -> n ∈ allNodes s) by (intros n; apply (bf_allNodes s HBF)).
  constructor.
  - exact HBF.
  - intros n. destruct (decide (has s n)) as [Hn|Hn]; [apply (forallb_elem _ _ _ H1 (Hall n Hn))|].
    apply stamps_node_true_intro; rewrite (not_has_nd s n Hn); simpl; lia.
  - intros n Hg. destruct (decide (has s n)) as [Hn|Hn]; [|rewrite (not_has_nd s n Hn); auto].
    pose proof (forallb_elem _ _ _ H4 (Hall n Hn)) as Hb. cbv beta in Hb. rewrite Hg in Hb. simpl in Hb.
    apply andb_true_iff in Hb as [Ha Hb]. apply Z.eqb_eq in Ha, Hb. auto.
  - intros n Hg Hs. pose proof (forallb_elem _ _ _ H2 (Hall n (has_inGraph _ _ Hg))) as Hb. cbv beta in Hb.
    rewrite Hg, Hs in Hb. exact Hb.
  - intros n Hg Hq Hgd. pose proof (forallb_elem _ _ _ H3 (Hall n (has_inGraph _ _ Hg))) as Hb. cbv beta in Hb.
    rewrite Hg, Hq, Hgd in Hb. exact Hb.
Qed.

Lemma ValInv_init mh : ValInv (init mh).
Proof. apply valinv_b_sound. reflexivity. Qed.

(** * M. A concrete bind-free history for the non-vacuity examples: a diamond (2, 3 -> 4 over
    var 0), a duplicated input (5), a parity cutoff (6), an Always node (7) with a dependent (8),
    a MapN (9) that is observed; one pass, then two writes *)
Definition ex_ops : list op :=
  [ NewVar 1 false;                      (* 0 *)
    NewVar 2 false;                      (* 1 *)
    NewMap (Aff 1 1) 0%nat;              (* 2 *)
    NewMap (Aff 2 0) 0%nat;              (* 3 *)
    NewMap2 (Lin2 1 1 0) 2%nat 3%nat;    (* 4 *)
    NewMap2 (Lin2 1 2 0) 1%nat 1%nat;    (* 5 *)
    NewCutoff CParity 4%nat;             (* 6 *)
    NewAlways 6%nat;                     (* 7 *)
    NewMap (Aff 1 0) 7%nat;              (* 8 *)
    NewMapN Sum [5; 8; 5]%nat;           (* 9 *)
    Observe 9%nat;                       (* observer 10 *)
    Stabilize [];
    SetVar 0%nat 3;
    SetVar 1%nat 4 ].
Definition ex_pre : state :=
  match run (init 64) ex_ops with Ok s => s <| log := [] |> | _ => init 0 end.
Definition ex_post : state :=
  match stabilize [] false ex_pre with Ok (s, None) => s | _ => init 0 end.

(** * N. Statement forms used by Properties/ *)
Lemma pass_args_final_step s s' :
  wfb s = true -> ValInv s -> step s (Stabilize []) = Ok (s', None) ->
  forall evs n args r, log s' = evs ++ log s -> EvInvoked n args r ∈ evs ->
    args = map (valueOf s') (decl (nd s' n)) /\ r = value (nd s' n).
Proof.
  intros Hwf V H evs n args r Hl He.
  destruct (pass_args_final s s' Hwf V H evs n args r Hl He) as (A & B & _). auto.
Qed.

Lemma rns_preserves_LInv h0 base fuel s m s' e imm :
  Struct s -> LInv h0 base s (Some m) ->
  recomputeNodeSerial fuel [] s m = Ok (s', e, imm) ->
  e = None /\ LInv h0 base s' imm.
Proof.
  intros HS L H.
  assert (Hg : inGraph (nd s m) = true).
  { apply (li_orig _ _ _ _ L m). left. apply inW_iff; [apply (li_heap _ _ _ _ L)|]. right; reflexivity. }
  destruct (rns_step fuel s m s' e imm (li_bf _ _ _ _ L) (has_inGraph _ _ Hg)
              (proj1 (li_heap _ _ _ _ L)) H) as [-> P].
  split; [reflexivity|]. exact (step_LInv h0 base s m s' imm HS L P).
Qed.

Lemma pass_consistent_spec s s' :
  wfb s = true -> ValInv s -> stabilize [] false s = Ok (s', None) -> consistent s' = true.
Proof. intros Hwf V H. apply (pass_consistent s s' Hwf V H). Qed.

Lemma ex_pass_ok : stabilize [] false ex_pre = Ok (ex_post, None).
Proof.
  assert (H : match stabilize [] false ex_pre with Ok (_, None) => true | _ => false end = true)
    by (vm_compute; reflexivity).
  unfold ex_post. destruct (stabilize [] false ex_pre) as [[s [e|]]| |]; try discriminate H. reflexivity.
Qed.

Lemma ex_pre_hyps : wfb ex_pre = true /\ ValInv ex_pre.
Proof. split; [vm_compute; reflexivity|apply valinv_b_sound; vm_compute; reflexivity]. Qed.

(** * O. From local consistency to the from-scratch semantics (SpecProofs, Theorem A) *)
From incr Require Import SpecProofs.

Lemma BF_notLhs s a : BF s -> notLhs s a = true.
Proof.
  intros HBF. unfold notLhs. pose proof (bf_kind s HBF a) as H. destruct (nkind (nd s a)); try reflexivity.
  discriminate H.
Qed.

Lemma BF_closed s : BF s -> closed s = true /\ templates_ok s = true.
Proof.
  intros HBF. split.
  - unfold closed. apply andb_true_iff. split.
    + apply forallb_intro. intros [n x] Hx. apply elem_of_map_to_list in Hx.
      pose proof (proj2 HBF n x Hx) as Hb. apply bf_node_iff in Hb as (H1 & H2 & _ & _ & _ & _ & H7).
      unfold node_closed. apply andb_true_iff. split; [apply Nat.ltb_lt; exact H1|].
      unfold always_lt in H7. destruct (nkind x); try discriminate H2;
        try (apply forallb_intro; intros a _; apply BF_notLhs; exact HBF).
      destruct (decl x) as [|a [|]]; try discriminate H7. rewrite H7. apply BF_notLhs. exact HBF.
    + apply forallb_intro. intros [o n] _. apply BF_notLhs. exact HBF.
  - unfold templates_ok. rewrite (proj1 HBF), map_to_list_empty. reflexivity.
Qed.

(** C01 for the pass: every observer reads the from-scratch value of the node it observes *)
Theorem pass_observers_agree s s' :
  wfb s = true -> ValInv s -> stabilize [] false s = Ok (s', None) -> observers_agree s' = true.
Proof.
  intros Hwf V H. destruct (pass_consistent s s' Hwf V H) as [Hc V'].
  destruct (BF_closed s' (vi_bf _ V')) as [Hcl Htp].
  exact (C01_observers_agree_proof s' (pass_wfb s s' Hwf V H) Hcl Htp Hc).
Qed.

Theorem pass_all s s' :
  wfb s = true -> ValInv s -> stabilize [] false s = Ok (s', None) ->
  consistent s' = true /\ wfb s' = true /\ ValInv s' /\ observers_agree s' = true.
Proof.
  intros Hwf V H. destruct (pass_consistent s s' Hwf V H) as [Hc V'].
  split; [exact Hc|]. split; [exact (pass_wfb s s' Hwf V H)|]. split; [exact V'|].
  exact (pass_observers_agree s s' Hwf V H).
Qed.

(** * P. The quiescent invariant is preserved by the other operations of the fragment *)

Lemma valueOf__reg_ext fuel : forall s s' p,
  Struct s ->
  (forall m, inGraph (nd s m) = true ->
     nkind (nd s' m) = nkind (nd s m) /\ value (nd s' m) = value (nd s m) /\
     (nkind (nd s m) = KAlways -> decl (nd s' m) = decl (nd s m))) ->
  inGraph (nd s p) = true -> valueOf_ fuel s' p = valueOf_ fuel s p.
Proof.
  induction fuel as [|fuel IH]; intros s s' p HS H Hg; [reflexivity|].
  simpl. destruct (H p Hg) as (-> & -> & Hd). destruct (nkind (nd s p)) eqn:K; try reflexivity.
  rewrite (Hd eq_refl). destruct (decl (nd s p)) as [|a l] eqn:D; [reflexivity|].
  apply IH; [exact HS|exact H|]. apply (edge_reg s HS a p). apply decl_parent; [assumption..|]. rewrite D. left.
Qed.

Definition trivial_kind (k : kind) : bool :=
  match k with KVar _ | KReturn | KAlways => true | _ => false end.

Lemma trivial_consistent s n : trivial_kind (nkind (nd s n)) = true -> node_consistent s n = true.
Proof. unfold node_consistent. destruct (nkind (nd s n)); try discriminate; reflexivity. Qed.

Lemma ValInv_transfer s s' :
  wfb s = true -> ValInv s -> wfb s' = true -> BF s' ->
  stabNum s' = stabNum s ->
  (forall m, inGraph (nd s m) = true ->
     nkind (nd s' m) = nkind (nd s m) /\ value (nd s' m) = value (nd s m) /\
     (nkind (nd s m) = KAlways -> decl (nd s' m) = decl (nd s m))) ->
  (forall m, inGraph (nd s' m) = true ->
     recomputedAt (nd s' m) = recomputedAt (nd s m) /\ changedAt (nd s' m) = changedAt (nd s m)) ->
  (forall m, inGraph (nd s' m) = false -> recomputedAt (nd s' m) = 0 /\ changedAt (nd s' m) = 0) ->
  (forall m, inGraph (nd s' m) = true -> isStale s' m = true -> inHeap s' m = true) ->
  (forall m, inGraph (nd s' m) = true -> inHeap s' m = false ->
     trivial_kind (nkind (nd s' m)) = true \/
     (inGraph (nd s m) = true /\ inHeap s m = false /\ decl (nd s' m) = decl (nd s m))) ->
  (forall p, inGraph (nd s' p) = true -> inHeap s p = true -> inHeap s' p = true) ->
  ValInv s'.
Proof.
  intros Hwf V Hwf' HBF' Hk Fr St V0 R4 R3 R5.
  pose proof (wfb_Struct s Hwf (vi_bf _ V)) as HS. pose proof (wfb_Struct s' Hwf' HBF') as HS'.
  constructor.
  - exact HBF'.
  - intros n. unfold stamps_node. rewrite Hk. destruct (inGraph (nd s' n)) eqn:Eg.
    + destruct (St n Eg) as [-> ->]. apply (vi_stamps _ V n).
    + destruct (V0 n Eg) as [-> ->]. pose proof (stamps_node_true _ _ (vi_stamps _ V 0%nat)).
      simpl. rewrite !andb_true_iff, !Z.ltb_lt. lia.
  - exact V0.
  - exact R4.
  - intros n Hg Hq Hgd. destruct (R3 n Hg Hq) as [Ht|(Hg0 & Hq0 & Hd)]; [apply trivial_consistent, Ht|].
    assert (Hpar : forall p, p ∈ parents (nd s n) <-> p ∈ parents (nd s' n)).
    { intros p. rewrite (st_par _ HS n p Hg0), (st_par _ HS' n p Hg), Hd. reflexivity. }
    assert (Hgd0 : guarded s None n = true).
    { unfold guarded in *. apply forallb_intro. intros p Hp.
      pose proof (forallb_elem _ _ _ Hgd (proj1 (Hpar p) Hp)) as Hb. cbv beta in Hb.
      apply andb_true_iff in Hb as [H1 H2].
      assert (Hgp' : inGraph (nd s' p) = true) by (apply (edge_reg s' HS' p n), (parent_edge s' HS'), Hpar, Hp).
      assert (Hgp : inGraph (nd s p) = true) by (apply (edge_reg s HS p n), (parent_edge s HS), Hp).
      destruct (St p Hgp') as [Ep1 Ep2]. destruct (St n Hg) as [En1 En2].
      rewrite Ep2, En1 in H1. rewrite H1. simpl.
      apply negb_true_iff in H2. apply negb_true_iff. unfold volq in *.
      destruct (Fr p Hgp) as (Ek & _). rewrite Ek in H2. destruct (nkind (nd s p)); try reflexivity.
      - unfold inW in *. rewrite orb_false_r in *. destruct (inHeap s p) eqn:Eh; [|reflexivity].
        rewrite (R5 p Hgp' Eh) in H2. discriminate.
      - rewrite Ep1, Hk in H2. exact H2. }
    pose proof (vi_clean _ V n Hg0 Hq0 Hgd0) as Hc.
    rewrite node_consistent_val in Hc by (apply (bf_kind s (vi_bf _ V))).
    rewrite node_consistent_val by (apply (bf_kind s' HBF')).
    destruct (Fr n Hg0) as (Ek & Ev & _). rewrite Ev.
    rewrite (consistent_val_ext s s' n _ Ek Hd); [exact Hc|].
    intros p Hp. apply valueOf__reg_ext; [exact HS|exact Fr|].
    apply (edge_reg s HS p n). apply decl_parent; assumption.
Qed.

(** ** creating a node *)
Lemma ValInv_newNode s k d v :
  wfb s = true -> ValInv s ->
  let s' := (newNode s k d None v).1 in
  wfb s' = true ->
  bf_node s' (next s) (fresh_node k d None v) = true ->
  ValInv s'.
Proof.
  intros Hwf V s' Hwf' Hfresh. pose proof (vi_bf _ V) as HBF.
  assert (Hno : ~ has s (next s)) by (intros Hh; pose proof (bf_has_lt s HBF _ Hh); lia).
  assert (Hnd : forall m, nd s' m = if decide (m = next s) then fresh_node k d None v else nd s m)
    by (apply nd_newNode).
  assert (Hdummy : nd s (next s) = dummy) by (apply not_has_nd, Hno).
  assert (Hold : forall m, inGraph (nd s m) = true -> nd s' m = nd s m).
  { intros m Hg. rewrite Hnd. destruct (decide (m = next s)) as [->|]; [|reflexivity].
    rewrite Hdummy in Hg. discriminate. }
  assert (Hreg : forall m, inGraph (nd s' m) = true -> inGraph (nd s m) = true /\ nd s' m = nd s m).
  { intros m. rewrite Hnd. destruct (decide (m = next s)) as [->|]; [discriminate|auto]. }
  assert (Hch : forall m, changedAt (nd s' m) = changedAt (nd s m)).
  { intros m. rewrite Hnd. destruct (decide (m = next s)) as [->|]; [rewrite Hdummy|]; reflexivity. }
  assert (HBF' : BF s').
  { split; [unfold s'; rewrite binds_newNode; apply HBF|].
    intros m x Hx. unfold s' in Hx. rewrite nodes_newNode in Hx.
    destruct (decide (m = next s)) as [->|Hne].
    - rewrite lookup_insert in Hx. injection Hx as <-. exact Hfresh.
    - rewrite lookup_insert_ne in Hx by congruence. pose proof (proj2 HBF m x Hx) as Hb.
      apply bf_node_iff in Hb as (H1 & H2). apply bf_node_iff. split; [|exact H2].
      unfold s'. rewrite next_newNode. lia. }
  apply (ValInv_transfer s s' Hwf V Hwf' HBF').
  - apply stabNum_newNode.
  - intros m Hg. rewrite (Hold m Hg). auto.
  - intros m Hg. destruct (Hreg m Hg) as [_ ->]. auto.
  - intros m Hg. rewrite Hnd in *. destruct (decide (m = next s)); [auto|]. apply (vi_unreg _ V m Hg).
  - intros m Hg Hs. destruct (Hreg m Hg) as [Hg0 Em]. unfold s'. rewrite inHeap_newNode.
    apply (vi_owed _ V m Hg0). rewrite <- Hs. symmetry.
    apply isStale_same; [exact Em|apply stabNum_newNode|]. intros p _. apply Hch.
  - intros m Hg Hq. destruct (Hreg m Hg) as [Hg0 Em]. right. split; [exact Hg0|]. split.
    + unfold s' in Hq. rewrite inHeap_newNode in Hq. exact Hq.
    + rewrite Em. reflexivity.
  - intros p _ Hq. unfold s'. rewrite inHeap_newNode. exact Hq.
Qed.

(** ** Var.Set / Var.Update between passes *)
Lemma heapAdd_inHeap s n s' m : heapAdd s n = Ok s' -> inHeap s m = true -> inHeap s' m = true.
Proof.
  intros H Hm. apply heapAdd_inv in H as (w & Ha & ->). unfold inHeap in *. cbn.
  unfold Heap.add in Ha. destruct (Z.ltb_spec (height (nd s n)) 0) as [|Hh]; [discriminate|].
  destruct (if Heap.cnt (heap s) =? 0 then _ else _) as [mn mx]. injection Ha as <-.
  unfold Heap.mem, Heap.hinOf in *. cbn. apply bool_decide_eq_true in Hm. apply bool_decide_eq_true.
  destruct (decide (m = n)) as [->|Hne].
  - rewrite lookup_insert. simpl. unfold unset. lia.
  - rewrite lookup_insert_ne by congruence. exact Hm.
Qed.

Lemma heapAdd_inHeap_eq s n s' m : heapAdd s n = Ok s' -> inHeap s' m = (bool_decide (m = n) || inHeap s m).
Proof.
  intros H. apply heapAdd_inv in H as (w & Ha & ->). unfold inHeap. cbn.
  unfold Heap.add in Ha. destruct (Z.ltb_spec (height (nd s n)) 0) as [|Hh]; [discriminate|].
  destruct (if Heap.cnt (heap s) =? 0 then _ else _) as [mn mx]. injection Ha as <-.
  unfold Heap.mem, Heap.hinOf. cbn. destruct (decide (m = n)) as [->|Hne].
  - rewrite lookup_insert. rewrite (bool_decide_eq_true_2 (n = n)) by reflexivity. simpl. apply bool_decide_eq_true_2.
    unfold unset. lia.
  - rewrite lookup_insert_ne by congruence. rewrite (bool_decide_eq_false_2 (m = n)) by exact Hne. reflexivity.
Qed.

Lemma isStale_fields s s' n :
  valid (nd s' n) = valid (nd s n) -> nkind (nd s' n) = nkind (nd s n) ->
  recomputedAt (nd s' n) = recomputedAt (nd s n) ->
  (forall p, p ∈ parents (nd s' n) <-> p ∈ parents (nd s n)) ->
  (forall p, p ∈ parents (nd s n) -> changedAt (nd s' p) = changedAt (nd s p)) ->
  isStale s' n = isStale s n.
Proof.
  intros Ev Ek Er Hpar Hp. unfold isStale. rewrite Ev, Ek, Er. f_equal.
  assert (Hsw : staleWrtParents s' (nd s' n) = staleWrtParents s (nd s n)).
  { unfold staleWrtParents. rewrite Er. apply eq_true_iff_eq. rewrite !existsb_elem.
    split; intros (p & Hin & Hc); exists p.
    - apply Hpar in Hin. split; [exact Hin|]. rewrite <- (Hp p Hin). exact Hc.
    - split; [apply Hpar, Hin|]. rewrite (Hp p Hin). exact Hc. }
  destruct (nkind (nd s n)); try reflexivity; rewrite Hsw; reflexivity.
Qed.

(** what a write between passes does *)
Record setPost (s : state) (v : nid) (s' : state) : Prop := {
  se_other : forall m, m <> v -> nd s' m = nd s m;
  se_self : exists a, nd s' v = nd s v <| value := value (nd s' v) |> <| setAt := a |>;
  se_fields : same_fields s s';
  se_nodes_dom : forall m, has s' m <-> has s m;
  se_heap : forall m, inHeap s' m = inHeap s m \/ (m = v /\ inHeap s' v = true);
  se_queued : inGraph (nd s v) = true -> value (nd s' v) <> value (nd s v) -> inHeap s' v = true
}.

Lemma varSet_post s v x s' :
  Struct s -> (forall n, inGraph (nd s n) = true -> 0 <= height (nd s n)) ->
  status s = 0 -> has s v -> varSet s v x = Ok s' -> setPost s v s'.
Proof.
  intros HS Hh Hst Hv H. unfold varSet in H.
  assert (Hrefl : setPost s v s).
  { constructor; auto using same_fields_refl; try reflexivity; try congruence.
    exists (setAt (nd s v)). destruct (nd s v); reflexivity. }
  destruct (_ && _ && _); [injection H as <-; exact Hrefl|].
  rewrite Hst in H. simpl in H.
  set (s1 := upd s v (set value (fun _ => x))) in *.
  assert (Hnd1 : nd s1 v = nd s v <| value := x |>) by (apply nd_upd_eq, Hv).
  assert (Hne1 : forall m, m <> v -> nd s1 m = nd s m) by (intros m Hm; apply nd_upd_ne, Hm).
  assert (P1 : setPost s v s1 \/ inGraph (nd s v) = true).
  { destruct (inGraph (nd s v)) eqn:Eg; [auto|]. left. constructor.
    - exact Hne1.
    - exists (setAt (nd s v)). rewrite Hnd1. destruct (nd s v); reflexivity.
    - repeat split.
    - intros m. apply has_upd.
    - intros m. left. reflexivity.
    - congruence. }
  assert (Hnec : isNecessary (nd s1 v) = inGraph (nd s v)).
  { rewrite (st_nec _ HS v), Hnd1. reflexivity. }
  rewrite Hnec in H. destruct (inGraph (nd s v)) eqn:Eg.
  2:{ injection H as <-. destruct P1 as [P1|]; [exact P1|discriminate]. }
  unfold setStale in H. assert (Hhe : height (nd s1 v) = height (nd s v)) by (rewrite Hnd1; reflexivity).
  rewrite Hhe in H. destruct (Z.eqb_spec (height (nd s v)) unset) as [E|_].
  { pose proof (Hh v Eg). unfold unset in E. lia. }
  set (s2 := upd s1 v (set setAt (fun _ => stabNum s1))) in *.
  assert (Hv1 : has s1 v) by (apply has_upd, Hv).
  assert (Hnd2 : nd s2 v = nd s v <| value := x |> <| setAt := stabNum s |>).
  { unfold s2. rewrite nd_upd_eq by exact Hv1. rewrite Hnd1. reflexivity. }
  assert (Hne2 : forall m, m <> v -> nd s2 m = nd s m).
  { intros m Hm. unfold s2. rewrite nd_upd_ne by exact Hm. apply Hne1, Hm. }
  assert (P2 : forall s3, only_heap s2 s3 ->
             (forall m, inHeap s3 m = inHeap s m \/ (m = v /\ inHeap s3 v = true)) ->
             inHeap s3 v = true -> setPost s v s3).
  { intros s3 O Hq Hqv. constructor.
    - intros m Hm. rewrite (oh_nd _ _ O). apply Hne2, Hm.
    - exists (stabNum s). rewrite (oh_nd _ _ O), Hnd2. reflexivity.
    - unfold same_fields. rewrite (oh_binds _ _ O), (oh_next _ _ O), (oh_reg _ _ O), (oh_obs _ _ O),
        (oh_adj _ _ O), (oh_invq _ _ O), (oh_stabNum _ _ O), (oh_status _ _ O), (oh_numNodes _ _ O),
        (oh_setDuring _ _ O), (oh_setRemoved _ _ O), (oh_maxHeight _ _ O). repeat split.
    - intros m. rewrite (oh_has _ _ O). unfold s2. rewrite has_upd. apply has_upd.
    - exact Hq.
    - intros _ _. exact Hqv. }
  change (inHeap s2 v) with (inHeap s v) in H. destruct (inHeap s v) eqn:Eq.
  - injection H as <-. apply P2; [apply only_heap_refl|intros m; left; reflexivity|exact Eq].
  - apply P2.
    + apply heapAdd_inv in H as (w & _ & ->). apply only_heap_set.
    + intros m. destruct (decide (m = v)) as [Hm|Hm].
      * right. split; [exact Hm|].
        rewrite (heapAdd_inHeap_eq _ _ _ v H), (bool_decide_eq_true_2 (v = v)) by reflexivity. reflexivity.
      * left. rewrite (heapAdd_inHeap_eq _ _ _ m H), (bool_decide_eq_false_2 (m = v)) by exact Hm. reflexivity.
    + rewrite (heapAdd_inHeap_eq _ _ _ v H), (bool_decide_eq_true_2 (v = v)) by reflexivity. reflexivity.
Qed.

Lemma ValInv_setPost s v s' :
  wfb s = true -> ValInv s -> (exists e, nkind (nd s v) = KVar e) -> setPost s v s' -> ValInv s'.
Proof.
  intros Hwf V [e Kv] P. pose proof (vi_bf _ V) as HBF. pose proof (wfb_Struct s Hwf HBF) as HS.
  destruct (se_fields _ _ _ P) as (Fb & Fn & _ & _ & _ & _ & Fk & _).
  destruct (se_self _ _ _ P) as [a Eself].
  assert (Hkind : forall m, nkind (nd s' m) = nkind (nd s m)).
  { intros m. destruct (decide (m = v)) as [->|Hm]; [rewrite Eself; reflexivity|rewrite (se_other _ _ _ P m Hm); reflexivity]. }
  assert (Hsame : forall m, m <> v -> nd s' m = nd s m) by apply P.
  assert (Hstamp : forall m, recomputedAt (nd s' m) = recomputedAt (nd s m) /\ changedAt (nd s' m) = changedAt (nd s m)
                             /\ inGraph (nd s' m) = inGraph (nd s m) /\ parents (nd s' m) = parents (nd s m)
                             /\ valid (nd s' m) = valid (nd s m) /\ decl (nd s' m) = decl (nd s m)
                             /\ scope (nd s' m) = scope (nd s m)).
  { intros m. destruct (decide (m = v)) as [->|Hm]; [rewrite Eself; repeat split|rewrite (Hsame m Hm); repeat split]. }
  assert (Hq : forall m, inHeap s m = true -> inHeap s' m = true).
  { intros m Hm. destruct (se_heap _ _ _ P m) as [->|[-> ?]]; assumption. }
  assert (Hstale : forall m, isStale s' m = isStale s m).
  { intros m. destruct (Hstamp m) as (E1 & _ & _ & E4 & E5 & _). apply isStale_fields; try assumption.
    - apply Hkind.
    - rewrite E4. reflexivity.
    - intros p _. apply (Hstamp p). }
  constructor.
  - split; [rewrite Fb; apply HBF|]. intros m x Hx. assert (Hm' : has s' m) by (exists x; exact Hx).
    assert (Hm : has s m) by (apply (se_nodes_dom _ _ _ P), Hm').
    rewrite <- (nd_lookup _ _ _ Hx). pose proof (bf_node_nd s HBF m Hm) as Hb.
    apply bf_node_iff in Hb as (H1 & H2 & H3 & H4 & H5 & H6 & H7). apply bf_node_iff.
    destruct (Hstamp m) as (_ & _ & _ & _ & E5 & E6 & E7).
    rewrite Fn, Hkind, E5, E7. repeat split; try assumption.
    + unfold arity_ok in *. rewrite Hkind, E6. exact H5.
    + unfold cutalways_zero in *. rewrite Hkind. destruct (decide (m = v)) as [->|Hm2].
      * rewrite Kv. reflexivity.
      * rewrite (Hsame m Hm2). exact H6.
    + unfold always_lt in *. rewrite Hkind, E6. exact H7.
  - intros m. unfold stamps_node. destruct (Hstamp m) as (-> & -> & _). rewrite Fk. apply (vi_stamps _ V m).
  - intros m. destruct (Hstamp m) as (-> & -> & -> & _). apply (vi_unreg _ V m).
  - intros m Hg Hs. destruct (Hstamp m) as (_ & _ & Eg & _). rewrite Eg in Hg. rewrite Hstale in Hs.
    apply Hq. apply (vi_owed _ V m Hg Hs).
  - intros n Hg HnW Hgd. destruct (Hstamp n) as (En1 & _ & Eg & Ep & _ & Ed & _). rewrite Eg in Hg.
    destruct (decide (n = v)) as [->|Hnv].
    { apply trivial_consistent. rewrite Hkind, Kv. reflexivity. }
    assert (HnW0 : inHeap s n = false).
    { destruct (inHeap s n) eqn:Eq; [|reflexivity]. rewrite (Hq n Eq) in HnW. discriminate. }
    assert (Hgd_p : forall p, p ∈ parents (nd s n) ->
              changedAt (nd s p) <= recomputedAt (nd s n) /\ volq s' None p = false).
    { intros p Hp. unfold guarded in Hgd. rewrite Ep in Hgd.
      pose proof (forallb_elem _ _ _ Hgd Hp) as Hb. cbv beta in Hb. apply andb_true_iff in Hb as [H1 H2].
      apply Z.leb_le in H1. apply negb_true_iff in H2. destruct (Hstamp p) as (_ & Ec & _).
      rewrite Ec, En1 in H1. auto. }
    assert (Hgd0 : guarded s None n = true).
    { unfold guarded. apply forallb_intro. intros p Hp. destruct (Hgd_p p Hp) as [H1 H2].
      apply andb_true_iff. split; [apply Z.leb_le; exact H1|]. apply negb_true_iff.
      unfold volq in *. rewrite Hkind in H2. destruct (nkind (nd s p)); try reflexivity.
      - unfold inW in *. rewrite orb_false_r in *. destruct (inHeap s p) eqn:Eq; [|reflexivity].
        rewrite (Hq p Eq) in H2. discriminate.
      - destruct (Hstamp p) as (Er & _). rewrite Er, Fk in H2. exact H2. }
    pose proof (vi_clean _ V n Hg HnW0 Hgd0) as Hc.
    rewrite node_consistent_val in Hc by (apply (bf_kind s HBF)).
    rewrite node_consistent_val by (rewrite Hkind; apply (bf_kind s HBF)).
    rewrite (Hsame n Hnv).
    rewrite (consistent_val_ext s s' n _ (Hkind n) Ed); [exact Hc|].
    intros p Hp. assert (Hpar : p ∈ parents (nd s n)) by (apply (st_par _ HS); assumption).
    destruct (Hgd_p p Hpar) as [_ Hvq].
    destruct (decide (value (nd s' v) = value (nd s v))) as [Ev|Ev].
    { apply valueOf_ext. intros m. split; [apply Hkind|]. split; [apply (Hstamp m)|].
      destruct (decide (m = v)) as [->|Hm]; [exact Ev|rewrite (Hsame m Hm); reflexivity]. }
    apply (valueOf_changed s s' v p HS).
    + intros m. split; [apply Hkind|apply (Hstamp m)].
    + intros m Hm. rewrite (Hsame m Hm). reflexivity.
    + apply (edge_reg s HS p n), (parent_edge s HS), Hpar.
    + intros ->. assert (Hgv : inGraph (nd s v) = true) by (apply (edge_reg s HS v n), (parent_edge s HS), Hpar).
      unfold volq in Hvq. rewrite Hkind, Kv in Hvq. unfold inW in Hvq. rewrite orb_false_r in Hvq.
      rewrite (se_queued _ _ _ P Hgv Ev) in Hvq. discriminate.
    + intros [Ka _]. unfold volq in Hvq. rewrite Hkind, Ka in Hvq. apply Z.ltb_ge in Hvq.
      destruct (Hstamp p) as (Er & _). rewrite Er, Fk in Hvq.
      pose proof (stamps_node_true _ _ (vi_stamps _ V p)). lia.
Qed.

Lemma ValInv_varSet s v x s' :
  wfb s = true -> ValInv s -> isVar s v = true -> varSet s v x = Ok s' -> ValInv s'.
Proof.
  intros Hwf V Hv H. destruct (isVar_true _ _ Hv) as [Hhas Hk].
  pose proof (wfb_Struct s Hwf (vi_bf _ V)) as HS.
  apply (ValInv_setPost s v s' Hwf V Hk).
  apply (varSet_post s v x s' HS (st_hnonneg _ HS) (proj1 (wfb_transients _ Hwf)) Hhas H).
Qed.

Lemma ValInv_varUpdate s v d s' :
  wfb s = true -> ValInv s -> isVar s v = true -> varUpdate s v d = Ok s' -> ValInv s'.
Proof. unfold varUpdate. intros Hwf V Hv H. eapply ValInv_varSet; eauto. Qed.

(** ** Observe / AddInput: what becoming necessary and adding an edge never touch *)
Definition static_eq (x y : node) : Prop :=
  nkind y = nkind x /\ decl y = decl x /\ scope y = scope x /\ valid y = valid x /\ value y = value x /\
  recomputedAt y = recomputedAt x /\ changedAt y = changedAt x.

Lemma static_eq_refl x : static_eq x x.
Proof. repeat split. Qed.
Lemma static_eq_trans x y z : static_eq x y -> static_eq y z -> static_eq x z.
Proof. unfold static_eq. intuition congruence. Qed.

Record gfr (s s' : state) : Prop := {
  g_static : forall m, static_eq (nd s m) (nd s' m);
  g_fields : binds s' = binds s /\ next s' = next s /\ stabNum s' = stabNum s;
  g_has : forall m, has s' m <-> has s m;
  g_reg : forall m, inGraph (nd s m) = true -> inGraph (nd s' m) = true;
  g_heap : forall m, inHeap s m = true -> inHeap s' m = true;
  g_invq : (forall m, valid (nd s m) = true) -> invq s = [] -> invq s' = []
}.

Lemma gfr_refl s : gfr s s.
Proof. constructor; auto using static_eq_refl; try reflexivity. Qed.

Lemma gfr_trans s1 s2 s3 : gfr s1 s2 -> gfr s2 s3 -> gfr s1 s3.
Proof.
  intros A B. constructor.
  - intros m. eapply static_eq_trans; [apply A|apply B].
  - destruct (g_fields _ _ A) as (? & ? & ?), (g_fields _ _ B) as (? & ? & ?). repeat split; congruence.
  - intros m. rewrite (g_has _ _ B), (g_has _ _ A). reflexivity.
  - intros m Hm. apply B, A, Hm.
  - intros m Hm. apply B, A, Hm.
  - intros Hv Hi. apply (g_invq _ _ B); [|apply (g_invq _ _ A); assumption].
    intros m. destruct (g_static _ _ A m) as (_ & _ & _ & -> & _). apply Hv.
Qed.

(* a step that changes node fields outside [static_eq] and [inGraph], and nothing else relevant *)
Lemma gfr_nodes s s' :
  (forall m, static_eq (nd s m) (nd s' m) /\ inGraph (nd s' m) = inGraph (nd s m)) ->
  (forall m, has s' m <-> has s m) ->
  binds s' = binds s -> next s' = next s -> stabNum s' = stabNum s -> heap s' = heap s -> invq s' = invq s ->
  gfr s s'.
Proof.
  intros Hn Hh Hb Hnx Hk Hhp Hi. constructor; auto.
  - intros m. apply Hn.
  - intros m Hm. rewrite (proj2 (Hn m)). exact Hm.
  - intros m. unfold inHeap. rewrite Hhp. auto.
  - intros _ H0. rewrite Hi. exact H0.
Qed.

Lemma gfr_upd s n f :
  (forall x, static_eq x (f x) /\ inGraph (f x) = inGraph x) -> gfr s (upd s n f).
Proof.
  intros Hf. apply gfr_nodes; try reflexivity; [|intros m; apply has_upd].
  intros m. destruct (decide (has s n)) as [Hn|Hn]; [|rewrite upd_missing by exact Hn; split; [apply static_eq_refl|reflexivity]].
  rewrite nd_upd by exact Hn. destruct (decide (m = n)) as [->|]; [apply Hf|split; [apply static_eq_refl|reflexivity]].
Qed.

Lemma gfr_emit s e : gfr s (emit e s).
Proof. apply gfr_nodes; try reflexivity. intros m. split; [apply static_eq_refl|reflexivity]. Qed.

Lemma gfr_link s c p : gfr s (link s c p).
Proof.
  unfold link. eapply gfr_trans; apply gfr_upd; intros x; repeat split.
Qed.

Lemma gfr_addNode s n : gfr s (addNode s n).
Proof.
  unfold addNode. destruct (inGraph (nd s n)) eqn:E; [apply gfr_refl|].
  constructor; try reflexivity.
  - intros m. change (static_eq (nd s m) (nd (upd s n (set inGraph (fun _ => true))) m)).
    destruct (decide (has s n)) as [Hn|Hn]; [|rewrite upd_missing by exact Hn; apply static_eq_refl].
    rewrite nd_upd by exact Hn. destruct (decide (m = n)) as [->|]; [|apply static_eq_refl]. repeat split.
  - repeat split.
  - intros m. change (has (upd s n (set inGraph (fun _ => true))) m <-> has s m). apply has_upd.
  - intros m Hm. change (inGraph (nd (upd s n (set inGraph (fun _ => true))) m) = true).
    destruct (decide (has s n)) as [Hn|Hn]; [|rewrite upd_missing by exact Hn; exact Hm].
    rewrite nd_upd by exact Hn. destruct (decide (m = n)); [reflexivity|exact Hm].
  - auto.
  - auto.
Qed.

Lemma gfr_setHeight s n h s' e : setHeight s n h = Ok (s', e) -> gfr s s'.
Proof.
  intros H. destruct e as [x|].
  - apply setHeight_err in H as [_ ->]. apply gfr_refl.
  - apply gfr_nodes.
    + intros m. split; [repeat split; apply (proj_nd_setHeight s n h s' H); reflexivity|].
      apply (proj_nd_setHeight s n h s' H inGraph). reflexivity.
    + intros m. apply (has_setHeight s n h s' H).
    + apply (binds_setHeight s n h s' H).
    + apply (next_setHeight s n h s' H).
    + apply (stabNum_setHeight s n h s' H).
    + apply (heap_setHeight s n h s' H).
    + apply (invq_setHeight s n h s' H).
Qed.

Lemma gfr_only_heap s s' : only_heap s s' -> (forall m, inHeap s m = true -> inHeap s' m = true) -> gfr s s'.
Proof.
  intros O Hq. constructor.
  - intros m. rewrite (oh_nd _ _ O). apply static_eq_refl.
  - rewrite (oh_binds _ _ O), (oh_next _ _ O), (oh_stabNum _ _ O). repeat split.
  - intros m. apply (oh_has _ _ O).
  - intros m. rewrite (oh_nd _ _ O). auto.
  - exact Hq.
  - intros _. rewrite (oh_invq _ _ O). auto.
Qed.

Lemma heapAddIfNotPresent_mem s n s' : heapAddIfNotPresent s n = Ok s' ->
  only_heap s s' /\ inHeap s' n = true /\ forall m, inHeap s m = true -> inHeap s' m = true.
Proof.
  unfold heapAddIfNotPresent. destruct (inHeap s n) eqn:E.
  - intros [= <-]. split; [apply only_heap_refl|]. auto.
  - intros H. split; [apply heapAdd_inv in H as (w & _ & ->); apply only_heap_set|]. split.
    + rewrite (heapAdd_inHeap_eq _ _ _ n H), (bool_decide_eq_true_2 (n = n)) by reflexivity. reflexivity.
    + intros m Hm. eapply heapAdd_inHeap; eauto.
Qed.

Lemma gfr_heapAddIfNotPresent s n s' : heapAddIfNotPresent s n = Ok s' -> gfr s s'.
Proof. intros H. destruct (heapAddIfNotPresent_mem _ _ _ H) as (O & _ & Hq). apply gfr_only_heap; assumption. Qed.

Definition staleK (k : kind) : bool := match k with KVar _ => false | _ => true end.

(* the nodes that joined the graph and owe a first computation are queued *)
Definition newQueued (s s' : state) : Prop :=
  forall m, inGraph (nd s m) = false -> inGraph (nd s' m) = true ->
    recomputedAt (nd s m) = 0 -> valid (nd s m) = true -> staleK (nkind (nd s m)) = true ->
    inHeap s' m = true.

Lemma newQueued_refl s : newQueued s s.
Proof. intros m H1 H2. congruence. Qed.

Lemma newQueued_trans s1 s2 s3 : gfr s1 s2 -> gfr s2 s3 -> newQueued s1 s2 -> newQueued s2 s3 -> newQueued s1 s3.
Proof.
  intros G12 G23 A B m H1 H3 Hr Hv Hk. destruct (inGraph (nd s2 m)) eqn:E2.
  - apply (g_heap _ _ G23). apply A; assumption.
  - destruct (g_static _ _ G12 m) as (Ek & _ & _ & Ev & _ & Er & _). apply B; try assumption; congruence.
Qed.

Lemma isStale_fresh s n : recomputedAt (nd s n) = 0 -> valid (nd s n) = true ->
  staleK (nkind (nd s n)) = true -> isStale s n = true.
Proof.
  intros Hr Hv Hk. unfold isStale. rewrite Hv, Hr. simpl. destruct (nkind (nd s n)); try reflexivity. discriminate.
Qed.

Lemma BN_spec fuel : forall s n s' e,
  becameNecessaryRecursive fuel s n = Ok (s', e) -> gfr s s' /\ (e = None -> newQueued s s').
Proof.
  induction fuel as [|fuel IH]; intros s n s' e H; [discriminate|].
  cbn [becameNecessaryRecursive] in H.
  set (s1 := addNode s n) in *.
  set (s2 := if inGraph (nd s n) then s1 else emit (EvNec n) s1) in *.
  assert (G2 : gfr s s2).
  { eapply gfr_trans; [apply gfr_addNode|]. unfold s2. destruct (inGraph (nd s n)); [apply gfr_refl|apply gfr_emit]. }
  assert (I2 : forall m, m <> n -> inGraph (nd s2 m) = inGraph (nd s m)).
  { intros m Hm. unfold s2. destruct (inGraph (nd s n)); [|rewrite nd_emit]; unfold s1; rewrite nd_addNode_ne by exact Hm; reflexivity. }
  apply ebind_inv in H as (s3 & e3 & E3 & [[-> H]|(Hne & -> & ->)]).
  2:{ split; [|intros ->; congruence]. eapply gfr_trans; [exact G2|eapply gfr_setHeight; eauto]. }
  assert (G3 : gfr s s3) by (eapply gfr_trans; [exact G2|eapply gfr_setHeight; eauto]).
  assert (I3 : forall m, m <> n -> inGraph (nd s3 m) = inGraph (nd s m)).
  { intros m Hm. rewrite <- (I2 m Hm). apply (proj_nd_setHeight _ _ _ _ E3 inGraph). reflexivity. }
  (* the loop over the declared inputs *)
  set (body := fun (s : state) (p : nid) => _ : M) in H.
  apply ebind_inv in H as (s4 & e4 & E4 & Hfin).
  pose (J := fun (_ : list nid) (st : state) =>
    gfr s st /\ forall m, m <> n -> inGraph (nd s m) = false -> inGraph (nd st m) = true ->
      recomputedAt (nd s m) = 0 -> valid (nd s m) = true -> staleK (nkind (nd s m)) = true -> inHeap st m = true).
  assert (HJ : match e4 with None => J [] s4 | Some _ => gfr s s4 end).
  { apply (efold_inv J (fun st _ => gfr s st) body (decl (nd s3 n)) s3 s4 e4); [| |exact E4].
    - split; [exact G3|]. intros m Hm H1 H2. rewrite (I3 m Hm) in H2. congruence.
    - intros p l' st st1 e1 [Gst Jst] Hb. unfold body in Hb.
      set (sa := link st n p) in *.
      set (sb := if valid (nd sa p) then sa else sa <| invq := invq sa ++ [n] |>) in *.
      assert (Gb : gfr st sb).
      { eapply gfr_trans; [apply gfr_link|]. fold sa. unfold sb. destruct (valid (nd sa p)) eqn:Ev; [apply gfr_refl|].
        constructor.
        - intros m. apply static_eq_refl.
        - repeat split.
        - reflexivity.
        - auto.
        - auto.
        - intros Hall. specialize (Hall p). fold sa in Hall. congruence. }
      assert (Ib : forall m, inGraph (nd sb m) = inGraph (nd st m)).
      { intros m. unfold sb. destruct (valid (nd sa p)); unfold sa; [|change (nd (link st n p <| invq := _ |>) m) with (nd (link st n p) m)];
          apply inGraph_nd_link. }
      apply ebind_inv in Hb as (sc & ec & Ec & [[-> Hb]|(Hne & -> & ->)]).
      + assert (Gc : gfr sb sc /\ newQueued sb sc).
        { destruct (isNecessary (nd st p)).
          - apply ok_inv in Ec as [-> _]. split; [apply gfr_refl|apply newQueued_refl].
          - destruct (IH _ _ _ _ Ec) as [Gc Qc]. split; [exact Gc|apply Qc; reflexivity]. }
        destruct Gc as [Gc Qc].
        assert (Gd : gfr sc st1).
        { destruct (height (nd sc p) >=? height (nd sc n)); [eapply gfr_setHeight; eauto|].
          apply ok_inv in Hb as [-> _]. apply gfr_refl. }
        assert (Id : forall m, inGraph (nd st1 m) = inGraph (nd sc m)).
        { intros m. destruct (height (nd sc p) >=? height (nd sc n)).
          - destruct e1 as [x|]; [apply setHeight_err in Hb as [_ ->]; reflexivity|].
            apply (proj_nd_setHeight _ _ _ _ Hb inGraph). reflexivity.
          - apply ok_inv in Hb as [-> _]. reflexivity. }
        assert (Gall : gfr s st1) by (eapply gfr_trans; [exact Gst|]; eapply gfr_trans; [exact Gb|]; eapply gfr_trans; eauto).
        destruct e1; [exact Gall|]. split; [exact Gall|].
        intros m Hm H1 H2 Hr Hv Hk. apply (g_heap _ _ Gd). rewrite Id in H2.
        destruct (inGraph (nd st m)) eqn:Est.
        * apply (g_heap _ _ Gc), (g_heap _ _ Gb). apply Jst; assumption.
        * destruct (g_static _ _ (gfr_trans _ _ _ Gst Gb) m) as (Ek & _ & _ & Ev & _ & Er & _).
          apply Qc; [rewrite Ib; exact Est|exact H2|congruence..].
      + destruct ec as [x|]; [|congruence].
        assert (Gc : gfr sb sc).
        { destruct (isNecessary (nd st p)); [apply ok_inv in Ec as [_ ?]; discriminate|]. apply (IH _ _ _ _ Ec). }
        eapply gfr_trans; [exact Gst|]. eapply gfr_trans; eauto. }
  destruct Hfin as [[-> Hfin]|(Hne & -> & ->)].
  2:{ destruct e4; [|congruence]. split; [exact HJ|intros; discriminate]. }
  destruct HJ as [G4 J4].
  destruct (isStale s4 n) eqn:Es.
  - apply lift_inv in Hfin as [Hfin ->]. destruct (heapAddIfNotPresent_mem _ _ _ Hfin) as (O & Hn & Hq).
    assert (G5 : gfr s4 s') by (apply gfr_only_heap; assumption).
    split; [eapply gfr_trans; eauto|]. intros _ m H1 H2 Hr Hv Hk. rewrite (oh_nd _ _ O) in H2.
    destruct (decide (m = n)) as [->|Hm]; [exact Hn|]. apply Hq. apply J4; assumption.
  - apply ok_inv in Hfin as [-> ->]. split; [exact G4|]. intros _ m H1 H2 Hr Hv Hk.
    destruct (decide (m = n)) as [->|Hm]; [|apply J4; assumption].
    exfalso. destruct (g_static _ _ G4 n) as (Ek & _ & _ & Ev & _ & Er & _).
    rewrite isStale_fresh in Es; [discriminate|congruence..].
Qed.

(** the generic argument for operations that only add nodes / edges to the graph *)
Lemma ValInv_grow s s' :
  wfb s = true -> ValInv s -> wfb s' = true ->
  (forall m, nkind (nd s' m) = nkind (nd s m) /\ scope (nd s' m) = scope (nd s m) /\
             valid (nd s' m) = valid (nd s m) /\ value (nd s' m) = value (nd s m) /\
             recomputedAt (nd s' m) = recomputedAt (nd s m) /\ changedAt (nd s' m) = changedAt (nd s m)) ->
  (forall m, decl (nd s' m) = decl (nd s m) \/
             ((exists f, nkind (nd s m) = KMapN f) /\ (inGraph (nd s' m) = true -> inHeap s' m = true))) ->
  (forall m, has s' m <-> has s m) -> binds s' = binds s -> stabNum s' = stabNum s ->
  (next s <= next s')%nat ->
  (forall m, inGraph (nd s m) = true -> inGraph (nd s' m) = true) ->
  (forall m, inHeap s m = true -> inHeap s' m = true) ->
  newQueued s s' ->
  ValInv s'.
Proof.
  intros Hwf V Hwf' G1 G2 Hhas Hb Hk Hnx G4 G5 G6. pose proof (vi_bf _ V) as HBF.
  assert (HBF' : BF s').
  { split; [rewrite Hb; apply HBF|]. intros m x Hx. assert (Hm' : has s' m) by (exists x; exact Hx).
    assert (Hm : has s m) by (apply Hhas, Hm'). rewrite <- (nd_lookup _ _ _ Hx).
    pose proof (bf_node_nd s HBF m Hm) as Hbn. apply bf_node_iff in Hbn as (H1 & H2 & H3 & H4 & H5 & H6 & H7).
    destruct (G1 m) as (Ek & Es & Ev & Eva & _). apply bf_node_iff. rewrite Ek, Es, Ev.
    repeat split; try assumption; try lia.
    - unfold arity_ok in *. rewrite Ek. destruct (G2 m) as [->|[[f Kf] _]]; [exact H5|]. rewrite Kf. reflexivity.
    - unfold cutalways_zero in *. rewrite Ek, Eva. exact H6.
    - unfold always_lt in *. rewrite Ek. destruct (G2 m) as [->|[[f Kf] _]]; [exact H7|]. rewrite Kf. reflexivity. }
  pose proof (wfb_Struct s Hwf HBF) as HS. pose proof (wfb_Struct s' Hwf' HBF') as HS'.
  assert (Hpar : forall m, inGraph (nd s m) = true -> inGraph (nd s' m) = true -> decl (nd s' m) = decl (nd s m) ->
                 forall p, p ∈ parents (nd s' m) <-> p ∈ parents (nd s m)).
  { intros m Hg Hg' Hd p. rewrite (st_par _ HS m p Hg), (st_par _ HS' m p Hg'), Hd. reflexivity. }
  assert (Hnew : forall m, inGraph (nd s m) = false -> inGraph (nd s' m) = true ->
                 staleK (nkind (nd s m)) = true -> inHeap s' m = true).
  { intros m H1 H2 H3. apply (G6 m H1 H2); [apply (vi_unreg _ V m H1)|apply (bf_valid s HBF)|exact H3]. }
  apply (ValInv_transfer s s' Hwf V Hwf' HBF' Hk).
  - intros m Hg. destruct (G1 m) as (Ek & _ & _ & Eva & _). split; [exact Ek|]. split; [exact Eva|].
    intros Ka. destruct (G2 m) as [?|[[f Kf] _]]; [assumption|congruence].
  - intros m _. destruct (G1 m) as (_ & _ & _ & _ & Er & Ec). auto.
  - intros m Hg'. destruct (G1 m) as (_ & _ & _ & _ & -> & ->). apply (vi_unreg _ V m).
    destruct (inGraph (nd s m)) eqn:Eg; [|reflexivity]. rewrite (G4 m Eg) in Hg'. discriminate.
  - intros m Hg' Hs. destruct (G2 m) as [Hd|[_ Hq]]; [|apply Hq, Hg'].
    destruct (inGraph (nd s m)) eqn:Eg.
    + apply G5. apply (vi_owed _ V m Eg). rewrite <- Hs. symmetry.
      destruct (G1 m) as (Ek & _ & Ev & _ & Er & _).
      apply isStale_fields; try assumption; [apply (Hpar m Eg Hg' Hd)|]. intros p _. apply (G1 p).
    + apply (Hnew m Eg Hg'). unfold isStale in Hs. destruct (G1 m) as (Ek & _). rewrite Ek in Hs.
      destruct (nkind (nd s m)); try reflexivity. rewrite andb_false_r in Hs. discriminate.
  - intros m Hg' Hq. destruct (G2 m) as [Hd|[_ Hq']]; [|rewrite (Hq' Hg') in Hq; discriminate].
    destruct (inGraph (nd s m)) eqn:Eg.
    + right. split; [reflexivity|]. split; [|exact Hd].
      destruct (inHeap s m) eqn:Eq; [|reflexivity]. rewrite (G5 m Eq) in Hq. discriminate.
    + left. destruct (G1 m) as (Ek & _). rewrite Ek.
      destruct (staleK (nkind (nd s m))) eqn:Ks; [rewrite (Hnew m Eg Hg' Ks) in Hq; discriminate|].
      destruct (nkind (nd s m)); try discriminate Ks. reflexivity.
  - intros p _ Hq. apply G5, Hq.
Qed.

Lemma propagateInvalidity_nil fuel s s' : invq s = [] -> propagateInvalidity fuel s = Ok s' -> s' = s.
Proof. intros Hi H. destruct fuel; [discriminate|]. simpl in H. rewrite Hi in H. congruence. Qed.

Lemma ValInv_observe s n s' :
  wfb s = true -> ValInv s -> wfb s' = true -> observe s n = Ok (s', None) -> ValInv s'.
Proof.
  intros Hwf V Hwf' H. pose proof (vi_bf _ V) as HBF.
  assert (Hiq : invq s = []).
  { destruct (wfb_all _ Hwf) as (_ & _ & _ & _ & _ & _ & _ & Ht & _). unfold transients_empty in Ht.
    rewrite !andb_true_iff in Ht. destruct Ht as [[[[[[[_ Hi] _] _] _] _] _] _].
    apply bool_decide_eq_true in Hi. exact Hi. }
  unfold observe in H.
  set (s1 := s <| next := S (next s) |> <| obs := <[next s := n]> (obs s) |> <| numNodes := numNodes s + 1 |>) in *.
  set (s2 := upd s1 n (set observers (fun l => l ++ [next s]))) in *.
  assert (G2 : gfr s1 s2) by (apply gfr_upd; intros x; repeat split).
  assert (I2 : forall m, inGraph (nd s2 m) = inGraph (nd s m)).
  { intros m. unfold s2. rewrite (nd_upd_proj inGraph) by reflexivity. reflexivity. }
  assert (Hfin : exists s3, gfr s2 s3 /\ newQueued s2 s3 /\ s' = s3).
  { destruct (isNecessary (nd s1 n)).
    - apply ok_inv in H as [-> _]. exists s2. split; [apply gfr_refl|]. split; [apply newQueued_refl|reflexivity].
    - apply ebind_inv in H as (s3 & e3 & E3 & [[-> H]|(Hne & _ & He)]); [|congruence].
      destruct (BN_spec _ _ _ _ _ E3) as [G3 Q3]. apply lift_inv in H as [H _].
      exists s3. split; [exact G3|]. split; [apply Q3; reflexivity|].
      apply (propagateInvalidity_nil _ _ _ (g_invq _ _ (gfr_trans _ _ _ G2 G3)
               (fun m => bf_valid s HBF m) Hiq) H). }
  destruct Hfin as (s3 & G3 & Q3 & ->).
  pose proof (gfr_trans _ _ _ G2 G3) as G.
  apply (ValInv_grow s s3 Hwf V Hwf').
  - intros m. destruct (g_static _ _ G m) as (E1 & E2 & E3 & E4 & E5 & E6 & E7). repeat split; assumption.
  - intros m. left. apply (g_static _ _ G m).
  - intros m. apply (g_has _ _ G m).
  - apply (g_fields _ _ G).
  - apply (g_fields _ _ G).
  - destruct (g_fields _ _ G) as (_ & -> & _). simpl. lia.
  - intros m Hm. apply (g_reg _ _ G m). exact Hm.
  - intros m Hm. apply (g_heap _ _ G m). exact Hm.
  - intros m H1 H2 Hr Hv Hk. apply (Q3 m); try assumption.
    + rewrite I2. exact H1.
    + destruct (g_static _ _ G2 m) as (_ & _ & _ & _ & _ & -> & _). exact Hr.
    + destruct (g_static _ _ G2 m) as (_ & _ & _ & -> & _). exact Hv.
    + destruct (g_static _ _ G2 m) as (-> & _). exact Hk.
Qed.

(** ** AddInput: the height repair and the edge *)
Definition gfrI (s s' : state) : Prop := gfr s s' /\ forall m, inGraph (nd s' m) = inGraph (nd s m).

Lemma gfrI_refl s : gfrI s s.
Proof. split; [apply gfr_refl|reflexivity]. Qed.

Lemma gfrI_trans s1 s2 s3 : gfrI s1 s2 -> gfrI s2 s3 -> gfrI s1 s3.
Proof. intros [A1 A2] [B1 B2]. split; [eapply gfr_trans; eauto|]. intros m. rewrite B2, A2. reflexivity. Qed.

Lemma gfrI_nodes s s' :
  (forall m, static_eq (nd s m) (nd s' m) /\ inGraph (nd s' m) = inGraph (nd s m)) ->
  (forall m, has s' m <-> has s m) ->
  binds s' = binds s -> next s' = next s -> stabNum s' = stabNum s -> heap s' = heap s -> invq s' = invq s ->
  gfrI s s'.
Proof. intros Hn. split; [apply gfr_nodes; assumption|apply Hn]. Qed.

Lemma gfrI_upd s n f :
  (forall x, static_eq x (f x) /\ inGraph (f x) = inGraph x) -> gfrI s (upd s n f).
Proof.
  intros Hf. split; [apply gfr_upd, Hf|]. intros m.
  destruct (decide (has s n)) as [Hn|Hn]; [|rewrite upd_missing by exact Hn; reflexivity].
  rewrite nd_upd by exact Hn. destruct (decide (m = n)) as [->|]; [apply Hf|reflexivity].
Qed.

Lemma gfrI_setHeight s n h s' e : setHeight s n h = Ok (s', e) -> gfrI s s'.
Proof.
  intros H. split; [eapply gfr_setHeight; eauto|]. intros m. destruct e as [x|].
  - apply setHeight_err in H as [_ ->]. reflexivity.
  - apply (proj_nd_setHeight _ _ _ _ H inGraph). reflexivity.
Qed.

Lemma newQueued_gfrI_r s1 s2 s3 : newQueued s1 s2 -> gfrI s2 s3 -> newQueued s1 s3.
Proof. intros Q [G I] m H1 H3 Hr Hv Hk. rewrite I in H3. apply (g_heap _ _ G). apply Q; assumption. Qed.

Lemma newQueued_gfrI_l s1 s2 s3 : gfrI s1 s2 -> newQueued s2 s3 -> newQueued s1 s3.
Proof.
  intros [G I] Q m H1 H3 Hr Hv Hk. destruct (g_static _ _ G m) as (Ek & _ & _ & Ev & _ & Er & _).
  apply Q; [rewrite I; exact H1|exact H3|congruence..].
Qed.

Lemma gfrI_adj s (a : adjheap) : gfrI s (s <| adj := a |>).
Proof. apply gfrI_nodes; try reflexivity. intros m. split; [apply static_eq_refl|reflexivity]. Qed.

Lemma gfrI_adjAdd s n s' : adjAdd s n = Ok s' -> gfrI s s'.
Proof.
  unfold adjAdd. destruct (negb _); [intros [= <-]; apply gfrI_refl|].
  destruct (height (nd s n) <? 0); [discriminate|]. destruct (_ !! _); [|discriminate].
  intros [= <-]. eapply gfrI_trans; [|apply gfrI_adj]. apply gfrI_upd. intros x. repeat split.
Qed.

Lemma gfrI_adjRemoveMin s r s' : adjRemoveMin s = Ok (r, s') -> gfrI s s'.
Proof.
  unfold adjRemoveMin. destruct (_ =? 0); [intros [= <- <-]; apply gfrI_refl|].
  destruct (_ <? 0); [discriminate|]. destruct (adjScan _ _ _) as [[[x n] b']|]; [|intros [= <- <-]; apply gfrI_refl].
  intros [= <- <-]. eapply gfrI_trans; [|apply gfrI_adj]. apply gfrI_upd. intros y. repeat split.
Qed.

Lemma gfrI_ensure s o c p s' e : ensureHeightRequirement s o c p = Ok (s', e) -> gfrI s s'.
Proof.
  unfold ensureHeightRequirement. destruct (bool_decide _); [intros [-> _]%fail_inv; apply gfrI_refl|].
  destruct (_ >=? _); [|intros [-> _]%ok_inv; apply gfrI_refl].
  intros H. apply ebind_inv in H as (s1 & e1 & E1 & [[-> H]|(_ & -> & _)]).
  - apply lift_inv in E1 as [E1 _]. eapply gfrI_trans; [eapply gfrI_adjAdd; eauto|eapply gfrI_setHeight; eauto].
  - unfold lift in E1. destruct (adjAdd s c) as [s2| |] eqn:Ea; simpl in E1; try discriminate.
    injection E1 as <- _. eapply gfrI_adjAdd; eauto.
Qed.

Lemma heapRemove_inHeap_eq s n s' m : heapRemove s n = Ok s' ->
  inHeap s' m = (negb (bool_decide (m = n)) && inHeap s m).
Proof.
  intros H. apply heapRemove_inv in H as (w & Hr & ->). unfold inHeap. cbn.
  unfold Heap.remove in Hr. destruct (_ <? 0); [discriminate|]. destruct (_ !! _); [|discriminate].
  destruct (bool_decide _); [|discriminate]. injection Hr as <-. unfold Heap.mem, Heap.hinOf. cbn.
  destruct (decide (m = n)) as [->|Hne].
  - rewrite lookup_delete, (bool_decide_eq_true_2 (n = n)) by reflexivity. simpl. reflexivity.
  - rewrite lookup_delete_ne by congruence. rewrite (bool_decide_eq_false_2 (m = n)) by exact Hne. reflexivity.
Qed.

Lemma heapFix_mem s n s' : inHeap s n = true -> heapFix s n = Ok s' ->
  only_heap s s' /\ forall m, inHeap s' m = inHeap s m.
Proof.
  intros Hn H. unfold heapFix, Heap.fix_ in H.
  destruct (Heap.remove (heap s) n) as [w1| |] eqn:E1; simpl in H; try discriminate.
  destruct (Heap.add w1 n (height (nd s n))) as [w2| |] eqn:E2; simpl in H; try discriminate.
  injection H as <-. split; [apply only_heap_set|]. intros m.
  assert (R : heapRemove s n = Ok (s <| heap := w1 |>)) by (unfold heapRemove; rewrite E1; reflexivity).
  assert (A : heapAdd (s <| heap := w1 |>) n = Ok (s <| heap := w2 |>)).
  { unfold heapAdd. cbn. change (nd (s <| heap := w1 |>) n) with (nd s n). rewrite E2. reflexivity. }
  etransitivity; [exact (heapAdd_inHeap_eq _ _ _ m A)|].
  pose proof (heapRemove_inHeap_eq _ _ _ m R) as Hr. cbv beta in Hr |- *. rewrite Hr. clear Hr.
  destruct (decide (m = n)) as [->|Hne].
  - rewrite (bool_decide_eq_true_2 (n = n)) by reflexivity. simpl. symmetry. exact Hn.
  - rewrite (bool_decide_eq_false_2 (m = n)) by exact Hne. reflexivity.
Qed.

Lemma gfrI_only_heap s s' : only_heap s s' -> (forall m, inHeap s m = true -> inHeap s' m = true) -> gfrI s s'.
Proof. intros O Hq. split; [apply gfr_only_heap; assumption|]. intros m. rewrite (oh_nd _ _ O). reflexivity. Qed.

Lemma gfrI_efold {A} (f : state -> A -> M) l : (forall s a s' e, f s a = Ok (s', e) -> gfrI s s') ->
  forall s s' e, efold f l s = Ok (s', e) -> gfrI s s'.
Proof.
  intros Hf. induction l as [|a l IH]; intros s s' e H; simpl in H.
  - apply ok_inv in H as [-> _]. apply gfrI_refl.
  - apply ebind_inv in H as (s1 & e1 & E1 & [[-> H]|(_ & -> & _)]).
    + eapply gfrI_trans; [eapply Hf; eauto|eapply IH; eauto].
    + eapply Hf; eauto.
Qed.

Lemma gfrI_adjustLoop fuel : forall s o s' e, adjustLoop fuel s o = Ok (s', e) -> gfrI s s'.
Proof.
  induction fuel as [|fuel IH]; intros s o s' e H; [discriminate|]. cbn [adjustLoop] in H.
  destruct (_ <=? 0); [apply ok_inv in H as [-> _]; apply gfrI_refl|].
  destruct (adjRemoveMin s) as [[r s1]| |] eqn:E1; simpl in H; try discriminate.
  pose proof (gfrI_adjRemoveMin _ _ _ E1) as G1. destruct r as [p|]; [|discriminate].
  apply ebind_inv in H as (s2 & e2 & E2 & H).
  assert (G2 : gfrI s1 s2).
  { unfold lift in E2. destruct (inHeap s1 p) eqn:Ep.
    - destruct (heapFix s1 p) as [s2'| |] eqn:Ef; simpl in E2; try discriminate. injection E2 as <- _.
      destruct (heapFix_mem _ _ _ Ep Ef) as [O Hm]. apply gfrI_only_heap; [exact O|]. intros m. rewrite Hm. auto.
    - simpl in E2. injection E2 as <- _. apply gfrI_refl. }
  destruct H as [[-> H]|(_ & -> & _)]; [|eapply gfrI_trans; eauto].
  apply ebind_inv in H as (s3 & e3 & E3 & H).
  assert (G3 : gfrI s2 s3).
  { refine (gfrI_efold _ _ _ _ _ _ E3). intros st c st' e' Hc. eapply gfrI_ensure; eauto. }
  destruct H as [[-> H]|(_ & -> & _)]; [|eapply gfrI_trans; [exact G1|eapply gfrI_trans; eauto]].
  apply ebind_inv in H as (s4 & e4 & E4 & H).
  assert (G4 : gfrI s3 s4).
  { destruct (nkind (nd s3 p)); try (apply ok_inv in E4 as [-> _]; apply gfrI_refl).
    refine (gfrI_efold _ _ _ _ _ _ E4). intros st r st' e' Hc.
    destruct (isNecessary (nd st r)); [eapply gfrI_ensure; eauto|apply ok_inv in Hc as [-> _]; apply gfrI_refl]. }
  eapply gfrI_trans; [exact G1|]. eapply gfrI_trans; [exact G2|]. eapply gfrI_trans; [exact G3|].
  eapply gfrI_trans; [exact G4|]. destruct H as [[-> H]|(_ & -> & _)]; [eapply IH; eauto|apply gfrI_refl].
Qed.

Lemma gfrI_adjustHeights fuel s oc op s' e : adjustHeights fuel s oc op = Ok (s', e) -> gfrI s s'.
Proof.
  unfold adjustHeights. intros H. apply ebind_inv in H as (s1 & e1 & E1 & H).
  eapply gfrI_trans; [apply gfrI_adj|]. eapply gfrI_trans; [eapply gfrI_ensure; eauto|].
  destruct H as [[-> H]|(_ & -> & _)]; [eapply gfrI_adjustLoop; eauto|apply gfrI_refl].
Qed.

Lemma setStale_spec s n s' : setStale s n = Ok s' ->
  gfrI s s' /\ (height (nd s n) <> unset -> inHeap s' n = true) /\ height (nd s' n) = height (nd s n).
Proof.
  intros H. apply setStale_inv in H as [[Hu ->]|[Hu H]].
  - split; [apply gfrI_refl|]. split; [contradiction|reflexivity].
  - cbv zeta in H. set (s1 := upd s n (set setAt (fun _ => stabNum s))) in *.
    assert (G1 : gfrI s s1) by (apply gfrI_upd; intros x; repeat split).
    assert (Hh : height (nd s1 n) = height (nd s n)) by (unfold s1; rewrite (nd_upd_proj height) by reflexivity; reflexivity).
    destruct H as [[Hq ->]|[Hq H]].
    + split; [exact G1|]. split; [intros _; exact Hq|exact Hh].
    + assert (O : only_heap s1 s') by (apply heapAdd_inv in H as (w & _ & ->); apply only_heap_set).
      split; [|split].
      * eapply gfrI_trans; [exact G1|]. apply gfrI_only_heap; [exact O|]. intros m Hm. eapply heapAdd_inHeap; eauto.
      * intros _. rewrite (heapAdd_inHeap_eq _ _ _ n H), (bool_decide_eq_true_2 (n = n)) by reflexivity. reflexivity.
      * rewrite (oh_nd _ _ O). exact Hh.
Qed.

Lemma addChild_spec fuel s c p s' :
  (forall m, valid (nd s m) = true) -> invq s = [] ->
  addChild fuel s c p = Ok (s', None) -> gfr s s' /\ newQueued s s'.
Proof.
  intros Hv Hi H. unfold addChild in H.
  apply ebind_inv in H as (s1 & e1 & E1 & [[-> H]|(Hne & _ & He)]); [|congruence].
  assert (A1 : gfr s s1 /\ newQueued s s1).
  { unfold addChildWithoutAdjustingHeights in E1.
    set (sa := link s c p) in *.
    set (sb := if valid (nd sa p) then sa else sa <| invq := invq sa ++ [c] |>) in *.
    assert (Gb : gfrI s sb).
    { assert (Eb : sb = sa).
      { unfold sb. assert (valid (nd sa p) = true) as ->; [|reflexivity].
        unfold sa. rewrite valid_nd_link. apply Hv. }
      rewrite Eb. split; [apply gfr_link|]. intros m. apply inGraph_nd_link. }
    destruct (isNecessary (nd s p)).
    - apply ok_inv in E1 as [-> _]. split; [apply Gb|]. eapply newQueued_gfrI_r; [apply newQueued_refl|exact Gb].
    - destruct (BN_spec _ _ _ _ _ E1) as [G Q]. split; [eapply gfr_trans; [apply Gb|exact G]|].
      eapply newQueued_gfrI_l; [exact Gb|apply Q; reflexivity]. }
  destruct A1 as [G1 Q1].
  apply ebind_inv in H as (s2 & e2 & E2 & [[-> H]|(Hne & _ & He)]); [|congruence].
  assert (G2 : gfrI s1 s2).
  { destruct (_ >=? _); [eapply gfrI_adjustHeights; eauto|apply ok_inv in E2 as [-> _]; apply gfrI_refl]. }
  apply ebind_inv in H as (s3 & e3 & E3 & [[-> H]|(Hne & _ & He)]); [|congruence].
  apply lift_inv in E3 as [E3 _].
  assert (Hi2 : invq s2 = []).
  { apply (g_invq _ _ (gfr_trans _ _ _ G1 (proj1 G2)) Hv Hi). }
  apply (propagateInvalidity_nil _ _ _ Hi2) in E3 as ->.
  assert (G12 : gfr s s2) by (eapply gfr_trans; [exact G1|apply G2]).
  assert (Q12 : newQueued s s2) by (eapply newQueued_gfrI_r; eauto).
  destruct (_ || _).
  - apply lift_inv in H as [H _]. destruct (heapAddIfNotPresent_mem _ _ _ H) as (O & _ & Hq).
    assert (G3 : gfrI s2 s') by (apply gfrI_only_heap; assumption).
    split; [eapply gfr_trans; [exact G12|apply G3]|]. eapply newQueued_gfrI_r; eauto.
  - apply ok_inv in H as [-> _]. auto.
Qed.

Lemma wfb_height_nonneg s n : wfb s = true -> n ∈ allNodes s -> inGraph (nd s n) = true -> 0 <= height (nd s n).
Proof.
  intros Hwf Hn Hg. destruct (wfb_all _ Hwf) as (_ & _ & _ & _ & Hh & _).
  pose proof (forallb_elem _ _ _ Hh Hn) as H. cbv beta zeta in H. rewrite Hg in H. simpl in H.
  rewrite !andb_true_iff in H. destruct H as [[[H _] _] _]. apply Z.leb_le in H. exact H.
Qed.

Lemma ValInv_addInput s n a s' :
  wfb s = true -> ValInv s -> wfb s' = true -> isMapN s n = true ->
  addInput s n a = Ok (s', None) -> ValInv s'.
Proof.
  intros Hwf V Hwf' Hmn H. pose proof (vi_bf _ V) as HBF. destruct (isMapN_true _ _ Hmn) as [Hn [f Kf]].
  pose proof (wfb_Struct s Hwf HBF) as HS.
  assert (Hiq : invq s = []).
  { destruct (wfb_all _ Hwf) as (_ & _ & _ & _ & _ & _ & _ & Ht & _). unfold transients_empty in Ht.
    rewrite !andb_true_iff in Ht. destruct Ht as [[[[[[[_ Hi] _] _] _] _] _] _].
    apply bool_decide_eq_true in Hi. exact Hi. }
  unfold addInput in H. set (s1 := upd s n (set decl (fun l => l ++ [a]))) in *.
  assert (Hnd1 : forall m, nd s1 m = if decide (m = n) then nd s n <| decl := decl (nd s n) ++ [a] |> else nd s m).
  { intros m. unfold s1. rewrite nd_upd by exact Hn. destruct (decide (m = n)) as [->|]; reflexivity. }
  assert (Hf1 : forall (A : Type) (g : node -> A) m, (forall x d, g (x <| decl := d |>) = g x) -> g (nd s1 m) = g (nd s m)).
  { intros A g m Hg. rewrite Hnd1. destruct (decide (m = n)) as [->|]; [apply Hg|reflexivity]. }
  assert (Hd1 : forall m, m <> n -> decl (nd s1 m) = decl (nd s m)).
  { intros m Hm. rewrite Hnd1, decide_False by exact Hm. reflexivity. }
  assert (Hhas1 : forall m, has s1 m <-> has s m) by (intros m; apply has_upd).
  (* the rest of the operation, as a frame from s1 *)
  assert (Hrest : gfr s1 s' /\ newQueued s1 s' /\ (inGraph (nd s' n) = true -> inHeap s' n = true)).
  { destruct (Z.eqb_spec (height (nd s1 n)) unset) as [Eu|Eu].
    - apply ok_inv in H as [-> _]. split; [apply gfr_refl|]. split; [apply newQueued_refl|].
      intros Hg. exfalso. rewrite (Hf1 _ inGraph) in Hg by reflexivity. rewrite (Hf1 _ height) in Eu by reflexivity.
      pose proof (st_hnonneg _ HS n Hg). unfold unset in Eu. lia.
    - apply ebind_inv in H as (s2 & e2 & E2 & [[-> H]|(Hne & _ & He)]); [|congruence].
      destruct (addChild_spec (opFuel s1) s1 n a s2) as [G2 Q2]; [| |exact E2|].
      + intros m. rewrite (Hf1 _ valid) by reflexivity. apply (bf_valid s HBF).
      + exact Hiq.
      + apply lift_inv in H as [H _]. destruct (setStale_spec _ _ _ H) as (G3 & Hq & Hh).
        pose proof (gfr_trans _ _ _ G2 (proj1 G3)) as G.
        split; [exact G|]. split; [eapply newQueued_gfrI_r; eauto|].
        intros Hg. apply Hq. rewrite <- Hh.
        assert (Hall : n ∈ allNodes s').
        { apply elem_allNodes. split; [apply (g_has _ _ G), Hhas1, Hn|].
          destruct (g_fields _ _ G) as (_ & -> & _). apply (bf_has_lt s HBF n Hn). }
        pose proof (wfb_height_nonneg s' n Hwf' Hall Hg). unfold unset. lia. }
  destruct Hrest as (G & Q & Hqn).
  apply (ValInv_grow s s' Hwf V Hwf').
  - intros m. destruct (g_static _ _ G m) as (E1 & E2 & E3 & E4 & E5 & E6 & E7).
    rewrite E1, E3, E4, E5, E6, E7. repeat split; apply Hf1; reflexivity.
  - intros m. destruct (decide (m = n)) as [->|Hm].
    + right. split; [eauto|exact Hqn].
    + left. destruct (g_static _ _ G m) as (_ & -> & _). apply Hd1, Hm.
  - intros m. rewrite (g_has _ _ G m). apply Hhas1.
  - apply (g_fields _ _ G).
  - apply (g_fields _ _ G).
  - destruct (g_fields _ _ G) as (_ & -> & _). simpl. lia.
  - intros m Hm. apply (g_reg _ _ G m). rewrite (Hf1 _ inGraph) by reflexivity. exact Hm.
  - intros m Hm. apply (g_heap _ _ G m). exact Hm.
  - intros m H1 H2 Hr Hv Hk. apply (Q m); try assumption.
    + rewrite (Hf1 _ inGraph) by reflexivity. exact H1.
    + rewrite (Hf1 _ recomputedAt) by reflexivity. exact Hr.
    + rewrite (Hf1 _ valid) by reflexivity. exact Hv.
    + rewrite (Hf1 _ nkind) by reflexivity. exact Hk.
Qed.

(** ** Unobserve / RemoveInput: tearing nodes down *)
Definition static5 (x y : node) : Prop :=
  nkind y = nkind x /\ decl y = decl x /\ scope y = scope x /\ valid y = valid x /\ value y = value x.

Record sfr (s s' : state) : Prop := {
  z_static : forall m, static5 (nd s m) (nd s' m);
  z_fields : binds s' = binds s /\ next s' = next s /\ stabNum s' = stabNum s;
  z_has : forall m, has s' m <-> has s m;
  z_st : forall m,
    (inGraph (nd s' m) = inGraph (nd s m) /\ recomputedAt (nd s' m) = recomputedAt (nd s m) /\
     changedAt (nd s' m) = changedAt (nd s m)) \/
    (inGraph (nd s' m) = false /\ recomputedAt (nd s' m) = 0 /\ changedAt (nd s' m) = 0);
  z_heap : forall m, inGraph (nd s' m) = true -> inHeap s m = true -> inHeap s' m = true
}.

Lemma sfr_refl s : sfr s s.
Proof. constructor; auto; try reflexivity. intros m. repeat split. Qed.

Lemma sfr_reg s s' m : sfr s s' -> inGraph (nd s' m) = true -> inGraph (nd s m) = true.
Proof. intros F Hg. destruct (z_st _ _ F m) as [(E & _)|(E & _)]; congruence. Qed.

Lemma sfr_trans s1 s2 s3 : sfr s1 s2 -> sfr s2 s3 -> sfr s1 s3.
Proof.
  intros A B. constructor.
  - intros m. destruct (z_static _ _ A m) as (? & ? & ? & ? & ?), (z_static _ _ B m) as (? & ? & ? & ? & ?).
    unfold static5. repeat split; congruence.
  - destruct (z_fields _ _ A) as (? & ? & ?), (z_fields _ _ B) as (? & ? & ?). repeat split; congruence.
  - intros m. rewrite (z_has _ _ B), (z_has _ _ A). reflexivity.
  - intros m. destruct (z_st _ _ B m) as [(E1 & E2 & E3)|Z]; [|right; exact Z].
    destruct (z_st _ _ A m) as [(F1 & F2 & F3)|(F1 & F2 & F3)]; [left|right]; repeat split; congruence.
  - intros m Hg Hq. apply (z_heap _ _ B m Hg). apply (z_heap _ _ A m); [|exact Hq]. eapply sfr_reg; eauto.
Qed.

Lemma sfr_nodes s s' :
  (forall m, static5 (nd s m) (nd s' m) /\ inGraph (nd s' m) = inGraph (nd s m) /\
             recomputedAt (nd s' m) = recomputedAt (nd s m) /\ changedAt (nd s' m) = changedAt (nd s m)) ->
  (forall m, has s' m <-> has s m) ->
  binds s' = binds s -> next s' = next s -> stabNum s' = stabNum s ->
  (forall m, inHeap s m = true -> inHeap s' m = true) -> sfr s s'.
Proof.
  intros Hn Hh Hb Hnx Hk Hq. constructor; auto.
  - intros m. apply Hn.
  - intros m. left. apply Hn.
Qed.

Lemma sfr_upd s n f :
  (forall x, static5 x (f x) /\ inGraph (f x) = inGraph x /\ recomputedAt (f x) = recomputedAt x /\
             changedAt (f x) = changedAt x) -> sfr s (upd s n f).
Proof.
  intros Hf. apply sfr_nodes; try reflexivity; [|intros m; apply has_upd|auto].
  intros m. destruct (decide (has s n)) as [Hn|Hn]; [|rewrite upd_missing by exact Hn; repeat split].
  rewrite nd_upd by exact Hn. destruct (decide (m = n)) as [->|]; [apply Hf|repeat split].
Qed.

Lemma sfr_emit s e : sfr s (emit e s).
Proof. apply sfr_nodes; try reflexivity; auto. intros m. repeat split. Qed.

Lemma sfr_unlink s c p : sfr s (unlink s c p).
Proof. unfold unlink. eapply sfr_trans; apply sfr_upd; intros x; repeat split. Qed.

Lemma sfr_removeNode s n s' : removeNode s n = Ok s' -> sfr s s'.
Proof.
  intros H. constructor.
  - intros m. unfold static5. rewrite (nkind_nd_removeNode _ _ _ H), (decl_nd_removeNode _ _ _ H),
      (scope_nd_removeNode _ _ _ H), (valid_nd_removeNode _ _ _ H), (value_nd_removeNode _ _ _ H). repeat split.
  - rewrite (binds_removeNode _ _ _ H), (next_removeNode _ _ _ H), (stabNum_removeNode _ _ _ H). repeat split.
  - intros m. apply (has_removeNode _ _ _ H).
  - intros m. rewrite (inGraph_nd_removeNode _ _ _ H), (recomputedAt_nd_removeNode _ _ _ H),
      (changedAt_nd_removeNode _ _ _ H). destruct (decide (m = n)); [right|left]; repeat split.
  - intros m Hg Hq. rewrite (inGraph_nd_removeNode _ _ _ H) in Hg.
    destruct (decide (m = n)) as [->|Hne]; [discriminate|].
    pose proof (heap_removeNode _ _ _ H) as Hh. destruct (inHeap s n).
    + destruct Hh as (s1 & Hr & Eh). unfold inHeap. rewrite Eh. fold (inHeap s1 m).
      rewrite (heapRemove_inHeap_eq _ _ _ m Hr), (bool_decide_eq_false_2 (m = n)) by exact Hne. exact Hq.
    + unfold inHeap. rewrite Hh. exact Hq.
Qed.

Lemma sfr_rfold {A} (f : state -> A -> res state) l :
  (forall s a s', f s a = Ok s' -> sfr s s') -> forall s s', rfold f l s = Ok s' -> sfr s s'.
Proof.
  intros Hf. induction l as [|a l IH]; intros s s' H.
  - injection H as <-. apply sfr_refl.
  - rewrite rfold_cons in H. destruct (f s a) as [s1| |] eqn:E1; simpl in H; try discriminate.
    eapply sfr_trans; [eapply Hf; eauto|eapply IH; eauto].
Qed.

Lemma sfr_removeParents fuel : forall s c s', removeParents fuel s c = Ok s' -> sfr s s'.
Proof.
  induction fuel as [|fuel IH]; intros s c s' H; [discriminate|]. cbn [removeParents] in H.
  refine (sfr_rfold _ _ _ _ _ H). clear H. intros st p st' H.
  eapply sfr_trans; [apply (sfr_unlink st c p)|].
  destruct (isNecessary _); [injection H as <-; apply sfr_refl|].
  destruct (negb _); [injection H as <-; apply sfr_refl|].
  destruct (removeParents fuel _ p) as [s1| |] eqn:E1; simpl in H; try discriminate.
  eapply sfr_trans; [apply sfr_emit|]. eapply sfr_trans; [eapply IH; eauto|eapply sfr_removeNode; eauto].
Qed.

Lemma sfr_checkIfUnnecessary fuel s p s' : checkIfUnnecessary fuel s p = Ok s' -> sfr s s'.
Proof.
  unfold checkIfUnnecessary. destruct (isNecessary _); [intros [= <-]; apply sfr_refl|].
  destruct (negb _); [intros [= <-]; apply sfr_refl|]. intros H.
  destruct (removeParents fuel _ p) as [s1| |] eqn:E1; simpl in H; try discriminate.
  eapply sfr_trans; [apply sfr_emit|]. eapply sfr_trans; [eapply sfr_removeParents; eauto|eapply sfr_removeNode; eauto].
Qed.

Lemma BF_static s s' :
  BF s ->
  (forall m, nkind (nd s' m) = nkind (nd s m) /\ scope (nd s' m) = scope (nd s m) /\
             valid (nd s' m) = valid (nd s m) /\ value (nd s' m) = value (nd s m)) ->
  (forall m, decl (nd s' m) = decl (nd s m) \/ exists f, nkind (nd s m) = KMapN f) ->
  (forall m, has s' m <-> has s m) -> binds s' = binds s -> (next s <= next s')%nat -> BF s'.
Proof.
  intros HBF G1 G2 Hhas Hb Hnx. split; [rewrite Hb; apply HBF|].
  intros m x Hx. assert (Hm' : has s' m) by (exists x; exact Hx).
  assert (Hm : has s m) by (apply Hhas, Hm'). rewrite <- (nd_lookup _ _ _ Hx).
  pose proof (bf_node_nd s HBF m Hm) as Hbn. apply bf_node_iff in Hbn as (H1 & H2 & H3 & H4 & H5 & H6 & H7).
  destruct (G1 m) as (Ek & Es & Ev & Eva). apply bf_node_iff. rewrite Ek, Es, Ev.
  repeat split; try assumption; try lia.
  - unfold arity_ok in *. rewrite Ek. destruct (G2 m) as [->|[f Kf]]; [exact H5|]. rewrite Kf. reflexivity.
  - unfold cutalways_zero in *. rewrite Ek, Eva. exact H6.
  - unfold always_lt in *. rewrite Ek. destruct (G2 m) as [->|[f Kf]]; [exact H7|]. rewrite Kf. reflexivity.
Qed.

(** the generic argument for operations that only remove nodes / edges *)
Lemma ValInv_shrink s s' :
  wfb s = true -> ValInv s -> wfb s' = true ->
  (forall m, nkind (nd s' m) = nkind (nd s m) /\ scope (nd s' m) = scope (nd s m) /\
             valid (nd s' m) = valid (nd s m) /\ value (nd s' m) = value (nd s m)) ->
  (forall m, decl (nd s' m) = decl (nd s m) \/
             ((exists f, nkind (nd s m) = KMapN f) /\ (inGraph (nd s' m) = true -> inHeap s' m = true))) ->
  (forall m, has s' m <-> has s m) -> binds s' = binds s -> stabNum s' = stabNum s -> next s' = next s ->
  (forall m,
    (inGraph (nd s' m) = inGraph (nd s m) /\ recomputedAt (nd s' m) = recomputedAt (nd s m) /\
     changedAt (nd s' m) = changedAt (nd s m)) \/
    (inGraph (nd s' m) = false /\ recomputedAt (nd s' m) = 0 /\ changedAt (nd s' m) = 0)) ->
  (forall m, inGraph (nd s' m) = true -> inHeap s m = true -> inHeap s' m = true) ->
  ValInv s'.
Proof.
  intros Hwf V Hwf' Z1 Z2 Hhas Hb Hk Hnx Z4 Z5. pose proof (vi_bf _ V) as HBF.
  assert (HBF' : BF s').
  { apply (BF_static s s' HBF Z1); try assumption; [|lia]. intros m. destruct (Z2 m) as [?|[? _]]; auto. }
  pose proof (wfb_Struct s Hwf HBF) as HS. pose proof (wfb_Struct s' Hwf' HBF') as HS'.
  assert (Hreg : forall m, inGraph (nd s' m) = true ->
             inGraph (nd s m) = true /\ recomputedAt (nd s' m) = recomputedAt (nd s m) /\
             changedAt (nd s' m) = changedAt (nd s m)).
  { intros m Hg. destruct (Z4 m) as [(E1 & E2 & E3)|(E1 & _)]; [|congruence]. split; [congruence|auto]. }
  apply (ValInv_transfer s s' Hwf V Hwf' HBF' Hk).
  - intros m _. destruct (Z1 m) as (Ek & _ & _ & Eva). split; [exact Ek|]. split; [exact Eva|].
    intros Ka. destruct (Z2 m) as [?|[[f Kf] _]]; [assumption|congruence].
  - intros m Hg. apply (Hreg m Hg).
  - intros m Hg. destruct (Z4 m) as [(E1 & -> & ->)|(_ & ? & ?)]; [|auto]. apply (vi_unreg _ V m). congruence.
  - intros m Hg Hs. destruct (Z2 m) as [Hd|[_ Hq]]; [|apply Hq, Hg].
    destruct (Hreg m Hg) as (Hg0 & Er & _). apply (Z5 m Hg). apply (vi_owed _ V m Hg0).
    rewrite <- Hs. symmetry. destruct (Z1 m) as (Ek & _ & Ev & _).
    assert (Hpar : forall p, p ∈ parents (nd s' m) <-> p ∈ parents (nd s m)).
    { intros p. rewrite (st_par _ HS m p Hg0), (st_par _ HS' m p Hg), Hd. reflexivity. }
    apply isStale_fields; try assumption. intros p Hp. apply (Hreg p).
    apply (edge_reg s' HS' p m), (parent_edge s' HS'), Hpar, Hp.
  - intros m Hg Hq. destruct (Z2 m) as [Hd|[_ Hq']]; [|rewrite (Hq' Hg) in Hq; discriminate].
    right. destruct (Hreg m Hg) as (Hg0 & _). split; [exact Hg0|]. split; [|exact Hd].
    destruct (inHeap s m) eqn:Eq; [|reflexivity]. rewrite (Z5 m Hg Eq) in Hq. discriminate.
  - intros p Hg Hq. apply (Z5 p Hg Hq).
Qed.

Lemma ValInv_unobserve s o s' :
  wfb s = true -> ValInv s -> wfb s' = true -> unobserve s o = Ok s' -> ValInv s'.
Proof.
  intros Hwf V Hwf' H. unfold unobserve in H. destruct (obs s !! o) as [n|]; [|injection H as <-; exact V].
  set (s1 := s <| obs := delete o (obs s) |> <| numNodes := numNodes s - 1 |> <| handlers := rm o (handlers s) |>) in *.
  set (s2 := upd s1 n (set observers (rm o))) in *.
  assert (F2 : sfr s1 s2) by (apply sfr_upd; intros x; repeat split).
  pose proof (sfr_trans _ _ _ F2 (sfr_checkIfUnnecessary _ _ _ _ H)) as F.
  apply (ValInv_shrink s s' Hwf V Hwf').
  - intros m. destruct (z_static _ _ F m) as (E1 & E2 & E3 & E4 & E5). auto.
  - intros m. left. apply (z_static _ _ F m).
  - intros m. apply (z_has _ _ F m).
  - apply (z_fields _ _ F).
  - apply (z_fields _ _ F).
  - apply (z_fields _ _ F).
  - intros m. apply (z_st _ _ F m).
  - intros m. apply (z_heap _ _ F m).
Qed.

Lemma ValInv_removeInput s n a s' :
  wfb s = true -> ValInv s -> wfb s' = true -> isMapN s n = true ->
  removeInput s n a = Ok s' -> ValInv s'.
Proof.
  intros Hwf V Hwf' Hmn H. pose proof (vi_bf _ V) as HBF. destruct (isMapN_true _ _ Hmn) as [Hn [f Kf]].
  pose proof (wfb_Struct s Hwf HBF) as HS.
  unfold removeInput in H. destruct (negb _); [injection H as <-; exact V|].
  set (s1 := upd s n (set decl (rm a))) in *.
  set (s2 := upd s1 n (set parents (rm a))) in *.
  set (s3 := upd s2 a (set children (rm n))) in *.
  destruct (setStale s3 n) as [s4| |] eqn:E4; simpl in H; try discriminate.
  destruct (setStale_spec _ _ _ E4) as ([G4 I4] & Hq4 & Hh4).
  pose proof (sfr_checkIfUnnecessary _ _ _ _ H) as F5.
  (* node fields from s to s3 *)
  assert (Hf3 : forall (A : Type) (g : node -> A) m,
            (forall x d, g (x <| decl := d |>) = g x) -> (forall x d, g (x <| parents := d |>) = g x) ->
            (forall x d, g (x <| children := d |>) = g x) -> g (nd s3 m) = g (nd s m)).
  { intros A g m H1 H2 H3. unfold s3, s2, s1.
    rewrite (nd_upd_proj g) by (intros; apply H3). rewrite (nd_upd_proj g) by (intros; apply H2).
    rewrite (nd_upd_proj g) by (intros; apply H1). reflexivity. }
  assert (Hd3 : forall m, m <> n -> decl (nd s3 m) = decl (nd s m)).
  { intros m Hm. unfold s3, s2. rewrite (nd_upd_proj decl), (nd_upd_proj decl) by reflexivity.
    unfold s1. rewrite nd_upd_ne by exact Hm. reflexivity. }
  assert (Hhas3 : forall m, has s3 m <-> has s m).
  { intros m. unfold s3, s2, s1. rewrite !has_upd. reflexivity. }
  apply (ValInv_shrink s s' Hwf V Hwf').
  - intros m. destruct (z_static _ _ F5 m) as (E1 & E2 & E3 & E4' & E5).
    destruct (g_static _ _ G4 m) as (K1 & K2 & K3 & K4 & K5 & K6 & K7).
    rewrite E1, E3, E4', E5, K1, K3, K4, K5. repeat split; apply Hf3; reflexivity.
  - intros m. destruct (decide (m = n)) as [->|Hm].
    + right. split; [eauto|]. intros Hg. apply (z_heap _ _ F5 n Hg). apply Hq4.
      assert (Hg3 : inGraph (nd s n) = true).
      { rewrite <- (Hf3 _ inGraph n) by reflexivity. rewrite <- I4. eapply sfr_reg; eauto. }
      rewrite (Hf3 _ height) by reflexivity. pose proof (st_hnonneg _ HS n Hg3). unfold unset. lia.
    + left. destruct (z_static _ _ F5 m) as (_ & -> & _). destruct (g_static _ _ G4 m) as (_ & -> & _).
      apply Hd3, Hm.
  - intros m. rewrite (z_has _ _ F5 m), (g_has _ _ G4 m). apply Hhas3.
  - destruct (z_fields _ _ F5) as (-> & _), (g_fields _ _ G4) as (-> & _). reflexivity.
  - destruct (z_fields _ _ F5) as (_ & _ & ->), (g_fields _ _ G4) as (_ & _ & ->). reflexivity.
  - destruct (z_fields _ _ F5) as (_ & -> & _), (g_fields _ _ G4) as (_ & -> & _). reflexivity.
  - intros m. destruct (g_static _ _ G4 m) as (_ & _ & _ & _ & _ & K6 & K7).
    destruct (z_st _ _ F5 m) as [(E1 & E2 & E3)|Z]; [left|right; exact Z].
    rewrite E1, E2, E3, I4, K6, K7. repeat split; apply Hf3; reflexivity.
  - intros m Hg Hq. apply (z_heap _ _ F5 m Hg). apply (g_heap _ _ G4 m). exact Hq.
Qed.

(** * Q. Histories of the fragment *)

(** the operations of the fragment: no binds, no parallel pass, passes without a plan *)
Definition static_op (o : op) : bool :=
  match o with
  | NewVar _ _ | NewReturn _ | NewMap _ _ | NewMap2 _ _ _ | NewMapN _ _ | NewCutoff _ _ | NewAlways _
  | Observe _ | Unobserve _ | SetVar _ _ | UpdateVar _ _ | AddInput _ _ | RemoveInput _ _ => true
  | Stabilize p => bool_decide (p = [])
  | StabilizeCancelled => true
  | _ => false
  end.

Lemma stabilize_cancelled_ok p s s' :
  stabilize p true s = Ok (s', None) -> stabilize p false s = Ok (s', None).
Proof.
  unfold stabilize. destruct (negb (status s =? 0)); [intros H; exact H|].
  cbv zeta. set (s1 := emit EvPassStart (s <| status := 1 |>)).
  destruct (0 <? Heap.cnt (heap s1)); [|intros H; exact H].
  simpl. intros H. exfalso.
  destruct (stabilizeEnd s1 (Some ECancelled)) as [s2| |]; simpl in H; discriminate.
Qed.

Lemma fresh_bf s k d v :
  BF s -> isBindKind k = false ->
  arity_ok (fresh_node k d None v) = true -> cutalways_zero (fresh_node k d None v) = true ->
  always_lt (next s) (fresh_node k d None v) = true ->
  bf_node (newNode s k d None v).1 (next s) (fresh_node k d None v) = true.
Proof.
  intros HBF Hk Ha Hc Hl. apply bf_node_iff. rewrite next_newNode. repeat split; try assumption. lia.
Qed.

Lemma isUserNode_lt s a : BF s -> isUserNode s a = true -> (a <? next s)%nat = true.
Proof. intros HBF H. apply Nat.ltb_lt. apply (bf_has_lt s HBF). apply (isUserNode_true _ _ H). Qed.

Theorem step_ValInv s o s' :
  wfb s = true -> ValInv s -> static_op o = true -> op_ok s o = true ->
  step s o = Ok (s', None) -> wfb s' = true -> ValInv s'.
Proof.
  intros Hwf V Hso Hok H Hwf'. pose proof (vi_bf _ V) as HBF.
  destruct o; try discriminate Hso; cbn [step op_ok] in H, Hok.
  - apply ok_inv in H as [-> _]. apply ValInv_newNode; try assumption. apply fresh_bf; auto.
  - apply ok_inv in H as [-> _]. apply ValInv_newNode; try assumption. apply fresh_bf; auto.
  - apply ok_inv in H as [-> _]. apply ValInv_newNode; try assumption. apply fresh_bf; auto.
  - apply ok_inv in H as [-> _]. apply ValInv_newNode; try assumption. apply fresh_bf; auto.
  - apply ok_inv in H as [-> _]. apply ValInv_newNode; try assumption. apply fresh_bf; auto.
  - apply ok_inv in H as [-> _]. apply ValInv_newNode; try assumption. apply fresh_bf; auto.
    unfold cutalways_zero. simpl. destruct c; reflexivity.
  - apply ok_inv in H as [-> _]. apply ValInv_newNode; try assumption. apply fresh_bf; auto.
    unfold always_lt. simpl. apply isUserNode_lt; assumption.
  - exact (ValInv_observe s n s' Hwf V Hwf' H).
  - apply lift_inv in H as [H _]. exact (ValInv_unobserve s o s' Hwf V Hwf' H).
  - apply lift_inv in H as [H _]. exact (ValInv_varSet s v x s' Hwf V Hok H).
  - apply lift_inv in H as [H _]. exact (ValInv_varUpdate s v d s' Hwf V Hok H).
  - apply andb_true_iff in Hok as [Hok _]. exact (ValInv_addInput s n a s' Hwf V Hwf' Hok H).
  - apply andb_true_iff in Hok as [Hok _]. apply lift_inv in H as [H _].
    exact (ValInv_removeInput s n a s' Hwf V Hwf' Hok H).
  - apply bool_decide_eq_true in Hso. subst p. apply (pass_consistent s s' Hwf V H).
  - apply stabilize_cancelled_ok in H. apply (pass_consistent s s' Hwf V H).
Qed.

(** a history of the fragment in which every operation is well-formed, succeeds without an error
    result (no crash, no rejection for a cycle or the height limit, no cancelled pass), and after
    which the structural invariant [wfb] holds (the subject of C05: EngineInvProofs) *)
Inductive static_run : state -> list op -> state -> Prop :=
| sr_nil s : static_run s [] s
| sr_cons s o os s1 s' :
    static_op o = true -> op_ok s o = true -> step s o = Ok (s1, None) -> wfb s1 = true ->
    static_run s1 os s' -> static_run s (o :: os) s'.

Lemma static_run_inv s os s' :
  wfb s = true -> ValInv s -> static_run s os s' -> wfb s' = true /\ ValInv s'.
Proof.
  intros Hwf V R. induction R as [s|s o os s1 s' Hso Hok Hst Hwf1 R IH]; [auto|].
  apply IH; [exact Hwf1|]. exact (step_ValInv s o s1 Hwf V Hso Hok Hst Hwf1).
Qed.

Lemma static_run_split s os1 : forall o os2 s',
  static_run s (os1 ++ o :: os2) s' ->
  exists s1 s2, static_run s os1 s1 /\ static_op o = true /\ op_ok s1 o = true /\
                step s1 o = Ok (s2, None) /\ wfb s2 = true /\ static_run s2 os2 s'.
Proof.
  revert s. induction os1 as [|o1 os1 IH]; intros s o os2 s' R; simpl in R.
  - inv R. exists s, s1. split; [constructor|auto].
  - inv R. destruct (IH _ _ _ _ H7) as (t1 & t2 & R1 & Hrest). exists t1, t2. split; [|exact Hrest].
    econstructor; eauto.
Qed.

(** C01 for histories of the fragment: after every pass of the history every registered node is
    locally consistent and every observer reads the from-scratch value of its node *)
Theorem static_history_consistent s0 os1 o os2 s' :
  wfb s0 = true -> ValInv s0 -> static_run s0 (os1 ++ o :: os2) s' -> is_pass o = true ->
  exists s1 s2, static_run s0 os1 s1 /\ step s1 o = Ok (s2, None) /\
                consistent s2 = true /\ observers_agree s2 = true /\ wfb s2 = true /\ ValInv s2.
Proof.
  intros Hwf V R Hp. destruct (static_run_split _ _ _ _ _ R) as (s1 & s2 & R1 & Hso & Hok & Hst & Hwf2 & _).
  destruct (static_run_inv _ _ _ Hwf V R1) as [Hwf1 V1].
  exists s1, s2. split; [exact R1|]. split; [exact Hst|].
  assert (Hpass : stabilize [] false s1 = Ok (s2, None)).
  { destruct o; try discriminate Hp; try discriminate Hso; simpl in Hst.
    - apply bool_decide_eq_true in Hso. subst p. exact Hst.
    - apply stabilize_cancelled_ok, Hst. }
  destruct (pass_all s1 s2 Hwf1 V1 Hpass) as (Hc & Hw & V2 & Ho). auto.
Qed.

(** a boolean version of [static_run], to exhibit concrete histories *)
Fixpoint static_run_b (s : state) (os : list op) : option state :=
  match os with
  | [] => Some s
  | o :: os =>
    if static_op o && op_ok s o then
      match step s o with
      | Ok (s1, None) => if wfb s1 then static_run_b s1 os else None
      | _ => None
      end
    else None
  end.

Lemma static_run_b_sound os : forall s s', static_run_b s os = Some s' -> static_run s os s'.
Proof.
  induction os as [|o os IH]; intros s s' H; simpl in H.
  - injection H as <-. constructor.
  - destruct (static_op o && op_ok s o) eqn:E1; [|discriminate]. apply andb_true_iff in E1 as [E1 E2].
    destruct (step s o) as [[s1 [e|]]| |] eqn:E3; try discriminate.
    destruct (wfb s1) eqn:E4; [|discriminate]. econstructor; eauto.
Qed.

Definition ex_history : list op := ex_ops ++ [Stabilize []].

Lemma ex_history_runs : exists s', static_run (init 64) ex_history s'.
Proof.
  assert (H : match static_run_b (init 64) ex_history with Some _ => true | None => false end = true)
    by (vm_compute; reflexivity).
  destruct (static_run_b (init 64) ex_history) as [s'|] eqn:E; [|discriminate H].
  exists s'. apply static_run_b_sound. exact E.
Qed.

Lemma init_hyps : wfb (init 64) = true /\ ValInv (init 64).
Proof. split; [vm_compute; reflexivity|apply ValInv_init]. Qed.
