(** C07 / C13 / C02 / C03 for ParallelStabilize on graphs with binds under a plan with ANY NUMBER of
    faults (functions of Map / Map2 / MapN nodes, cutoff functions; errors and panics) and var
    writes.  A parallel pass runs the rest of the height block after the first fault, so several
    nodes of one block can fault in one pass; the pass returns the FIRST error.  One induction over
    the blocks, generic in an extra invariant, gives the state invariants, the handler set and the
    log theorems. *)
From stdpp Require Import sorting.
From incr Require Import Base Heap HeapSpec HeapProofs EngineDefs Engine EngineRun EngineWf Spec EngineLemmas EngineLocal
     EngineInv EngineInvProofs PassInv PassProofs PassPlanProofs PassBind PassBindProofs PassBindSwap PassBindSwapProofs
     PassBindSwapStep PassBindOps PassBindFault PassBindWrites PassBindTotal PassBindMixed PassBindFaultGen
     ParBind ParBindStep ParBindHistory ParBindWrites ParBindLog PassPlanProofs2 PassBindSwapLog PassBindSwapHandlers
     ParBindHandlers ParBindFault PassBindMultiFault PassBindPlanLog ParBindFaultLog ParBindEverything.
From incr Require Import SpecProofs.

Local Arguments valueOf : simpl never.

(** * 1. A parallel recompute under a plan of faults is one under a plan with one fault, or none *)
Lemma rnp_invoke_eq fuel p q s m :
  (cutKind (nkind (nd s m)) = true -> forall t, invoke p t m WCut = invoke q t m WCut) ->
  (fnKind (nkind (nd s m)) = true -> forall t, invoke p t m WFn = invoke q t m WFn) ->
  (forall b, nkind (nd s m) = KBindLhs b -> b = m) ->
  recomputeNodeParallel fuel p s m = recomputeNodeParallel fuel q s m.
Proof.
  intros Hc Hf Hb. rewrite !rnp_unfold2. cbv zeta.
  set (s0 := upd s m (set recomputedAt (fun _ => stabNum s))).
  assert (Hmc : maybeCutoff p s0 m (nd s m) = maybeCutoff q s0 m (nd s m)).
  { unfold maybeCutoff. destruct (nkind (nd s m)); try reflexivity. rewrite (Hc eq_refl s0). reflexivity. }
  rewrite Hmc. destruct (maybeCutoff q s0 m (nd s m)) as [[[s1 e1] cut]| |] eqn:E1; simpl; try reflexivity.
  destruct e1; [reflexivity|]. destruct cut; [reflexivity|].
  assert (Hk1 : nkind (nd s1 m) = nkind (nd s m)).
  { apply maybeCutoff_spec in E1 as (V1 & _). destruct (vps_fields _ _ (V1 m)) as (-> & _).
    apply (nd_upd_proj nkind). reflexivity. }
  assert (Hsn : stabilizeNode fuel p s1 m = stabilizeNode fuel q s1 m).
  { unfold stabilizeNode. rewrite Hk1. unfold fnKind in Hf.
    destruct (nkind (nd s m)) eqn:K; try reflexivity; try (rewrite (Hf eq_refl s1); reflexivity).
    rewrite (Hb b eq_refl). apply bindLhs_invoke_eq. apply Hf. reflexivity. }
  rewrite Hsn. reflexivity.
Qed.

Lemma rnp_fire fuel q s m : nowrites q ->
  (forall b, nkind (nd s m) = KBindLhs b -> b = m) ->
  recomputeNodeParallel fuel q s m = recomputeNodeParallel fuel (onePlan m (fireK q (nkind (nd s m)) m)) s m.
Proof.
  intros Hq Hb. apply rnp_invoke_eq; [| |exact Hb].
  - intros Hc t. rewrite (invoke_nowrites q t m WCut Hq). unfold fireK.
    destruct (nkind (nd s m)); try discriminate Hc.
    destruct (firstFault (actions_of q m WCut)) as [ff|] eqn:Ef; cbn [onePlan].
    + rewrite (invoke_nowrites _ t m WCut (nowrites_one m WCut ff)), actions_one. cbn. reflexivity.
    + reflexivity.
  - intros Hf t. rewrite (invoke_nowrites q t m WFn Hq). unfold fireK.
    destruct (nkind (nd s m)); try discriminate Hf;
      (destruct (firstFault (actions_of q m WFn)) as [ff|] eqn:Ef; cbn [onePlan];
       [rewrite (invoke_nowrites _ t m WFn (nowrites_one m WFn ff)), actions_one; cbn; reflexivity|reflexivity]).
Qed.

Lemma faultStep_any x w k : faultStep x w k.
Proof. destruct k; [apply faultStep_err|apply faultStep_panic]. Qed.
Lemma faultShape_any x w k : faultShape x w k.
Proof. destruct k; [apply faultShape_err|apply faultShape_panic]. Qed.
Lemma faultErr_ok x k : rejected (Some (faultErr x k)) = false.
Proof. destruct k; reflexivity. Qed.

(** * 2. The blocks, with an extra invariant *)
Section ParMulti.
  Context (q : plan) (Hq : nowrites q).

  Definition tgt (st : state) (m : nid) : option (which * faultkind) := fireK q (nkind (nd st m)) m.
  (* no fault is injected into a bind function *)
  Definition okq (st : state) : Prop :=
    forall x k, (x, WFn, AFail k) ∈ q -> has st x /\ isLhs (nkind (nd st x)) = false.
  (* a targeted node has not run in this pass: every run of it faults *)
  Definition ndq (st : state) : Prop :=
    forall m, tgt st m <> None -> inGraph (nd st m) = true -> isDone st m = false.

  Lemma okq_kstable st st' : kstable st st' -> okq st -> okq st'.
  Proof. intros K H x k Hin. destruct (H x k Hin) as [Hx Hl]. destruct (K x Hx) as [Hx' Ek]. rewrite Ek. auto. Qed.

  Lemma tgt_kstable st st' m : kstable st st' -> has st m -> tgt st' m = tgt st m.
  Proof. intros K Hm. unfold tgt. destruct (K m Hm) as [_ ->]. reflexivity. Qed.

  Lemma tgt_tkw st m w k : okq st -> tgt st m = Some (w, k) -> tkw w (nkind (nd st m)) = true.
  Proof.
    intros Ho H. destruct (fireK_kind q _ m w k H) as [(-> & Hf & Hin)|(-> & Hc & _)]; [|exact Hc].
    destruct (Ho m k (actions_of_in q m WFn _ Hin)) as [_ Hl]. unfold fnKind in Hf. rewrite Hl, orb_false_r in Hf. exact Hf.
  Qed.

  Lemma tgt_lhs st m : okq st -> isLhs (nkind (nd st m)) = true -> tgt st m = None.
  Proof.
    intros Ho Hl. destruct (tgt st m) as [[w k]|] eqn:E; [|reflexivity].
    pose proof (tkw_nonlhs w _ (tgt_tkw st m w k Ho E)). congruence.
  Qed.

  Lemma tgt_inPlan st m w k : tgt st m = Some (w, k) -> inPlan q m k.
  Proof. apply fireK_inPlan. Qed.

  Variable X : state -> list nid -> Prop.
  Hypothesis HXskip : forall st m R, PInv st -> inGraph (nd st m) = false -> X st (m :: R) -> X st R.
  Hypothesis HXstep : forall fuel st m R st', Tplain st -> PInv st -> LInvP st (m :: R) -> inGraph (nd st m) = true ->
    recomputeNodeParallel fuel [] st m = Ok (st', None) -> X st (m :: R) -> X st' R.
  Hypothesis HXfault : forall fuel st x w k R st' e', PInv st -> LInvP st (x :: R) -> inGraph (nd st x) = true ->
    tkw w (nkind (nd st x)) = true -> isDone st x = false -> inPlan q x k ->
    recomputeNodeParallel fuel (fplan x w k) st x = Ok (st', e') -> X st (x :: R) -> X st' R.
  Hypothesis HXstart : forall s block w order, PInv s -> Heap.takeMinBlock (heap s) = (block, w) ->
    (forall x, x ∈ order <-> x ∈ block) -> X s [] -> X (s <| heap := w |>) order.

  (* the faulting recompute of a targeted node *)
  Lemma nodeF fuel st x w k R st' e' al :
    Tplain st -> PInv st -> LInvP st (x :: R) -> AW st al -> inGraph (nd st x) = true -> okq st -> ndq st -> X st (x :: R) ->
    tgt st x = Some (w, k) -> recomputeNodeParallel fuel q st x = Ok (st', e') ->
    e' = Some (faultErr x k) /\ Tplain st' /\ PInv st' /\ LInvP st' R /\ AW st' al /\ okq st' /\ ndq st' /\ X st' R /\
    stabNum st' = stabNum st /\ CF st st' /\ kstable st st' /\ inHeap st' x = true /\ x ∉ R /\
    isAlways (nkind (nd st' x)) = false /\ isLhs (nkind (nd st x)) = false /\
    (forall y, inHeap st y = true -> inHeap st' y = true).
  Proof.
    intros TP P L HA Hg Ho Hn HX Et Hr.
    assert (Hkm : forall b, nkind (nd st x) = KBindLhs b -> b = x).
    { intros b K. pose proof (p_kinds _ P x (has_inGraph _ _ Hg)) as Hkk. rewrite K in Hkk. symmetry. apply Hkk. }
    rewrite (rnp_fire fuel q st x Hq Hkm) in Hr. fold (tgt st x) in Hr. rewrite Et in Hr. cbn [onePlan] in Hr.
    change [(x, w, AFail k)] with (fplan x w k) in Hr.
    pose proof (tgt_tkw st x w k Ho Et) as Ht.
    assert (Hd : isDone st x = false) by (apply Hn; [rewrite Et; discriminate|exact Hg]).
    destruct (faultStep_any x w k fuel st R st' e' P L Hg Ht Hd Hr) as (-> & L' & Hqx & Eb & Ek & Ehas & Ene & Ekx & Egx & Edx).
    destruct (faultShape_any x w k fuel st R st' _ P L Hg Ht Hd Hr) as (r & new & Hr' & Ex & I' & Hids & Eln & FQ).
    destruct (recomputeNodeParallel_spec PT PT_struct bind_spec_holds fuel (fplan x w k) st x st' _ Logic.I P eq_refl Hg Hr)
      as [[Hrj|(P' & _)] _].
    { exfalso. pose proof (faultErr_ok x k) as Hf. destruct Hrj as [E|E]; injection E as E; rewrite E in Hf; discriminate Hf. }
    assert (Hna : isAlways (nkind (nd st' x)) = false) by (rewrite Ekx; apply (tkw_notAlways w), Ht).
    assert (HxR : x ∉ R) by (pose proof (lp_nodup _ _ L) as H0; apply stdpp.list.NoDup_cons in H0 as [H0 _]; exact H0).
    assert (K' : kstable st st').
    { intros y Hy. split; [apply Ehas, Hy|]. destruct (decide (y = x)) as [->|Hyx]; [exact Ekx|rewrite (Ene y Hyx); reflexivity]. }
    split; [reflexivity|]. split; [apply (Tplain_binds st st' Eb TP)|]. split; [exact P'|]. split; [exact L'|].
    split.
    { intros y A B C. assert (Hyx : y <> x) by (intros ->; rewrite Hna in A; discriminate).
      unfold isDone in B. rewrite (Ene y Hyx), Ek in *. apply (HA y A B C). }
    split; [apply (okq_kstable st st' K' Ho)|].
    split.
    { intros y Hty Hgy. destruct (decide (y = x)) as [->|Hyx]; [exact Edx|].
      unfold isDone. rewrite (Ene y Hyx), Ek. rewrite (Ene y Hyx) in Hgy. apply (Hn y); [|exact Hgy].
      unfold tgt in *. rewrite (Ene y Hyx) in Hty. exact Hty. }
    split; [apply (HXfault fuel st x w k R st' _ P L Hg Ht Hd (tgt_inPlan st x w k Et) Hr HX)|].
    split; [exact Ek|]. split; [apply CF_binds, Eb|]. split; [exact K'|]. split; [exact Hqx|]. split; [exact HxR|].
    split; [exact Hna|]. split; [apply (tkw_nonlhs w _ Ht)|].
    intros y Hy. destruct (PInv_heap st P) as [I _]. apply (inHeap_iff0 st' y I'), Hids. right. apply (inHeap_iff0 st y I), Hy.
  Qed.

  (* a plan-free recompute of a node the plan does not target, before or after the first fault *)
  Lemma nodeN fuel st m R st' e' al :
    Tplain st -> PInv st -> LInvP st (m :: R) -> AW st al -> inGraph (nd st m) = true -> okq st -> ndq st -> X st (m :: R) ->
    tgt st m = None -> recomputeNodeParallel fuel q st m = Ok (st', e') ->
    rejected_err e' \/
    (e' = None /\ Tplain st' /\ PInv st' /\ LInvP st' R /\
     AW st' (if isAlways (nkind (nd st' m)) then al ++ [m] else al) /\ okq st' /\ ndq st' /\ X st' R /\
     stabNum st' = stabNum st /\ CF st st' /\ kstable st st' /\
     (forall x0, x0 <> m -> x0 ∉ R -> inHeap st x0 = true -> isLhs (nkind (nd st m)) = false -> inHeap st' x0 = true)).
  Proof.
    intros TP P L HA Hg Ho Hn HX Et Hr.
    assert (Hkm : forall b, nkind (nd st m) = KBindLhs b -> b = m).
    { intros b K. pose proof (p_kinds _ P m (has_inGraph _ _ Hg)) as Hkk. rewrite K in Hkk. symmetry. apply Hkk. }
    rewrite (rnp_fire fuel q st m Hq Hkm) in Hr. fold (tgt st m) in Hr. rewrite Et in Hr. cbn [onePlan] in Hr.
    pose proof (E_rnp _ _ _ _ _ Hr) as G. destruct e' as [r|].
    { left. destruct G as [-> | ->]; [left|right]; reflexivity. }
    right. split; [reflexivity|].
    destruct (nodeP bind_stepP fuel st m R st' TP P L Hg Hr) as (TP' & P' & L' & Hk' & C' & Hd).
    pose proof (kstable_rnp fuel [] st m st' None P Hr) as K'.
    split; [exact TP'|]. split; [exact P'|]. split; [exact L'|].
    split.
    { intros y A B C. destruct (Hd y B C A) as [(X1 & X2 & X3)| ->].
      - pose proof (HA y X3 X1 X2). destruct (isAlways (nkind (nd st' m))); [apply elem_of_app; left|]; assumption.
      - rewrite A. apply elem_of_app. right. left. }
    split; [apply (okq_kstable st st' K' Ho)|].
    split.
    { intros y Hty Hgy. destruct (decide (y = m)) as [->|Hne].
      - exfalso. apply Hty. rewrite (tgt_kstable st st' m K' (has_inGraph _ _ Hg)). exact Et.
      - destruct (isDone st' y) eqn:Ed; [exfalso|reflexivity].
        destruct (node_done_back fuel st m R st' TP P L Hg Hr y Hne Hgy Ed) as [Hg0 Hd0].
        rewrite (tgt_kstable st st' y K' (has_inGraph _ _ Hg0)) in Hty. rewrite (Hn y Hty Hg0) in Hd0. discriminate. }
    split; [apply (HXstep fuel st m R st' TP P L Hg Hr HX)|].
    split; [exact Hk'|]. split; [exact C'|]. split; [exact K'|].
    intros x0 Hx0 HxR Hqx El.
    destruct (rnp_rns fuel st m st' Hr) as (s1 & imm & Hs & Hadd).
    pose proof (PInv_BFB st P (lp_shape _ _ L)) as HB.
    destruct (rns_stepB fuel st m s1 None imm HB (has_inGraph _ _ Hg) (proj1 (PInv_heap st P)) El Hs) as [_ PP1].
    pose proof (stepPostB_par st m s1 imm st' (proj1 (PInv_heap st P)) PP1 Hadd) as PP.
    destruct (step_frameP st m R st' (PInv_Struct st P) (PInv_heap st P) L Hg El PP) as (FR1 & _).
    assert (Hw : inP st (m :: R) x0 = true) by (unfold inP; rewrite Hqx; reflexivity).
    pose proof (FR1 x0 Hw ltac:(congruence)) as Hw'. unfold inP in Hw'.
    rewrite (bool_decide_eq_false_2 _ HxR), andb_false_l, orb_false_r in Hw'. exact Hw'.
  Qed.

  (* after the first fault: the rest of the block, all of it other than lhs-change nodes *)
  Lemma blockBQ fuel l : forall st al st2 e2 al2 e0 x0,
    Tplain st -> PInv st -> LInvP st l -> AW st al -> okq st -> ndq st -> X st l ->
    x0 ∉ l -> inHeap st x0 = true ->
    (forall m, m ∈ l -> has st m /\ isLhs (nkind (nd st m)) = false) ->
    rfold (blockStep fuel q) l (st, Some e0, al) = Ok (st2, e2, al2) ->
    e2 = Some e0 /\ Tplain st2 /\ PInv st2 /\ LInvP st2 [] /\ AW st2 al2 /\ X st2 [] /\ stabNum st2 = stabNum st /\ CF st st2 /\
    inHeap st2 x0 = true.
  Proof.
    induction l as [|m l IH]; intros st al st2 e2 al2 e0 x0 TP P L HA Ho Hn HX Hxl Hqx Hnl H; simpl in H.
    { injection H as <- <- <-. split; [reflexivity|]. split; [exact TP|]. split; [exact P|]. split; [exact L|].
      split; [exact HA|]. split; [exact HX|]. split; [reflexivity|]. split; [apply CF_binds; reflexivity|exact Hqx]. }
    apply rbind_ok in H as ([[st1 e1] al1] & H1 & H). unfold blockStep in H1.
    assert (Hxl' : x0 ∉ l) by (intros Hin; apply Hxl; right; exact Hin).
    assert (Hmx : x0 <> m) by (intros ->; apply Hxl; left).
    destruct (Z.eqb_spec (height (nd st m)) unset) as [Hu|Hu].
    { injection H1 as <- <- <-. pose proof (PInv_unset st m P Hu) as Hgm.
      apply (IH st al st2 e2 al2 e0 x0 TP P (LInvP_skip st m l Hgm L) HA Ho Hn (HXskip st m l P Hgm HX) Hxl' Hqx); [|exact H].
      intros m' Hm'. apply Hnl. right. exact Hm'. }
    apply rbind_ok in H1 as ([st' e'] & Hr & [= <- <- <-]).
    pose proof (PInv_hreg st m P Hu) as Hg. destruct (Hnl m ltac:(left)) as [_ El].
    destruct (tgt st m) as [[w k]|] eqn:Et.
    - destruct (nodeF fuel st m w k l st' e' al TP P L HA Hg Ho Hn HX Et Hr)
        as (-> & TP' & P' & L' & HA' & Ho' & Hn' & HX' & Hk' & C' & K' & _ & _ & Hna & _ & Hgrow).
      rewrite Hna in H.
      destruct (IH st' al st2 e2 al2 e0 x0 TP' P' L' HA' Ho' Hn' HX' Hxl' (Hgrow x0 Hqx)) as (E & TP2 & P2 & L2 & HA2 & HX2 & Hk2 & C2 & Hq2);
        [|exact H|].
      { intros m' Hm'. destruct (Hnl m' ltac:(right; exact Hm')) as [Hh Hl]. destruct (K' m' Hh) as [Hh' Ek]. rewrite Ek. auto. }
      split; [exact E|]. split; [exact TP2|]. split; [exact P2|]. split; [exact L2|]. split; [exact HA2|]. split; [exact HX2|].
      split; [congruence|]. split; [apply (CF_trans st st' st2 C' C2)|exact Hq2].
    - destruct (nodeN fuel st m l st' e' al TP P L HA Hg Ho Hn HX Et Hr)
        as [Rj|(-> & TP' & P' & L' & HA' & Ho' & Hn' & HX' & Hk' & C' & K' & Hkeep)].
      { exfalso. (* a node that is not a lhs-change node is never rejected *)
        assert (Hkm : forall b, nkind (nd st m) = KBindLhs b -> b = m) by (intros b K; rewrite K in El; discriminate).
        rewrite (rnp_fire fuel q st m Hq Hkm) in Hr. fold (tgt st m) in Hr. rewrite Et in Hr. cbn [onePlan] in Hr.
        destruct (recomputeNodeParallel_spec PT PT_struct bind_spec_holds fuel [] st m st' e' Logic.I P eq_refl Hg Hr) as [_ Bn].
        apply Bn; [|exact Rj]. intros b K. rewrite K in El. discriminate. }
      destruct (IH st' _ st2 e2 al2 e0 x0 TP' P' L' HA' Ho' Hn' HX' Hxl' (Hkeep x0 Hmx Hxl' Hqx El)) as (E & TP2 & P2 & L2 & HA2 & HX2 & Hk2 & C2 & Hq2);
        [|exact H|].
      { intros m' Hm'. destruct (Hnl m' ltac:(right; exact Hm')) as [Hh Hl]. destruct (K' m' Hh) as [Hh' Ek]. rewrite Ek. auto. }
      split; [exact E|]. split; [exact TP2|]. split; [exact P2|]. split; [exact L2|]. split; [exact HA2|]. split; [exact HX2|].
      split; [congruence|]. split; [apply (CF_trans st st' st2 C' C2)|exact Hq2].
  Qed.

  Definition lhsFirstQ (st : state) (l : list nid) : Prop :=
    forall l1 m l2, l = l1 ++ m :: l2 -> isLhs (nkind (nd st m)) = false ->
      forall m2, m2 ∈ l2 -> isLhs (nkind (nd st m2)) = false.
  Lemma lhsFirstQ_tail st m l : lhsFirstQ st (m :: l) -> lhsFirstQ st l.
  Proof. intros H l1 m1 l2 E. apply (H (m :: l1) m1 l2). rewrite E. reflexivity. Qed.

  Lemma blockAQ fuel l : forall st al st2 e2 al2,
    Tplain st -> PInv st -> LInvP st l -> AW st al -> okq st -> ndq st -> X st l -> lhsFirstQ st l -> (forall m, m ∈ l -> has st m) ->
    rfold (blockStep fuel q) l (st, None, al) = Ok (st2, e2, al2) ->
    rejected_err e2 \/
    (Tplain st2 /\ PInv st2 /\ LInvP st2 [] /\ AW st2 al2 /\ X st2 [] /\ stabNum st2 = stabNum st /\ CF st st2 /\
     ((e2 = None /\ okq st2 /\ ndq st2) \/ (exists x k, inPlan q x k /\ e2 = Some (faultErr x k) /\ inHeap st2 x = true))).
  Proof.
    induction l as [|m l IH]; intros st al st2 e2 al2 TP P L HA Ho Hn HX HF Hh H; simpl in H.
    { injection H as <- <- <-. right. split; [exact TP|]. split; [exact P|]. split; [exact L|]. split; [exact HA|]. split; [exact HX|].
      split; [reflexivity|]. split; [apply CF_binds; reflexivity|left; auto]. }
    apply rbind_ok in H as ([[st1 e1] al1] & H1 & H). unfold blockStep in H1.
    assert (Hh' : forall m', m' ∈ l -> has st m') by (intros m' Hm'; apply Hh; right; exact Hm').
    destruct (Z.eqb_spec (height (nd st m)) unset) as [Hu|Hu].
    { injection H1 as <- <- <-. pose proof (PInv_unset st m P Hu) as Hgm.
      apply (IH st al st2 e2 al2 TP P (LInvP_skip st m l Hgm L) HA Ho Hn (HXskip st m l P Hgm HX) (lhsFirstQ_tail st m l HF) Hh' H). }
    apply rbind_ok in H1 as ([st' e'] & Hr & [= <- <- <-]).
    pose proof (PInv_hreg st m P Hu) as Hg.
    destruct (tgt st m) as [[w k]|] eqn:Et.
    - (* the first faulting recompute *)
      destruct (nodeF fuel st m w k l st' e' al TP P L HA Hg Ho Hn HX Et Hr)
        as (-> & TP' & P' & L' & HA' & Ho' & Hn' & HX' & Hk' & C' & K' & Hqx & HxR & Hna & Hnl & _).
      rewrite Hna in H.
      destruct (blockBQ fuel l st' al st2 e2 al2 (faultErr m k) m TP' P' L' HA' Ho' Hn' HX' HxR Hqx)
        as (-> & TP2 & P2 & L2 & HA2 & HX2 & Hk2 & C2 & Hq2); [|exact H|].
      { intros m' Hm'. destruct (K' m' (Hh' m' Hm')) as [Hh2 Ek]. split; [exact Hh2|]. rewrite Ek.
        apply (HF [] m l eq_refl Hnl m' Hm'). }
      right. split; [exact TP2|]. split; [exact P2|]. split; [exact L2|]. split; [exact HA2|]. split; [exact HX2|]. split; [congruence|].
      split; [apply (CF_trans st st' st2 C' C2)|]. right. exists m, k. split; [apply (tgt_inPlan st m w k Et)|auto].
    - destruct (nodeN fuel st m l st' e' al TP P L HA Hg Ho Hn HX Et Hr)
        as [Rj|(-> & TP' & P' & L' & HA' & Ho' & Hn' & HX' & Hk' & C' & K' & _)].
      { left. destruct e' as [r|]; [|destruct Rj; discriminate]. rewrite (block_errG fuel q l _ _ _ _ _ _ H). exact Rj. }
      assert (HF' : lhsFirstQ st' l).
      { intros l1 m1 l2 E Hl m2 Hm2.
        assert (H1 : has st m1) by (apply Hh'; rewrite E; apply elem_of_app; right; left).
        assert (H2 : has st m2) by (apply Hh'; rewrite E; apply elem_of_app; right; right; exact Hm2).
        destruct (K' m1 H1) as [_ E1]. destruct (K' m2 H2) as [_ E2]. rewrite E1 in Hl. rewrite E2.
        apply (lhsFirstQ_tail st m l HF l1 m1 l2 E Hl m2 Hm2). }
      destruct (IH st' _ st2 e2 al2 TP' P' L' HA' Ho' Hn' HX' HF')
        as [Rj|(TP2 & P2 & L2 & HA2 & HX2 & Hk2 & C2 & He2)];
        [intros m' Hm'; apply (K' m' (Hh' m' Hm'))|exact H|left; exact Rj|].
      right. split; [exact TP2|]. split; [exact P2|]. split; [exact L2|]. split; [exact HA2|]. split; [exact HX2|]. split; [congruence|].
      split; [apply (CF_trans st st' st2 C' C2)|exact He2].
  Qed.

  Lemma loopQ fuel : forall s al s' e al',
    Tplain s -> PInv s -> LInvP s [] -> AW s al -> okq s -> ndq s -> X s [] ->
    parLoop fuel q s al = Ok (s', e, al') ->
    rejected_err e \/
    (Tplain s' /\ PInv s' /\ LInvP s' [] /\ AW s' al' /\ X s' [] /\ stabNum s' = stabNum s /\ CF s s' /\
     ((e = None /\ Heap.ids (heap s') = []) \/ (exists x k, inPlan q x k /\ e = Some (faultErr x k) /\ inHeap s' x = true))).
  Proof.
    induction fuel as [|fuel IH]; intros s al s' e al' TP P L HA Ho Hn HX H; [discriminate|].
    rewrite parLoop_S in H. destruct (PInv_heap s P) as [I Hqh].
    destruct (Z.leb_spec (Heap.cnt (heap s)) 0) as [Hc|Hc].
    { injection H as <- <- <-. right. split; [exact TP|]. split; [exact P|]. split; [exact L|]. split; [exact HA|]. split; [exact HX|].
      split; [reflexivity|]. split; [apply CF_binds; reflexivity|]. left. split; [reflexivity|apply cnt_zero_ids; assumption]. }
    destruct (Heap.takeMinBlock (heap s)) as [block w0] eqn:Etb. cbv zeta in H.
    set (sb := s <| heap := w0 |>) in *.
    set (isL := fun n : nid => match nkind (nd sb n) with KBindLhs _ => true | _ => false end) in *.
    set (order := filter (fun n => isL n = true) block ++ filter (fun n => isL n = false) block) in *.
    apply rbind_ok in H as ([[s2 e2] al2] & H2 & H).
    destruct (heap_takeMinBlock_spec (heap s) block w0 I Etb) as (_ & Pm & _).
    assert (Hndb : NoDup block).
    { pose proof (inv_nodup _ I) as Hn0. rewrite Pm in Hn0. apply NoDup_app in Hn0 as (Hn0 & _). exact Hn0. }
    assert (Hord : forall y, y ∈ order <-> y ∈ block).
    { intros y. unfold order. rewrite elem_of_app, !elem_of_list_filter. destruct (isL y); intuition congruence. }
    assert (Hndo : NoDup order).
    { unfold order. apply NoDup_app. split; [apply stdpp.list.NoDup_filter, Hndb|]. split; [|apply stdpp.list.NoDup_filter, Hndb].
      intros y [A _]%elem_of_list_filter [B _]%elem_of_list_filter. congruence. }
    destruct (block_start s block w0 order P L Etb Hndo Hord) as [Pb Lb]. fold sb in Pb, Lb.
    pose proof (Tplain_binds s sb eq_refl TP) as TPb.
    assert (HF : lhsFirstQ sb order).
    { intros l1 m l2 E Hm m2 Hm2.
      apply (lhsFirst_app (fun n => isLhs (nkind (nd sb n)))
               (filter (fun n => isL n = true) block) (filter (fun n => isL n = false) block) l1 m l2); try assumption.
      - intros a [Ha _]%elem_of_list_filter. exact Ha.
      - intros b [Hb _]%elem_of_list_filter. exact Hb. }
    assert (Hh : forall m, m ∈ order -> has sb m).
    { intros m Hm. apply Hord in Hm. apply has_inGraph. apply Hqh. rewrite Pm. apply elem_of_app. left. exact Hm. }
    assert (Hob : okq sb) by exact Ho.
    assert (Hnb : ndq sb) by exact Hn.
    pose proof (HXstart s block w0 order P Etb Hord HX) as HXb. fold sb in HXb.
    destruct (blockAQ fuel order sb al s2 e2 al2 TPb Pb Lb (AW_heap s w0 al HA) Hob Hnb HXb HF Hh H2)
      as [Rj|(TP2 & P2 & L2 & HA2 & HX2 & Hk2 & C2 & He2)].
    { left. destruct e2 as [r|]; [injection H as _ <- _; exact Rj|destruct Rj; discriminate]. }
    assert (C02 : CF s s2) by (apply (CF_trans s sb s2); [apply CF_binds; reflexivity|exact C2]).
    destruct e2 as [r|].
    - injection H as <- <- <-. destruct He2 as [[? _]|He2]; [discriminate|]. right.
      split; [exact TP2|]. split; [exact P2|]. split; [exact L2|]. split; [exact HA2|]. split; [exact HX2|]. split; [exact Hk2|].
      split; [exact C02|]. right. exact He2.
    - destruct He2 as [(_ & Ho2 & Hn2)|(x & k & _ & ? & _)]; [|discriminate].
      destruct (IH s2 al2 s' e al' TP2 P2 L2 HA2 Ho2 Hn2 HX2 H) as [Rj|(TP' & P' & L' & HA' & HX' & Hk' & C' & He')]; [left; exact Rj|].
      right. split; [exact TP'|]. split; [exact P'|]. split; [exact L'|]. split; [exact HA'|]. split; [exact HX'|].
      split; [rewrite Hk', Hk2; reflexivity|]. split; [apply (CF_trans s s2 s' C02 C')|exact He'].
  Qed.
End ParMulti.

(** * 3. The pass: any number of faults *)
Lemma par_clean_okq s q : par_plan_clean s q = true -> okq q (EngineLocal.passStart s).
Proof.
  intros Hcl x k Hin. unfold par_plan_clean in Hcl. rewrite forallb_forall in Hcl.
  pose proof (Hcl _ (proj1 (elem_of_list_In _ _) Hin)) as Hc. cbn in Hc.
  change (nodes (EngineLocal.passStart s) !! x) with (nodes s !! x). unfold has.
  change (nd (EngineLocal.passStart s) x) with (nd s x). unfold nd.
  destruct (nodes s !! x) as [y|] eqn:Ex; [|discriminate]. split; [eauto|]. cbn.
  destruct (nkind y); try reflexivity. discriminate.
Qed.

Section ParMultiPass.
  Context (q : plan) (Hq : nowrites q).
  Variable X : state -> list nid -> Prop.
  Hypothesis HXskip : forall st m R, PInv st -> inGraph (nd st m) = false -> X st (m :: R) -> X st R.
  Hypothesis HXstep : forall fuel st m R st', Tplain st -> PInv st -> LInvP st (m :: R) -> inGraph (nd st m) = true ->
    recomputeNodeParallel fuel [] st m = Ok (st', None) -> X st (m :: R) -> X st' R.
  Hypothesis HXfault : forall fuel st x w k R st' e', PInv st -> LInvP st (x :: R) -> inGraph (nd st x) = true ->
    tkw w (nkind (nd st x)) = true -> isDone st x = false -> inPlan q x k ->
    recomputeNodeParallel fuel (fplan x w k) st x = Ok (st', e') -> X st (x :: R) -> X st' R.
  Hypothesis HXstart : forall s block w order, PInv s -> Heap.takeMinBlock (heap s) = (block, w) ->
    (forall x, x ∈ order <-> x ∈ block) -> X s [] -> X (s <| heap := w |>) order.

  (* the loop of a whole pass, from the state after the pass started *)
  Lemma passLoopQ s sL e always :
    Inv s -> ValInvB s -> Tplain s -> par_plan_clean s q = true -> rejected e = false ->
    X (EngineLocal.passStart s) [] ->
    parLoop (passFuel (EngineLocal.passStart s)) q (EngineLocal.passStart s) [] = Ok (sL, e, always) ->
    Tplain sL /\ PInv sL /\ LInvP sL [] /\ AW sL always /\ X sL [] /\ stabNum sL = stabNum s /\ CF s sL /\
    ((e = None /\ Heap.ids (heap sL) = []) \/ (exists x k, inPlan q x k /\ e = Some (faultErr x k) /\ inHeap sL x = true)).
  Proof.
    intros IV V TP Hcl Hrej HX1 EL. set (s1 := EngineLocal.passStart s) in *.
    pose proof (LInvP_start s IV V) as L1. change (PassProofs.passStart s) with s1 in L1.
    pose proof (Inv_PInv_start s IV) as P1. change (PInv s1) in P1.
    pose proof (Tplain_binds s s1 eq_refl TP) as TP1.
    assert (Hnd0 : forall y, isDone s1 y = false).
    { intros y. unfold isDone. apply Z.eqb_neq. pose proof (stamps_node_true _ _ (vb_stamps _ V y)).
      change (recomputedAt (nd s y) <> stabNum s). lia. }
    assert (HA1 : AW s1 []) by (intros y _ Hd _; rewrite Hnd0 in Hd; discriminate).
    assert (Hn1 : ndq q s1) by (intros y _ _; apply Hnd0).
    destruct (loopQ q Hq X HXskip HXstep HXfault HXstart _ s1 [] sL e always TP1 P1 L1 HA1 (par_clean_okq s q Hcl) Hn1 HX1 EL)
      as [Rj|(TPL & PL & LL & HAL & HXL & HkL & CL & He)].
    { exfalso. destruct Rj as [-> | ->]; discriminate Hrej. }
    split; [exact TPL|]. split; [exact PL|]. split; [exact LL|]. split; [exact HAL|]. split; [exact HXL|].
    split; [exact HkL|]. split; [apply (CF_trans s s1 sL); [apply CF_binds; reflexivity|exact CL]|exact He].
  Qed.
End ParMultiPass.

Definition XT : state -> list nid -> Prop := fun _ _ => True.

(** C07 for the parallel pass under any plan of faults *)
Theorem parQ_fault s q s' e :
  nowrites q -> Inv s -> ValInvB s -> Tplain s -> plan_ok s q = true -> par_plan_clean s q = true ->
  parStabilize q s = Ok (s', e) -> rejected e = false ->
  Inv s' /\ ValInvB s' /\ Tplain s' /\ CF s s' /\
  ((e = None /\ consistent s' = true) \/ (exists x k, inPlan q x k /\ e = Some (faultErr x k) /\ inHeap s' x = true)).
Proof.
  intros Hq IV V TP Hpok Hcl H Hrej. pose proof (Inv_wfb s IV) as Hwf.
  destruct (wfb_transients _ Hwf) as (Hst & Hsd & Hsr & Hh).
  assert (IV' : Inv s').
  { apply (Inv_step_parstabilize s (ParStabilize q) s' e IV); try reflexivity; [exact Hpok|exact Hcl|exact H| |];
      intros ->; discriminate Hrej. }
  destruct (parStabilize_decompose q s s' e Hst H) as (sL & always & s2 & EL & ER & EE).
  destruct (passLoopQ q Hq XT ltac:(intros; exact Logic.I) ltac:(intros; exact Logic.I) ltac:(intros; exact Logic.I)
              ltac:(intros; exact Logic.I) s sL e always IV V TP Hcl Hrej Logic.I EL)
    as (TPL & PL & LL & HAL & _ & HkL & CL & He).
  destruct (PInv_heap sL PL) as [IL HqLh].
  unfold requeueAlwaysPar in ER. rewrite requeuePar_eq in ER.
  pose proof (requeue_only_heap _ _ _ ER) as OR.
  destruct (requeue_mem always sL s2 IL ER) as (IR & MR & AR).
  destruct (stabilizeEnd_quiet s2 _ s' ltac:(rewrite (oh_setDuring _ _ OR); exact (proj1 (lp_quiet _ _ LL)))
              ltac:(rewrite (oh_setRemoved _ _ OR); exact (proj2 (lp_quiet _ _ LL))) EE)
    as (En & Eh & Eb & Ex & Ek & _).
  assert (Hn : nodes s' = nodes sL) by (rewrite En; apply (oh_nodes _ _ OR)).
  assert (Hb : binds s' = binds sL) by (rewrite Eb; apply (oh_binds _ _ OR)).
  assert (Hnx : next s' = next sL) by (rewrite Ex; apply (oh_next _ _ OR)).
  assert (Hq' : forall y, y ∈ Heap.ids (heap s2) -> inHeap s' y = true).
  { intros y Hy. unfold inHeap. rewrite Eh. apply (inHeap_iff0 s2 y IR), Hy. }
  assert (V' : ValInvB s').
  { apply (finish_ValInvB_P sL always s' PL LL HAL Hn Hb Hnx).
    - rewrite Ek, (oh_stabNum _ _ OR). reflexivity.
    - intros y Hy. apply Hq', MR, (inHeap_iff0 sL y IL), Hy.
    - intros y Hy Hg. apply Hq', AR; [exact Hy|]. pose proof (st_hnonneg _ (PInv_Struct sL PL) y Hg). unfold unset. lia. }
  split; [exact IV'|]. split; [exact V'|]. split; [apply (Tplain_binds sL s' Hb TPL)|].
  split; [apply (CF_trans s sL s' CL); apply CF_binds, Hb|].
  destruct He as [[-> Hemp]|(x & k & Hin & -> & HqL)].
  - left. split; [reflexivity|]. exact (endC_consistent sL PL (LInvC_of_LInvP sL IL Hemp LL) Hemp s' Hn Hb Hnx).
  - right. exists x, k. split; [exact Hin|]. split; [reflexivity|]. apply Hq', MR, (inHeap_iff0 sL x IL), HqL.
Qed.

(** var writes and any number of faults in one plan *)
Theorem parA_any s p s' e :
  Inv s -> ValInvB s -> Tplain s -> plan_ok s p = true -> par_plan_clean s p = true ->
  parStabilize p s = Ok (s', e) -> rejected e = false ->
  Inv s' /\ ValInvB s' /\ Tplain s' /\ CF s s' /\
  (e = None \/ exists x k, inPlan p x k /\ e = Some (faultErr x k) /\ inHeap s' x = true) /\
  exists t', parStabilize (fo p) s = Ok (t', e) /\ log s' = log t' /\ (forall m, vps (nd t' m) (nd s' m)) /\
    (e = None -> consistent t' = true).
Proof.
  intros IV V TP Hpok Hcl H Hrej.
  pose proof (par_plan_clean_fo s p Hcl) as Hclf. pose proof (plan_ok_fo s p Hpok) as Hpokf.
  destruct (par_mixed_bb s p s' e IV V TP Hpok Hcl H Hrej) as (t' & H0 & K).
  { intros tL al ET.
    destruct (passLoopQ (fo p) (nowrites_fo p) XT ltac:(intros; exact Logic.I) ltac:(intros; exact Logic.I) ltac:(intros; exact Logic.I)
                ltac:(intros; exact Logic.I) s tL e al IV V TP Hclf Hrej Logic.I ET) as (_ & _ & LL & _).
    exact (lp_quiet _ _ LL). }
  destruct (parQ_fault s (fo p) t' e (nowrites_fo p) IV V TP Hpokf Hclf H0 Hrej) as (_ & Vt & Tt & Ct & He).
  destruct (K Vt Tt Ct) as (A & B & C & D & E & F & G).
  split; [exact A|]. split; [exact B|]. split; [exact C|]. split; [exact D|].
  split.
  { destruct He as [[-> _]|(x & k & (w & Hin) & -> & Hqx)]; [left; reflexivity|right].
    exists x, k. split; [exists w; unfold fo in Hin; apply elem_of_list_In, filter_In in Hin as [Hin _]; apply elem_of_list_In, Hin|].
    split; [reflexivity|apply E, Hqx]. }
  exists t'. split; [exact H0|]. split; [exact G|]. split; [exact F|].
  intros ->. destruct He as [[_ Hc]|(x & k & _ & ? & _)]; [exact Hc|discriminate].
Qed.

Theorem parA_retry s p s' e s'' :
  Inv s -> ValInvB s -> Tplain s -> templates_ok s = true -> plan_ok s p = true -> par_plan_clean s p = true ->
  parStabilize p s = Ok (s', e) -> rejected e = false ->
  (stabilize [] false s' = Ok (s'', None) \/ parStabilize [] s' = Ok (s'', None)) ->
  consistent s'' = true /\ observers_agree s'' = true /\ Inv s'' /\ ValInvB s'' /\ Tplain s''.
Proof.
  intros IV V TP Ht Hpok Hcl H Hrej H2.
  destruct (parA_any s p s' e IV V TP Hpok Hcl H Hrej) as (I1 & V1 & T1 & C1 & _).
  pose proof (templates_ok_CF s s' C1 Ht) as Ht1.
  destruct H2 as [H2|H2].
  - destruct (passS_ValInvB s' s'' I1 V1 T1 H2) as (V2 & T2 & C2).
    destruct (passS_observers_agree s' s'' I1 V1 T1 H2 (templates_ok_CF s' s'' C2 Ht1)) as (A & B & C & _). auto.
  - destruct (parS_consistent s' s'' I1 V1 T1 H2) as (A & I2 & _ & _ & V2 & T2 & C2).
    destruct (parS_agree s' s'' I1 V1 T1 H2 (templates_ok_CF s' s'' C2 Ht1)) as (_ & B & _ & _). auto.
Qed.

(** * 4. Histories over the whole alphabet: every plan under either stabilizer *)
Definition isAnyPass (o : op) : bool :=
  match o with Stabilize _ | ParStabilize _ => true | _ => false end.

Fixpoint histA_run (s : state) (os : list op) : option state :=
  match os with
  | [] => Some s
  | o :: os =>
    if histP_op o && parity_op o && op_ok s o && op_clean s o then
      match step s o with
      | Ok (s', None) => histA_run s' os
      | _ => None
      end
    else if isAnyPass o && op_ok s o && op_clean s o then
      match step s o with
      | Ok (s', e) => if rejected e then None else histA_run s' os
      | _ => None
      end
    else None
  end.

Lemma stepA_inv s o s' e :
  Inv s -> ValInvB s -> Tplain s -> templates_ok s = true -> isAnyPass o = true -> op_ok s o = true ->
  op_clean s o = true -> step s o = Ok (s', e) -> rejected e = false ->
  Inv s' /\ ValInvB s' /\ Tplain s' /\ templates_ok s' = true.
Proof.
  intros IV V TP Ht Ho Hok Hcl H Hr. destruct o; try discriminate Ho; simpl in Ho, H, Hok, Hcl.
  - exact (stepN_inv s (Stabilize p) s' e IV V TP Ht eq_refl Hok H Hr).
  - destruct (parA_any s p s' e IV V TP Hok Hcl H Hr) as (A & B & C & D & _).
    split; [exact A|]. split; [exact B|]. split; [exact C|apply (templates_ok_CF s s' D Ht)].
Qed.

Lemma histA_inv os : forall s0 s,
  Inv s0 -> ValInvB s0 -> Tplain s0 -> templates_ok s0 = true -> histA_run s0 os = Some s ->
  Inv s /\ ValInvB s /\ Tplain s /\ templates_ok s = true.
Proof.
  induction os as [|o os IH]; intros s0 s IV V TP Ht H; simpl in H; [injection H as <-; auto|].
  destruct (histP_op o && parity_op o && op_ok s0 o && op_clean s0 o) eqn:Eo.
  - rewrite !andb_true_iff in Eo. destruct Eo as [[[Ho Hpo] Hok] Hcl].
    destruct (step s0 o) as [[s1 [e|]]| |] eqn:Es; try discriminate.
    destruct (stepP_inv s0 o s1 IV V TP Ho Hok Hcl Es) as (I1 & V1 & T1).
    apply (IH s1 s I1 V1 T1 (stepP_templates s0 o s1 IV V TP Ho Hpo Es Ht) H).
  - destruct (isAnyPass o && op_ok s0 o && op_clean s0 o) eqn:Ef; [|discriminate].
    rewrite !andb_true_iff in Ef. destruct Ef as [[Ef Hok] Hcl].
    destruct (step s0 o) as [[s1 e]| |] eqn:Es; try discriminate.
    destruct (rejected e) eqn:Er; [discriminate|].
    destruct (stepA_inv s0 o s1 e IV V TP Ht Ef Hok Hcl Es Er) as (I1 & V1 & T1 & Ht1). apply (IH s1 s I1 V1 T1 Ht1 H).
Qed.

Lemma histA_split os1 : forall s0 o os2 sf,
  histA_run s0 (os1 ++ o :: os2) = Some sf ->
  exists s1, histA_run s0 os1 = Some s1 /\ histA_run s1 (o :: os2) = Some sf.
Proof.
  induction os1 as [|a os1 IH]; intros s0 o os2 sf H; [exists s0; auto|].
  simpl in H |- *.
  destruct (histP_op a && parity_op a && op_ok s0 a && op_clean s0 a).
  - destruct (step s0 a) as [[s1 [e|]]| |]; try discriminate. apply (IH s1 o os2 sf H).
  - destruct (isAnyPass a && op_ok s0 a && op_clean s0 a); [|discriminate].
    destruct (step s0 a) as [[s1 e]| |]; try discriminate. destruct (rejected e); [discriminate|].
    apply (IH s1 o os2 sf H).
Qed.

(* the earlier alphabet (one fault per parallel plan) is included *)
Lemma isPlanPass_any o : isPlanPass o = true -> isAnyPass o = true.
Proof. destruct o; try discriminate; reflexivity. Qed.

Lemma histE_histA os : forall s0 s, histE_run s0 os = Some s -> histA_run s0 os = Some s.
Proof.
  induction os as [|o os IH]; intros s0 s H; simpl in *; [exact H|].
  destruct (histP_op o && parity_op o && op_ok s0 o && op_clean s0 o).
  - destruct (step s0 o) as [[s1 [e|]]| |]; try discriminate. apply IH, H.
  - destruct (isPlanPass o) eqn:Ep; [|discriminate H]. rewrite (isPlanPass_any o Ep).
    cbn [andb] in *. destruct (op_ok s0 o && op_clean s0 o); [|discriminate].
    destruct (step s0 o) as [[s1 e]| |]; try discriminate. destruct (rejected e); [discriminate|]. apply IH, H.
Qed.

Theorem histA_everything mh os1 o os2 sf :
  (0 < mh)%nat -> histA_run (init mh) (os1 ++ o :: os2) = Some sf ->
  o = Stabilize [] \/ o = ParStabilize [] ->
  exists s1 s2, histA_run (init mh) os1 = Some s1 /\ step s1 o = Ok (s2, None) /\
    consistent s2 = true /\ observers_agree s2 = true /\ Inv s2 /\ ValInvB s2 /\ Tplain s2.
Proof.
  intros Hmh H Ho. destruct (histA_split os1 (init mh) _ os2 sf H) as (s1 & H1 & H2).
  assert (TP0 : Tplain (init mh)) by (intros b r Hr; inversion Hr).
  destruct (histA_inv os1 (init mh) s1 (Inv_init mh Hmh) (ValInvB_init mh) TP0 eq_refl H1) as (I1 & V1 & T1 & Ht1).
  destruct Ho as [-> | ->]; simpl in H2.
  - destruct (stabilize [] false s1) as [[s2 [e|]]| |] eqn:Es; try discriminate.
    exists s1, s2. split; [exact H1|]. split; [exact Es|].
    destruct (passS_ValInvB s1 s2 I1 V1 T1 Es) as (V2 & T2 & C2).
    destruct (passS_observers_agree s1 s2 I1 V1 T1 Es (templates_ok_CF s1 s2 C2 Ht1)) as (A & B & C & _).
    auto 10.
  - destruct (parStabilize [] s1) as [[s2 [e|]]| |] eqn:Es; try discriminate.
    exists s1, s2. split; [exact H1|]. split; [exact Es|].
    destruct (parS_consistent s1 s2 I1 V1 T1 Es) as (Hc & I2 & _ & _ & V2 & T2 & C2).
    destruct (parS_agree s1 s2 I1 V1 T1 Es (templates_ok_CF s1 s2 C2 Ht1)) as (_ & B & _ & _).
    auto 10.
Qed.

(** * 5. Non-vacuity: two nodes of one height block fault in one parallel pass *)
Definition exA_plan : plan :=
  [(2%nat, WFn, AFail FErr); (3%nat, WFn, ASet 1%nat 9); (3%nat, WFn, AFail FPanic); (6%nat, WFn, AFail FErr)].
Definition exA_ops : list op :=
  [ NewVar 2 false; NewVar 3 false;
    NewMap (Aff 1 1) 0%nat;                                     (* 2 *)
    NewMap (Aff 2 0) 1%nat;                                     (* 3 *)
    NewBind [TMap (Aff 1 1) (TOuter 1%nat); TRet 5] 0%nat;      (* lhs-change 4, main 5 *)
    NewMap2 (Lin2 1 1 0) 2%nat 3%nat;                           (* 6 *)
    Observe 5%nat; Observe 6%nat;
    ParStabilize [];
    SetVar 0%nat 3; SetVar 1%nat 4;
    ParStabilize exA_plan;      (* block of height 1: the bind 4 swaps, node 2 fails, node 3 writes var 1 and panics *)
    ParStabilize [] ].

Lemma exA_runs :
  match histA_run (init 64) exA_ops with Some s => consistent s && observers_agree s | None => false end = true.
Proof. vm_compute. reflexivity. Qed.

Lemma exA_results :
  match histA_run (init 64) (take 11 exA_ops) with
  | Some s =>
    op_ok s (ParStabilize exA_plan) && op_clean s (ParStabilize exA_plan) &&
    match parStabilize exA_plan s with
    | Ok (s1, Some (EUser 2%nat)) =>
      bool_decide (take 13 (log s1) =
        [EvUpd 4; EvUpd 1; EvUpd 0; EvPassEnd XUser; EvErrH 3; EvFault 3 WFn FPanic; EvErrH 2; EvFault 2 WFn FErr;
         EvInval 9; EvUnnec 9; EvNec 10; EvBindFn 4 3 (Some 10%nat); EvPassStart]) &&
      inHeap s1 2%nat && inHeap s1 3%nat && (recomputedAt (nd s1 3%nat) =? 0) && (value (nd s1 1%nat) =? 9) &&
      negb (inHeap s1 6%nat) && negb (recomputedAt (nd s1 6%nat) =? stabNum s)
    | _ => false
    end
  | None => false
  end = true.
Proof. vm_compute. reflexivity. Qed.
