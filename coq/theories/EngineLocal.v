(** Function-level facts about the engine model (properties C03, C07, C08, C11, C12, C13):
    statements that hold for EVERY state (or every state satisfying an explicit hypothesis),
    proved by unfolding / induction on the functions of Engine.v.  The whole-history theorems
    are built on these elsewhere.  Property statements are restated in Properties/Cxx.v. *)
From incr Require Import Base Heap HeapSpec HeapProofs EngineDefs Engine EngineWf.

(** * 0. Basics: results, node access *)

Lemma ebind_cases (m : M) (k : state -> M) s' e :
  ebind m k = Ok (s', e) ->
  exists s1 e1, m = Ok (s1, e1) /\
    ((exists x, e1 = Some x /\ s' = s1 /\ e = e1) \/ (e1 = None /\ k s1 = Ok (s', e))).
Proof.
  unfold ebind. intros H. apply rbind_ok in H as ([s1 e1] & Hm & H).
  exists s1, e1. split; [exact Hm|]. destruct e1 as [x|].
  - left. injection H as <- <-. eauto.
  - right. auto.
Qed.

Lemma lift_cases (m : res state) s' e : lift m = Ok (s', e) -> m = Ok s' /\ e = None.
Proof.
  unfold lift, ok. intros H. apply rbind_ok in H as (s1 & Hm & H). injection H as <- <-. auto.
Qed.

Lemma nd_upd_if s n f m :
  nd (upd s n f) m =
  if decide (m = n) then (if nodes s !! n then f (nd s n) else dummy) else nd s m.
Proof.
  unfold nd, upd. cbn. destruct (decide (m = n)) as [->|Hne].
  - rewrite lookup_alter. destruct (nodes s !! n); reflexivity.
  - rewrite lookup_alter_ne by congruence. reflexivity.
Qed.

Lemma nd_upd_same s n f : is_Some (nodes s !! n) -> nd (upd s n f) n = f (nd s n).
Proof. intros [x Hx]. rewrite nd_upd_if, decide_True by reflexivity. rewrite Hx. reflexivity. Qed.

Lemma nd_upd_other s n f m : m <> n -> nd (upd s n f) m = nd s m.
Proof. intros H. rewrite nd_upd_if, decide_False by exact H. reflexivity. Qed.

(* a projection the update does not touch *)
Lemma nd_upd_keep {A} (g : node -> A) s n f m :
  (forall x, g (f x) = g x) -> g (nd (upd s n f) m) = g (nd s m).
Proof.
  intros Hg. rewrite nd_upd_if. destruct (decide (m = n)) as [->|]; [|reflexivity].
  unfold nd. destruct (nodes s !! n); cbn; [apply Hg|reflexivity].
Qed.

Lemma nodes_upd_if s n f m : nodes (upd s n f) !! m = (if decide (m = n) then f <$> nodes s !! m else nodes s !! m).
Proof.
  unfold upd. cbn. destruct (decide (m = n)) as [->|Hne].
  - apply lookup_alter.
  - apply lookup_alter_ne. congruence.
Qed.

Lemma some_upd s n f m : is_Some (nodes (upd s n f) !! m) <-> is_Some (nodes s !! m).
Proof.
  rewrite nodes_upd_if. destruct (decide (m = n)); [|reflexivity]. rewrite fmap_is_Some. reflexivity.
Qed.

Lemma nd_some_kind s n : nkind (nd s n) <> KReturn -> is_Some (nodes s !! n).
Proof. unfold nd. destruct (nodes s !! n); cbn; [eauto|congruence]. Qed.

Lemma isVar_spec s v : isVar s v = true <-> exists e, nkind (nd s v) = KVar e.
Proof.
  unfold isVar, nd. destruct (nodes s !! v) as [x|]; cbn.
  - destruct (nkind x); split; intros H; try discriminate; eauto; destruct H; discriminate.
  - split; [discriminate|intros [? ?]; discriminate].
Qed.

Lemma isVar_some s v : isVar s v = true -> is_Some (nodes s !! v).
Proof. unfold isVar. destruct (nodes s !! v); [eauto|discriminate]. Qed.

(* heap membership straight from the definitions: no invariant needed *)
Lemma mem_add w n h w' m : Heap.add w n h = Ok w' -> Heap.mem w' m = (bool_decide (m = n) || Heap.mem w m).
Proof.
  unfold Heap.add. destruct (Z.ltb_spec h 0); [discriminate|].
  destruct (if Heap.cnt w =? 0 then _ else _) as [mn mx]. intros [= <-].
  unfold Heap.mem, Heap.hinOf. cbn. destruct (decide (m = n)) as [->|Hne].
  - rewrite lookup_insert. cbn. rewrite (bool_decide_eq_true_2 (n = n)) by reflexivity.
    cbn. apply bool_decide_eq_true_2. unfold unset. lia.
  - rewrite lookup_insert_ne by congruence. rewrite (bool_decide_eq_false_2 (m = n)) by exact Hne.
    reflexivity.
Qed.

Lemma mem_remove w n w' m : Heap.remove w n = Ok w' -> Heap.mem w' m = (negb (bool_decide (m = n)) && Heap.mem w m).
Proof.
  unfold Heap.remove. destruct (Heap.hinOf w n <? 0); [discriminate|].
  destruct (Heap.buckets w !! _); [|discriminate].
  destruct (bool_decide _); [|discriminate]. intros [= <-].
  unfold Heap.mem, Heap.hinOf. cbn. destruct (decide (m = n)) as [->|Hne].
  - rewrite lookup_delete. cbn. rewrite (bool_decide_eq_true_2 (n = n)) by reflexivity.
    apply bool_decide_eq_false_2. auto.
  - rewrite lookup_delete_ne by congruence. rewrite (bool_decide_eq_false_2 (m = n)) by exact Hne.
    reflexivity.
Qed.

Lemma add_ok_nonneg w n h w' : Heap.add w n h = Ok w' -> 0 <= h.
Proof. unfold Heap.add. destruct (Z.ltb_spec h 0); [discriminate|auto]. Qed.

(** * 1. A generic frame theorem for everything a pass can call.

    [R] is any preorder on states that tolerates the primitive mutations of the engine; the
    section shows that every function reachable from [passLoop] / [parLoop] relates its input
    state to its output state.  Instances below: the log/status frame [pframe]. *)
Definition passEv (e : event) : Prop :=
  match e with EvUpd _ | EvObsUpd _ _ | EvPassStart | EvPassEnd _ => False | _ => True end.

Section Frame.
  Variable R : state -> state -> Prop.
  Hypothesis R_refl : forall s, R s s.
  Hypothesis R_trans : forall s1 s2 s3, R s1 s2 -> R s2 s3 -> R s1 s3.
  (* node updates never touch the kind or the scope of a node *)
  Hypothesis R_upd : forall s n f,
    (forall x, nkind (f x) = nkind x) -> (forall x, scope (f x) = scope x) -> R s (upd s n f).
  Hypothesis R_updb : forall s b f, R s (updb s b f).
  Hypothesis R_emit : forall s e, passEv e -> R s (emit e s).
  Hypothesis R_heap : forall s w, R s (s <| heap := w |>).
  Hypothesis R_adj : forall s w, R s (s <| adj := w |>).
  Hypothesis R_invq : forall s w, R s (s <| invq := w |>).
  Hypothesis R_numNodes : forall s w, R s (s <| numNodes := w |>).
  Hypothesis R_reg : forall s w, R s (s <| reg := w |>).
  Hypothesis R_handlers : forall s w, R s (s <| handlers := w |>).
  Hypothesis R_setRemoved : forall s w, R s (s <| setRemoved := w |>).
  Hypothesis R_setDuring : forall s w, R s (s <| setDuring := w |>).
  (* creation: a fresh record at [next s], the counter advances *)
  Hypothesis R_newNode : forall s x, R s (s <| nodes := <[next s := x]> (nodes s) |> <| next := S (next s) |>).
  Hypothesis R_newBindrec : forall s r, R s (s <| binds := <[next s := r]> (binds s) |>).

  Ltac side := intros []; reflexivity.
  Ltac rs :=
    lazymatch goal with
    | |- R ?s ?s => apply R_refl
    | H : R ?s ?t |- R ?s ?t => exact H
    | |- R ?s (upd ?t _ _) => apply (R_trans s t); [rs|apply R_upd; side]
    | |- R ?s (updb ?t _ _) => apply (R_trans s t); [rs|apply R_updb]
    | |- R ?s (emit _ ?t) => apply (R_trans s t); [rs|apply R_emit; exact I]
    | |- R ?s (set heap _ ?t) => apply (R_trans s t); [rs|apply R_heap]
    | |- R ?s (set adj _ ?t) => apply (R_trans s t); [rs|apply R_adj]
    | |- R ?s (set invq _ ?t) => apply (R_trans s t); [rs|apply R_invq]
    | |- R ?s (set numNodes _ ?t) => apply (R_trans s t); [rs|apply R_numNodes]
    | |- R ?s (set reg _ ?t) => apply (R_trans s t); [rs|apply R_reg]
    | |- R ?s (set handlers _ ?t) => apply (R_trans s t); [rs|apply R_handlers]
    | |- R ?s (set setRemoved _ ?t) => apply (R_trans s t); [rs|apply R_setRemoved]
    | |- R ?s (set setDuring _ ?t) => apply (R_trans s t); [rs|apply R_setDuring]
    | |- R ?s (if ?c then _ else _) => destruct c; rs
    | |- R ?s (insert_handler _ ?t) => unfold insert_handler; rs
    | |- R ?s ?t =>
      match goal with
      | H : R ?u t |- _ => apply (R_trans s u); [clear H; rs|exact H]
      end
    end.

  Lemma fr_rfold {A} (f : state -> A -> res state) l :
    (forall s a s', f s a = Ok s' -> R s s') ->
    forall s s', rfold f l s = Ok s' -> R s s'.
  Proof.
    intros Hf. induction l as [|a l IH]; intros s s' H; cbn in H.
    - injection H as <-. apply R_refl.
    - apply rbind_ok in H as (s1 & H1 & H). eapply R_trans; [eapply Hf, H1|eapply IH, H].
  Qed.

  Lemma fr_efold {A} (f : state -> A -> M) l :
    (forall s a s' e, f s a = Ok (s', e) -> R s s') ->
    forall s s' e, efold f l s = Ok (s', e) -> R s s'.
  Proof.
    intros Hf. induction l as [|a l IH]; intros s s' e H; cbn in H.
    - injection H as <- <-. apply R_refl.
    - apply ebind_cases in H as (s1 & e1 & H1 & [(x & -> & -> & ->)|(-> & H)]).
      + eapply Hf, H1.
      + eapply R_trans; [eapply Hf, H1|eapply IH, H].
  Qed.

  Lemma fr_heapAdd s n s' : heapAdd s n = Ok s' -> R s s'.
  Proof. unfold heapAdd. intros H. apply rbind_ok in H as (w & _ & [= <-]). rs. Qed.

  Lemma fr_heapAddIfNotPresent s n s' : heapAddIfNotPresent s n = Ok s' -> R s s'.
  Proof.
    unfold heapAddIfNotPresent. destruct (inHeap s n); [intros [= <-]; rs|apply fr_heapAdd].
  Qed.

  Lemma fr_heapRemove s n s' : heapRemove s n = Ok s' -> R s s'.
  Proof. unfold heapRemove. intros H. apply rbind_ok in H as (w & _ & [= <-]). rs. Qed.

  Lemma fr_heapFix s n s' : heapFix s n = Ok s' -> R s s'.
  Proof. unfold heapFix. intros H. apply rbind_ok in H as (w & _ & [= <-]). rs. Qed.

  Lemma fr_setHeight s n h s' e : setHeight s n h = Ok (s', e) -> R s s'.
  Proof.
    unfold setHeight, fail, ok. destruct (h >? maxHeight s - 1); [intros [= <- <-]; rs|].
    destruct (h >? a_maxSeen (adj s)); intros [= <- <-]; rs.
  Qed.

  Lemma fr_setStale s n s' : setStale s n = Ok s' -> R s s'.
  Proof.
    unfold setStale. destruct (height (nd s n) =? unset); [intros [= <-]; rs|].
    destruct (inHeap _ n); [intros [= <-]; rs|]. intros H%fr_heapAdd. rs.
  Qed.

  Lemma fr_link s c p : R s (link s c p).
  Proof. unfold link. rs. Qed.

  Lemma fr_unlink s c p : R s (unlink s c p).
  Proof. unfold unlink. rs. Qed.

  Lemma fr_addNode s n : R s (addNode s n).
  Proof. unfold addNode. destruct (inGraph (nd s n)); rs. Qed.

  Lemma fr_zeroNode s n s' : zeroNode s n = Ok s' -> R s s'.
  Proof.
    unfold zeroNode. intros H. apply rbind_ok in H as (s1 & H1 & [= <-]).
    assert (RR1 : R s s1) by (destruct (inHeap s n); [eapply fr_heapRemove, H1|injection H1 as <-; rs]).
    rs.
  Qed.

  Lemma fr_removeNode s n s' : removeNode s n = Ok s' -> R s s'.
  Proof.
    unfold removeNode. intros H%fr_zeroNode. destruct (inGraph (nd s n)); rs.
  Qed.

  Lemma fr_removeParents fuel : forall s c s', removeParents fuel s c = Ok s' -> R s s'.
  Proof.
    induction fuel as [|fuel IH]; intros s c s' H; [discriminate|]. cbn [removeParents] in H.
    revert H. apply fr_rfold. clear s s'. intros s p s' H.
    pose proof (fr_unlink s c p) as Hu.
    destruct (isNecessary _); [injection H as <-; rs|].
    destruct (negb _); [injection H as <-; rs|].
    apply rbind_ok in H as (s1 & H1%IH & H%fr_removeNode). rs.
  Qed.

  Lemma fr_checkIfUnnecessary fuel s p s' : checkIfUnnecessary fuel s p = Ok s' -> R s s'.
  Proof.
    unfold checkIfUnnecessary. destruct (isNecessary _); [intros [= <-]; rs|].
    destruct (negb _); [intros [= <-]; rs|]. intros H.
    apply rbind_ok in H as (s1 & H1%fr_removeParents & H%fr_removeNode). rs.
  Qed.

  Lemma fr_invalidateNode fuel : forall s n s', invalidateNode fuel s n = Ok s' -> R s s'.
  Proof.
    induction fuel as [|fuel IH]; intros s n s' H; [discriminate|]. cbn [invalidateNode] in H.
    destruct (negb (valid (nd s n))); [injection H as <-; rs|].
    apply rbind_ok in H as (s1 & H1 & H). apply rbind_ok in H as (s2 & H2 & H).
    set (s0 := upd (emit (EvInval n) s) n _) in *.
    assert (R0 : R s s0) by (unfold s0; rs).
    assert (R1 : R s0 s1).
    { destruct (isNecessary _); [|injection H1 as <-; rs].
      apply rbind_ok in H1 as (s3 & H3%fr_removeParents & [= <-]). rs. }
    assert (R2 : R s1 s2).
    { destruct (nkind (nd s1 n)); try (injection H2 as <-; rs).
      revert H2. apply fr_rfold. intros ? ? ?. apply IH. }
    assert (RR2 : R s s2) by (eapply R_trans; [eapply R_trans|]; eassumption).
    destruct (inHeap _ n); [apply fr_heapRemove in H|injection H as <-]; rs.
  Qed.

  Lemma fr_propagateInvalidity fuel : forall s s', propagateInvalidity fuel s = Ok s' -> R s s'.
  Proof.
    induction fuel as [|fuel IH]; intros s s' H; [discriminate|]. cbn [propagateInvalidity] in H.
    destruct (invq s) as [|n q]; [injection H as <-; rs|].
    apply rbind_ok in H as (s1 & H1 & H%IH).
    assert (RR3 : R s s1); [|rs].
    destruct (valid _); [|injection H1 as <-; rs].
    destruct (shouldBeInvalidated _ _); [apply fr_invalidateNode in H1|apply fr_heapAddIfNotPresent in H1]; rs.
  Qed.

  Lemma fr_becameNecessaryRecursive fuel : forall s n s' e,
    becameNecessaryRecursive fuel s n = Ok (s', e) -> R s s'.
  Proof.
    induction fuel as [|fuel IH]; intros s n s' e H; [discriminate|].
    cbn [becameNecessaryRecursive] in H.
    set (s0 := if inGraph (nd s n) then addNode s n else emit (EvNec n) (addNode s n)) in *.
    assert (R0 : R s s0).
    { pose proof (fr_addNode s n). unfold s0. destruct (inGraph (nd s n)); rs. }
    apply ebind_cases in H as (s1 & e1 & H1%fr_setHeight & [(x & -> & -> & ->)|(-> & H)]); [rs|].
    apply ebind_cases in H as (s2 & e2 & H2 & H).
    assert (R12 : R s1 s2).
    { revert H2. apply fr_efold. intros t p t' e' G.
      pose proof (fr_link t n p) as Hl.
      set (t0 := if valid (nd (link t n p) p) then link t n p else _) in *.
      assert (RR4 : R t t0) by (unfold t0; destruct (valid _); rs).
      apply ebind_cases in G as (t1 & e1 & G1 & [(x & -> & -> & ->)|(-> & G)]).
      - destruct (isNecessary _); [injection G1 as <- ?|apply IH in G1]; rs.
      - assert (RR5 : R t0 t1) by (destruct (isNecessary _); [injection G1 as <-; rs|apply IH in G1; rs]).
        destruct (_ >=? _); [apply fr_setHeight in G|injection G as <- <-]; rs. }
    destruct H as [(x & -> & -> & ->)|(-> & H)]; [rs|].
    destruct (isStale _ _); [apply lift_cases in H as [H%fr_heapAddIfNotPresent _]|injection H as <- <-]; rs.
  Qed.

  Lemma fr_addChildWithoutAdjustingHeights fuel s c p s' e :
    addChildWithoutAdjustingHeights fuel s c p = Ok (s', e) -> R s s'.
  Proof.
    unfold addChildWithoutAdjustingHeights. intros H.
    pose proof (fr_link s c p) as Hl.
    destruct (isNecessary _); [injection H as <- <-|apply fr_becameNecessaryRecursive in H];
      destruct (valid _); rs.
  Qed.

  Lemma fr_adjAdd s n s' : adjAdd s n = Ok s' -> R s s'.
  Proof.
    unfold adjAdd. destruct (negb _); [intros [= <-]; rs|].
    destruct (_ <? 0); [discriminate|]. destruct (_ !! _); [|discriminate]. intros [= <-]. rs.
  Qed.

  Lemma fr_ensureHeightRequirement s o c p s' e :
    ensureHeightRequirement s o c p = Ok (s', e) -> R s s'.
  Proof.
    unfold ensureHeightRequirement, fail, ok. destruct (bool_decide _); [intros [= <- <-]; rs|].
    destruct (_ >=? _); [|intros [= <- <-]; rs]. intros H.
    apply ebind_cases in H as (s1 & e1 & [H1%fr_adjAdd ->]%lift_cases & [(x & [=] & _)|(_ & H%fr_setHeight)]).
    rs.
  Qed.

  Lemma fr_adjRemoveMin s o s' : adjRemoveMin s = Ok (o, s') -> R s s'.
  Proof.
    unfold adjRemoveMin. destruct (_ =? 0); [intros [= <- <-]; rs|].
    destruct (_ <? 0); [discriminate|]. destruct (adjScan _ _ _) as [[[x n] b']|]; intros [= <- <-]; rs.
  Qed.

  Lemma fr_adjustLoop fuel : forall s o s' e, adjustLoop fuel s o = Ok (s', e) -> R s s'.
  Proof.
    induction fuel as [|fuel IH]; intros s o s' e H; [discriminate|]. cbn [adjustLoop] in H.
    destruct (_ <=? 0); [injection H as <- <-; rs|].
    apply rbind_ok in H as ([popped s1] & H1%fr_adjRemoveMin & H).
    destruct popped as [p|]; [|discriminate].
    apply ebind_cases in H as (s2 & e2 & [H2 ->]%lift_cases & [(x & [=] & _)|(_ & H)]).
    assert (RR6 : R s1 s2) by (destruct (inHeap s1 p); [apply fr_heapFix in H2|injection H2 as <-]; rs).
    apply ebind_cases in H as (s3 & e3 & H3 & H).
    assert (RR7 : R s2 s3).
    { revert H3. apply fr_efold. intros ? ? ? ?. apply fr_ensureHeightRequirement. }
    destruct H as [(x & -> & -> & ->)|(-> & H)]; [rs|].
    apply ebind_cases in H as (s4 & e4 & H4 & H).
    assert (RR8 : R s3 s4).
    { destruct (nkind (nd s3 p)); try (injection H4 as <- <-; rs).
      revert H4. apply fr_efold. intros ? ? ? ?.
      destruct (isNecessary _); [apply fr_ensureHeightRequirement|intros [= <- <-]; rs]. }
    destruct H as [(x & -> & -> & ->)|(-> & H%IH)]; rs.
  Qed.

  Lemma fr_adjustHeights fuel s c p s' e : adjustHeights fuel s c p = Ok (s', e) -> R s s'.
  Proof.
    unfold adjustHeights. intros H.
    apply ebind_cases in H as (s1 & e1 & H1%fr_ensureHeightRequirement & [(x & -> & -> & ->)|(-> & H%fr_adjustLoop)]); rs.
  Qed.

  Lemma fr_addChild fuel s c p s' e : addChild fuel s c p = Ok (s', e) -> R s s'.
  Proof.
    unfold addChild. intros H.
    apply ebind_cases in H as (s1 & e1 & H1%fr_addChildWithoutAdjustingHeights & [(x & -> & -> & ->)|(-> & H)]); [rs|].
    apply ebind_cases in H as (s2 & e2 & H2 & H).
    assert (RR9 : R s1 s2) by (destruct (_ >=? _); [apply fr_adjustHeights in H2|injection H2 as <- <-]; rs).
    destruct H as [(x & -> & -> & ->)|(-> & H)]; [rs|].
    apply ebind_cases in H as (s3 & e3 & [H3%fr_propagateInvalidity ->]%lift_cases & [(x & [=] & _)|(_ & H)]).
    destruct (_ || _); [apply lift_cases in H as [H%fr_heapAddIfNotPresent _]|injection H as <- <-]; rs.
  Qed.

  Lemma fr_changeParent fuel s c o n s' e : changeParent fuel s c o n = Ok (s', e) -> R s s'.
  Proof.
    unfold changeParent. intros H. destruct o as [o|], n as [n|].
    - destruct (bool_decide _); [injection H as <- <-; rs|].
      pose proof (fr_unlink s c o).
      apply ebind_cases in H as (s1 & e1 & H1%fr_addChild & [(x & -> & -> & ->)|(-> & H)]); [rs|].
      apply lift_cases in H as [H%fr_checkIfUnnecessary _]. rs.
    - pose proof (fr_unlink s c o). apply lift_cases in H as [H%fr_checkIfUnnecessary _]. rs.
    - apply fr_addChild in H. rs.
    - injection H as <- <-. rs.
  Qed.

  Lemma fr_newNode s k d sc v : R s (fst (newNode s k d sc v)).
  Proof.
    unfold newNode. pose proof (R_newNode s (fresh_node k d sc v)). destruct sc; cbn [fst]; rs.
  Qed.

  Lemma fr_newBindWith memo s cases a sc : R s (fst (newBindWith memo s cases a sc)).
  Proof.
    unfold newBindWith.
    pose proof (R_newBindrec s (mkBind a (next s) (S (next s)) None [] cases 0%nat memo [])) as H0.
    set (s0 := s <| binds := _ |>) in *.
    pose proof (fr_newNode s0 (KBindLhs (next s)) [a] sc 0) as H1.
    destruct (newNode s0 _ _ _ _) as [s1 n1]. cbn [fst] in H1.
    pose proof (fr_newNode s1 (KBindMain (next s)) [next s] sc 0). rs.
  Qed.

  Lemma fr_inst e : forall s sc x s' r, inst s sc x e = (s', r) -> R s s'.
  Proof.
    induction e as [k| |n|f e IH|f e1 IH1 e2 IH2|c e IH|cases e IH|]; intros s sc x s' r H; cbn [inst] in H.
    - pose proof (fr_newNode s KReturn [] sc k) as Hn. destruct (newNode _ _ _ _ _). injection H as <- <-. exact Hn.
    - pose proof (fr_newNode s KReturn [] sc x) as Hn. destruct (newNode _ _ _ _ _). injection H as <- <-. exact Hn.
    - injection H as <- <-. rs.
    - destruct (inst s sc x e) as [s1 a] eqn:E. apply IH in E.
      pose proof (fr_newNode s1 (KMap f) [default 0%nat a] sc 0) as Hn.
      destruct (newNode _ _ _ _ _). injection H as <- <-. cbn [fst] in Hn. rs.
    - destruct (inst s sc x e1) as [s1 a1] eqn:E1. apply IH1 in E1.
      destruct (inst s1 sc x e2) as [s2 a2] eqn:E2. apply IH2 in E2.
      pose proof (fr_newNode s2 (KMap2 f) [default 0%nat a1; default 0%nat a2] sc 0) as Hn.
      destruct (newNode _ _ _ _ _). injection H as <- <-. cbn [fst] in Hn. rs.
    - destruct (inst s sc x e) as [s1 a] eqn:E. apply IH in E.
      pose proof (fr_newNode s1 (KCutoff c) [default 0%nat a] sc 0) as Hn.
      destruct (newNode _ _ _ _ _). injection H as <- <-. cbn [fst] in Hn. rs.
    - destruct (inst s sc x e) as [s1 a] eqn:E. apply IH in E.
      pose proof (fr_newBindWith false s1 cases (default 0%nat a) sc) as Hn. fold newBind in Hn.
      destruct (newBind _ _ _ _). injection H as <- <-. cbn [fst] in Hn. rs.
    - injection H as <- <-. rs.
  Qed.

  Lemma fr_varSet s v x s' : varSet s v x = Ok s' -> R s s'.
  Proof.
    unfold varSet. destruct (_ && _ && _); [intros [= <-]; rs|].
    destruct (status s =? 1); [intros [= <-]; rs|].
    destruct (isNecessary _); [intros H%fr_setStale|intros [= <-]]; rs.
  Qed.

  Lemma fr_varUpdate s v d s' : varUpdate s v d = Ok s' -> R s s'.
  Proof. apply fr_varSet. Qed.

  Lemma fr_applyActions_gen acts : forall s f s' f',
    rfold (fun '(s, f) a =>
           match f with
           | Some _ => Ok (s, f)
           | None =>
             match a with
             | AFail k => Ok (s, Some k)
             | ASet v x => s <-! varSet s v x; Ok (s, None)
             | AUpdate v d => s <-! varUpdate s v d; Ok (s, None)
             end
           end) acts (s, f) = Ok (s', f') -> R s s'.
  Proof.
    induction acts as [|a acts IH]; intros s f s' f' H; cbn [rfold] in H.
    - injection H as <- <-. rs.
    - apply rbind_ok in H as ([s1 f1] & H1 & H%IH).
      assert (RR10 : R s s1); [|rs].
      destruct f; [injection H1 as <- <-; rs|].
      destruct a; [injection H1 as <- <-; rs| |];
        apply rbind_ok in H1 as (s2 & H2 & [= <- <-]); [apply fr_varSet in H2|apply fr_varUpdate in H2]; rs.
  Qed.

  Lemma fr_applyActions s acts s' f : applyActions s acts = Ok (s', f) -> R s s'.
  Proof. apply fr_applyActions_gen. Qed.

  Lemma fr_invoke p s n w s' e : invoke p s n w = Ok (s', e) -> R s s'.
  Proof.
    unfold invoke. intros H. apply rbind_ok in H as ([s1 f] & H1%fr_applyActions & H).
    destruct f as [[]|]; injection H as <- <-; rs.
  Qed.

  Lemma fr_bindLhsStabilize fuel p s b s' e : bindLhsStabilize fuel p s b = Ok (s', e) -> R s s'.
  Proof.
    unfold bindLhsStabilize. intros H.
    apply rbind_ok in H as ([[s1 e1] built] & H1 & H).
    set (s0 := updb s b _) in *.
    assert (R01 : R s0 s1).
    { destruct (if b_memo (bd s b) then _ else _) as [[? [? root]]|].
      - injection H1 as <- <- <-. rs.
      - apply rbind_ok in H1 as ([s2 e2] & H2%fr_invoke & H1).
        destruct e2; [injection H1 as <- <- <-; rs|].
        destruct (inst s2 _ _ _) as [s3 root] eqn:E. apply fr_inst in E.
        injection H1 as <- <- <-. rs. }
    assert (RR11 : R s s1) by (unfold s0 in R01; rs). clear R01.
    destruct e1; [injection H as <- <-; rs|].
    destruct built as [root|]; [|discriminate].
    apply ebind_cases in H as (s2 & e2 & H2%fr_changeParent & [(x & -> & -> & ->)|(-> & H)]); [rs|].
    apply ebind_cases in H as (s3 & e3 & [H3 ->]%lift_cases & [(x & [=] & _)|(_ & H)]).
    apply lift_cases in H as [H%fr_propagateInvalidity _].
    assert (RR12 : R s2 s3); [|rs].
    destruct (b_rhs (bd s b)); [|injection H3 as <-; rs].
    revert H3. apply fr_rfold. intros ? ? ?. apply fr_invalidateNode.
  Qed.

  Lemma fr_stabilizeNode fuel p s n s' e : stabilizeNode fuel p s n = Ok (s', e) -> R s s'.
  Proof.
    unfold stabilizeNode, ok, fail. intros H. destruct (nkind (nd s n)).
    - destruct (pending _); [destruct (_ =? _)|]; injection H as <- <-; rs.
    - injection H as <- <-; rs.
    - apply rbind_ok in H as ([s1 e1] & H1%fr_invoke & H). destruct e1; injection H as <- <-; rs.
    - apply rbind_ok in H as ([s1 e1] & H1%fr_invoke & H). destruct e1; injection H as <- <-; rs.
    - apply rbind_ok in H as ([s1 e1] & H1%fr_invoke & H). destruct e1; injection H as <- <-; rs.
    - injection H as <- <-; rs.
    - injection H as <- <-; rs.
    - eapply fr_bindLhsStabilize, H.
    - injection H as <- <-; rs.
  Qed.

  Lemma fr_recomputeFailed s n prev s' : recomputeFailed s n prev = Ok s' -> R s s'.
  Proof. unfold recomputeFailed. intros H%fr_heapAddIfNotPresent. rs. Qed.

  Lemma fr_errorHandlers s n : R s (errorHandlers s n).
  Proof. unfold errorHandlers. destruct (nkind _); rs. Qed.

  Lemma fr_childrenLoop_gen l : forall s held s' held',
    rfold (fun '(s, held) c =>
           if bool_decide (held = Some c) then Ok (s, held)
           else if negb (shouldRecomputeChild s c) then Ok (s, held)
           else
             s <-! (match held with Some h => heapAdd s h | None => Ok s end);
             Ok (s, Some c)) l (s, held) = Ok (s', held') -> R s s'.
  Proof.
    induction l as [|c l IH]; intros s held s' held' H; cbn [rfold] in H.
    - injection H as <- <-. rs.
    - apply rbind_ok in H as ([s1 h1] & H1 & H%IH). assert (RR13 : R s s1); [|rs].
      destruct (bool_decide _); [injection H1 as <- <-; rs|].
      destruct (negb _); [injection H1 as <- <-; rs|].
      apply rbind_ok in H1 as (s2 & H2 & [= <- <-]).
      destruct held; [apply fr_heapAdd in H2|injection H2 as <-]; rs.
  Qed.

  Lemma fr_childrenLoop s n s' held : childrenLoop s n = Ok (s', held) -> R s s'.
  Proof. apply fr_childrenLoop_gen. Qed.

  Lemma fr_insert_handler k s : R s (insert_handler k s).
  Proof. unfold insert_handler. rs. Qed.

  Lemma fr_insert_handlers l : forall s, R s (foldl (fun s o => insert_handler o s) s l).
  Proof.
    induction l as [|o l IH]; intros s; cbn [foldl]; [rs|].
    eapply R_trans; [apply (fr_insert_handler o)|apply IH].
  Qed.

  (* the shared front part of recomputeNodeSerial / recomputeNodeParallel *)
  Lemma fr_maybeCutoff p s0 n (x : node) s1 e cut :
    match nkind x with
    | KCutoff c =>
      '(s, e) <-! invoke p s0 n WCut;
      match e with
      | Some e => Ok (s, Some e, false)
      | None => let v := apCut c (value x) (valueOf s0 (hd 0%nat (decl x))) in
                Ok (emit (EvCutoff n (value x) (valueOf s0 (hd 0%nat (decl x))) v) s, None, v)
      end
    | _ => Ok (s0, None, false)
    end = Ok (s1, e, cut) -> R s0 s1.
  Proof.
    intros H. destruct (nkind x); try (injection H as <- <- <-; rs).
    apply rbind_ok in H as ([s2 e2] & H2%fr_invoke & H).
    destruct e2; injection H as <- <- <-; rs.
  Qed.

  Lemma fr_recomputeNodeSerial fuel p s n s' e imm :
    recomputeNodeSerial fuel p s n = Ok (s', e, imm) -> R s s'.
  Proof.
    unfold recomputeNodeSerial. intros H.
    apply rbind_ok in H as ([[s1 e1] cut] & H1%fr_maybeCutoff & H).
    assert (R01 : R s s1) by rs. clear H1.
    assert (Hfail : forall s2 (e2 : err) s' e imm, R s s2 ->
      match e2 with
      | EPanic m => Ok (s2, Some (EPanic m), @None nid)
      | _ => s3 <-! recomputeFailed s2 n (recomputedAt (nd s n)); Ok (errorHandlers s3 n, Some e2, @None nid)
      end = Ok (s', e, imm) -> R s s').
    { intros s2 e2 t' e' imm' HR G.
      pose proof (fun s3 => fr_errorHandlers s3 n) as He.
      destruct e2; try (apply rbind_ok in G as (s3 & H3%fr_recomputeFailed & [= <- <- <-]);
                        specialize (He s3); rs).
      injection G as <- <- <-. rs. }
    destruct e1 as [e1|]; [eapply Hfail; [exact R01|exact H]|].
    destruct cut; [injection H as <- <- <-; rs|].
    apply rbind_ok in H as ([s2 e2] & H2%fr_stabilizeNode & H).
    destruct e2 as [e2|]; [eapply Hfail; [|exact H]; rs|].
    apply rbind_ok in H as ([s3 held] & H3%fr_childrenLoop & H).
    apply rbind_ok in H as ([s4 imm4] & H4 & [= <- <- <-]).
    pose proof (fr_insert_handlers (observers (nd s4 n)) s4).
    assert (RR14 : R s3 s4); [|rs].
    destruct held as [h|]; [|injection H4 as <- <-; rs].
    destruct (canRecomputeImmediately _ _ _); [injection H4 as <- <-; rs|].
    apply rbind_ok in H4 as (s5 & H5%fr_heapAdd & [= <- <-]). rs.
  Qed.

  Lemma fr_recomputeChain fuel : forall p s n s' e at_,
    recomputeChain fuel p s n = Ok (s', e, at_) -> R s s'.
  Proof.
    induction fuel as [|fuel IH]; intros p s n s' e at_ H; [discriminate|]. cbn [recomputeChain] in H.
    apply rbind_ok in H as ([[s1 e1] imm] & H1%fr_recomputeNodeSerial & H).
    destruct e1; [injection H as <- <- <-; rs|].
    destruct imm; [apply IH in H|injection H as <- <- <-]; rs.
  Qed.

  Lemma fr_passLoop fuel : forall p s always s' e at_ always',
    passLoop fuel p s always = Ok (s', e, at_, always') -> R s s'.
  Proof.
    induction fuel as [|fuel IH]; intros p s always s' e at_ always' H; [discriminate|]. cbn [passLoop] in H.
    destruct (_ <=? 0); [injection H as <- <- <- <-; rs|].
    destruct (Heap.removeMin _) as [[n w]|]; [|discriminate].
    apply rbind_ok in H as ([[s1 e1] at1] & H1%fr_recomputeChain & H).
    destruct e1; [injection H as <- <- <- <-|apply IH in H]; rs.
  Qed.

  Lemma fr_recomputeNodeParallel fuel p s n s' e :
    recomputeNodeParallel fuel p s n = Ok (s', e) -> R s s'.
  Proof.
    unfold recomputeNodeParallel. intros H.
    apply rbind_ok in H as ([[s1 e1] cut] & H1%fr_maybeCutoff & H).
    assert (R01 : R s s1) by rs. clear H1.
    assert (Hfail : forall s2 (e2 : err) s' e, R s s2 ->
      match e2 with
      | EPanic m => s3 <-! heapAddIfNotPresent (upd s2 n (set recomputedAt (fun _ => 0))) n;
                    Ok (errorHandlers s3 n, Some (EPanic m))
      | _ => s3 <-! recomputeFailed s2 n (recomputedAt (nd s n)); Ok (errorHandlers s3 n, Some e2)
      end = Ok (s', e) -> R s s').
    { intros s2 e2 t' e' HR G.
      pose proof (fun s3 => fr_errorHandlers s3 n) as He.
      destruct e2; try (apply rbind_ok in G as (s3 & H3%fr_recomputeFailed & [= <- <-]);
                        specialize (He s3); rs). }
    destruct e1 as [e1|]; [eapply Hfail; [exact R01|exact H]|].
    destruct cut; [injection H as <- <-; rs|].
    apply rbind_ok in H as ([s2 e2] & H2%fr_stabilizeNode & H).
    destruct e2 as [e2|]; [eapply Hfail; [|exact H]; rs|].
    apply rbind_ok in H as (s3 & H3 & [= <- <-]).
    pose proof (fr_insert_handlers (observers (nd s3 n)) s3).
    eapply R_trans; [|exact H]. eapply R_trans; cycle 1.
    { eapply fr_rfold; [|exact H3]. intros s4 c s5 G. cbv beta in G.
      destruct (shouldRecomputeChild s4 c); [apply fr_heapAdd in G|injection G as <-]; rs. }
    rs.
  Qed.

  Lemma fr_parBlock fuel p block : forall s e always s' e' always',
    rfold (fun '(s, e, always) n =>
                if height (nd s n) =? unset then Ok (s, e, always) else
                '(s, e') <-! recomputeNodeParallel fuel p s n;
                let always := if isAlways (nkind (nd s n)) then always ++ [n] else always in
                Ok (s, match e with Some _ => e | None => e' end, always))
          block (s, e, always) = Ok (s', e', always') -> R s s'.
  Proof.
    induction block as [|n l IH]; intros s e always s' e' always' H; cbn [rfold] in H.
    - injection H as <- <- <-. rs.
    - apply rbind_ok in H as ([[s1 e1] a1] & H1 & H%IH).
      destruct (_ =? unset); [injection H1 as <- <- <-; rs|].
      apply rbind_ok in H1 as ([s2 e2] & H2%fr_recomputeNodeParallel & [= <- <- <-]). rs.
  Qed.

  Lemma fr_parLoop fuel : forall p s always s' e always',
    parLoop fuel p s always = Ok (s', e, always') -> R s s'.
  Proof.
    induction fuel as [|fuel IH]; intros p s always s' e always' H; [discriminate|]. cbn [parLoop] in H.
    destruct (_ <=? 0); [injection H as <- <- <-; rs|].
    destruct (Heap.takeMinBlock _) as [block w].
    apply rbind_ok in H as ([[s1 e1] a1] & H1%fr_parBlock & H).
    destruct e1; [injection H as <- <- <-|apply IH in H]; rs.
  Qed.
End Frame.

(** ** The pass frame: what no function called from a pass loop changes.
    [obs], [stabNum], [status], [maxHeight] are fixed; node records are never dropped; the
    log only grows, and by events other than the handler / bracket events; and (when ids are
    below the creation counter) the kind and scope of an existing node never change. *)
Definition ids_below (s : state) : Prop := forall n, is_Some (nodes s !! n) -> (n < next s)%nat.

Definition pframe (s s' : state) : Prop :=
  obs s' = obs s /\ stabNum s' = stabNum s /\ status s' = status s /\ maxHeight s' = maxHeight s /\
  (next s <= next s')%nat /\
  (forall n, is_Some (nodes s !! n) -> is_Some (nodes s' !! n)) /\
  (ids_below s -> ids_below s' /\
     forall n, is_Some (nodes s !! n) ->
               nkind (nd s' n) = nkind (nd s n) /\ scope (nd s' n) = scope (nd s n)) /\
  exists L, log s' = L ++ log s /\ Forall passEv L.

Lemma pframe_refl s : pframe s s.
Proof.
  repeat split; auto. exists []. split; [reflexivity|constructor].
Qed.

Lemma pframe_trans s1 s2 s3 : pframe s1 s2 -> pframe s2 s3 -> pframe s1 s3.
Proof.
  intros (A1 & A2 & A3 & A4 & A5 & A6 & A7 & L1 & A8 & A9) (B1 & B2 & B3 & B4 & B5 & B6 & B7 & L2 & B8 & B9).
  split; [congruence|]. split; [congruence|]. split; [congruence|]. split; [congruence|].
  split; [lia|]. split; [auto|]. split.
  - intros I1. destruct (A7 I1) as [I2 K1]. destruct (B7 I2) as [I3 K2]. split; [exact I3|].
    intros n Hn. destruct (K1 n Hn) as [E1 E2]. destruct (K2 n (A6 n Hn)) as [F1 F2]. split; congruence.
  - exists (L2 ++ L1). split; [rewrite B8, A8, app_assoc; reflexivity|apply Forall_app; auto].
Qed.

(* a state that differs from [s] only in fields the frame does not mention *)
Lemma pframe_same s s' :
  obs s' = obs s -> stabNum s' = stabNum s -> status s' = status s -> maxHeight s' = maxHeight s ->
  next s' = next s -> nodes s' = nodes s -> log s' = log s -> pframe s s'.
Proof.
  intros E1 E2 E3 E4 E5 E6 E7. unfold pframe, ids_below, nd. rewrite E1, E2, E3, E4, E5, E6, E7.
  repeat split; auto. exists []. split; [reflexivity|constructor].
Qed.

Lemma pframe_upd s n f :
  (forall x, nkind (f x) = nkind x) -> (forall x, scope (f x) = scope x) -> pframe s (upd s n f).
Proof.
  intros Hk Hs. unfold pframe.
  split; [reflexivity|]. split; [reflexivity|]. split; [reflexivity|]. split; [reflexivity|].
  split; [reflexivity|]. split; [|split].
  - intros m. apply some_upd.
  - intros I. split.
    + intros m Hm. apply (proj1 (some_upd s n f m)) in Hm. apply I, Hm.
    + intros m _. split; [apply (nd_upd_keep nkind), Hk|apply (nd_upd_keep scope), Hs].
  - exists []. split; [reflexivity|constructor].
Qed.

Lemma pframe_emit s e : passEv e -> pframe s (emit e s).
Proof.
  intros He. unfold pframe. cbn. repeat split; auto.
  exists [e]. split; [reflexivity|repeat constructor; exact He].
Qed.

Lemma pframe_newNode s x : pframe s (s <| nodes := <[next s := x]> (nodes s) |> <| next := S (next s) |>).
Proof.
  unfold pframe, ids_below, nd. cbn. split; [reflexivity|]. split; [reflexivity|].
  split; [reflexivity|]. split; [reflexivity|]. split; [lia|]. split; [|split].
  - intros n Hn. destruct (decide (n = next s)) as [->|Hne].
    + rewrite lookup_insert. eauto.
    + rewrite lookup_insert_ne by congruence. exact Hn.
  - intros I. split.
    + intros n Hn. destruct (decide (n = next s)) as [->|Hne]; [lia|].
      rewrite lookup_insert_ne in Hn by congruence. apply I in Hn. lia.
    + intros n Hn. pose proof (I n Hn). rewrite lookup_insert_ne by lia. auto.
  - exists []. split; [reflexivity|constructor].
Qed.

Lemma pass_frame_thm (stmt : (state -> state -> Prop) -> Prop)
  (H : forall R : state -> state -> Prop, (forall s, R s s) -> (forall s1 s2 s3, R s1 s2 -> R s2 s3 -> R s1 s3) ->
        (forall s n f, (forall x, nkind (f x) = nkind x) -> (forall x, scope (f x) = scope x) -> R s (upd s n f)) ->
        (forall s b f, R s (updb s b f)) -> (forall s e, passEv e -> R s (emit e s)) ->
        (forall s w, R s (s <| heap := w |>)) -> (forall s w, R s (s <| adj := w |>)) ->
        (forall s w, R s (s <| invq := w |>)) -> (forall s w, R s (s <| numNodes := w |>)) ->
        (forall s w, R s (s <| reg := w |>)) -> (forall s w, R s (s <| handlers := w |>)) ->
        (forall s w, R s (s <| setRemoved := w |>)) -> (forall s w, R s (s <| setDuring := w |>)) ->
        (forall s x, R s (s <| nodes := <[next s := x]> (nodes s) |> <| next := S (next s) |>)) ->
        (forall s r, R s (s <| binds := <[next s := r]> (binds s) |>)) -> stmt R) : stmt pframe.
Proof.
  apply H;
    [exact pframe_refl|exact pframe_trans|exact pframe_upd| |exact pframe_emit| | | | | | | | |exact pframe_newNode| ];
    intros; apply pframe_same; reflexivity.
Qed.

Lemma pf_stabilizeNode fuel p s n s' e : stabilizeNode fuel p s n = Ok (s', e) -> pframe s s'.
Proof. revert fuel p s n s' e. apply (pass_frame_thm (fun R => forall fuel p s n s' e, stabilizeNode fuel p s n = Ok (s', e) -> R s s')). exact fr_stabilizeNode. Qed.
Lemma pf_recomputeNodeSerial fuel p s n s' e imm :
  recomputeNodeSerial fuel p s n = Ok (s', e, imm) -> pframe s s'.
Proof. revert fuel p s n s' e imm. apply (pass_frame_thm (fun R => forall fuel p s n s' e imm, recomputeNodeSerial fuel p s n = Ok (s', e, imm) -> R s s')). exact fr_recomputeNodeSerial. Qed.
Lemma pf_recomputeChain fuel p s n s' e at_ :
  recomputeChain fuel p s n = Ok (s', e, at_) -> pframe s s'.
Proof. revert fuel p s n s' e at_. apply (pass_frame_thm (fun R => forall fuel p s n s' e at_, recomputeChain fuel p s n = Ok (s', e, at_) -> R s s')). intros. eapply fr_recomputeChain; eauto. Qed.
Lemma pf_passLoop fuel p s always s' e at_ always' :
  passLoop fuel p s always = Ok (s', e, at_, always') -> pframe s s'.
Proof. revert fuel p s always s' e at_ always'. apply (pass_frame_thm (fun R => forall fuel p s always s' e at_ always', passLoop fuel p s always = Ok (s', e, at_, always') -> R s s')). intros. eapply fr_passLoop; eauto. Qed.
Lemma pf_recomputeNodeParallel fuel p s n s' e :
  recomputeNodeParallel fuel p s n = Ok (s', e) -> pframe s s'.
Proof. revert fuel p s n s' e. apply (pass_frame_thm (fun R => forall fuel p s n s' e, recomputeNodeParallel fuel p s n = Ok (s', e) -> R s s')). exact fr_recomputeNodeParallel. Qed.
Lemma pf_parLoop fuel p s always s' e always' :
  parLoop fuel p s always = Ok (s', e, always') -> pframe s s'.
Proof. revert fuel p s always s' e always'. apply (pass_frame_thm (fun R => forall fuel p s always s' e always', parLoop fuel p s always = Ok (s', e, always') -> R s s')). intros. eapply fr_parLoop; eauto. Qed.
Lemma pf_bindLhsStabilize fuel p s b s' e : bindLhsStabilize fuel p s b = Ok (s', e) -> pframe s s'.
Proof. revert fuel p s b s' e. apply (pass_frame_thm (fun R => forall fuel p s b s' e, bindLhsStabilize fuel p s b = Ok (s', e) -> R s s')). exact fr_bindLhsStabilize. Qed.
Lemma pf_invalidateNode fuel s n s' : invalidateNode fuel s n = Ok s' -> pframe s s'.
Proof. revert fuel s n s'. apply (pass_frame_thm (fun R => forall fuel s n s', invalidateNode fuel s n = Ok s' -> R s s')). intros. eapply fr_invalidateNode; eauto. Qed.
Lemma pf_removeParents fuel s n s' : removeParents fuel s n = Ok s' -> pframe s s'.
Proof. revert fuel s n s'. apply (pass_frame_thm (fun R => forall fuel s n s', removeParents fuel s n = Ok s' -> R s s')). intros. eapply fr_removeParents; eauto. Qed.
Lemma pf_invoke p s n w s' e : invoke p s n w = Ok (s', e) -> pframe s s'.
Proof. revert p s n w s' e. apply (pass_frame_thm (fun R => forall p s n w s' e, invoke p s n w = Ok (s', e) -> R s s')). intros. eapply fr_invoke; eauto. Qed.

(** * 2. More basics: states that differ in the heap only; [setStale]; [wfb] clauses *)

Lemma set_heap_id (s : state) : s <| heap := heap s |> = s.
Proof. destruct s; reflexivity. Qed.

Definition heapOnly (s s' : state) : Prop := exists w, s' = s <| heap := w |>.

Lemma heapOnly_refl s : heapOnly s s.
Proof. exists (heap s). symmetry. apply set_heap_id. Qed.

Lemma heapOnly_trans s1 s2 s3 : heapOnly s1 s2 -> heapOnly s2 s3 -> heapOnly s1 s3.
Proof. intros [w1 ->] [w2 ->]. exists w2. destruct s1; reflexivity. Qed.

Lemma heapOnly_nd s s' m : heapOnly s s' -> nd s' m = nd s m.
Proof. intros [w ->]. reflexivity. Qed.

Lemma heapOnly_nodes s s' : heapOnly s s' -> nodes s' = nodes s.
Proof. intros [w ->]. reflexivity. Qed.

Lemma heapAdd_heapOnly s n s' : heapAdd s n = Ok s' -> heapOnly s s'.
Proof. unfold heapAdd. intros H. apply rbind_ok in H as (w & _ & [= <-]). exists w. reflexivity. Qed.

Lemma heapAddIfNotPresent_heapOnly s n s' : heapAddIfNotPresent s n = Ok s' -> heapOnly s s'.
Proof.
  unfold heapAddIfNotPresent. destruct (inHeap s n); [intros [= <-]; apply heapOnly_refl|apply heapAdd_heapOnly].
Qed.

Lemma heapAdd_inHeap s n s' m : heapAdd s n = Ok s' -> inHeap s' m = (bool_decide (m = n) || inHeap s m).
Proof.
  unfold heapAdd, inHeap. intros H. apply rbind_ok in H as (w & Hw & [= <-]). cbn.
  eapply mem_add, Hw.
Qed.

Lemma heapAddIfNotPresent_inHeap s n s' m :
  heapAddIfNotPresent s n = Ok s' -> inHeap s' m = (bool_decide (m = n) || inHeap s m).
Proof.
  unfold heapAddIfNotPresent. destruct (inHeap s n) eqn:E; [|apply heapAdd_inHeap].
  intros [= <-]. destruct (decide (m = n)) as [->|Hne].
  - rewrite E, bool_decide_eq_true_2 by reflexivity. reflexivity.
  - rewrite bool_decide_eq_false_2 by exact Hne. reflexivity.
Qed.

Lemma heapRemove_inHeap s n s' m :
  heapRemove s n = Ok s' -> inHeap s' m = (negb (bool_decide (m = n)) && inHeap s m).
Proof.
  unfold heapRemove, inHeap. intros H. apply rbind_ok in H as (w & Hw & [= <-]). cbn.
  eapply mem_remove, Hw.
Qed.

Lemma heapAdd_total s n : 0 <= height (nd s n) -> exists s', heapAdd s n = Ok s'.
Proof.
  intros Hh. unfold heapAdd. destruct (add_ok (heap s) n _ Hh) as [w ->]. cbn. eauto.
Qed.

(* SetStale: either nothing, or the stamp and (perhaps) one heap insertion *)
Lemma setStale_spec s n s' :
  setStale s n = Ok s' ->
  (height (nd s n) = unset /\ s' = s) \/
  (height (nd s n) <> unset /\ heapOnly (upd s n (set setAt (fun _ => stabNum s))) s' /\ inHeap s' n = true).
Proof.
  unfold setStale. destruct (Z.eqb_spec (height (nd s n)) unset) as [E|E]; [intros [= <-]; auto|].
  right. split; [exact E|]. destruct (inHeap _ n) eqn:Hin.
  - injection H as <-. split; [apply heapOnly_refl|exact Hin].
  - split; [eapply heapAdd_heapOnly, H|]. erewrite heapAdd_inHeap by exact H.
    rewrite bool_decide_eq_true_2 by reflexivity. reflexivity.
Qed.

Lemma setStale_total s n : -1 <= height (nd s n) -> exists s', setStale s n = Ok s'.
Proof.
  intros Hh. unfold setStale. destruct (Z.eqb_spec (height (nd s n)) unset) as [E|E]; [eauto|].
  destruct (inHeap _ n); [eauto|]. apply heapAdd_total.
  rewrite (nd_upd_keep height) by (intros []; reflexivity). unfold unset in E. lia.
Qed.

(* what SetStale leaves alone: every node field but [setAt] *)
Lemma setStale_nd s n s' m :
  setStale s n = Ok s' -> exists a, nd s' m = nd s m <| setAt := a |>.
Proof.
  intros [[_ ->]|(_ & Ho & _)]%setStale_spec.
  - exists (setAt (nd s m)). destruct (nd s m); reflexivity.
  - rewrite (heapOnly_nd _ _ m Ho), nd_upd_if. destruct (decide (m = n)) as [->|Hne].
    + destruct (nodes s !! n) eqn:E.
      * eexists. reflexivity.
      * exists (setAt dummy). unfold nd. rewrite E. reflexivity.
    + exists (setAt (nd s m)). destruct (nd s m); reflexivity.
Qed.

Lemma isVar_upd s n f w : (forall x, nkind (f x) = nkind x) -> isVar (upd s n f) w = isVar s w.
Proof.
  intros Hk. unfold isVar. rewrite nodes_upd_if. destruct (decide (w = n)) as [->|]; [|reflexivity].
  destruct (nodes s !! n); cbn; [rewrite Hk|]; reflexivity.
Qed.

Lemma isVar_heapOnly s s' w : heapOnly s s' -> isVar s' w = isVar s w.
Proof. intros [x ->]. reflexivity. Qed.

Lemma setStale_isVar s n s' w : setStale s n = Ok s' -> isVar s' w = isVar s w.
Proof.
  intros [[_ ->]|(_ & Ho & _)]%setStale_spec; [reflexivity|].
  rewrite (isVar_heapOnly _ _ w Ho). apply isVar_upd. intros []; reflexivity.
Qed.

(** the clauses of [wfb] *)
Lemma wfb_clauses s : wfb s = true ->
  edges_symmetric s = true /\ unregistered_zeroed s = true /\ registered_iff_necessary s = true /\
  parents_are_declared s = true /\ heights_ordered s = true /\ queued_ok s = true /\
  counts_ok s = true /\ transients_empty s = true /\ observers_ok s = true /\ binds_ok s = true.
Proof.
  unfold wfb, codes. intros H%bool_decide_eq_true.
  destruct (edges_symmetric s); [|discriminate].
  destruct (unregistered_zeroed s); [|discriminate].
  destruct (registered_iff_necessary s); [|discriminate].
  destruct (parents_are_declared s); [|discriminate].
  destruct (heights_ordered s); [|discriminate].
  destruct (queued_ok s); [|discriminate].
  destruct (counts_ok s); [|discriminate].
  destruct (transients_empty s); [|discriminate].
  destruct (observers_ok s); [|discriminate].
  destruct (binds_ok s); [|discriminate].
  repeat split.
Qed.

Lemma elem_allNodes s n : n ∈ allNodes s <-> (is_Some (nodes s !! n) /\ (n < next s)%nat).
Proof. unfold allNodes. rewrite elem_of_list_filter, elem_of_seq. intuition lia. Qed.

Lemma forallb_elem {A} (f : A -> bool) l x : forallb f l = true -> x ∈ l -> f x = true.
Proof. intros H Hx. rewrite forallb_forall in H. apply H, elem_of_list_In, Hx. Qed.

(* a registered (= necessary) node of a well-formed state has a proper height *)
Lemma wfb_necessary_height s n :
  wfb s = true -> is_Some (nodes s !! n) -> (n < next s)%nat ->
  isNecessary (nd s n) = true -> 0 <= height (nd s n).
Proof.
  intros (_ & _ & Q3 & _ & Q5 & _)%wfb_clauses Hs Hn Hnec.
  assert (Hin : n ∈ allNodes s) by (apply elem_allNodes; auto).
  pose proof (forallb_elem _ _ _ Q3 Hin) as E3. pose proof (forallb_elem _ _ _ Q5 Hin) as E5.
  cbv beta zeta in E3, E5. rewrite Hnec in E3. destruct (inGraph (nd s n)); [|discriminate]. cbn in E5.
  apply andb_true_iff in E5 as [E5 _]. apply andb_true_iff in E5 as [E5 _]. apply andb_true_iff in E5 as [E5 _]. lia.
Qed.

Lemma wfb_transients s : wfb s = true ->
  status s = 0 /\ setDuring s = [] /\ setRemoved s = [] /\ handlers s = [] /\ invq s = [].
Proof.
  intros (_ & _ & _ & _ & _ & _ & _ & Q8 & _)%wfb_clauses. unfold transients_empty in Q8.
  repeat (apply andb_true_iff in Q8 as [Q8 ?]).
  repeat match goal with H : bool_decide _ = true |- _ => apply bool_decide_eq_true in H end.
  repeat split; auto. lia.
Qed.

(** * 3. C12: var writes *)

(* the VarEqual test that makes a write a no-op *)
Definition eqNoop (s : state) (v : nid) (x : Z) : bool :=
  match nkind (nd s v) with KVar e => e | _ => false end
  && negb (bool_decide (is_Some (pending (nd s v)))) && (value (nd s v) =? x).

(* the state a deferred (mid-pass) write produces *)
Definition deferSet (s : state) (v : nid) (x : Z) : state :=
  (upd s v (set pending (fun _ => Some x))) <| setDuring := insert_sorted v (setDuring s) |>.

(* the effective value of a var: the deferred one when there is one *)
Definition cur (s : state) (v : nid) : Z :=
  match pending (nd s v) with Some p => p | None => value (nd s v) end.

Lemma varSet_unfold s v x :
  varSet s v x =
  if eqNoop s v x then Ok s
  else if status s =? 1 then Ok (deferSet s v x)
  else let s1 := upd s v (set value (fun _ => x)) in
       if isNecessary (nd s1 v) then setStale s1 v else Ok s1.
Proof. reflexivity. Qed.

Lemma varUpdate_unfold s v d : varUpdate s v d = varSet s v (norm (cur s v + d)).
Proof. reflexivity. Qed.

Lemma varSet_status s v x s' : varSet s v x = Ok s' -> status s' = status s.
Proof.
  rewrite varSet_unfold. destruct (eqNoop s v x); [intros [= <-]; reflexivity|].
  destruct (status s =? 1); [intros [= <-]; reflexivity|]. cbv zeta.
  destruct (isNecessary _); [|intros [= <-]; reflexivity].
  intros [[_ ->]|(_ & [w ->] & _)]%setStale_spec; reflexivity.
Qed.

Lemma varSet_isVar s v x s' w : varSet s v x = Ok s' -> isVar s' w = isVar s w.
Proof.
  rewrite varSet_unfold. destruct (eqNoop s v x); [intros [= <-]; reflexivity|].
  destruct (status s =? 1).
  { intros [= <-]. unfold deferSet. change (isVar (upd s v (set pending (fun _ => Some x))) w = isVar s w).
    apply isVar_upd. intros []; reflexivity. }
  cbv zeta. destruct (isNecessary _).
  - intros H. rewrite (setStale_isVar _ _ _ w H). apply isVar_upd. intros []; reflexivity.
  - intros [= <-]. apply isVar_upd. intros []; reflexivity.
Qed.

(** C12.1: a write between passes is the var's value at once; last write wins *)
Lemma C12_set_between_passes s v x s' :
  status s = 0 -> isVar s v = true -> varSet s v x = Ok s' -> value (nd s' v) = x.
Proof.
  intros Hst Hv. pose proof (isVar_some _ _ Hv) as Hs. rewrite varSet_unfold.
  destruct (eqNoop s v x) eqn:En.
  { intros [= <-]. unfold eqNoop in En. apply andb_true_iff in En as [_ En]. lia. }
  rewrite Hst. cbn [Z.eqb]. cbv zeta.
  assert (Hval : value (nd (upd s v (set value (fun _ => x))) v) = x).
  { rewrite nd_upd_same by exact Hs. destruct (nd s v); reflexivity. }
  destruct (isNecessary _); [|intros [= <-]; exact Hval].
  intros H. destruct (setStale_nd _ _ _ v H) as [a ->]. revert Hval.
  generalize (nd (upd s v (set value (fun _ => x))) v). intros [] E; exact E.
Qed.

Lemma run_SetVar_cons s v x xs :
  isVar s v = true ->
  run s (map (SetVar v) (x :: xs)) = (s1 <-! varSet s v x; run s1 (map (SetVar v) xs)).
Proof.
  intros Hv. cbn [map run op_ok step]. rewrite Hv. unfold lift, ok.
  destruct (varSet s v x); reflexivity.
Qed.

Lemma C12_last_write_wins v : forall xs x s s',
  status s = 0 -> isVar s v = true ->
  run s (map (SetVar v) (xs ++ [x])) = Ok s' ->
  value (nd s' v) = x /\ status s' = 0 /\ isVar s' v = true.
Proof.
  induction xs as [|y xs IH]; intros x s s' Hst Hv H.
  - cbn [app] in H. rewrite run_SetVar_cons in H by exact Hv.
    apply rbind_ok in H as (s1 & H1 & [= <-]).
    split; [eapply C12_set_between_passes; eauto|].
    split; [rewrite (varSet_status _ _ _ _ H1); exact Hst|rewrite (varSet_isVar _ _ _ _ v H1); exact Hv].
  - cbn [app] in H. rewrite run_SetVar_cons in H by exact Hv.
    apply rbind_ok in H as (s1 & H1 & H). apply IH in H; [exact H| |].
    + rewrite (varSet_status _ _ _ _ H1); exact Hst.
    + rewrite (varSet_isVar _ _ _ _ v H1); exact Hv.
Qed.

(** C12.2: a write never faults *)
Lemma varSet_total_when s v x :
  (isNecessary (nd s v) = true -> -1 <= height (nd s v)) -> exists s', varSet s v x = Ok s'.
Proof.
  intros Hh. rewrite varSet_unfold. destruct (eqNoop s v x); [eauto|].
  destruct (status s =? 1); [eauto|]. cbv zeta.
  assert (En : isNecessary (nd (upd s v (set value (fun _ => x))) v) = isNecessary (nd s v)).
  { apply (nd_upd_keep isNecessary). intros []; reflexivity. }
  rewrite En. destruct (isNecessary (nd s v)); [|eauto].
  apply setStale_total. rewrite (nd_upd_keep height) by (intros []; reflexivity). auto.
Qed.

Lemma C12_set_total s v x :
  wfb s = true -> isVar s v = true -> (v < next s)%nat -> exists s', varSet s v x = Ok s'.
Proof.
  intros Hwf Hv Hn. apply varSet_total_when. intros Hnec.
  pose proof (wfb_necessary_height s v Hwf (isVar_some _ _ Hv) Hn Hnec). lia.
Qed.

Lemma C12_update_total s v d :
  wfb s = true -> isVar s v = true -> (v < next s)%nat -> exists s', varUpdate s v d = Ok s'.
Proof. intros. rewrite varUpdate_unfold. apply C12_set_total; assumption. Qed.

Lemma C12_set_unobserved_total s v x :
  height (nd s v) = unset -> exists s', varSet s v x = Ok s'.
Proof. intros Hh. apply varSet_total_when. rewrite Hh. unfold unset. lia. Qed.

Lemma C12_update_unobserved_total s v d :
  height (nd s v) = unset -> exists s', varUpdate s v d = Ok s'.
Proof. intros. rewrite varUpdate_unfold. apply C12_set_unobserved_total; assumption. Qed.

(** C12.3: a mid-pass write is deferred whole *)
Lemma C12_midpass_set_is_deferred s v x :
  status s = 1 -> varSet s v x = Ok (if eqNoop s v x then s else deferSet s v x).
Proof.
  intros Hst. rewrite varSet_unfold, Hst. cbn [Z.eqb]. destruct (eqNoop s v x); reflexivity.
Qed.

Lemma set_pending_eta (y : node) p : set pending (fun _ => p) y = y <| pending := pending (set pending (fun _ => p) y) |>.
Proof. destruct y; reflexivity. Qed.

Lemma deferSet_frame s v x :
  let s' := deferSet s v x in
  binds s' = binds s /\ next s' = next s /\ reg s' = reg s /\ obs s' = obs s /\ heap s' = heap s /\
  adj s' = adj s /\ invq s' = invq s /\ stabNum s' = stabNum s /\ status s' = status s /\
  numNodes s' = numNodes s /\ setRemoved s' = setRemoved s /\ handlers s' = handlers s /\
  maxHeight s' = maxHeight s /\ log s' = log s /\
  setDuring s' = insert_sorted v (setDuring s) /\
  (forall m, nd s' m = nd s m <| pending := pending (nd s' m) |>) /\
  (forall m, m <> v -> nd s' m = nd s m) /\
  (is_Some (nodes s !! v) -> pending (nd s' v) = Some x).
Proof.
  cbv zeta. unfold deferSet. repeat (split; [reflexivity|]).
  change (forall m, nd (upd s v (set pending (fun _ => Some x))) m = nd s m <| pending := pending (nd (upd s v (set pending (fun _ => Some x))) m) |>)
    /\ (forall m, m <> v -> nd (upd s v (set pending (fun _ => Some x))) m = nd s m)
    /\ (is_Some (nodes s !! v) -> pending (nd (upd s v (set pending (fun _ => Some x))) v) = Some x).
  split; [|split].
  - intros m. rewrite nd_upd_if. destruct (decide (m = v)) as [->|Hne].
    + destruct (nodes s !! v) eqn:E; [apply set_pending_eta|].
      unfold nd. rewrite E. reflexivity.
    + destruct (nd s m); reflexivity.
  - intros m Hne. apply nd_upd_other, Hne.
  - intros Hs. rewrite nd_upd_same by exact Hs. destruct (nd s v); reflexivity.
Qed.

Lemma C12_midpass_set_frame s v x s' :
  status s = 1 -> varSet s v x = Ok s' ->
  heap s' = heap s /\ log s' = log s /\ stabNum s' = stabNum s /\ status s' = status s /\
  handlers s' = handlers s /\ setRemoved s' = setRemoved s /\
  forall m, value (nd s' m) = value (nd s m) /\ recomputedAt (nd s' m) = recomputedAt (nd s m) /\
            changedAt (nd s' m) = changedAt (nd s m) /\ setAt (nd s' m) = setAt (nd s m) /\
            height (nd s' m) = height (nd s m) /\ valid (nd s' m) = valid (nd s m) /\
            parents (nd s' m) = parents (nd s m) /\ children (nd s' m) = children (nd s m).
Proof.
  intros Hst. rewrite (C12_midpass_set_is_deferred _ _ _ Hst). destruct (eqNoop s v x); intros [= <-].
  - repeat split.
  - destruct (deferSet_frame s v x) as (_ & _ & _ & _ & E5 & _ & _ & E8 & E9 & _ & E11 & E12 & _ & E14 & _ & En & _).
    repeat (split; [assumption|]). intros m. rewrite (En m). destruct (nd s m); repeat split.
Qed.

(** C12.4: successive mid-pass updates compose *)
Lemma varUpdate_midpass_cur s v d s' :
  status s = 1 -> isVar s v = true -> varUpdate s v d = Ok s' ->
  cur s' v = norm (cur s v + d) /\ status s' = 1 /\ isVar s' v = true /\
  (pending (nd s' v) = Some (norm (cur s v + d)) \/
   (pending (nd s' v) = None /\ pending (nd s v) = None /\ nkind (nd s v) = KVar true)).
Proof.
  intros Hst Hv H. pose proof (isVar_some _ _ Hv) as Hs.
  split; [|split; [rewrite (varSet_status _ _ _ _ H); exact Hst|split; [rewrite (varSet_isVar _ _ _ _ v H); exact Hv|]]];
    rewrite varUpdate_unfold, (C12_midpass_set_is_deferred _ _ _ Hst) in H;
    destruct (eqNoop s v _) eqn:En; injection H as <-.
  - unfold eqNoop in En. apply andb_true_iff in En as [En E2]. apply andb_true_iff in En as [_ En].
    apply negb_true_iff, bool_decide_eq_false in En.
    unfold cur at 1. destruct (pending (nd s v)); [exfalso; apply En; eauto|]. lia.
  - destruct (deferSet_frame s v (norm (cur s v + d))) as (_ & _ & _ & _ & _ & _ & _ & _ & _ & _ & _ & _ & _ & _ & _ & _ & _ & Ep).
    unfold cur at 1. rewrite (Ep Hs). reflexivity.
  - right. unfold eqNoop in En. apply andb_true_iff in En as [En E2]. apply andb_true_iff in En as [E0 En].
    apply negb_true_iff, bool_decide_eq_false in En.
    assert (pending (nd s v) = None) by (destruct (pending (nd s v)); [exfalso; apply En; eauto|reflexivity]).
    repeat split; try assumption. destruct (nkind (nd s v)); try discriminate. subst. reflexivity.
  - left. destruct (deferSet_frame s v (norm (cur s v + d))) as (_ & _ & _ & _ & _ & _ & _ & _ & _ & _ & _ & _ & _ & _ & _ & _ & _ & Ep).
    exact (Ep Hs).
Qed.

Lemma C12_updates_compose s v d1 d2 s1 s2 :
  status s = 1 -> isVar s v = true ->
  varUpdate s v d1 = Ok s1 -> varUpdate s1 v d2 = Ok s2 ->
  cur s2 v = norm (norm (cur s v + d1) + d2) /\
  ((nkind (nd s v) = KVar false \/ is_Some (pending (nd s v))) ->
   pending (nd s2 v) = Some (norm (norm (cur s v + d1) + d2))).
Proof.
  intros Hst Hv H1 H2.
  destruct (varUpdate_midpass_cur _ _ _ _ Hst Hv H1) as (C1 & St1 & V1 & P1).
  destruct (varUpdate_midpass_cur _ _ _ _ St1 V1 H2) as (C2 & St2 & V2 & P2).
  split; [rewrite C2, C1; reflexivity|]. intros Hk.
  destruct P2 as [P2|(_ & P2 & _)]; [rewrite P2, C1; reflexivity|].
  destruct P1 as [P1|(_ & P1 & K1)]; [congruence|].
  destruct Hk as [Hk|[? Hk]]; congruence.
Qed.
