(** Function-level facts about the engine model (properties C03, C07, C08, C11, C12, C13):
    statements that hold for EVERY state (or every state satisfying an explicit hypothesis),
    proved by unfolding / induction on the functions of Engine.v.  The whole-history theorems
    are built on these elsewhere.  Property statements are restated in Properties/Cxx.v. *)
From incr Require Import Base Heap HeapSpec HeapProofs EngineDefs Engine EngineWf.

(** * 0. Basics: results, node access *)

Lemma ebind_cases (m : M) (k : state -> M) s' e :
  ebind m k = Ok (s', e) ->
  exists s1 e1, m = Ok (s1, e1) /\
    ((exists x, e1 = Some x /\ s' = s1 /\ e = e1) \/ (e1 = None /\ k s1 = Ok (s', e))).
Proof.
  unfold ebind. intros H. apply rbind_ok in H as ([s1 e1] & Hm & H).
  exists s1, e1. split; [exact Hm|]. destruct e1 as [x|].
  - left. injection H as <- <-. eauto.
  - right. auto.
Qed.

Lemma lift_cases (m : res state) s' e : lift m = Ok (s', e) -> m = Ok s' /\ e = None.
Proof.
  unfold lift, ok. intros H. apply rbind_ok in H as (s1 & Hm & H). injection H as <- <-. auto.
Qed.

Lemma nd_upd_if s n f m :
  nd (upd s n f) m =
  if decide (m = n) then (if nodes s !! n then f (nd s n) else dummy) else nd s m.
Proof.
  unfold nd, upd. cbn. destruct (decide (m = n)) as [->|Hne].
  - rewrite lookup_alter. destruct (nodes s !! n); reflexivity.
  - rewrite lookup_alter_ne by congruence. reflexivity.
Qed.

Lemma nd_upd_same s n f : is_Some (nodes s !! n) -> nd (upd s n f) n = f (nd s n).
Proof. intros [x Hx]. rewrite nd_upd_if, decide_True by reflexivity. rewrite Hx. reflexivity. Qed.

Lemma nd_upd_other s n f m : m <> n -> nd (upd s n f) m = nd s m.
Proof. intros H. rewrite nd_upd_if, decide_False by exact H. reflexivity. Qed.

(* a projection the update does not touch *)
Lemma nd_upd_keep {A} (g : node -> A) s n f m :
  (forall x, g (f x) = g x) -> g (nd (upd s n f) m) = g (nd s m).
Proof.
  intros Hg. rewrite nd_upd_if. destruct (decide (m = n)) as [->|]; [|reflexivity].
  unfold nd. destruct (nodes s !! n); cbn; [apply Hg|reflexivity].
Qed.

Lemma nodes_upd_if s n f m : nodes (upd s n f) !! m = (if decide (m = n) then f <$> nodes s !! m else nodes s !! m).
Proof.
  unfold upd. cbn. destruct (decide (m = n)) as [->|Hne].
  - apply lookup_alter.
  - apply lookup_alter_ne. congruence.
Qed.

Lemma some_upd s n f m : is_Some (nodes (upd s n f) !! m) <-> is_Some (nodes s !! m).
Proof.
  rewrite nodes_upd_if. destruct (decide (m = n)); [|reflexivity]. rewrite fmap_is_Some. reflexivity.
Qed.

Lemma nd_some_kind s n : nkind (nd s n) <> KReturn -> is_Some (nodes s !! n).
Proof. unfold nd. destruct (nodes s !! n); cbn; [eauto|congruence]. Qed.

Lemma isVar_spec s v : isVar s v = true <-> exists e, nkind (nd s v) = KVar e.
Proof.
  unfold isVar, nd. destruct (nodes s !! v) as [x|]; cbn.
  - destruct (nkind x); split; intros H; try discriminate; eauto; destruct H; discriminate.
  - split; [discriminate|intros [? ?]; discriminate].
Qed.

Lemma isVar_some s v : isVar s v = true -> is_Some (nodes s !! v).
Proof. unfold isVar. destruct (nodes s !! v); [eauto|discriminate]. Qed.

(* heap membership straight from the definitions: no invariant needed *)
Lemma mem_add w n h w' m : Heap.add w n h = Ok w' -> Heap.mem w' m = (bool_decide (m = n) || Heap.mem w m).
Proof.
  unfold Heap.add. destruct (Z.ltb_spec h 0); [discriminate|].
  destruct (if Heap.cnt w =? 0 then _ else _) as [mn mx]. intros [= <-].
  unfold Heap.mem, Heap.hinOf. cbn. destruct (decide (m = n)) as [->|Hne].
  - rewrite lookup_insert. cbn. rewrite (bool_decide_eq_true_2 (n = n)) by reflexivity.
    cbn. apply bool_decide_eq_true_2. unfold unset. lia.
  - rewrite lookup_insert_ne by congruence. rewrite (bool_decide_eq_false_2 (m = n)) by exact Hne.
    reflexivity.
Qed.

Lemma mem_remove w n w' m : Heap.remove w n = Ok w' -> Heap.mem w' m = (negb (bool_decide (m = n)) && Heap.mem w m).
Proof.
  unfold Heap.remove. destruct (Heap.hinOf w n <? 0); [discriminate|].
  destruct (Heap.buckets w !! _); [|discriminate].
  destruct (bool_decide _); [|discriminate]. intros [= <-].
  unfold Heap.mem, Heap.hinOf. cbn. destruct (decide (m = n)) as [->|Hne].
  - rewrite lookup_delete. cbn. rewrite (bool_decide_eq_true_2 (n = n)) by reflexivity.
    apply bool_decide_eq_false_2. auto.
  - rewrite lookup_delete_ne by congruence. rewrite (bool_decide_eq_false_2 (m = n)) by exact Hne.
    reflexivity.
Qed.

Lemma add_ok_nonneg w n h w' : Heap.add w n h = Ok w' -> 0 <= h.
Proof. unfold Heap.add. destruct (Z.ltb_spec h 0); [discriminate|auto]. Qed.

(** * 1. A generic frame theorem for everything a pass can call.

    [R] is any preorder on states that tolerates the primitive mutations of the engine; the
    section shows that every function reachable from [passLoop] / [parLoop] relates its input
    state to its output state.  Instances below: the log/status frame [pframe]. *)
Definition passEv (e : event) : Prop :=
  match e with EvUpd _ | EvObsUpd _ _ | EvPassStart | EvPassEnd _ => False | _ => True end.

Definition act_ok (okv : nid -> Prop) (a : action) : Prop :=
  match a with ASet v _ | AUpdate v _ => okv v | AFail _ => True end.
(* every write a plan performs targets an admissible var *)
Definition planv (okv : nid -> Prop) (p : plan) : Prop := forall n w, Forall (act_ok okv) (actions_of p n w).

(* [R]: the relation; [hok h h']: how the handler set may change (one insertion or one removal);
   [okv]: the vars a plan may write *)
Record frame_hyps (R : state -> state -> Prop) (hok : list nid -> list nid -> Prop) (okv : nid -> Prop) : Prop := {
  fh_hok_insert : forall h k, hok h (insert_sorted k h);
  fh_hok_rm : forall h n, hok h (rm n h);
  fh_refl : forall s, R s s;
  fh_trans : forall s1 s2 s3, R s1 s2 -> R s2 s3 -> R s1 s3;
  (* node updates never touch the kind or the scope of a node *)
  fh_upd : forall s n f,
    (forall x, nkind (f x) = nkind x) -> (forall x, scope (f x) = scope x) -> R s (upd s n f);
  fh_updb : forall s b f, R s (updb s b f);
  fh_emit : forall s e, passEv e -> R s (emit e s);
  fh_heap : forall s w, R s (s <| heap := w |>);
  fh_adj : forall s w, R s (s <| adj := w |>);
  fh_invq : forall s w, R s (s <| invq := w |>);
  fh_numNodes : forall s w, R s (s <| numNodes := w |>);
  fh_reg : forall s w, R s (s <| reg := w |>);
  fh_handlers : forall s w, hok (handlers s) w -> R s (s <| handlers := w |>);
  (* a deferred write files the var; teardown moves it to the removed list *)
  fh_defer : forall s v, okv v -> R s (s <| setDuring := insert_sorted v (setDuring s) |>);
  fh_zero_sets : forall s n,
    R s (s <| setRemoved := if bool_decide (n ∈ setDuring s) then setRemoved s ++ [n] else setRemoved s |>
           <| setDuring := rm n (setDuring s) |>);
  (* creation: a fresh record at [next s], the counter advances *)
  fh_newNode : forall s x, R s (s <| nodes := <[next s := x]> (nodes s) |> <| next := S (next s) |>);
  fh_newBindrec : forall s r, R s (s <| binds := <[next s := r]> (binds s) |>)
}.

Section Frame.
  Variable R : state -> state -> Prop.
  Variable hok : list nid -> list nid -> Prop.
  Variable okv : nid -> Prop.
  Hypothesis FH : frame_hyps R hok okv.
  Let hok_insert := fh_hok_insert R hok okv FH.
  Let hok_rm := fh_hok_rm R hok okv FH.
  Let R_refl := fh_refl R hok okv FH.
  Let R_trans := fh_trans R hok okv FH.
  Let R_upd := fh_upd R hok okv FH.
  Let R_updb := fh_updb R hok okv FH.
  Let R_emit := fh_emit R hok okv FH.
  Let R_heap := fh_heap R hok okv FH.
  Let R_adj := fh_adj R hok okv FH.
  Let R_invq := fh_invq R hok okv FH.
  Let R_numNodes := fh_numNodes R hok okv FH.
  Let R_reg := fh_reg R hok okv FH.
  Let R_handlers := fh_handlers R hok okv FH.
  Let R_defer := fh_defer R hok okv FH.
  Let R_zero_sets := fh_zero_sets R hok okv FH.
  Let R_newNode := fh_newNode R hok okv FH.
  Let R_newBindrec := fh_newBindrec R hok okv FH.

  Ltac side := intros []; reflexivity.
  Ltac rs :=
    lazymatch goal with
    | |- R ?s ?s => apply R_refl
    | H : R ?s ?t |- R ?s ?t => exact H
    | |- R ?s (upd ?t _ _) => apply (R_trans s t); [rs|apply R_upd; side]
    | |- R ?s (updb ?t _ _) => apply (R_trans s t); [rs|apply R_updb]
    | |- R ?s (emit _ ?t) => apply (R_trans s t); [rs|apply R_emit; exact I]
    | |- R ?s (set heap _ ?t) => apply (R_trans s t); [rs|apply R_heap]
    | |- R ?s (set adj _ ?t) => apply (R_trans s t); [rs|apply R_adj]
    | |- R ?s (set invq _ ?t) => apply (R_trans s t); [rs|apply R_invq]
    | |- R ?s (set numNodes _ ?t) => apply (R_trans s t); [rs|apply R_numNodes]
    | |- R ?s (set reg _ ?t) => apply (R_trans s t); [rs|apply R_reg]
    | |- R ?s (set handlers _ ?t) => apply (R_trans s t); [rs|apply R_handlers; first [apply hok_rm|apply hok_insert]]
    | |- R ?s (set setDuring _ (set setRemoved _ ?t)) => apply (R_trans s t); [rs|apply (R_zero_sets t)]
    | |- R ?s (set setDuring _ ?t) => apply (R_trans s t); [rs|apply (R_defer t); assumption]
    | |- R ?s (if ?c then _ else _) => destruct c; rs
    | |- R ?s (insert_handler _ ?t) => unfold insert_handler; rs
    | |- R ?s ?t =>
      match goal with
      | H : R ?u t |- _ => apply (R_trans s u); [clear H; rs|exact H]
      end
    end.

  Lemma fr_rfold {A} (f : state -> A -> res state) l :
    (forall s a s', f s a = Ok s' -> R s s') ->
    forall s s', rfold f l s = Ok s' -> R s s'.
  Proof.
    intros Hf. induction l as [|a l IH]; intros s s' H; cbn in H.
    - injection H as <-. apply R_refl.
    - apply rbind_ok in H as (s1 & H1 & H). eapply R_trans; [eapply Hf, H1|eapply IH, H].
  Qed.

  Lemma fr_efold {A} (f : state -> A -> M) l :
    (forall s a s' e, f s a = Ok (s', e) -> R s s') ->
    forall s s' e, efold f l s = Ok (s', e) -> R s s'.
  Proof.
    intros Hf. induction l as [|a l IH]; intros s s' e H; cbn in H.
    - injection H as <- <-. apply R_refl.
    - apply ebind_cases in H as (s1 & e1 & H1 & [(x & -> & -> & ->)|(-> & H)]).
      + eapply Hf, H1.
      + eapply R_trans; [eapply Hf, H1|eapply IH, H].
  Qed.

  Lemma fr_heapAdd s n s' : heapAdd s n = Ok s' -> R s s'.
  Proof. unfold heapAdd. intros H. apply rbind_ok in H as (w & _ & [= <-]). rs. Qed.

  Lemma fr_heapAddIfNotPresent s n s' : heapAddIfNotPresent s n = Ok s' -> R s s'.
  Proof.
    unfold heapAddIfNotPresent. destruct (inHeap s n); [intros [= <-]; rs|apply fr_heapAdd].
  Qed.

  Lemma fr_heapRemove s n s' : heapRemove s n = Ok s' -> R s s'.
  Proof. unfold heapRemove. intros H. apply rbind_ok in H as (w & _ & [= <-]). rs. Qed.

  Lemma fr_heapFix s n s' : heapFix s n = Ok s' -> R s s'.
  Proof. unfold heapFix. intros H. apply rbind_ok in H as (w & _ & [= <-]). rs. Qed.

  Lemma fr_setHeight s n h s' e : setHeight s n h = Ok (s', e) -> R s s'.
  Proof.
    unfold setHeight, fail, ok. destruct (h >? maxHeight s - 1); [intros [= <- <-]; rs|].
    destruct (h >? a_maxSeen (adj s)); intros [= <- <-]; rs.
  Qed.

  Lemma fr_setStale s n s' : setStale s n = Ok s' -> R s s'.
  Proof.
    unfold setStale. destruct (height (nd s n) =? unset); [intros [= <-]; rs|].
    destruct (inHeap _ n); [intros [= <-]; rs|]. intros H%fr_heapAdd. rs.
  Qed.

  Lemma fr_link s c p : R s (link s c p).
  Proof. unfold link. rs. Qed.

  Lemma fr_unlink s c p : R s (unlink s c p).
  Proof. unfold unlink. rs. Qed.

  Lemma fr_addNode s n : R s (addNode s n).
  Proof. unfold addNode. destruct (inGraph (nd s n)); rs. Qed.

  Lemma fr_zeroNode s n s' : zeroNode s n = Ok s' -> R s s'.
  Proof.
    unfold zeroNode. intros H. apply rbind_ok in H as (s1 & H1 & [= <-]).
    assert (RR1 : R s s1) by (destruct (inHeap s n); [eapply fr_heapRemove, H1|injection H1 as <-; rs]).
    rs.
  Qed.

  Lemma fr_removeNode s n s' : removeNode s n = Ok s' -> R s s'.
  Proof.
    unfold removeNode. intros H%fr_zeroNode. destruct (inGraph (nd s n)); rs.
  Qed.

  Lemma fr_removeParents fuel : forall s c s', removeParents fuel s c = Ok s' -> R s s'.
  Proof.
    induction fuel as [|fuel IH]; intros s c s' H; [discriminate|]. cbn [removeParents] in H.
    revert H. apply fr_rfold. clear s s'. intros s p s' H.
    pose proof (fr_unlink s c p) as Hu.
    destruct (isNecessary _); [injection H as <-; rs|].
    destruct (negb _); [injection H as <-; rs|].
    apply rbind_ok in H as (s1 & H1%IH & H%fr_removeNode). rs.
  Qed.

  Lemma fr_checkIfUnnecessary fuel s p s' : checkIfUnnecessary fuel s p = Ok s' -> R s s'.
  Proof.
    unfold checkIfUnnecessary. destruct (isNecessary _); [intros [= <-]; rs|].
    destruct (negb _); [intros [= <-]; rs|]. intros H.
    apply rbind_ok in H as (s1 & H1%fr_removeParents & H%fr_removeNode). rs.
  Qed.

  Lemma fr_invalidateNode fuel : forall s n s', invalidateNode fuel s n = Ok s' -> R s s'.
  Proof.
    induction fuel as [|fuel IH]; intros s n s' H; [discriminate|]. cbn [invalidateNode] in H.
    destruct (negb (valid (nd s n))); [injection H as <-; rs|].
    apply rbind_ok in H as (s1 & H1 & H). apply rbind_ok in H as (s2 & H2 & H).
    set (s0 := upd (emit (EvInval n) s) n _) in *.
    assert (R0 : R s s0) by (unfold s0; rs).
    assert (R1 : R s0 s1).
    { destruct (isNecessary _); [|injection H1 as <-; rs].
      apply rbind_ok in H1 as (s3 & H3%fr_removeParents & [= <-]). rs. }
    assert (R2 : R s1 s2).
    { destruct (nkind (nd s1 n)); try (injection H2 as <-; rs).
      revert H2. apply fr_rfold. intros ? ? ?. apply IH. }
    assert (RR2 : R s s2) by (eapply R_trans; [eapply R_trans|]; eassumption).
    destruct (inHeap _ n); [apply fr_heapRemove in H|injection H as <-]; rs.
  Qed.

  Lemma fr_propagateInvalidity fuel : forall s s', propagateInvalidity fuel s = Ok s' -> R s s'.
  Proof.
    induction fuel as [|fuel IH]; intros s s' H; [discriminate|]. cbn [propagateInvalidity] in H.
    destruct (invq s) as [|n q]; [injection H as <-; rs|].
    apply rbind_ok in H as (s1 & H1 & H%IH).
    assert (RR3 : R s s1); [|rs].
    destruct (valid _); [|injection H1 as <-; rs].
    destruct (shouldBeInvalidated _ _); [apply fr_invalidateNode in H1; rs|].
    first [apply fr_heapAddIfNotPresent in H1; rs
          |destruct (_ =? unset); [injection H1 as <-|apply fr_heapAddIfNotPresent in H1]; rs].
  Qed.

  Lemma fr_becameNecessaryRecursive fuel : forall s n s' e,
    becameNecessaryRecursive fuel s n = Ok (s', e) -> R s s'.
  Proof.
    induction fuel as [|fuel IH]; intros s n s' e H; [discriminate|].
    cbn [becameNecessaryRecursive] in H.
    set (s0 := if inGraph (nd s n) then addNode s n else emit (EvNec n) (addNode s n)) in *.
    assert (R0 : R s s0).
    { pose proof (fr_addNode s n). unfold s0. destruct (inGraph (nd s n)); rs. }
    apply ebind_cases in H as (s1 & e1 & H1%fr_setHeight & [(x & -> & -> & ->)|(-> & H)]); [rs|].
    apply ebind_cases in H as (s2 & e2 & H2 & H).
    assert (R12 : R s1 s2).
    { revert H2. apply fr_efold. intros t p t' e' G.
      pose proof (fr_link t n p) as Hl.
      set (t0 := if valid (nd (link t n p) p) then link t n p else _) in *.
      assert (RR4 : R t t0) by (unfold t0; destruct (valid _); rs).
      apply ebind_cases in G as (t1 & e1 & G1 & [(x & -> & -> & ->)|(-> & G)]).
      - destruct (isNecessary _); [injection G1 as <- ?|apply IH in G1]; rs.
      - assert (RR5 : R t0 t1) by (destruct (isNecessary _); [injection G1 as <-; rs|apply IH in G1; rs]).
        destruct (_ >=? _); [apply fr_setHeight in G|injection G as <- <-]; rs. }
    destruct H as [(x & -> & -> & ->)|(-> & H)]; [rs|].
    destruct (isStale _ _); [apply lift_cases in H as [H%fr_heapAddIfNotPresent _]|injection H as <- <-]; rs.
  Qed.

  Lemma fr_addChildWithoutAdjustingHeights fuel s c p s' e :
    addChildWithoutAdjustingHeights fuel s c p = Ok (s', e) -> R s s'.
  Proof.
    unfold addChildWithoutAdjustingHeights. intros H.
    pose proof (fr_link s c p) as Hl.
    destruct (isNecessary _); [injection H as <- <-|apply fr_becameNecessaryRecursive in H];
      destruct (valid _); rs.
  Qed.

  Lemma fr_adjAdd s n s' : adjAdd s n = Ok s' -> R s s'.
  Proof.
    unfold adjAdd. destruct (negb _); [intros [= <-]; rs|].
    destruct (_ <? 0); [discriminate|]. destruct (_ !! _); [|discriminate]. intros [= <-]. rs.
  Qed.

  Lemma fr_ensureHeightRequirement s o c p s' e :
    ensureHeightRequirement s o c p = Ok (s', e) -> R s s'.
  Proof.
    unfold ensureHeightRequirement, fail, ok. destruct (bool_decide _); [intros [= <- <-]; rs|].
    destruct (_ >=? _); [|intros [= <- <-]; rs]. intros H.
    apply ebind_cases in H as (s1 & e1 & [H1%fr_adjAdd ->]%lift_cases & [(x & [=] & _)|(_ & H%fr_setHeight)]).
    rs.
  Qed.

  Lemma fr_adjRemoveMin s o s' : adjRemoveMin s = Ok (o, s') -> R s s'.
  Proof.
    unfold adjRemoveMin. destruct (_ =? 0); [intros [= <- <-]; rs|].
    destruct (_ <? 0); [discriminate|]. destruct (adjScan _ _ _) as [[[x n] b']|]; intros [= <- <-]; rs.
  Qed.

  Lemma fr_adjustLoop fuel : forall s o s' e, adjustLoop fuel s o = Ok (s', e) -> R s s'.
  Proof.
    induction fuel as [|fuel IH]; intros s o s' e H; [discriminate|]. cbn [adjustLoop] in H.
    destruct (_ <=? 0); [injection H as <- <-; rs|].
    apply rbind_ok in H as ([popped s1] & H1%fr_adjRemoveMin & H).
    destruct popped as [p|]; [|discriminate].
    apply ebind_cases in H as (s2 & e2 & [H2 ->]%lift_cases & [(x & [=] & _)|(_ & H)]).
    assert (RR6 : R s1 s2) by (destruct (inHeap s1 p); [apply fr_heapFix in H2|injection H2 as <-]; rs).
    apply ebind_cases in H as (s3 & e3 & H3 & H).
    assert (RR7 : R s2 s3).
    { revert H3. apply fr_efold. intros ? ? ? ?. apply fr_ensureHeightRequirement. }
    destruct H as [(x & -> & -> & ->)|(-> & H)]; [rs|].
    apply ebind_cases in H as (s4 & e4 & H4 & H).
    assert (RR8 : R s3 s4).
    { destruct (nkind (nd s3 p)); try (injection H4 as <- <-; rs).
      revert H4. apply fr_efold. intros ? ? ? ?.
      destruct (isNecessary _); [apply fr_ensureHeightRequirement|intros [= <- <-]; rs]. }
    destruct H as [(x & -> & -> & ->)|(-> & H%IH)]; rs.
  Qed.

  Lemma fr_adjustHeights fuel s c p s' e : adjustHeights fuel s c p = Ok (s', e) -> R s s'.
  Proof.
    unfold adjustHeights. intros H.
    apply ebind_cases in H as (s1 & e1 & H1%fr_ensureHeightRequirement & [(x & -> & -> & ->)|(-> & H%fr_adjustLoop)]); rs.
  Qed.

  Lemma fr_addChild fuel s c p s' e : addChild fuel s c p = Ok (s', e) -> R s s'.
  Proof.
    unfold addChild. intros H.
    apply ebind_cases in H as (s1 & e1 & H1%fr_addChildWithoutAdjustingHeights & [(x & -> & -> & ->)|(-> & H)]); [rs|].
    apply ebind_cases in H as (s2 & e2 & H2 & H).
    assert (RR9 : R s1 s2) by (destruct (_ >=? _); [apply fr_adjustHeights in H2|injection H2 as <- <-]; rs).
    destruct H as [(x & -> & -> & ->)|(-> & H)]; [rs|].
    apply ebind_cases in H as (s3 & e3 & [H3%fr_propagateInvalidity ->]%lift_cases & [(x & [=] & _)|(_ & H)]).
    destruct (_ || _); [apply lift_cases in H as [H%fr_heapAddIfNotPresent _]|injection H as <- <-]; rs.
  Qed.

  Lemma fr_changeParent fuel s c o n s' e : changeParent fuel s c o n = Ok (s', e) -> R s s'.
  Proof.
    unfold changeParent. intros H. destruct o as [o|], n as [n|].
    - destruct (bool_decide _); [injection H as <- <-; rs|].
      pose proof (fr_unlink s c o).
      apply ebind_cases in H as (s1 & e1 & H1%fr_addChild & [(x & -> & -> & ->)|(-> & H)]); [rs|].
      apply lift_cases in H as [H%fr_checkIfUnnecessary _]. rs.
    - pose proof (fr_unlink s c o). apply lift_cases in H as [H%fr_checkIfUnnecessary _]. rs.
    - apply fr_addChild in H. rs.
    - injection H as <- <-. rs.
  Qed.

  Lemma fr_newNode s k d sc v : R s (fst (newNode s k d sc v)).
  Proof.
    unfold newNode. pose proof (R_newNode s (fresh_node k d sc v)). destruct sc; cbn [fst]; rs.
  Qed.

  Lemma fr_newBindWith memo s cases a sc : R s (fst (newBindWith memo s cases a sc)).
  Proof.
    unfold newBindWith.
    pose proof (R_newBindrec s (mkBind a (next s) (S (next s)) None [] cases 0%nat memo [])) as H0.
    set (s0 := s <| binds := _ |>) in *.
    pose proof (fr_newNode s0 (KBindLhs (next s)) [a] sc 0) as H1.
    destruct (newNode s0 _ _ _ _) as [s1 n1]. cbn [fst] in H1.
    pose proof (fr_newNode s1 (KBindMain (next s)) [next s] sc 0). rs.
  Qed.

  Lemma fr_inst e : forall s sc x s' r, inst s sc x e = (s', r) -> R s s'.
  Proof.
    induction e as [k| |n|f e IH|f e1 IH1 e2 IH2|c e IH|cases e IH|]; intros s sc x s' r H; cbn [inst] in H.
    - pose proof (fr_newNode s KReturn [] sc k) as Hn. destruct (newNode _ _ _ _ _). injection H as <- <-. exact Hn.
    - pose proof (fr_newNode s KReturn [] sc x) as Hn. destruct (newNode _ _ _ _ _). injection H as <- <-. exact Hn.
    - injection H as <- <-. rs.
    - destruct (inst s sc x e) as [s1 a] eqn:E. apply IH in E.
      pose proof (fr_newNode s1 (KMap f) [default 0%nat a] sc 0) as Hn.
      destruct (newNode _ _ _ _ _). injection H as <- <-. cbn [fst] in Hn. rs.
    - destruct (inst s sc x e1) as [s1 a1] eqn:E1. apply IH1 in E1.
      destruct (inst s1 sc x e2) as [s2 a2] eqn:E2. apply IH2 in E2.
      pose proof (fr_newNode s2 (KMap2 f) [default 0%nat a1; default 0%nat a2] sc 0) as Hn.
      destruct (newNode _ _ _ _ _). injection H as <- <-. cbn [fst] in Hn. rs.
    - destruct (inst s sc x e) as [s1 a] eqn:E. apply IH in E.
      pose proof (fr_newNode s1 (KCutoff c) [default 0%nat a] sc 0) as Hn.
      destruct (newNode _ _ _ _ _). injection H as <- <-. cbn [fst] in Hn. rs.
    - destruct (inst s sc x e) as [s1 a] eqn:E. apply IH in E.
      pose proof (fr_newBindWith false s1 cases (default 0%nat a) sc) as Hn. fold newBind in Hn.
      destruct (newBind _ _ _ _). injection H as <- <-. cbn [fst] in Hn. rs.
    - injection H as <- <-. rs.
  Qed.

  Lemma fr_varSet s v x s' : okv v -> varSet s v x = Ok s' -> R s s'.
  Proof.
    intros Hokv.
    unfold varSet. destruct (_ && _ && _); [intros [= <-]; rs|].
    destruct (status s =? 1); [intros [= <-]; rs|].
    destruct (isNecessary _); [intros H%fr_setStale|intros [= <-]]; rs.
  Qed.

  Lemma fr_varUpdate s v d s' : okv v -> varUpdate s v d = Ok s' -> R s s'.
  Proof. apply fr_varSet. Qed.

  Lemma fr_applyActions_gen acts : Forall (act_ok okv) acts -> forall s f s' f',
    rfold (fun '(s, f) a =>
           match f with
           | Some _ => Ok (s, f)
           | None =>
             match a with
             | AFail k => Ok (s, Some k)
             | ASet v x => s <-! varSet s v x; Ok (s, None)
             | AUpdate v d => s <-! varUpdate s v d; Ok (s, None)
             end
           end) acts (s, f) = Ok (s', f') -> R s s'.
  Proof.
    induction acts as [|a acts IH]; intros Hacts s f s' f' H; cbn [rfold] in H.
    - injection H as <- <-. rs.
    - apply Forall_cons_1 in Hacts as [Ha Hacts].
      apply rbind_ok in H as ([s1 f1] & H1 & H%(IH Hacts)).
      assert (RR10 : R s s1); [|rs].
      destruct f; [injection H1 as <- <-; rs|].
      destruct a; [injection H1 as <- <-; rs| |];
        apply rbind_ok in H1 as (s2 & H2 & [= <- <-]); [apply fr_varSet in H2|apply fr_varUpdate in H2]; try exact Ha; rs.
  Qed.

  Lemma fr_applyActions s acts s' f : Forall (act_ok okv) acts -> applyActions s acts = Ok (s', f) -> R s s'.
  Proof. intros Ha. apply fr_applyActions_gen, Ha. Qed.

  Section WithPlan.
  Variable p : plan.
  Hypothesis Hp : planv okv p.

  Lemma fr_invoke s n w s' e : invoke p s n w = Ok (s', e) -> R s s'.
  Proof.
    unfold invoke. intros H. apply rbind_ok in H as ([s1 f] & H1%(fr_applyActions _ _ _ _ (Hp n w)) & H).
    destruct f as [[]|]; injection H as <- <-; rs.
  Qed.

  Lemma fr_bindLhsStabilize fuel s b s' e : bindLhsStabilize fuel p s b = Ok (s', e) -> R s s'.
  Proof.
    unfold bindLhsStabilize. intros H.
    apply rbind_ok in H as ([[s1 e1] built] & H1 & H).
    set (s0 := updb s b _) in *.
    assert (R01 : R s0 s1).
    { destruct (if b_memo (bd s b) then _ else _) as [[? [? root]]|].
      - injection H1 as <- <- <-. rs.
      - apply rbind_ok in H1 as ([s2 e2] & H2%fr_invoke & H1).
        destruct e2; [injection H1 as <- <- <-; rs|].
        destruct (inst s2 _ _ _) as [s3 root] eqn:E. apply fr_inst in E.
        injection H1 as <- <- <-. rs. }
    assert (RR11 : R s s1) by (unfold s0 in R01; rs). clear R01.
    destruct e1; [injection H as <- <-; rs|].
    destruct built as [root|]; [|discriminate].
    apply ebind_cases in H as (s2 & e2 & H2%fr_changeParent & [(x & -> & -> & ->)|(-> & H)]); [rs|].
    apply ebind_cases in H as (s3 & e3 & [H3 ->]%lift_cases & [(x & [=] & _)|(_ & H)]).
    apply lift_cases in H as [H%fr_propagateInvalidity _].
    assert (RR12 : R s2 s3); [|rs].
    destruct (b_rhs (bd s b)); [|injection H3 as <-; rs].
    revert H3. apply fr_rfold. intros ? ? ?. apply fr_invalidateNode.
  Qed.

  Lemma fr_stabilizeNode fuel s n s' e : stabilizeNode fuel p s n = Ok (s', e) -> R s s'.
  Proof.
    unfold stabilizeNode, ok, fail. intros H. destruct (nkind (nd s n)).
    - destruct (pending _); [destruct (_ =? _)|]; injection H as <- <-; rs.
    - injection H as <- <-; rs.
    - apply rbind_ok in H as ([s1 e1] & H1%fr_invoke & H). destruct e1; injection H as <- <-; rs.
    - apply rbind_ok in H as ([s1 e1] & H1%fr_invoke & H). destruct e1; injection H as <- <-; rs.
    - apply rbind_ok in H as ([s1 e1] & H1%fr_invoke & H). destruct e1; injection H as <- <-; rs.
    - injection H as <- <-; rs.
    - injection H as <- <-; rs.
    - eapply fr_bindLhsStabilize, H.
    - injection H as <- <-; rs.
  Qed.

  Lemma fr_recomputeFailed s n prev s' : recomputeFailed s n prev = Ok s' -> R s s'.
  Proof. unfold recomputeFailed. intros H%fr_heapAddIfNotPresent. rs. Qed.

  Lemma fr_errorHandlers s n : R s (errorHandlers s n).
  Proof. unfold errorHandlers. destruct (nkind _); rs. Qed.

  Lemma fr_childrenLoop_gen l : forall s held s' held',
    rfold (fun '(s, held) c =>
           if bool_decide (held = Some c) then Ok (s, held)
           else if negb (shouldRecomputeChild s c) then Ok (s, held)
           else
             s <-! (match held with Some h => heapAdd s h | None => Ok s end);
             Ok (s, Some c)) l (s, held) = Ok (s', held') -> R s s'.
  Proof.
    induction l as [|c l IH]; intros s held s' held' H; cbn [rfold] in H.
    - injection H as <- <-. rs.
    - apply rbind_ok in H as ([s1 h1] & H1 & H%IH). assert (RR13 : R s s1); [|rs].
      destruct (bool_decide _); [injection H1 as <- <-; rs|].
      destruct (negb _); [injection H1 as <- <-; rs|].
      apply rbind_ok in H1 as (s2 & H2 & [= <- <-]).
      destruct held; [apply fr_heapAdd in H2|injection H2 as <-]; rs.
  Qed.

  Lemma fr_childrenLoop s n s' held : childrenLoop s n = Ok (s', held) -> R s s'.
  Proof. apply fr_childrenLoop_gen. Qed.

  Lemma fr_insert_handler k s : R s (insert_handler k s).
  Proof. unfold insert_handler. rs. Qed.

  Lemma fr_insert_handlers l : forall s, R s (foldl (fun s o => insert_handler o s) s l).
  Proof.
    induction l as [|o l IH]; intros s; cbn [foldl]; [rs|].
    eapply R_trans; [apply (fr_insert_handler o)|apply IH].
  Qed.

  (* the shared front part of recomputeNodeSerial / recomputeNodeParallel *)
  Lemma fr_maybeCutoff s0 n (x : node) s1 e cut :
    match nkind x with
    | KCutoff c =>
      '(s, e) <-! invoke p s0 n WCut;
      match e with
      | Some e => Ok (s, Some e, false)
      | None => let v := apCut c (value x) (valueOf s0 (hd 0%nat (decl x))) in
                Ok (emit (EvCutoff n (value x) (valueOf s0 (hd 0%nat (decl x))) v) s, None, v)
      end
    | _ => Ok (s0, None, false)
    end = Ok (s1, e, cut) -> R s0 s1.
  Proof.
    intros H. destruct (nkind x); try (injection H as <- <- <-; rs).
    apply rbind_ok in H as ([s2 e2] & H2%fr_invoke & H).
    destruct e2; injection H as <- <- <-; rs.
  Qed.

  Lemma fr_recomputeNodeSerial fuel s n s' e imm :
    recomputeNodeSerial fuel p s n = Ok (s', e, imm) -> R s s'.
  Proof.
    unfold recomputeNodeSerial. intros H.
    apply rbind_ok in H as ([[s1 e1] cut] & H1%fr_maybeCutoff & H).
    assert (R01 : R s s1) by rs. clear H1.
    assert (Hfail : forall s2 (e2 : err) s' e imm, R s s2 ->
      match e2 with
      | EPanic m => Ok (s2, Some (EPanic m), @None nid)
      | _ => s3 <-! recomputeFailed s2 n (recomputedAt (nd s n)); Ok (errorHandlers s3 n, Some e2, @None nid)
      end = Ok (s', e, imm) -> R s s').
    { intros s2 e2 t' e' imm' HR G.
      pose proof (fun s3 => fr_errorHandlers s3 n) as He.
      destruct e2; try (apply rbind_ok in G as (s3 & H3%fr_recomputeFailed & [= <- <- <-]);
                        specialize (He s3); rs).
      injection G as <- <- <-. rs. }
    destruct e1 as [e1|]; [eapply Hfail; [exact R01|exact H]|].
    destruct cut; [injection H as <- <- <-; rs|].
    apply rbind_ok in H as ([s2 e2] & H2%fr_stabilizeNode & H).
    destruct e2 as [e2|]; [eapply Hfail; [|exact H]; rs|].
    apply rbind_ok in H as ([s3 held] & H3%fr_childrenLoop & H).
    apply rbind_ok in H as ([s4 imm4] & H4 & [= <- <- <-]).
    pose proof (fr_insert_handlers (observers (nd s4 n)) s4).
    assert (RR14 : R s3 s4); [|rs].
    destruct held as [h|]; [|injection H4 as <- <-; rs].
    destruct (canRecomputeImmediately _ _ _); [injection H4 as <- <-; rs|].
    apply rbind_ok in H4 as (s5 & H5%fr_heapAdd & [= <- <-]). rs.
  Qed.

  Lemma fr_recomputeChain fuel : forall s n s' e at_,
    recomputeChain fuel p s n = Ok (s', e, at_) -> R s s'.
  Proof.
    induction fuel as [|fuel IH]; intros s n s' e at_ H; [discriminate|]. cbn [recomputeChain] in H.
    apply rbind_ok in H as ([[s1 e1] imm] & H1%fr_recomputeNodeSerial & H).
    destruct e1; [injection H as <- <- <-; rs|].
    destruct imm; [apply IH in H|injection H as <- <- <-]; rs.
  Qed.

  Lemma fr_passLoop fuel : forall s always s' e at_ always',
    passLoop fuel p s always = Ok (s', e, at_, always') -> R s s'.
  Proof.
    induction fuel as [|fuel IH]; intros s always s' e at_ always' H; [discriminate|]. cbn [passLoop] in H.
    destruct (_ <=? 0); [injection H as <- <- <- <-; rs|].
    destruct (Heap.removeMin _) as [[n w]|]; [|discriminate].
    apply rbind_ok in H as ([[s1 e1] at1] & H1%fr_recomputeChain & H).
    destruct e1; [injection H as <- <- <- <-|apply IH in H]; rs.
  Qed.

  Lemma fr_recomputeNodeParallel fuel s n s' e :
    recomputeNodeParallel fuel p s n = Ok (s', e) -> R s s'.
  Proof.
    unfold recomputeNodeParallel. intros H.
    apply rbind_ok in H as ([[s1 e1] cut] & H1%fr_maybeCutoff & H).
    assert (R01 : R s s1) by rs. clear H1.
    assert (Hfail : forall s2 (e2 : err) s' e, R s s2 ->
      match e2 with
      | EPanic m => s3 <-! heapAddIfNotPresent (upd s2 n (set recomputedAt (fun _ => 0))) n;
                    Ok (errorHandlers s3 n, Some (EPanic m))
      | _ => s3 <-! recomputeFailed s2 n (recomputedAt (nd s n)); Ok (errorHandlers s3 n, Some e2)
      end = Ok (s', e) -> R s s').
    { intros s2 e2 t' e' HR G.
      pose proof (fun s3 => fr_errorHandlers s3 n) as He.
      destruct e2; try (apply rbind_ok in G as (s3 & H3%fr_recomputeFailed & [= <- <-]);
                        specialize (He s3); rs). }
    destruct e1 as [e1|]; [eapply Hfail; [exact R01|exact H]|].
    destruct cut; [injection H as <- <-; rs|].
    apply rbind_ok in H as ([s2 e2] & H2%fr_stabilizeNode & H).
    destruct e2 as [e2|]; [eapply Hfail; [|exact H]; rs|].
    apply rbind_ok in H as (s3 & H3 & [= <- <-]).
    pose proof (fr_insert_handlers (observers (nd s3 n)) s3).
    eapply R_trans; [|exact H]. eapply R_trans; cycle 1.
    { eapply fr_rfold; [|exact H3]. intros s4 c s5 G. cbv beta in G.
      destruct (shouldRecomputeChild s4 c); [apply fr_heapAdd in G|injection G as <-]; rs. }
    rs.
  Qed.

  Lemma fr_parBlock fuel block : forall s e always s' e' always',
    rfold (fun '(s, e, always) n =>
                if height (nd s n) =? unset then Ok (s, e, always) else
                '(s, e') <-! recomputeNodeParallel fuel p s n;
                let always := if isAlways (nkind (nd s n)) then always ++ [n] else always in
                Ok (s, match e with Some _ => e | None => e' end, always))
          block (s, e, always) = Ok (s', e', always') -> R s s'.
  Proof.
    induction block as [|n l IH]; intros s e always s' e' always' H; cbn [rfold] in H.
    - injection H as <- <- <-. rs.
    - apply rbind_ok in H as ([[s1 e1] a1] & H1 & H%IH).
      destruct (_ =? unset); [injection H1 as <- <- <-; rs|].
      apply rbind_ok in H1 as ([s2 e2] & H2%fr_recomputeNodeParallel & [= <- <- <-]). rs.
  Qed.

  Lemma fr_parLoop fuel : forall s always s' e always',
    parLoop fuel p s always = Ok (s', e, always') -> R s s'.
  Proof.
    induction fuel as [|fuel IH]; intros s always s' e always' H; [discriminate|]. cbn [parLoop] in H.
    destruct (_ <=? 0); [injection H as <- <- <-; rs|].
    destruct (Heap.takeMinBlock _) as [block w].
    apply rbind_ok in H as ([[s1 e1] a1] & H1%fr_parBlock & H).
    destruct e1; [injection H as <- <- <-|apply IH in H]; rs.
  Qed.
  End WithPlan.
End Frame.

(** ** The pass frame: what no function called from a pass loop changes.
    [obs], [stabNum], [status], [maxHeight] are fixed; node records are never dropped; the
    log only grows, and by events other than the handler / bracket events; and (when ids are
    below the creation counter) the kind and scope of an existing node never change. *)
Definition ids_below (s : state) : Prop := forall n, is_Some (nodes s !! n) -> (n < next s)%nat.

Definition pframe (s s' : state) : Prop :=
  obs s' = obs s /\ stabNum s' = stabNum s /\ status s' = status s /\ maxHeight s' = maxHeight s /\
  (next s <= next s')%nat /\
  (forall n, is_Some (nodes s !! n) -> is_Some (nodes s' !! n)) /\
  (ids_below s -> ids_below s' /\
     forall n, is_Some (nodes s !! n) ->
               nkind (nd s' n) = nkind (nd s n) /\ scope (nd s' n) = scope (nd s n)) /\
  exists L, log s' = L ++ log s /\ Forall passEv L.

Lemma pframe_refl s : pframe s s.
Proof.
  repeat split; auto. exists []. split; [reflexivity|constructor].
Qed.

Lemma pframe_trans s1 s2 s3 : pframe s1 s2 -> pframe s2 s3 -> pframe s1 s3.
Proof.
  intros (A1 & A2 & A3 & A4 & A5 & A6 & A7 & L1 & A8 & A9) (B1 & B2 & B3 & B4 & B5 & B6 & B7 & L2 & B8 & B9).
  split; [congruence|]. split; [congruence|]. split; [congruence|]. split; [congruence|].
  split; [lia|]. split; [auto|]. split.
  - intros I1. destruct (A7 I1) as [I2 K1]. destruct (B7 I2) as [I3 K2]. split; [exact I3|].
    intros n Hn. destruct (K1 n Hn) as [E1 E2]. destruct (K2 n (A6 n Hn)) as [F1 F2]. split; congruence.
  - exists (L2 ++ L1). split; [rewrite B8, A8, app_assoc; reflexivity|apply Forall_app; auto].
Qed.

(* a state that differs from [s] only in fields the frame does not mention *)
Lemma pframe_same s s' :
  obs s' = obs s -> stabNum s' = stabNum s -> status s' = status s -> maxHeight s' = maxHeight s ->
  next s' = next s -> nodes s' = nodes s -> log s' = log s -> pframe s s'.
Proof.
  intros E1 E2 E3 E4 E5 E6 E7. unfold pframe, ids_below, nd. rewrite E1, E2, E3, E4, E5, E6, E7.
  repeat split; auto. exists []. split; [reflexivity|constructor].
Qed.

Lemma pframe_upd s n f :
  (forall x, nkind (f x) = nkind x) -> (forall x, scope (f x) = scope x) -> pframe s (upd s n f).
Proof.
  intros Hk Hs. unfold pframe.
  split; [reflexivity|]. split; [reflexivity|]. split; [reflexivity|]. split; [reflexivity|].
  split; [reflexivity|]. split; [|split].
  - intros m. apply some_upd.
  - intros I. split.
    + intros m Hm. apply (proj1 (some_upd s n f m)) in Hm. apply I, Hm.
    + intros m _. split; [apply (nd_upd_keep nkind), Hk|apply (nd_upd_keep scope), Hs].
  - exists []. split; [reflexivity|constructor].
Qed.

Lemma pframe_emit s e : passEv e -> pframe s (emit e s).
Proof.
  intros He. unfold pframe. cbn. repeat split; auto.
  exists [e]. split; [reflexivity|repeat constructor; exact He].
Qed.

Lemma pframe_newNode s x : pframe s (s <| nodes := <[next s := x]> (nodes s) |> <| next := S (next s) |>).
Proof.
  unfold pframe, ids_below, nd. cbn. split; [reflexivity|]. split; [reflexivity|].
  split; [reflexivity|]. split; [reflexivity|]. split; [lia|]. split; [|split].
  - intros n Hn. destruct (decide (n = next s)) as [->|Hne].
    + rewrite lookup_insert. eauto.
    + rewrite lookup_insert_ne by congruence. exact Hn.
  - intros I. split.
    + intros n Hn. destruct (decide (n = next s)) as [->|Hne]; [lia|].
      rewrite lookup_insert_ne in Hn by congruence. apply I in Hn. lia.
    + intros n Hn. pose proof (I n Hn). rewrite lookup_insert_ne by lia. auto.
  - exists []. split; [reflexivity|constructor].
Qed.

Lemma pframe_hyps : frame_hyps pframe (fun _ _ => True) (fun _ => True).
Proof.
  split; first [exact pframe_refl|exact pframe_trans|exact pframe_upd|exact pframe_emit|exact pframe_newNode
               |intros; exact I|intros; apply pframe_same; reflexivity].
Qed.

Lemma planv_True p : planv (fun _ => True) p.
Proof. intros n w. apply Forall_forall. intros [] _; exact I. Qed.

Lemma pf_stabilizeNode fuel p s n s' e : stabilizeNode fuel p s n = Ok (s', e) -> pframe s s'.
Proof. eapply fr_stabilizeNode; [exact pframe_hyps|apply planv_True]. Qed.
Lemma pf_recomputeNodeSerial fuel p s n s' e imm :
  recomputeNodeSerial fuel p s n = Ok (s', e, imm) -> pframe s s'.
Proof. eapply fr_recomputeNodeSerial; [exact pframe_hyps|apply planv_True]. Qed.
Lemma pf_recomputeChain fuel p s n s' e at_ :
  recomputeChain fuel p s n = Ok (s', e, at_) -> pframe s s'.
Proof. eapply fr_recomputeChain; [exact pframe_hyps|apply planv_True]. Qed.
Lemma pf_passLoop fuel p s always s' e at_ always' :
  passLoop fuel p s always = Ok (s', e, at_, always') -> pframe s s'.
Proof. eapply fr_passLoop; [exact pframe_hyps|apply planv_True]. Qed.
Lemma pf_recomputeNodeParallel fuel p s n s' e :
  recomputeNodeParallel fuel p s n = Ok (s', e) -> pframe s s'.
Proof. eapply fr_recomputeNodeParallel; [exact pframe_hyps|apply planv_True]. Qed.
Lemma pf_parLoop fuel p s always s' e always' :
  parLoop fuel p s always = Ok (s', e, always') -> pframe s s'.
Proof. eapply fr_parLoop; [exact pframe_hyps|apply planv_True]. Qed.
Lemma pf_bindLhsStabilize fuel p s b s' e : bindLhsStabilize fuel p s b = Ok (s', e) -> pframe s s'.
Proof. eapply fr_bindLhsStabilize; [exact pframe_hyps|apply planv_True]. Qed.
Lemma pf_invalidateNode fuel s n s' : invalidateNode fuel s n = Ok s' -> pframe s s'.
Proof. eapply fr_invalidateNode; exact pframe_hyps. Qed.
Lemma pf_removeParents fuel s n s' : removeParents fuel s n = Ok s' -> pframe s s'.
Proof. eapply fr_removeParents; exact pframe_hyps. Qed.
Lemma pf_invoke p s n w s' e : invoke p s n w = Ok (s', e) -> pframe s s'.
Proof. eapply fr_invoke; [exact pframe_hyps|apply planv_True]. Qed.

(** * 2. More basics: states that differ in the heap only; [setStale]; [wfb] clauses *)

Lemma set_heap_id (s : state) : s <| heap := heap s |> = s.
Proof. destruct s; reflexivity. Qed.

Definition heapOnly (s s' : state) : Prop := exists w, s' = s <| heap := w |>.

Lemma heapOnly_refl s : heapOnly s s.
Proof. exists (heap s). symmetry. apply set_heap_id. Qed.

Lemma heapOnly_trans s1 s2 s3 : heapOnly s1 s2 -> heapOnly s2 s3 -> heapOnly s1 s3.
Proof. intros [w1 ->] [w2 ->]. exists w2. destruct s1; reflexivity. Qed.

Lemma heapOnly_nd s s' m : heapOnly s s' -> nd s' m = nd s m.
Proof. intros [w ->]. reflexivity. Qed.

Lemma heapOnly_nodes s s' : heapOnly s s' -> nodes s' = nodes s.
Proof. intros [w ->]. reflexivity. Qed.

Lemma heapAdd_heapOnly s n s' : heapAdd s n = Ok s' -> heapOnly s s'.
Proof. unfold heapAdd. intros H. apply rbind_ok in H as (w & _ & [= <-]). exists w. reflexivity. Qed.

Lemma heapAddIfNotPresent_heapOnly s n s' : heapAddIfNotPresent s n = Ok s' -> heapOnly s s'.
Proof.
  unfold heapAddIfNotPresent. destruct (inHeap s n); [intros [= <-]; apply heapOnly_refl|apply heapAdd_heapOnly].
Qed.

Lemma heapAdd_inHeap s n s' m : heapAdd s n = Ok s' -> inHeap s' m = (bool_decide (m = n) || inHeap s m).
Proof.
  unfold heapAdd, inHeap. intros H. apply rbind_ok in H as (w & Hw & [= <-]). cbn.
  eapply mem_add, Hw.
Qed.

Lemma heapAddIfNotPresent_inHeap s n s' m :
  heapAddIfNotPresent s n = Ok s' -> inHeap s' m = (bool_decide (m = n) || inHeap s m).
Proof.
  unfold heapAddIfNotPresent. destruct (inHeap s n) eqn:E; [|apply heapAdd_inHeap].
  intros [= <-]. destruct (decide (m = n)) as [->|Hne].
  - rewrite E, bool_decide_eq_true_2 by reflexivity. reflexivity.
  - rewrite bool_decide_eq_false_2 by exact Hne. reflexivity.
Qed.

Lemma heapRemove_inHeap s n s' m :
  heapRemove s n = Ok s' -> inHeap s' m = (negb (bool_decide (m = n)) && inHeap s m).
Proof.
  unfold heapRemove, inHeap. intros H. apply rbind_ok in H as (w & Hw & [= <-]). cbn.
  eapply mem_remove, Hw.
Qed.

Lemma heapAdd_total s n : 0 <= height (nd s n) -> exists s', heapAdd s n = Ok s'.
Proof.
  intros Hh. unfold heapAdd. destruct (add_ok (heap s) n _ Hh) as [w ->]. cbn. eauto.
Qed.

(* SetStale: either nothing, or the stamp and (perhaps) one heap insertion *)
Lemma setStale_spec s n s' :
  setStale s n = Ok s' ->
  (height (nd s n) = unset /\ s' = s) \/
  (height (nd s n) <> unset /\ heapOnly (upd s n (set setAt (fun _ => stabNum s))) s' /\ inHeap s' n = true).
Proof.
  unfold setStale. destruct (Z.eqb_spec (height (nd s n)) unset) as [E|E]; [intros [= <-]; auto|].
  right. split; [exact E|]. destruct (inHeap _ n) eqn:Hin.
  - injection H as <-. split; [apply heapOnly_refl|exact Hin].
  - split; [eapply heapAdd_heapOnly, H|]. erewrite heapAdd_inHeap by exact H.
    rewrite bool_decide_eq_true_2 by reflexivity. reflexivity.
Qed.

Lemma setStale_total s n : -1 <= height (nd s n) -> exists s', setStale s n = Ok s'.
Proof.
  intros Hh. unfold setStale. destruct (Z.eqb_spec (height (nd s n)) unset) as [E|E]; [eauto|].
  destruct (inHeap _ n); [eauto|]. apply heapAdd_total.
  rewrite (nd_upd_keep height) by (intros []; reflexivity). unfold unset in E. lia.
Qed.

(* what SetStale leaves alone: every node field but [setAt] *)
Lemma setStale_nd s n s' m :
  setStale s n = Ok s' -> exists a, nd s' m = nd s m <| setAt := a |>.
Proof.
  intros [[_ ->]|(_ & Ho & _)]%setStale_spec.
  - exists (setAt (nd s m)). destruct (nd s m); reflexivity.
  - rewrite (heapOnly_nd _ _ m Ho), nd_upd_if. destruct (decide (m = n)) as [->|Hne].
    + destruct (nodes s !! n) eqn:E.
      * eexists. reflexivity.
      * exists (setAt dummy). unfold nd. rewrite E. reflexivity.
    + exists (setAt (nd s m)). destruct (nd s m); reflexivity.
Qed.

Lemma isVar_upd s n f w : (forall x, nkind (f x) = nkind x) -> isVar (upd s n f) w = isVar s w.
Proof.
  intros Hk. unfold isVar. rewrite nodes_upd_if. destruct (decide (w = n)) as [->|]; [|reflexivity].
  destruct (nodes s !! n); cbn; [rewrite Hk|]; reflexivity.
Qed.

Lemma isVar_heapOnly s s' w : heapOnly s s' -> isVar s' w = isVar s w.
Proof. intros [x ->]. reflexivity. Qed.

Lemma setStale_isVar s n s' w : setStale s n = Ok s' -> isVar s' w = isVar s w.
Proof.
  intros [[_ ->]|(_ & Ho & _)]%setStale_spec; [reflexivity|].
  rewrite (isVar_heapOnly _ _ w Ho). apply isVar_upd. intros []; reflexivity.
Qed.

(** the clauses of [wfb] *)
Lemma wfb_clauses s : wfb s = true ->
  edges_symmetric s = true /\ unregistered_zeroed s = true /\ registered_iff_necessary s = true /\
  parents_are_declared s = true /\ heights_ordered s = true /\ queued_ok s = true /\
  counts_ok s = true /\ transients_empty s = true /\ observers_ok s = true /\ binds_ok s = true.
Proof.
  unfold wfb, codes. intros H%bool_decide_eq_true.
  destruct (edges_symmetric s); [|discriminate].
  destruct (unregistered_zeroed s); [|discriminate].
  destruct (registered_iff_necessary s); [|discriminate].
  destruct (parents_are_declared s); [|discriminate].
  destruct (heights_ordered s); [|discriminate].
  destruct (queued_ok s); [|discriminate].
  destruct (counts_ok s); [|discriminate].
  destruct (transients_empty s); [|discriminate].
  destruct (observers_ok s); [|discriminate].
  destruct (binds_ok s); [|discriminate].
  repeat split.
Qed.

Lemma elem_allNodes s n : n ∈ allNodes s <-> (is_Some (nodes s !! n) /\ (n < next s)%nat).
Proof. unfold allNodes. rewrite elem_of_list_filter, elem_of_seq. intuition lia. Qed.

Lemma forallb_elem {A} (f : A -> bool) l x : forallb f l = true -> x ∈ l -> f x = true.
Proof. intros H Hx. rewrite forallb_forall in H. apply H, elem_of_list_In, Hx. Qed.

(* a registered (= necessary) node of a well-formed state has a proper height *)
Lemma wfb_necessary_height s n :
  wfb s = true -> is_Some (nodes s !! n) -> (n < next s)%nat ->
  isNecessary (nd s n) = true -> 0 <= height (nd s n).
Proof.
  intros (_ & _ & Q3 & _ & Q5 & _)%wfb_clauses Hs Hn Hnec.
  assert (Hin : n ∈ allNodes s) by (apply elem_allNodes; auto).
  pose proof (forallb_elem _ _ _ Q3 Hin) as E3. pose proof (forallb_elem _ _ _ Q5 Hin) as E5.
  cbv beta zeta in E3, E5. rewrite Hnec in E3. destruct (inGraph (nd s n)); [|discriminate]. cbn in E5.
  apply andb_true_iff in E5 as [E5 _]. apply andb_true_iff in E5 as [E5 _]. apply andb_true_iff in E5 as [E5 _]. lia.
Qed.

Lemma wfb_transients s : wfb s = true ->
  status s = 0 /\ setDuring s = [] /\ setRemoved s = [] /\ handlers s = [] /\ invq s = [].
Proof.
  intros (_ & _ & _ & _ & _ & _ & _ & Q8 & _)%wfb_clauses. unfold transients_empty in Q8.
  repeat (apply andb_true_iff in Q8 as [Q8 ?]).
  repeat match goal with H : bool_decide _ = true |- _ => apply bool_decide_eq_true in H end.
  repeat split; auto. lia.
Qed.

(** * 3. C12: var writes *)

(* the VarEqual test that makes a write a no-op *)
Definition eqNoop (s : state) (v : nid) (x : Z) : bool :=
  match nkind (nd s v) with KVar e => e | _ => false end
  && negb (bool_decide (is_Some (pending (nd s v)))) && (value (nd s v) =? x).

(* the state a deferred (mid-pass) write produces *)
Definition deferSet (s : state) (v : nid) (x : Z) : state :=
  (upd s v (set pending (fun _ => Some x))) <| setDuring := insert_sorted v (setDuring s) |>.

(* the effective value of a var: the deferred one when there is one *)
Definition cur (s : state) (v : nid) : Z :=
  match pending (nd s v) with Some p => p | None => value (nd s v) end.

Lemma varSet_unfold s v x :
  varSet s v x =
  if eqNoop s v x then Ok s
  else if status s =? 1 then Ok (deferSet s v x)
  else let s1 := upd s v (set value (fun _ => x)) in
       if isNecessary (nd s1 v) then setStale s1 v else Ok s1.
Proof. reflexivity. Qed.

Lemma varUpdate_unfold s v d : varUpdate s v d = varSet s v (norm (cur s v + d)).
Proof. reflexivity. Qed.

Lemma varSet_status s v x s' : varSet s v x = Ok s' -> status s' = status s.
Proof.
  rewrite varSet_unfold. destruct (eqNoop s v x); [intros [= <-]; reflexivity|].
  destruct (status s =? 1); [intros [= <-]; reflexivity|]. cbv zeta.
  destruct (isNecessary _); [|intros [= <-]; reflexivity].
  intros [[_ ->]|(_ & [w ->] & _)]%setStale_spec; reflexivity.
Qed.

Lemma varSet_isVar s v x s' w : varSet s v x = Ok s' -> isVar s' w = isVar s w.
Proof.
  rewrite varSet_unfold. destruct (eqNoop s v x); [intros [= <-]; reflexivity|].
  destruct (status s =? 1).
  { intros [= <-]. unfold deferSet. change (isVar (upd s v (set pending (fun _ => Some x))) w = isVar s w).
    apply isVar_upd. intros []; reflexivity. }
  cbv zeta. destruct (isNecessary _).
  - intros H. rewrite (setStale_isVar _ _ _ w H). apply isVar_upd. intros []; reflexivity.
  - intros [= <-]. apply isVar_upd. intros []; reflexivity.
Qed.

Lemma proj_setAt_value (y : node) a : value (y <| setAt := a |>) = value y.
Proof. destruct y; reflexivity. Qed.

(** C12.1: a write between passes is the var's value at once; last write wins *)
Lemma C12_set_between_passes s v x s' :
  status s = 0 -> isVar s v = true -> varSet s v x = Ok s' -> value (nd s' v) = x.
Proof.
  intros Hst Hv. pose proof (isVar_some _ _ Hv) as Hs. rewrite varSet_unfold.
  destruct (eqNoop s v x) eqn:En.
  { intros [= <-]. unfold eqNoop in En. apply andb_true_iff in En as [_ En]. lia. }
  rewrite Hst. change (0 =? 1) with false. cbv iota zeta.
  assert (Hval : value (nd (upd s v (set value (fun _ => x))) v) = x).
  { rewrite nd_upd_same by exact Hs. destruct (nd s v); reflexivity. }
  destruct (isNecessary _); [|intros [= <-]; exact Hval].
  intros H. destruct (setStale_nd _ _ _ v H) as [a ->].
  etransitivity; [apply proj_setAt_value|exact Hval].
Qed.

Lemma run_SetVar_cons s v x xs :
  isVar s v = true ->
  run s (map (SetVar v) (x :: xs)) = (s1 <-! varSet s v x; run s1 (map (SetVar v) xs)).
Proof.
  intros Hv. cbn [map run op_ok step]. rewrite Hv. unfold lift, ok.
  destruct (varSet s v x); reflexivity.
Qed.

Lemma C12_last_write_wins v : forall xs x s s',
  status s = 0 -> isVar s v = true ->
  run s (map (SetVar v) (xs ++ [x])) = Ok s' ->
  value (nd s' v) = x /\ status s' = 0 /\ isVar s' v = true.
Proof.
  induction xs as [|y xs IH]; intros x s s' Hst Hv H.
  - cbn [app] in H. rewrite run_SetVar_cons in H by exact Hv.
    apply rbind_ok in H as (s1 & H1 & [= <-]).
    split; [eapply C12_set_between_passes; eauto|].
    split; [rewrite (varSet_status _ _ _ _ H1); exact Hst|rewrite (varSet_isVar _ _ _ _ v H1); exact Hv].
  - cbn [app] in H. rewrite run_SetVar_cons in H by exact Hv.
    apply rbind_ok in H as (s1 & H1 & H). apply IH in H; [exact H| |].
    + rewrite (varSet_status _ _ _ _ H1); exact Hst.
    + rewrite (varSet_isVar _ _ _ _ v H1); exact Hv.
Qed.

(** C12.2: a write never faults *)
Lemma varSet_total_when s v x :
  (isNecessary (nd s v) = true -> -1 <= height (nd s v)) -> exists s', varSet s v x = Ok s'.
Proof.
  intros Hh. rewrite varSet_unfold. destruct (eqNoop s v x); [eauto|].
  destruct (status s =? 1); [eauto|]. cbv zeta.
  assert (En : isNecessary (nd (upd s v (set value (fun _ => x))) v) = isNecessary (nd s v)).
  { apply (nd_upd_keep isNecessary). intros []; reflexivity. }
  rewrite En. destruct (isNecessary (nd s v)); [|eauto].
  apply setStale_total. rewrite (nd_upd_keep height) by (intros []; reflexivity). auto.
Qed.

Lemma C12_set_total s v x :
  wfb s = true -> isVar s v = true -> (v < next s)%nat -> exists s', varSet s v x = Ok s'.
Proof.
  intros Hwf Hv Hn. apply varSet_total_when. intros Hnec.
  pose proof (wfb_necessary_height s v Hwf (isVar_some _ _ Hv) Hn Hnec). lia.
Qed.

Lemma C12_update_total s v d :
  wfb s = true -> isVar s v = true -> (v < next s)%nat -> exists s', varUpdate s v d = Ok s'.
Proof. intros. rewrite varUpdate_unfold. apply C12_set_total; assumption. Qed.

Lemma C12_set_unobserved_total s v x :
  height (nd s v) = unset -> exists s', varSet s v x = Ok s'.
Proof. intros Hh. apply varSet_total_when. rewrite Hh. unfold unset. lia. Qed.

Lemma C12_update_unobserved_total s v d :
  height (nd s v) = unset -> exists s', varUpdate s v d = Ok s'.
Proof. intros. rewrite varUpdate_unfold. apply C12_set_unobserved_total; assumption. Qed.

(** C12.3: a mid-pass write is deferred whole *)
Lemma C12_midpass_set_is_deferred s v x :
  status s = 1 -> varSet s v x = Ok (if eqNoop s v x then s else deferSet s v x).
Proof.
  intros Hst. rewrite varSet_unfold, Hst. change (1 =? 1) with true. destruct (eqNoop s v x); reflexivity.
Qed.

Lemma set_pending_eta (y : node) p : set pending (fun _ => p) y = y <| pending := pending (set pending (fun _ => p) y) |>.
Proof. destruct y; reflexivity. Qed.

Lemma deferSet_frame s v x :
  let s' := deferSet s v x in
  binds s' = binds s /\ next s' = next s /\ reg s' = reg s /\ obs s' = obs s /\ heap s' = heap s /\
  adj s' = adj s /\ invq s' = invq s /\ stabNum s' = stabNum s /\ status s' = status s /\
  numNodes s' = numNodes s /\ setRemoved s' = setRemoved s /\ handlers s' = handlers s /\
  maxHeight s' = maxHeight s /\ log s' = log s /\
  setDuring s' = insert_sorted v (setDuring s) /\
  (forall m, nd s' m = nd s m <| pending := pending (nd s' m) |>) /\
  (forall m, m <> v -> nd s' m = nd s m) /\
  (is_Some (nodes s !! v) -> pending (nd s' v) = Some x).
Proof.
  cbv zeta. unfold deferSet. repeat (split; [reflexivity|]).
  set (t := upd s v (set pending (fun _ => Some x))).
  assert (A1 : forall m, nd t m = nd s m <| pending := pending (nd t m) |>).
  { intros m. unfold t. rewrite nd_upd_if. destruct (decide (m = v)) as [->|Hne].
    - destruct (nodes s !! v) eqn:E; [apply set_pending_eta|].
      unfold nd. rewrite E. reflexivity.
    - destruct (nd s m); reflexivity. }
  assert (A2 : forall m, m <> v -> nd t m = nd s m) by (intros m Hne; apply nd_upd_other, Hne).
  assert (A3 : is_Some (nodes s !! v) -> pending (nd t v) = Some x).
  { intros Hs. unfold t. rewrite nd_upd_same by exact Hs. destruct (nd s v); reflexivity. }
  split; [exact A1|]. split; [exact A2|exact A3].
Qed.

Lemma C12_midpass_set_frame s v x s' :
  status s = 1 -> varSet s v x = Ok s' ->
  heap s' = heap s /\ log s' = log s /\ stabNum s' = stabNum s /\ status s' = status s /\
  handlers s' = handlers s /\ setRemoved s' = setRemoved s /\
  forall m, value (nd s' m) = value (nd s m) /\ recomputedAt (nd s' m) = recomputedAt (nd s m) /\
            changedAt (nd s' m) = changedAt (nd s m) /\ setAt (nd s' m) = setAt (nd s m) /\
            height (nd s' m) = height (nd s m) /\ valid (nd s' m) = valid (nd s m) /\
            parents (nd s' m) = parents (nd s m) /\ children (nd s' m) = children (nd s m).
Proof.
  intros Hst. rewrite (C12_midpass_set_is_deferred _ _ _ Hst). destruct (eqNoop s v x); intros [= <-].
  - repeat split.
  - destruct (deferSet_frame s v x) as (_ & _ & _ & _ & E5 & _ & _ & E8 & E9 & _ & E11 & E12 & _ & E14 & _ & En & _).
    repeat (split; [assumption|]). intros m. rewrite (En m). destruct (nd s m); repeat split.
Qed.

(** C12.4: successive mid-pass updates compose *)
Lemma varUpdate_midpass_cur s v d s' :
  status s = 1 -> isVar s v = true -> varUpdate s v d = Ok s' ->
  cur s' v = norm (cur s v + d) /\ status s' = 1 /\ isVar s' v = true /\
  (pending (nd s' v) = Some (norm (cur s v + d)) \/
   (pending (nd s' v) = None /\ pending (nd s v) = None /\ nkind (nd s v) = KVar true)).
Proof.
  intros Hst Hv H. pose proof (isVar_some _ _ Hv) as Hs.
  split; [|split; [rewrite (varSet_status _ _ _ _ H); exact Hst|split; [rewrite (varSet_isVar _ _ _ _ v H); exact Hv|]]];
    rewrite varUpdate_unfold, (C12_midpass_set_is_deferred _ _ _ Hst) in H;
    destruct (eqNoop s v _) eqn:En; injection H as <-.
  - unfold eqNoop in En. apply andb_true_iff in En as [En E2]. apply andb_true_iff in En as [_ En].
    apply negb_true_iff, bool_decide_eq_false in En.
    unfold cur at 1. destruct (pending (nd s v)); [exfalso; apply En; eauto|]. lia.
  - destruct (deferSet_frame s v (norm (cur s v + d))) as (_ & _ & _ & _ & _ & _ & _ & _ & _ & _ & _ & _ & _ & _ & _ & _ & _ & Ep).
    unfold cur at 1. rewrite (Ep Hs). reflexivity.
  - right. unfold eqNoop in En. apply andb_true_iff in En as [En E2]. apply andb_true_iff in En as [E0 En].
    apply negb_true_iff, bool_decide_eq_false in En.
    assert (pending (nd s v) = None) by (destruct (pending (nd s v)); [exfalso; apply En; eauto|reflexivity]).
    repeat split; try assumption. destruct (nkind (nd s v)); try discriminate. subst. reflexivity.
  - left. destruct (deferSet_frame s v (norm (cur s v + d))) as (_ & _ & _ & _ & _ & _ & _ & _ & _ & _ & _ & _ & _ & _ & _ & _ & _ & Ep).
    exact (Ep Hs).
Qed.

Lemma C12_updates_compose s v d1 d2 s1 s2 :
  status s = 1 -> isVar s v = true ->
  varUpdate s v d1 = Ok s1 -> varUpdate s1 v d2 = Ok s2 ->
  cur s2 v = norm (norm (cur s v + d1) + d2) /\
  ((nkind (nd s v) = KVar false \/ is_Some (pending (nd s v))) ->
   pending (nd s2 v) = Some (norm (norm (cur s v + d1) + d2))).
Proof.
  intros Hst Hv H1 H2.
  destruct (varUpdate_midpass_cur _ _ _ _ Hst Hv H1) as (C1 & St1 & V1 & P1).
  destruct (varUpdate_midpass_cur _ _ _ _ St1 V1 H2) as (C2 & St2 & V2 & P2).
  split; [rewrite C2, C1; reflexivity|]. intros Hk.
  destruct P2 as [P2|(_ & P2 & _)]; [rewrite P2, C1; reflexivity|].
  destruct P1 as [P1|(_ & P1 & K1)]; [congruence|].
  destruct Hk as [Hk|[? Hk]]; congruence.
Qed.

(** ** The anatomy of [recomputeNodeSerial] *)
Definition maybeCutoff (p : plan) (s0 : state) (n : nid) (x : node) : res (state * option err * bool) :=
  match nkind x with
  | KCutoff c =>
    let old := value x in
    let new := valueOf s0 (hd 0%nat (decl x)) in
    '(s, e) <-! invoke p s0 n WCut;
    match e with
    | Some e => Ok (s, Some e, false)
    | None => let v := apCut c old new in Ok (emit (EvCutoff n old new v) s, None, v)
    end
  | _ => Ok (s0, None, false)
  end.

Definition failTail (s : state) (n : nid) (prev : Z) (e : err) : res (state * option err * option nid) :=
  match e with
  | EPanic m => Ok (s, Some (EPanic m), None)
  | e => s <-! recomputeFailed s n prev; Ok (errorHandlers s n, Some e, None)
  end.

Definition successTail (s : state) (n : nid) : res (state * option err * option nid) :=
  let s := upd s n (set changedAt (fun _ => stabNum s)) in
  let s := insert_handler n s in
  '(s, held) <-! childrenLoop s n;
  '(s, imm) <-! (match held with
                 | None => Ok (s, None)
                 | Some h => if canRecomputeImmediately s n h then Ok (s, Some h)
                             else s <-! heapAdd s h; Ok (s, None)
                 end);
  let s := foldl (fun s o => insert_handler o s) s (observers (nd s n)) in
  Ok (s, None, imm).

Lemma recomputeNodeSerial_unfold fuel p s n :
  recomputeNodeSerial fuel p s n =
  let x := nd s n in
  let prev := recomputedAt x in
  let s0 := upd s n (set recomputedAt (fun _ => stabNum s)) in
  '(s1, e, cut) <-! maybeCutoff p s0 n x;
  match e with
  | Some e => failTail s1 n prev e
  | None =>
    if cut then Ok (s1, None, None) else
    '(s2, e) <-! stabilizeNode fuel p s1 n;
    match e with
    | Some e => failTail s2 n prev e
    | None => successTail s2 n
    end
  end.
Proof.
  unfold recomputeNodeSerial, maybeCutoff, failTail, successTail. cbv zeta.
  destruct (match nkind (nd s n) with KCutoff _ => _ | _ => _ end) as [[[s1 [e|]] cut]| |]; cbn [rbind]; reflexivity.
Qed.

(* states that differ in the heap and the handler set only *)
Definition hhOnly (s s' : state) : Prop := exists w h, s' = s <| heap := w |> <| handlers := h |>.

Lemma hhOnly_refl s : hhOnly s s.
Proof. exists (heap s), (handlers s). destruct s; reflexivity. Qed.
Lemma hhOnly_trans s1 s2 s3 : hhOnly s1 s2 -> hhOnly s2 s3 -> hhOnly s1 s3.
Proof. intros (w1 & h1 & ->) (w2 & h2 & ->). exists w2, h2. destruct s1; reflexivity. Qed.
Lemma heapOnly_hhOnly s s' : heapOnly s s' -> hhOnly s s'.
Proof. intros [w ->]. exists w, (handlers s). destruct s; reflexivity. Qed.
Lemma hhOnly_nd s s' m : hhOnly s s' -> nd s' m = nd s m.
Proof. intros (w & h & ->). reflexivity. Qed.
Lemma hhOnly_log s s' : hhOnly s s' -> log s' = log s.
Proof. intros (w & h & ->). reflexivity. Qed.
Lemma insert_handler_hhOnly k s : hhOnly s (insert_handler k s).
Proof. exists (heap s), (insert_sorted k (handlers s)). destruct s; reflexivity. Qed.
Lemma insert_handlers_hhOnly l : forall s, hhOnly s (foldl (fun s o => insert_handler o s) s l).
Proof.
  induction l as [|o l IH]; intros s; cbn [foldl]; [apply hhOnly_refl|].
  eapply hhOnly_trans; [apply (insert_handler_hhOnly o)|apply IH].
Qed.
Lemma insert_handlers_eq l : forall s,
  foldl (fun s o => insert_handler o s) s l
  = s <| handlers := foldl (fun h o => insert_sorted o h) (handlers s) l |>.
Proof.
  induction l as [|o l IH]; intros s; cbn [foldl].
  - destruct s; reflexivity.
  - rewrite IH. destruct s; reflexivity.
Qed.

Lemma childrenLoop_gen_heapOnly l : forall s held s' held',
  rfold (fun '(s, held) c =>
         if bool_decide (held = Some c) then Ok (s, held)
         else if negb (shouldRecomputeChild s c) then Ok (s, held)
         else
           s <-! (match held with Some h => heapAdd s h | None => Ok s end);
           Ok (s, Some c)) l (s, held) = Ok (s', held') -> heapOnly s s'.
Proof.
  induction l as [|c l IH]; intros s held s' held' H; cbn [rfold] in H.
  - injection H as <- <-. apply heapOnly_refl.
  - apply rbind_ok in H as ([s1 h1] & H1 & H%IH). eapply heapOnly_trans; [|exact H].
    destruct (bool_decide _); [injection H1 as <- <-; apply heapOnly_refl|].
    destruct (negb _); [injection H1 as <- <-; apply heapOnly_refl|].
    apply rbind_ok in H1 as (s2 & H2 & [= <- <-]).
    destruct held; [eapply heapAdd_heapOnly, H2|injection H2 as <-; apply heapOnly_refl].
Qed.

Lemma childrenLoop_heapOnly s n s' held : childrenLoop s n = Ok (s', held) -> heapOnly s s'.
Proof. apply childrenLoop_gen_heapOnly. Qed.

Lemma successTail_shape s n s' e imm :
  successTail s n = Ok (s', e, imm) ->
  e = None /\ hhOnly (upd s n (set changedAt (fun _ => stabNum s))) s'.
Proof.
  unfold successTail. intros H.
  apply rbind_ok in H as ([s1 held] & H1%childrenLoop_heapOnly & H).
  apply rbind_ok in H as ([s2 imm2] & H2 & [= <- <- <-]). split; [reflexivity|].
  eapply hhOnly_trans; [apply (insert_handler_hhOnly n)|].
  eapply hhOnly_trans; [apply heapOnly_hhOnly, H1|].
  eapply hhOnly_trans; [|apply insert_handlers_hhOnly].
  apply heapOnly_hhOnly. destruct held as [h|]; [|injection H2 as <- <-; apply heapOnly_refl].
  destruct (canRecomputeImmediately _ _ _); [injection H2 as <- <-; apply heapOnly_refl|].
  apply rbind_ok in H2 as (s3 & H3%heapAdd_heapOnly & [= <- <-]). exact H3.
Qed.

(** C12.5: the recompute cycle of the running pass never applies a deferred value *)
Lemma C12_pending_not_taken_midpass fuel p s v e :
  nkind (nd s v) = KVar e -> recomputedAt (nd s v) = stabNum s -> stabilizeNode fuel p s v = ok s.
Proof.
  intros Hk Hr. unfold stabilizeNode. rewrite Hk. destruct (pending (nd s v)); [|reflexivity].
  rewrite Hr, Z.eqb_refl. reflexivity.
Qed.

Lemma C12_recompute_var_keeps_pending fuel p s v k s' e imm :
  nkind (nd s v) = KVar k -> recomputeNodeSerial fuel p s v = Ok (s', e, imm) ->
  e = None /\ log s' = log s /\ setDuring s' = setDuring s /\
  forall m, value (nd s' m) = value (nd s m) /\ pending (nd s' m) = pending (nd s m).
Proof.
  intros Hk. assert (Hs : is_Some (nodes s !! v)) by (apply nd_some_kind; rewrite Hk; discriminate).
  rewrite recomputeNodeSerial_unfold. cbv zeta. unfold maybeCutoff. rewrite Hk. cbn [rbind].
  set (s0 := upd s v _).
  assert (E0 : nd s0 v = nd s v <| recomputedAt := stabNum s |>) by (apply nd_upd_same, Hs).
  rewrite (C12_pending_not_taken_midpass fuel p s0 v k).
  2:{ rewrite E0. rewrite <- Hk. destruct (nd s v); reflexivity. }
  2:{ rewrite E0. destruct (nd s v); reflexivity. }
  unfold ok. cbn [rbind]. intros [-> Hh]%successTail_shape. split; [reflexivity|].
  destruct Hh as (w & h & ->). split; [reflexivity|]. split; [reflexivity|]. intros m.
  change (value (nd (upd s0 v (set changedAt (fun _ => stabNum s0))) m) = value (nd s m) /\
          pending (nd (upd s0 v (set changedAt (fun _ => stabNum s0))) m) = pending (nd s m)).
  rewrite (nd_upd_keep value), (nd_upd_keep pending) by (intros []; reflexivity).
  unfold s0. rewrite (nd_upd_keep value), (nd_upd_keep pending) by (intros []; reflexivity). auto.
Qed.

(** C12.6: deferred writes are applied when the pass ends *)
Definition dstep (s : state) (v : nid) : res state := '(s, _) <-! stabilizeNode 0 [] s v; setStale s v.

Lemma applyDeferredSets_unfold s :
  applyDeferredSets s =
  (s1 <-! rfold dstep (setRemoved s ++ setDuring s) s; Ok (s1 <| setDuring := [] |> <| setRemoved := [] |>)).
Proof. reflexivity. Qed.

(* two node records that differ at most in value, pending and setAt *)
Definition vps (x y : node) : Prop := exists a b c, y = x <| value := a |> <| pending := b |> <| setAt := c |>.

Lemma vps_refl x : vps x x.
Proof. exists (value x), (pending x), (setAt x). destruct x; reflexivity. Qed.
Lemma vps_trans x y z : vps x y -> vps y z -> vps x z.
Proof. intros (a & b & c & ->) (a' & b' & c' & ->). exists a', b', c'. destruct x; reflexivity. Qed.
Lemma vps_fields x y : vps x y ->
  nkind y = nkind x /\ decl y = decl x /\ scope y = scope x /\ height y = height x /\ hAdj y = hAdj x /\
  recomputedAt y = recomputedAt x /\ changedAt y = changedAt x /\ parents y = parents x /\
  children y = children x /\ observers y = observers x /\ valid y = valid x /\ forceNec y = forceNec x /\
  inGraph y = inGraph x.
Proof. intros (a & b & c & ->). destruct x; repeat split. Qed.

(* what the end-of-pass application of deferred writes may change: value / pending / setAt of
   nodes, and the heap (which only grows) *)
Definition dfr (s s' : state) : Prop :=
  (exists m w, s' = s <| nodes := m |> <| heap := w |>) /\
  (forall n, vps (nd s n) (nd s' n)) /\
  (forall n, isVar s' n = isVar s n) /\
  (forall n, inHeap s n = true -> inHeap s' n = true).

Lemma dfr_refl s : dfr s s.
Proof.
  split; [exists (nodes s), (heap s); destruct s; reflexivity|].
  split; [intros n; apply vps_refl|]. split; auto.
Qed.
Lemma dfr_trans s1 s2 s3 : dfr s1 s2 -> dfr s2 s3 -> dfr s1 s3.
Proof.
  intros ((m1 & w1 & E1) & A2 & A3 & A4) ((m2 & w2 & E2) & B2 & B3 & B4).
  split; [exists m2, w2; subst; destruct s1; reflexivity|].
  split; [intros n; eapply vps_trans; eauto|]. split; [intros n; rewrite B3; apply A3|auto].
Qed.
Lemma dfr_state s s' : dfr s s' ->
  binds s' = binds s /\ next s' = next s /\ reg s' = reg s /\ obs s' = obs s /\ adj s' = adj s /\
  invq s' = invq s /\ stabNum s' = stabNum s /\ status s' = status s /\ numNodes s' = numNodes s /\
  setDuring s' = setDuring s /\ setRemoved s' = setRemoved s /\ handlers s' = handlers s /\
  maxHeight s' = maxHeight s /\ log s' = log s.
Proof. intros ((m & w & ->) & _). repeat split. Qed.

Lemma dfr_setStale s n s' : setStale s n = Ok s' -> dfr s s'.
Proof.
  intros H. split; [|split; [|split]].
  - destruct (setStale_spec _ _ _ H) as [[_ ->]|(_ & [w ->] & _)].
    + exists (nodes s), (heap s). destruct s; reflexivity.
    + exists (nodes (upd s n (set setAt (fun _ => stabNum s)))), w. unfold upd. destruct s; reflexivity.
  - intros m. destruct (setStale_nd _ _ _ m H) as [a ->].
    exists (value (nd s m)), (pending (nd s m)), a. destruct (nd s m); reflexivity.
  - intros m. eapply setStale_isVar, H.
  - intros m Hm. destruct (setStale_spec _ _ _ H) as [[_ ->]|(_ & Ho & _)]; [exact Hm|].
    revert H Hm. unfold setStale. destruct (_ =? unset); [intros [= <-]; auto|].
    destruct (inHeap _ n); [intros [= <-]; auto|]. intros H Hm.
    erewrite heapAdd_inHeap by exact H. apply orb_true_iff. right. exact Hm.
Qed.

Lemma dfr_upd_vp s n a b : dfr s (upd s n (fun x => x <| value := a |> <| pending := b |>)).
Proof.
  split; [|split; [|split]].
  - exists (nodes (upd s n (fun x => x <| value := a |> <| pending := b |>))), (heap s).
    unfold upd. destruct s; reflexivity.
  - intros m. rewrite nd_upd_if. destruct (decide (m = n)) as [->|]; [|apply vps_refl].
    destruct (nodes s !! n) eqn:E.
    + exists a, b, (setAt (nd s n)). destruct (nd s n); reflexivity.
    + unfold nd. rewrite E. apply vps_refl.
  - intros m. apply isVar_upd. intros []; reflexivity.
  - auto.
Qed.

Lemma dstep_var_inv s w s' :
  isVar s w = true -> dstep s w = Ok s' ->
  dfr s s' /\
    (forall x, pending (nd s w) = Some x -> recomputedAt (nd s w) <> stabNum s ->
               value (nd s' w) = x /\ pending (nd s' w) = None) /\
    (pending (nd s w) = None -> value (nd s' w) = value (nd s w) /\ pending (nd s' w) = None) /\
    (forall m, m <> w -> value (nd s' m) = value (nd s m) /\ pending (nd s' m) = pending (nd s m)).
Proof.
  intros Hv. pose proof (isVar_some _ _ Hv) as Hs. apply isVar_spec in Hv as [k Hk].
  unfold dstep, stabilizeNode. rewrite Hk.
  assert (Hpv : forall t t' m, setStale t w = Ok t' ->
            value (nd t' m) = value (nd t m) /\ pending (nd t' m) = pending (nd t m)).
  { intros t t' m Ht. destruct (setStale_nd _ _ _ m Ht) as [a ->]. destruct (nd t m); split; reflexivity. }
  destruct (pending (nd s w)) as [pv|] eqn:Ep; [destruct (Z.eqb_spec (recomputedAt (nd s w)) (stabNum s)) as [Er|Er]|].
  - (* stamped by this pass: not taken *)
    unfold ok. cbn [rbind]. intros Hs'.
    split; [eapply dfr_setStale, Hs'|]. split; [intros x _ Hne; contradiction|].
    split; [discriminate|]. intros m _. apply (Hpv _ _ m Hs').
  - unfold ok. cbn [rbind]. set (t := upd s w _). intros Hs'.
    assert (Et : nd t w = nd s w <| value := pv |> <| pending := None |>) by (apply nd_upd_same, Hs).
    split; [eapply dfr_trans; [apply dfr_upd_vp|eapply dfr_setStale, Hs']|].
    split; [|split; [discriminate|]].
    + intros x [= <-] _. destruct (Hpv _ _ w Hs') as [-> ->]. rewrite Et. destruct (nd s w); split; reflexivity.
    + intros m Hne. destruct (Hpv _ _ m Hs') as [-> ->]. unfold t. rewrite nd_upd_other by exact Hne. auto.
  - unfold ok. cbn [rbind]. intros Hs'.
    split; [eapply dfr_setStale, Hs'|]. split; [discriminate|].
    split; [intros _; destruct (Hpv _ _ w Hs') as [-> ->]; auto|]. intros m _. apply (Hpv _ _ m Hs').
Qed.

Lemma dstep_var_total s w :
  isVar s w = true -> -1 <= height (nd s w) -> exists s', dstep s w = Ok s'.
Proof.
  intros Hv Hh. pose proof (isVar_some _ _ Hv) as Hs. apply isVar_spec in Hv as [k Hk].
  unfold dstep, stabilizeNode. rewrite Hk.
  destruct (pending (nd s w)) as [pv|] eqn:Ep; [destruct (recomputedAt (nd s w) =? stabNum s)|];
    unfold ok; cbn [rbind]; try (apply setStale_total; exact Hh).
  apply setStale_total. rewrite nd_upd_same by exact Hs. destruct (nd s w); exact Hh.
Qed.

Lemma dsteps_inv : forall l s s',
  Forall (fun w => isVar s w = true) l -> rfold dstep l s = Ok s' ->
  dfr s s' /\
    forall v x,
      (value (nd s v) = x /\ pending (nd s v) = None -> value (nd s' v) = x /\ pending (nd s' v) = None) /\
      (v ∈ l -> pending (nd s v) = Some x -> recomputedAt (nd s v) <> stabNum s ->
       value (nd s' v) = x /\ pending (nd s' v) = None).
Proof.
  induction l as [|w l IH]; intros s s' Hv H; cbn [rfold] in H.
  - injection H as <-. split; [apply dfr_refl|]. intros v x. split; [auto|].
    intros Hin. inversion Hin.
  - apply Forall_cons_1 in Hv as [Hv Hvl]. apply rbind_ok in H as (s1 & E1 & E').
    destruct (dstep_var_inv s w s1 Hv E1) as (D1 & P1 & P2 & P3).
    destruct (IH s1 s') as (D' & Q); [|exact E'|].
    { eapply Forall_impl; [|exact Hvl]. intros u Hu. destruct D1 as (_ & _ & D1 & _). rewrite D1. exact Hu. }
    split; [eapply dfr_trans; eauto|].
    assert (Hst : stabNum s1 = stabNum s) by (destruct (dfr_state _ _ D1) as (_ & _ & _ & _ & _ & _ & E & _); exact E).
    assert (Hra : forall v, recomputedAt (nd s1 v) = recomputedAt (nd s v)).
    { intros v. destruct D1 as (_ & D1 & _). destruct (vps_fields _ _ (D1 v)) as (_ & _ & _ & _ & _ & E & _). exact E. }
    intros v x. split.
    + intros [Ev Ep]. apply (proj1 (Q v x)). destruct (decide (v = w)) as [->|Hne].
      * destruct (P2 Ep) as [E2 E3]. rewrite E2, E3. auto.
      * destruct (P3 v Hne) as [E2 E3]. rewrite E2, E3. auto.
    + intros Hin Ep Hr. destruct (decide (v = w)) as [->|Hne].
      * apply (proj1 (Q w x)). apply P1; assumption.
      * apply elem_of_cons in Hin as [->|Hin]; [contradiction|].
        apply (proj2 (Q v x)); [exact Hin| |rewrite Hra, Hst; exact Hr].
        destruct (P3 v Hne) as [_ E3]. rewrite E3. exact Ep.
Qed.

Lemma dsteps_total : forall l s,
  Forall (fun w => isVar s w = true) l -> Forall (fun w => -1 <= height (nd s w)) l ->
  exists s', rfold dstep l s = Ok s'.
Proof.
  induction l as [|w l IH]; intros s Hv Hh; [exists s; reflexivity|].
  apply Forall_cons_1 in Hv as [Hv Hvl]. apply Forall_cons_1 in Hh as [Hh Hhl].
  destruct (dstep_var_total s w Hv Hh) as [s1 E1].
  destruct (dstep_var_inv s w s1 Hv E1) as (D1 & _).
  destruct (IH s1) as [s' E'].
  { eapply Forall_impl; [|exact Hvl]. intros u Hu. destruct D1 as (_ & _ & D1 & _). rewrite D1. exact Hu. }
  { eapply Forall_impl; [|exact Hhl]. intros u Hu. cbv beta in *. destruct D1 as (_ & D1 & _).
    destruct (vps_fields _ _ (D1 u)) as (_ & _ & _ & -> & _). exact Hu. }
  exists s'. cbn [rfold]. rewrite E1. exact E'.
Qed.

(* what [applyDeferredSets] does when the lists hold vars only *)
Lemma applyDeferredSets_inv s s' :
  Forall (fun w => isVar s w = true) (setRemoved s ++ setDuring s) ->
  applyDeferredSets s = Ok s' ->
  setDuring s' = [] /\ setRemoved s' = [] /\
    (forall v x, v ∈ setRemoved s ++ setDuring s -> pending (nd s v) = Some x ->
                 recomputedAt (nd s v) <> stabNum s -> value (nd s' v) = x /\ pending (nd s' v) = None) /\
    (forall v x, value (nd s v) = x -> pending (nd s v) = None -> value (nd s' v) = x /\ pending (nd s' v) = None) /\
    (* and nothing else happens: *)
    status s' = status s /\ stabNum s' = stabNum s /\ log s' = log s /\ handlers s' = handlers s /\
    obs s' = obs s /\ binds s' = binds s /\ next s' = next s /\ reg s' = reg s /\
    (forall n, vps (nd s n) (nd s' n)) /\ (forall n, isVar s' n = isVar s n) /\
    (forall n, inHeap s n = true -> inHeap s' n = true).
Proof.
  intros Hv. rewrite applyDeferredSets_unfold. intros H. apply rbind_ok in H as (s1 & E1 & [= <-]).
  destruct (dsteps_inv _ s s1 Hv E1) as (D1 & Q).
  split; [reflexivity|]. split; [reflexivity|].
  split; [intros v x Hin Hp Hr; exact (proj2 (Q v x) Hin Hp Hr)|].
  split; [intros v x Hx Hp; exact (proj1 (Q v x) (conj Hx Hp))|].
  destruct (dfr_state _ _ D1) as (B1 & B2 & B3 & B4 & _ & _ & B7 & B8 & _ & _ & _ & B12 & _ & B14).
  destruct D1 as (_ & D2 & D3 & D4).
  do 8 (split; [assumption|]). split; [exact D2|]. split; [exact D3|exact D4].
Qed.

Lemma C12_deferred_applied_at_end s :
  Forall (fun w => isVar s w = true) (setRemoved s ++ setDuring s) ->
  Forall (fun w => -1 <= height (nd s w)) (setRemoved s ++ setDuring s) ->
  exists s', applyDeferredSets s = Ok s' /\ setDuring s' = [] /\ setRemoved s' = [] /\
    (forall v x, v ∈ setRemoved s ++ setDuring s -> pending (nd s v) = Some x ->
                 recomputedAt (nd s v) <> stabNum s -> value (nd s' v) = x /\ pending (nd s' v) = None) /\
    (* and nothing else happens: *)
    status s' = status s /\ stabNum s' = stabNum s /\ log s' = log s /\ handlers s' = handlers s /\
    obs s' = obs s /\ binds s' = binds s /\ next s' = next s /\ reg s' = reg s /\
    (forall n, vps (nd s n) (nd s' n)) /\ (forall n, isVar s' n = isVar s n) /\
    (forall n, inHeap s n = true -> inHeap s' n = true).
Proof.
  intros Hv Hh. destruct (dsteps_total _ s Hv Hh) as (s1 & E1).
  exists (s1 <| setDuring := [] |> <| setRemoved := [] |>).
  assert (E : applyDeferredSets s = Ok (s1 <| setDuring := [] |> <| setRemoved := [] |>))
    by (rewrite applyDeferredSets_unfold, E1; reflexivity).
  split; [exact E|]. destruct (applyDeferredSets_inv _ _ Hv E) as (A1 & A2 & A3 & _ & A5).
  split; [exact A1|]. split; [exact A2|]. split; [exact A3|exact A5].
Qed.

(** * 4. C13: update handlers *)
From Coq Require Import Sorted.

(** C13.1: the handler set is kept strictly sorted, hence duplicate-free *)
Definition ssorted (l : list nid) : Prop := StronglySorted Nat.lt l.

Lemma insert_sorted_elem x n l : x ∈ insert_sorted n l <-> x = n \/ x ∈ l.
Proof.
  induction l as [|y l IH]; cbn [insert_sorted].
  - rewrite elem_of_list_singleton. split; [auto|intros [G|G]; [exact G|inversion G]].
  - destruct (Nat.ltb_spec n y) as [Hlt|Hge]; [rewrite elem_of_cons; reflexivity|].
    destruct (Nat.eqb_spec n y) as [->|Hne].
    + split; [auto|]. intros [->|G]; [left|exact G].
    + rewrite !elem_of_cons, IH. tauto.
Qed.

Lemma insert_sorted_ssorted n l : ssorted l -> ssorted (insert_sorted n l).
Proof.
  unfold ssorted. induction l as [|y l IH]; intros Hs; cbn [insert_sorted].
  - repeat constructor.
  - apply StronglySorted_inv in Hs as [Hs Hy].
    destruct (Nat.ltb_spec n y).
    + constructor; [constructor; assumption|]. constructor; [assumption|].
      eapply Forall_impl; [|exact Hy]. intros a Ha. cbv beta in *. unfold Nat.lt in *. lia.
    + destruct (Nat.eqb_spec n y) as [->|Hne]; [constructor; assumption|].
      constructor; [apply IH, Hs|]. apply Forall_forall. intros a Ha%elem_of_list_In%insert_sorted_elem.
      destruct Ha as [->|Ha]; [unfold Nat.lt; lia|].
      rewrite Forall_forall in Hy. apply Hy, elem_of_list_In, Ha.
Qed.

Lemma rm_ssorted n l : ssorted l -> ssorted (rm n l).
Proof.
  unfold ssorted, rm. induction l as [|y l IH]; intros Hs; [constructor|].
  apply StronglySorted_inv in Hs as [Hs Hy]. rewrite filter_cons.
  destruct (decide (y <> n)); [|apply IH, Hs].
  constructor; [apply IH, Hs|]. apply Forall_forall. intros a Ha%elem_of_list_In%elem_of_list_filter.
  rewrite Forall_forall in Hy. apply Hy, elem_of_list_In, Ha.
Qed.

Lemma ssorted_NoDup l : ssorted l -> NoDup l.
Proof.
  unfold ssorted. induction l as [|y l IH]; intros Hs; [constructor|].
  apply StronglySorted_inv in Hs as [Hs Hy]. constructor; [|apply IH, Hs].
  intros Hin%elem_of_list_In. rewrite Forall_forall in Hy. apply Hy in Hin. unfold Nat.lt in Hin. lia.
Qed.

Lemma C13_handlers_nodup_sorted k s :
  ssorted (handlers s) ->
  ssorted (handlers (insert_handler k s)) /\ NoDup (handlers (insert_handler k s)) /\
  forall x, x ∈ handlers (insert_handler k s) <-> x = k \/ x ∈ handlers s.
Proof.
  intros Hs. pose proof (insert_sorted_ssorted k _ Hs) as H1.
  split; [exact H1|]. split; [apply ssorted_NoDup, H1|]. intros x. apply insert_sorted_elem.
Qed.

(* and it stays sorted through everything a pass does *)
Definition hsR (s s' : state) : Prop := ssorted (handlers s) -> ssorted (handlers s').

Lemma hsR_hyps : frame_hyps hsR (fun h w => ssorted h -> ssorted w) (fun _ => True).
Proof.
  split; try (intros; exact (fun H => H)).
  - intros h k. apply insert_sorted_ssorted.
  - intros h n. apply rm_ssorted.
  - intros s1 s2 s3 H1 H2 H. apply H2, H1, H.
  - intros s w H. exact H.
Qed.

Lemma C13_handlers_sorted_passLoop fuel p s always s' e at_ always' :
  passLoop fuel p s always = Ok (s', e, at_, always') -> ssorted (handlers s) -> ssorted (handlers s').
Proof. eapply (fr_passLoop hsR); [exact hsR_hyps|apply planv_True]. Qed.

Lemma C13_handlers_sorted_parLoop fuel p s always s' e always' :
  parLoop fuel p s always = Ok (s', e, always') -> ssorted (handlers s) -> ssorted (handlers s').
Proof. eapply (fr_parLoop hsR); [exact hsR_hyps|apply planv_True]. Qed.

(** which vars can be on the deferred lists after a pass: those that were, and those the plan writes *)
Definition wvR (okv : nid -> Prop) (s s' : state) : Prop :=
  forall v, v ∈ setDuring s' ++ setRemoved s' -> v ∈ setDuring s ++ setRemoved s \/ okv v.

Lemma wvR_hyps okv : frame_hyps (wvR okv) (fun _ _ => True) okv.
Proof.
  split; try (intros; exact I); try (intros; intros v Hv; left; exact Hv).
  - intros s1 s2 s3 H1 H2 v Hv. destruct (H2 v Hv) as [H|H]; [apply H1, H|right; exact H].
  - intros s v Hokv u Hu. cbn in Hu. rewrite elem_of_app, insert_sorted_elem in Hu.
    rewrite elem_of_app. destruct Hu as [[->|Hu]|Hu]; auto.
  - intros s n u Hu. left. cbn in Hu. rewrite elem_of_app in *. unfold rm in Hu.
    rewrite elem_of_list_filter in Hu. destruct Hu as [[_ Hu]|Hu]; [auto|].
    destruct (bool_decide (n ∈ setDuring s)) eqn:E; [|auto].
    apply bool_decide_eq_true in E. apply elem_of_app in Hu as [Hu|Hu%elem_of_list_singleton]; [auto|subst; auto].
Qed.

Lemma plan_ok_planv s p : plan_ok s p = true -> planv (fun v => isVar s v = true) p.
Proof.
  intros Hp n w. apply Forall_forall. intros a Ha%elem_of_list_In.
  unfold actions_of in Ha. apply elem_of_list_omap in Ha as ([[m w'] a'] & Hin & Hf).
  unfold plan_ok in Hp. pose proof (forallb_elem _ _ _ Hp Hin) as Hx. cbv beta iota in Hx, Hf.
  destruct (_ && _); [|discriminate]. injection Hf as <-. destruct a'; cbn; auto.
Qed.

(* after a pass loop the deferred lists hold vars only *)
Lemma pass_deferred_are_vars (s0 sL : state) p :
  ids_below s0 -> plan_ok s0 p = true ->
  Forall (fun v => isVar s0 v = true) (setDuring s0 ++ setRemoved s0) ->
  pframe s0 sL -> wvR (fun v => isVar s0 v = true) s0 sL ->
  Forall (fun v => isVar sL v = true) (setRemoved sL ++ setDuring sL).
Proof.
  intros Hids Hp Hv0 Hpf Hwv. apply Forall_forall. intros v Hv%elem_of_list_In.
  assert (Hv' : v ∈ setDuring sL ++ setRemoved sL) by (rewrite elem_of_app in *; tauto).
  assert (H0 : isVar s0 v = true).
  { destruct (Hwv v Hv') as [H|H]; [|exact H]. rewrite Forall_forall in Hv0. apply Hv0, elem_of_list_In, H. }
  destruct Hpf as (_ & _ & _ & _ & _ & _ & Hk & _). destruct (Hk Hids) as [_ Hk'].
  destruct (Hk' v (isVar_some _ _ H0)) as [Ek _].
  apply isVar_spec in H0 as [k H0]. apply isVar_spec. exists k. rewrite Ek. exact H0.
Qed.

(** C13.2 / C13.3: the shape of the log of a pass *)
Definition hev (s : state) (k : nid) : event :=
  match obs s !! k with Some n => EvObsUpd k (valueOf s n) | None => EvUpd k end.

Lemma valueOf__ext fuel : forall s s' n,
  (forall m, nkind (nd s' m) = nkind (nd s m) /\ decl (nd s' m) = decl (nd s m) /\ value (nd s' m) = value (nd s m)) ->
  valueOf_ fuel s' n = valueOf_ fuel s n.
Proof.
  induction fuel as [|fuel IH]; intros s s' n H; [reflexivity|]. cbn [valueOf_].
  destruct (H n) as (-> & -> & ->). destruct (nkind (nd s n)); try reflexivity.
  destruct (decl (nd s n)); [reflexivity|]. apply IH, H.
Qed.

Lemma valueOf_ext s s' n :
  (forall m, nkind (nd s' m) = nkind (nd s m) /\ decl (nd s' m) = decl (nd s m) /\ value (nd s' m) = value (nd s m)) ->
  valueOf s' n = valueOf s n.
Proof. apply valueOf__ext. Qed.

Lemma hev_ext s s' k :
  obs s' = obs s ->
  (forall m, nkind (nd s' m) = nkind (nd s m) /\ decl (nd s' m) = decl (nd s m) /\ value (nd s' m) = value (nd s m)) ->
  hev s' k = hev s k.
Proof. intros Ho Hn. unfold hev. rewrite Ho. destruct (obs s !! k); [|reflexivity]. rewrite (valueOf_ext s s'); auto. Qed.

Lemma runUpdateHandlers_eq s :
  runUpdateHandlers s = s <| status := 2 |> <| log := rev (map (hev s) (handlers s)) ++ log s |> <| handlers := [] |>.
Proof.
  unfold runUpdateHandlers.
  assert (G : forall l t, obs t = obs s -> nodes t = nodes s ->
     foldl (fun s k => match obs s !! k with
                       | Some n => emit (EvObsUpd k (valueOf s n)) s
                       | None => emit (EvUpd k) s
                       end) t l = t <| log := rev (map (hev s) l) ++ log t |>).
  { induction l as [|k l IH]; intros t Ho Hn; cbn [foldl map rev].
    - destruct t; reflexivity.
    - assert (Ek : (match obs t !! k with
                    | Some n => emit (EvObsUpd k (valueOf t n)) t
                    | None => emit (EvUpd k) t
                    end) = emit (hev s k) t).
      { unfold hev. rewrite Ho. destruct (obs s !! k); [|reflexivity].
        rewrite (valueOf_ext s t); [reflexivity|]. intros m. unfold nd. rewrite Hn. auto. }
      rewrite Ek, IH by (cbn; assumption). unfold emit. rewrite <- app_assoc. destruct t; reflexivity. }
  rewrite G by reflexivity. destruct s; reflexivity.
Qed.

Definition requeueAlways (always : list nid) (s : state) : res state :=
  rfold (fun s n => if height (nd s n) =? unset then Ok s else heapAddIfNotPresent s n) always s.

Definition recoverPanic (s : state) (e : option err) (at_ : nid) : res state :=
  match e with
  | Some (EPanic _) =>
    let s := upd s at_ (set recomputedAt (fun _ => 0)) in
    s <-! heapAddIfNotPresent s at_;
    Ok (errorHandlers s at_)
  | _ => Ok s
  end.

Lemma stabilize_unfold p c s :
  stabilize p c s =
  if negb (status s =? 0) then fail s EAlreadyStabilizing else
  let s0 := emit EvPassStart (s <| status := 1 |>) in
  '(s1, e, at_, always) <-!
     (if c && (0 <? Heap.cnt (heap s0)) then Ok (s0, Some ECancelled, 0%nat, [])
      else passLoop (passFuel s0) p s0 []);
  s2 <-! requeueAlways always s1;
  s3 <-! recoverPanic s2 e at_;
  s4 <-! stabilizeEnd s3 e;
  Ok (s4, e).
Proof. reflexivity. Qed.

Lemma requeueAlways_heapOnly always : forall s s', requeueAlways always s = Ok s' -> heapOnly s s'.
Proof.
  unfold requeueAlways. induction always as [|n l IH]; intros s s' H; cbn [rfold] in H.
  - injection H as <-. apply heapOnly_refl.
  - apply rbind_ok in H as (s1 & H1 & H%IH). eapply heapOnly_trans; [|exact H].
    destruct (_ =? unset); [injection H1 as <-; apply heapOnly_refl|eapply heapAddIfNotPresent_heapOnly, H1].
Qed.

Lemma requeueAlways_inHeap always : forall s s' m, requeueAlways always s = Ok s' -> inHeap s m = true -> inHeap s' m = true.
Proof.
  unfold requeueAlways. induction always as [|n l IH]; intros s s' m H Hm; cbn [rfold] in H.
  - injection H as <-. exact Hm.
  - apply rbind_ok in H as (s1 & H1 & H). eapply IH; [exact H|].
    destruct (_ =? unset); [injection H1 as <-; exact Hm|].
    rewrite (heapAddIfNotPresent_inHeap _ _ _ m H1), Hm. apply orb_true_r.
Qed.

Lemma errorHandlers_eq s n : exists L, errorHandlers s n = s <| log := L ++ log s |> /\ Forall passEv L.
Proof.
  unfold errorHandlers, emit. destruct (nkind (nd s n)) eqn:E;
    try (exists [EvErrH n]; split; [reflexivity|repeat constructor]).
  exists [EvErrH n; EvErrH (b_main (bd s b))]. split; [destruct s; reflexivity|repeat constructor].
Qed.

(* the recover branch: at most the stamp of [at_], the heap, and error-handler events *)
Lemma recoverPanic_spec s e at_ s' :
  recoverPanic s e at_ = Ok s' ->
  exists L, log s' = L ++ log s /\ Forall passEv L /\
    obs s' = obs s /\ handlers s' = handlers s /\ status s' = status s /\ stabNum s' = stabNum s /\
    setDuring s' = setDuring s /\ setRemoved s' = setRemoved s /\
    (forall m, exists r, nd s' m = nd s m <| recomputedAt := r |>) /\
    (forall m, isVar s' m = isVar s m) /\
    (forall m, inHeap s m = true -> inHeap s' m = true) /\
    (forall k, e = Some (EPanic k) -> recomputedAt (nd s' at_) = 0 /\ inHeap s' at_ = true).
Proof.
  unfold recoverPanic. intros H.
  assert (Hid : forall m, exists r, nd s m = nd s m <| recomputedAt := r |>).
  { intros m. exists (recomputedAt (nd s m)). destruct (nd s m); reflexivity. }
  destruct e as [[]|]; try (injection H as <-; exists []; repeat split; auto; discriminate).
  apply rbind_ok in H as (s1 & H1 & [= <-]).
  destruct (errorHandlers_eq s1 at_) as (L & -> & HL).
  pose proof (heapAddIfNotPresent_heapOnly _ _ _ H1) as Ho.
  exists L. split; [destruct Ho as [w ->]; reflexivity|]. split; [exact HL|].
  do 6 (split; [destruct Ho as [w ->]; reflexivity|]).
  split; [|split; [|split]].
  - intros m. change (exists r, nd s1 m = nd s m <| recomputedAt := r |>).
    rewrite (heapOnly_nd _ _ m Ho), nd_upd_if. destruct (decide (m = at_)) as [->|]; [|apply Hid].
    destruct (nodes s !! at_) eqn:E; [eexists; reflexivity|]. unfold nd. rewrite E. exists 0. reflexivity.
  - intros m. change (isVar s1 m = isVar s m). rewrite (isVar_heapOnly _ _ m Ho).
    apply isVar_upd. intros []; reflexivity.
  - intros m Hm. change (inHeap s1 m = true).
    rewrite (heapAddIfNotPresent_inHeap _ _ _ m H1). apply orb_true_iff. right. exact Hm.
  - intros k _. split.
    + change (recomputedAt (nd s1 at_) = 0).
      rewrite (heapOnly_nd _ _ at_ Ho), nd_upd_if, decide_True by reflexivity.
      destruct (nodes s !! at_); [destruct (nd s at_)|]; reflexivity.
    + change (inHeap s1 at_ = true).
      rewrite (heapAddIfNotPresent_inHeap _ _ _ at_ H1), bool_decide_eq_true_2 by reflexivity. reflexivity.
Qed.

Lemma hev_emit e s k : hev (emit e s) k = hev s k.
Proof. apply hev_ext; [reflexivity|]. intros m. auto. Qed.

(* the epilogue of a pass, when the deferred lists hold vars only *)
Lemma stabilizeEnd_spec s e s' :
  Forall (fun w => isVar s w = true) (setRemoved s ++ setDuring s) ->
  stabilizeEnd s e = Ok s' ->
  status s' = 0 /\ stabNum s' = stabNum s + 1 /\ handlers s' = [] /\ setDuring s' = [] /\ setRemoved s' = [] /\
  obs s' = obs s /\ binds s' = binds s /\ next s' = next s /\ reg s' = reg s /\
  log s' = rev (map (hev s) (handlers s)) ++ EvPassEnd (classify e) :: log s /\
  (forall n, vps (nd s n) (nd s' n)) /\ (forall n, isVar s' n = isVar s n) /\
  (forall n, inHeap s n = true -> inHeap s' n = true) /\
  (forall v x, v ∈ setRemoved s ++ setDuring s -> pending (nd s v) = Some x ->
               recomputedAt (nd s v) <> stabNum s + 1 -> value (nd s' v) = x /\ pending (nd s' v) = None) /\
  (forall v x, value (nd s v) = x -> pending (nd s v) = None -> value (nd s' v) = x /\ pending (nd s' v) = None).
Proof.
  intros Hv. unfold stabilizeEnd. rewrite runUpdateHandlers_eq. intros H.
  apply rbind_ok in H as (s1 & H1 & [= <-]).
  apply applyDeferredSets_inv in H1; [|exact Hv].
  destruct H1 as (A1 & A2 & A3 & A4 & A5 & A6 & A7 & A8 & A9 & A10 & A11 & A12 & A13 & A14 & A15).
  split; [reflexivity|]. split; [exact A6|]. split; [exact A8|]. split; [exact A1|]. split; [exact A2|].
  split; [exact A9|]. split; [exact A10|]. split; [exact A11|]. split; [exact A12|].
  split.
  { change (log s1 = rev (map (hev s) (handlers s)) ++ EvPassEnd (classify e) :: log s). rewrite A7. cbn.
    f_equal. f_equal. apply map_ext. intros k. apply hev_emit. }
  split; [exact A13|]. split; [exact A14|]. split; [exact A15|]. split; [exact A3|exact A4].
Qed.

Lemma stabilizeEnd_status s e s' : stabilizeEnd s e = Ok s' -> status s' = 0.
Proof. unfold stabilizeEnd. intros H. apply rbind_ok in H as (s1 & _ & [= <-]). reflexivity. Qed.

Definition passStart (s : state) : state := emit EvPassStart (s <| status := 1 |>).

Definition passResult (p : plan) (c : bool) (s : state) : res (state * option err * nid * list nid) :=
  let s0 := passStart s in
  if c && (0 <? Heap.cnt (heap s0)) then Ok (s0, Some ECancelled, 0%nat, [])
  else passLoop (passFuel s0) p s0 [].

Lemma stabilize_decompose p c s s' e :
  status s = 0 -> stabilize p c s = Ok (s', e) ->
  exists sL at_ always s2 s3,
    passResult p c s = Ok (sL, e, at_, always) /\
    requeueAlways always sL = Ok s2 /\ recoverPanic s2 e at_ = Ok s3 /\ stabilizeEnd s3 e = Ok s'.
Proof.
  intros Hst. rewrite stabilize_unfold, Hst. change (negb (0 =? 0)) with false. cbv iota zeta.
  intros H. apply rbind_ok in H as ([[[sL e1] at_] always] & H1 & H).
  apply rbind_ok in H as (s2 & H2 & H). apply rbind_ok in H as (s3 & H3 & H).
  apply rbind_ok in H as (s4 & H4 & [= <- <-]). exists sL, at_, always, s2, s3. auto.
Qed.

Lemma passResult_frames p c s sL e at_ always :
  passResult p c s = Ok (sL, e, at_, always) ->
  pframe (passStart s) sL /\
  (plan_ok s p = true -> wvR (fun v => isVar s v = true) (passStart s) sL) /\
  (ssorted (handlers s) -> ssorted (handlers sL)).
Proof.
  unfold passResult. cbv zeta. destruct (_ && _).
  - intros [= <- <- <- <-]. split; [apply pframe_refl|]. split; [intros _ v Hv; left; exact Hv|auto].
  - intros H. split; [eapply pf_passLoop, H|]. split.
    + intros Hp. eapply (fr_passLoop (wvR _)); [apply wvR_hyps| |exact H]. apply plan_ok_planv, Hp.
    + apply (C13_handlers_sorted_passLoop _ _ _ _ _ _ _ _ H).
Qed.

Definition isHandlerEv (e : event) : Prop := match e with EvUpd _ | EvObsUpd _ _ => True | _ => False end.

Lemma hev_isHandlerEv s k : isHandlerEv (hev s k).
Proof. unfold hev. destruct (obs s !! k); exact I. Qed.

(** C13.2 (+ C13.3): one start bracket, the computations of the pass, one end bracket carrying the
    error class, then exactly one handler event per key of the final handler set, in key order,
    an observer's event carrying the value of the observed node when the pass loop ended *)
Lemma C13_bracket_and_order p c s s' e :
  status s = 0 -> ids_below s -> plan_ok s p = true ->
  Forall (fun v => isVar s v = true) (setDuring s ++ setRemoved s) ->
  stabilize p c s = Ok (s', e) ->
  exists L sL at_ always,
    passResult p c s = Ok (sL, e, at_, always) /\
    rev (log s') = rev (log s) ++ [EvPassStart] ++ L ++ [EvPassEnd (classify e)] ++ map (hev sL) (handlers sL) /\
    Forall passEv L /\ obs sL = obs s /\
    (ssorted (handlers s) -> ssorted (handlers sL) /\ NoDup (handlers sL)).
Proof.
  intros Hst Hids Hp Hv0 H.
  destruct (stabilize_decompose _ _ _ _ _ Hst H) as (sL & at_ & always & s2 & s3 & H1 & H2 & H3 & H4).
  destruct (passResult_frames _ _ _ _ _ _ _ H1) as (Hpf & Hwv & Hss). specialize (Hwv Hp).
  assert (HvL : Forall (fun v => isVar sL v = true) (setRemoved sL ++ setDuring sL)).
  { eapply (pass_deferred_are_vars (passStart s) sL p); [exact Hids|exact Hp|exact Hv0|exact Hpf|exact Hwv]. }
  pose proof (requeueAlways_heapOnly _ _ _ H2) as Ho2.
  destruct (recoverPanic_spec _ _ _ _ H3) as (LE & E3 & HLE & O3 & Hh3 & _ & _ & SD3 & SR3 & N3 & V3 & _).
  assert (Hv3 : Forall (fun v => isVar s3 v = true) (setRemoved s3 ++ setDuring s3)).
  { rewrite SD3, SR3. destruct Ho2 as [w ->]. eapply Forall_impl; [|exact HvL]. intros v Hv. cbv beta in *.
    rewrite V3. exact Hv. }
  destruct (stabilizeEnd_spec _ _ _ Hv3 H4) as (_ & _ & _ & _ & _ & _ & _ & _ & _ & Elog & _).
  destruct Hpf as (Ob & _ & _ & _ & _ & _ & _ & L1 & EL1 & HL1).
  exists (rev L1 ++ rev LE), sL, at_, always. split; [exact H1|]. split; [|split; [|split]].
  - rewrite Elog, E3. destruct Ho2 as [w ->]. cbn [log set]. change (log (sL <| heap := w |>)) with (log sL).
    rewrite EL1. change (log (passStart s)) with (EvPassStart :: log s).
    assert (Eh : map (hev s3) (handlers s3) = map (hev sL) (handlers sL)).
    { rewrite Hh3. apply map_ext. intros k. apply hev_ext; [exact O3|]. intros m.
      destruct (N3 m) as [r ->]. change (nd (sL <| heap := w |>) m) with (nd sL m). destruct (nd sL m); auto. }
    rewrite Eh. rewrite !rev_app_distr, rev_involutive. cbn [rev app]. rewrite !rev_app_distr. cbn [rev app].
    rewrite <- !app_assoc. cbn [app]. reflexivity.
  - apply Forall_app. split; apply Forall_rev; assumption.
  - exact Ob.
  - intros Hs. pose proof (Hss Hs) as Hs'. split; [exact Hs'|apply ssorted_NoDup, Hs'].
Qed.

Lemma C13_observer_value_is_final sL o :
  forall n, obs sL !! o = Some n -> hev sL o = EvObsUpd o (valueOf sL n).
Proof. intros n Hn. unfold hev. rewrite Hn. reflexivity. Qed.

(** C13.4: a node that changed, and each of its observers, is filed for its handler;
    tearing a node down withdraws its key *)
Lemma foldl_insert_sorted_elem l : forall h x,
  x ∈ foldl (fun h o => insert_sorted o h) h l <-> x ∈ h \/ x ∈ l.
Proof.
  induction l as [|o l IH]; intros h x; cbn [foldl].
  - split; [auto|intros [H|H]; [exact H|inversion H]].
  - rewrite IH, insert_sorted_elem, elem_of_cons. tauto.
Qed.

Lemma C13_changed_node_is_queued_for_handler s n s' e imm :
  successTail s n = Ok (s', e, imm) ->
  n ∈ handlers s' /\ (forall o, o ∈ observers (nd s' n) -> o ∈ handlers s') /\
  (forall k, k ∈ handlers s -> k ∈ handlers s') /\
  (forall k, k ∈ handlers s' -> k ∈ handlers s \/ k = n \/ k ∈ observers (nd s n)).
Proof.
  unfold successTail. intros H.
  apply rbind_ok in H as ([s1 held] & H1%childrenLoop_heapOnly & H).
  apply rbind_ok in H as ([s2 imm2] & H2 & [= <- <- <-]).
  assert (Ho2 : heapOnly s1 s2).
  { destruct held as [h|]; [|injection H2 as <- <-; apply heapOnly_refl].
    destruct (canRecomputeImmediately _ _ _); [injection H2 as <- <-; apply heapOnly_refl|].
    apply rbind_ok in H2 as (s3 & H3%heapAdd_heapOnly & [= <- <-]). exact H3. }
  pose proof (heapOnly_trans _ _ _ H1 Ho2) as Ho. clear H1 Ho2 H2.
  rewrite insert_handlers_eq.
  assert (Eh : handlers s2 = insert_sorted n (handlers s)) by (destruct Ho as [w ->]; reflexivity).
  assert (Eo : observers (nd s2 n) = observers (nd s n)).
  { rewrite (heapOnly_nd _ _ n Ho). unfold insert_handler.
    change (observers (nd (upd s n (set changedAt (fun _ => stabNum s))) n) = observers (nd s n)).
    apply (nd_upd_keep observers). intros []; reflexivity. }
  change (nd (s2 <| handlers := _ |>) n) with (nd s2 n).
  change (handlers (s2 <| handlers := ?h |>)) with h.
  split; [|split; [|split]].
  - apply foldl_insert_sorted_elem. left. rewrite Eh. apply insert_sorted_elem. auto.
  - intros o Ho'. apply foldl_insert_sorted_elem. right. exact Ho'.
  - intros k Hk. apply foldl_insert_sorted_elem. left. rewrite Eh. apply insert_sorted_elem. auto.
  - intros k Hk. apply foldl_insert_sorted_elem in Hk. rewrite Eh, insert_sorted_elem, Eo in Hk. tauto.
Qed.

Lemma C13_zeroNode_withdraws s n s' :
  zeroNode s n = Ok s' -> handlers s' = rm n (handlers s) /\ n ∉ handlers s'.
Proof.
  unfold zeroNode. intros H. apply rbind_ok in H as (s1 & H1 & [= <-]).
  assert (E : handlers s1 = handlers s).
  { destruct (inHeap s n); [|injection H1 as <-; reflexivity].
    unfold heapRemove in H1. apply rbind_ok in H1 as (w & _ & [= <-]). reflexivity. }
  match goal with |- handlers ?X = _ /\ _ => assert (E' : handlers X = rm n (handlers s)) by (rewrite <- E; reflexivity) end.
  split; [exact E'|]. rewrite E'. unfold rm. rewrite elem_of_list_filter. tauto.
Qed.

(** the same for ParallelStabilize *)
Definition requeueAlwaysPar (always : list nid) (s : state) : res state :=
  rfold (fun s n => if (height (nd s n) =? unset) || inHeap s n then Ok s else heapAdd s n) always s.

Lemma requeueAlwaysPar_heapOnly always : forall s s', requeueAlwaysPar always s = Ok s' -> heapOnly s s'.
Proof.
  unfold requeueAlwaysPar. induction always as [|n l IH]; intros s s' H; cbn [rfold] in H.
  - injection H as <-. apply heapOnly_refl.
  - apply rbind_ok in H as (s1 & H1 & H%IH). eapply heapOnly_trans; [|exact H].
    destruct (_ || _); [injection H1 as <-; apply heapOnly_refl|eapply heapAdd_heapOnly, H1].
Qed.

Lemma parStabilize_decompose p s s' e :
  status s = 0 -> parStabilize p s = Ok (s', e) ->
  exists sL always s2,
    parLoop (passFuel (passStart s)) p (passStart s) [] = Ok (sL, e, always) /\
    requeueAlwaysPar always sL = Ok s2 /\ stabilizeEnd s2 e = Ok s'.
Proof.
  intros Hst. unfold parStabilize. rewrite Hst. change (negb (0 =? 0)) with false. cbv iota zeta.
  intros H. apply rbind_ok in H as ([[sL e1] always] & H1 & H).
  apply rbind_ok in H as (s2 & H2 & H). apply rbind_ok in H as (s4 & H4 & [= <- <-]).
  exists sL, always, s2. auto.
Qed.

Lemma C13_bracket_and_order_par p s s' e :
  status s = 0 -> ids_below s -> plan_ok s p = true ->
  Forall (fun v => isVar s v = true) (setDuring s ++ setRemoved s) ->
  parStabilize p s = Ok (s', e) ->
  exists L sL always,
    parLoop (passFuel (passStart s)) p (passStart s) [] = Ok (sL, e, always) /\
    rev (log s') = rev (log s) ++ [EvPassStart] ++ L ++ [EvPassEnd (classify e)] ++ map (hev sL) (handlers sL) /\
    Forall passEv L /\ obs sL = obs s /\
    (ssorted (handlers s) -> ssorted (handlers sL) /\ NoDup (handlers sL)).
Proof.
  intros Hst Hids Hp Hv0 H.
  destruct (parStabilize_decompose _ _ _ _ Hst H) as (sL & always & s2 & H1 & H2 & H4).
  pose proof (pf_parLoop _ _ _ _ _ _ _ H1) as Hpf.
  assert (Hwv : wvR (fun v => isVar s v = true) (passStart s) sL).
  { eapply (fr_parLoop (wvR _)); [apply wvR_hyps| |exact H1]. apply plan_ok_planv, Hp. }
  assert (HvL : Forall (fun v => isVar sL v = true) (setRemoved sL ++ setDuring sL)).
  { eapply (pass_deferred_are_vars (passStart s) sL p); [exact Hids|exact Hp|exact Hv0|exact Hpf|exact Hwv]. }
  pose proof (requeueAlwaysPar_heapOnly _ _ _ H2) as [w ->].
  assert (HvL' : Forall (fun v => isVar (sL <| heap := w |>) v = true)
                   (setRemoved (sL <| heap := w |>) ++ setDuring (sL <| heap := w |>))) by exact HvL.
  destruct (stabilizeEnd_spec _ _ _ HvL' H4) as (_ & _ & _ & _ & _ & _ & _ & _ & _ & Elog & _).
  destruct Hpf as (Ob & _ & _ & _ & _ & _ & _ & L1 & EL1 & HL1).
  exists (rev L1), sL, always. split; [exact H1|]. split; [|split; [|split]].
  - rewrite Elog. change (log (sL <| heap := w |>)) with (log sL).
    change (handlers (sL <| heap := w |>)) with (handlers sL).
    rewrite EL1. change (log (passStart s)) with (EvPassStart :: log s).
    assert (Eh : map (hev (sL <| heap := w |>)) (handlers sL) = map (hev sL) (handlers sL)).
    { apply map_ext. intros k. apply hev_ext; [reflexivity|]. intros m. auto. }
    rewrite Eh. rewrite !rev_app_distr, rev_involutive. cbn [rev app]. rewrite !rev_app_distr. cbn [rev app].
    rewrite <- !app_assoc. cbn [app]. reflexivity.
  - apply Forall_rev. assumption.
  - exact Ob.
  - intros Hs. pose proof (C13_handlers_sorted_parLoop _ _ _ _ _ _ _ H1 Hs) as Hs'.
    split; [exact Hs'|apply ssorted_NoDup, Hs'].
Qed.

(** * 5. C07: errors, panics, cancellation *)

(** C07.1: the stabilizing mark is released however the pass ends; a pass cannot start while
    another is marked as running *)
Lemma C07_status_released p c s s' e : status s = 0 -> stabilize p c s = Ok (s', e) -> status s' = 0.
Proof.
  intros Hst H. destruct (stabilize_decompose _ _ _ _ _ Hst H) as (? & ? & ? & ? & s3 & _ & _ & _ & H4).
  eapply stabilizeEnd_status, H4.
Qed.

Lemma C07_already_stabilizing p c s : status s <> 0 -> stabilize p c s = fail s EAlreadyStabilizing.
Proof.
  intros Hst. rewrite stabilize_unfold. destruct (Z.eqb_spec (status s) 0); [contradiction|reflexivity].
Qed.

Lemma C07_status_released_par p s s' e : status s = 0 -> parStabilize p s = Ok (s', e) -> status s' = 0.
Proof.
  intros Hst H. destruct (parStabilize_decompose _ _ _ _ Hst H) as (? & ? & s2 & _ & _ & H4).
  eapply stabilizeEnd_status, H4.
Qed.

Lemma C07_already_stabilizing_par p s : status s <> 0 -> parStabilize p s = fail s EAlreadyStabilizing.
Proof.
  intros Hst. unfold parStabilize. destruct (Z.eqb_spec (status s) 0); [contradiction|reflexivity].
Qed.

(* in every outcome: Ok with status 0, or the EAlreadyStabilizing rejection with the state untouched *)
Lemma C07_status_released_any p c s s' e :
  stabilize p c s = Ok (s', e) -> (status s = 0 /\ status s' = 0) \/ (status s <> 0 /\ s' = s /\ e = Some EAlreadyStabilizing).
Proof.
  intros H. destruct (Z.eq_dec (status s) 0) as [Hst|Hst].
  - left. split; [exact Hst|eapply C07_status_released; eauto].
  - right. rewrite (C07_already_stabilizing _ _ _ Hst) in H. injection H as <- <-. auto.
Qed.

(** ** What a user-function invocation can do: the plan's writes (value / pending / setAt of
       vars, the heap, setDuring) and at most one fault *)
Definition vpsAll (s s' : state) : Prop := forall m, vps (nd s m) (nd s' m).

Lemma vpsAll_refl s : vpsAll s s.
Proof. intros m. apply vps_refl. Qed.
Lemma vpsAll_trans s1 s2 s3 : vpsAll s1 s2 -> vpsAll s2 s3 -> vpsAll s1 s3.
Proof. intros H1 H2 m. eapply vps_trans; eauto. Qed.
Lemma vpsAll_heapOnly s s' : heapOnly s s' -> vpsAll s s'.
Proof. intros [w ->] m. apply vps_refl. Qed.
Lemma vpsAll_hhOnly s s' : hhOnly s s' -> vpsAll s s'.
Proof. intros (w & h & ->) m. apply vps_refl. Qed.

Lemma vpsAll_upd s n f : (forall x, vps x (f x)) -> vpsAll s (upd s n f).
Proof.
  intros Hf m. rewrite nd_upd_if. destruct (decide (m = n)) as [->|]; [|apply vps_refl].
  destruct (nodes s !! n) eqn:E; [apply Hf|]. unfold nd. rewrite E. apply vps_refl.
Qed.

Lemma vps_set_value x a : vps x (x <| value := a |>).
Proof. exists a, (pending x), (setAt x). destruct x; reflexivity. Qed.
Lemma vps_set_pending x a : vps x (x <| pending := a |>).
Proof. exists (value x), a, (setAt x). destruct x; reflexivity. Qed.
Lemma vps_set_setAt x a : vps x (x <| setAt := a |>).
Proof. exists (value x), (pending x), a. destruct x; reflexivity. Qed.

Lemma setStale_vpsAll s n s' : setStale s n = Ok s' -> vpsAll s s'.
Proof. intros H. exact (proj1 (proj2 (dfr_setStale _ _ _ H))). Qed.

Lemma varSet_vpsAll s v x s' : varSet s v x = Ok s' -> vpsAll s s'.
Proof.
  rewrite varSet_unfold. destruct (eqNoop s v x); [intros [= <-]; apply vpsAll_refl|].
  destruct (status s =? 1).
  { intros [= <-]. intros m. unfold deferSet. change (vps (nd s m) (nd (upd s v (set pending (fun _ => Some x))) m)).
    apply vpsAll_upd. intros y. apply vps_set_pending. }
  cbv zeta. assert (H0 : vpsAll s (upd s v (set value (fun _ => x)))) by (apply vpsAll_upd; intros y; apply vps_set_value).
  destruct (isNecessary _); [|intros [= <-]; exact H0].
  intros H%setStale_vpsAll. eapply vpsAll_trans; eauto.
Qed.

Lemma varSet_inHeap s v x s' m : varSet s v x = Ok s' -> inHeap s m = true -> inHeap s' m = true.
Proof.
  rewrite varSet_unfold. destruct (eqNoop s v x); [intros [= <-]; auto|].
  destruct (status s =? 1); [intros [= <-]; auto|]. cbv zeta.
  destruct (isNecessary _); [|intros [= <-]; auto].
  intros H Hm. apply (proj2 (proj2 (proj2 (dfr_setStale _ _ _ H)))). exact Hm.
Qed.

Lemma varSet_log s v x s' : varSet s v x = Ok s' -> log s' = log s /\ handlers s' = handlers s.
Proof.
  rewrite varSet_unfold. destruct (eqNoop s v x); [intros [= <-]; auto|].
  destruct (status s =? 1); [intros [= <-]; auto|]. cbv zeta.
  destruct (isNecessary _); [|intros [= <-]; auto].
  intros H. destruct (dfr_state _ _ (dfr_setStale _ _ _ H)) as (_ & _ & _ & _ & _ & _ & _ & _ & _ & _ & _ & E1 & _ & E2).
  auto.
Qed.

(* the first fault among a list of actions *)
Fixpoint firstFault (acts : list action) : option faultkind :=
  match acts with
  | [] => None
  | AFail k :: _ => Some k
  | _ :: acts => firstFault acts
  end.

Lemma applyActions_gen_spec acts : forall s f s' f',
  rfold (fun '(s, f) a =>
         match f with
         | Some _ => Ok (s, f)
         | None =>
           match a with
           | AFail k => Ok (s, Some k)
           | ASet v x => s <-! varSet s v x; Ok (s, None)
           | AUpdate v d => s <-! varUpdate s v d; Ok (s, None)
           end
         end) acts (s, f) = Ok (s', f') ->
  vpsAll s s' /\ log s' = log s /\ handlers s' = handlers s /\
  (forall m, inHeap s m = true -> inHeap s' m = true) /\
  f' = match f with Some k => Some k | None => firstFault acts end.
Proof.
  induction acts as [|a acts IH]; intros s f s' f' H; cbn [rfold] in H.
  - injection H as <- <-. split; [apply vpsAll_refl|]. repeat split; auto. destruct f; reflexivity.
  - apply rbind_ok in H as ([s1 f1] & H1 & H%IH). destruct H as (A1 & A2 & A3 & A4 & ->).
    destruct f as [k|].
    { injection H1 as <- <-. repeat split; auto. }
    destruct a as [k|v x|v d].
    + injection H1 as <- <-. repeat split; auto.
    + apply rbind_ok in H1 as (s2 & H2 & [= <- <-]).
      destruct (varSet_log _ _ _ _ H2) as [B1 B2].
      split; [eapply vpsAll_trans; [eapply varSet_vpsAll, H2|exact A1]|].
      split; [congruence|]. split; [congruence|]. split; [|reflexivity].
      intros m Hm. apply A4. eapply varSet_inHeap; eauto.
    + apply rbind_ok in H1 as (s2 & H2 & [= <- <-]). rewrite varUpdate_unfold in H2.
      destruct (varSet_log _ _ _ _ H2) as [B1 B2].
      split; [eapply vpsAll_trans; [eapply varSet_vpsAll, H2|exact A1]|].
      split; [congruence|]. split; [congruence|]. split; [|reflexivity].
      intros m Hm. apply A4. eapply varSet_inHeap; eauto.
Qed.

Definition faultErr (n : nid) (k : faultkind) : err := match k with FErr => EUser n | FPanic => EPanic n end.

(** C07.4 (the local half): the error an invocation yields is the plan's fault at that node *)
Lemma invoke_spec p s n w s' e :
  invoke p s n w = Ok (s', e) ->
  e = option_map (faultErr n) (firstFault (actions_of p n w)) /\
  vpsAll s s' /\ (forall m, inHeap s m = true -> inHeap s' m = true) /\ handlers s' = handlers s /\
  exists L, log s' = L ++ log s /\
            L = match firstFault (actions_of p n w) with Some k => [EvFault n w k] | None => [] end.
Proof.
  unfold invoke, applyActions. intros H. apply rbind_ok in H as ([s1 f] & H1 & H).
  apply applyActions_gen_spec in H1 as (A1 & A2 & A3 & A4 & ->).
  destruct (firstFault (actions_of p n w)) as [[]|]; injection H as <- <-;
    (split; [reflexivity|]); (split; [exact A1|]); (split; [exact A4|]); (split; [exact A3|]);
    eexists; (split; [|reflexivity]); cbn; rewrite A2; reflexivity.
Qed.

Lemma firstFault_in acts k : firstFault acts = Some k -> AFail k ∈ acts.
Proof.
  induction acts as [|a acts IH]; [discriminate|]. destruct a; cbn.
  - intros [= ->]. left.
  - intros H. right. apply IH, H.
  - intros H. right. apply IH, H.
Qed.

(** the errors of the structural functions are structural *)
Definition structErr (e : option err) : Prop := e = None \/ e = Some ECycle \/ e = Some EHeightLimit.

Lemma se_efold {A} (f : state -> A -> M) l :
  (forall s a s' e, f s a = Ok (s', e) -> structErr e) ->
  forall s s' e, efold f l s = Ok (s', e) -> structErr e.
Proof.
  intros Hf. induction l as [|a l IH]; intros s s' e H; cbn in H.
  - injection H as <- <-. left. reflexivity.
  - apply ebind_cases in H as (s1 & e1 & H1 & [(x & -> & -> & ->)|(-> & H)]).
    + eapply Hf, H1.
    + eapply IH, H.
Qed.

Lemma se_setHeight s n h s' e : setHeight s n h = Ok (s', e) -> structErr e.
Proof.
  unfold setHeight, fail, ok. destruct (h >? maxHeight s - 1); [intros [= <- <-]; right; right; reflexivity|].
  intros [= <- <-]. left. reflexivity.
Qed.

Lemma se_lift m s' e : lift m = Ok (s', e) -> structErr e.
Proof. intros [_ ->]%lift_cases. left. reflexivity. Qed.

Lemma se_becameNecessaryRecursive fuel : forall s n s' e,
  becameNecessaryRecursive fuel s n = Ok (s', e) -> structErr e.
Proof.
  induction fuel as [|fuel IH]; intros s n s' e H; [discriminate|].
  cbn [becameNecessaryRecursive] in H.
  apply ebind_cases in H as (s1 & e1 & H1%se_setHeight & [(x & -> & -> & ->)|(-> & H)]); [exact H1|].
  apply ebind_cases in H as (s2 & e2 & H2 & H).
  assert (S2 : structErr e2).
  { revert H2. apply se_efold. intros t p t' e' G.
    apply ebind_cases in G as (t1 & e1 & G1 & [(x & -> & -> & ->)|(-> & G)]).
    - destruct (isNecessary _); [discriminate G1|eapply IH, G1].
    - destruct (_ >=? _); [eapply se_setHeight, G|injection G as <- <-; left; reflexivity]. }
  destruct H as [(x & -> & -> & ->)|(-> & H)]; [exact S2|].
  destruct (isStale _ _); [eapply se_lift, H|injection H as <- <-; left; reflexivity].
Qed.

Lemma se_addChildWithoutAdjustingHeights fuel s c p s' e :
  addChildWithoutAdjustingHeights fuel s c p = Ok (s', e) -> structErr e.
Proof.
  unfold addChildWithoutAdjustingHeights. destruct (isNecessary _).
  - intros [= <- <-]. left. reflexivity.
  - apply se_becameNecessaryRecursive.
Qed.

Lemma se_ensureHeightRequirement s o c p s' e :
  ensureHeightRequirement s o c p = Ok (s', e) -> structErr e.
Proof.
  unfold ensureHeightRequirement, fail, ok. destruct (bool_decide _); [intros [= <- <-]; right; left; reflexivity|].
  destruct (_ >=? _); [|intros [= <- <-]; left; reflexivity]. intros H.
  apply ebind_cases in H as (s1 & e1 & [H1 ->]%lift_cases & [(x & [=] & _)|(_ & H%se_setHeight)]). exact H.
Qed.

Lemma se_adjustLoop fuel : forall s o s' e, adjustLoop fuel s o = Ok (s', e) -> structErr e.
Proof.
  induction fuel as [|fuel IH]; intros s o s' e H; [discriminate|]. cbn [adjustLoop] in H.
  destruct (_ <=? 0); [injection H as <- <-; left; reflexivity|].
  apply rbind_ok in H as ([popped s1] & H1 & H).
  destruct popped as [p|]; [|discriminate].
  apply ebind_cases in H as (s2 & e2 & [H2 ->]%lift_cases & [(x & [=] & _)|(_ & H)]).
  apply ebind_cases in H as (s3 & e3 & H3 & H).
  assert (S3 : structErr e3).
  { revert H3. apply se_efold. intros ? ? ? ?. apply se_ensureHeightRequirement. }
  destruct H as [(x & -> & -> & ->)|(-> & H)]; [exact S3|].
  apply ebind_cases in H as (s4 & e4 & H4 & H).
  assert (S4 : structErr e4).
  { destruct (nkind (nd s3 p)); try (injection H4 as <- <-; left; reflexivity).
    revert H4. apply se_efold. intros ? ? ? ?.
    destruct (isNecessary _); [apply se_ensureHeightRequirement|intros [= <- <-]; left; reflexivity]. }
  destruct H as [(x & -> & -> & ->)|(-> & H%IH)]; assumption.
Qed.

Lemma se_adjustHeights fuel s c p s' e : adjustHeights fuel s c p = Ok (s', e) -> structErr e.
Proof.
  unfold adjustHeights. intros H.
  apply ebind_cases in H as (s1 & e1 & H1%se_ensureHeightRequirement & [(x & -> & -> & ->)|(-> & H%se_adjustLoop)]); assumption.
Qed.

Lemma se_addChild fuel s c p s' e : addChild fuel s c p = Ok (s', e) -> structErr e.
Proof.
  unfold addChild. intros H.
  apply ebind_cases in H as (s1 & e1 & H1%se_addChildWithoutAdjustingHeights & [(x & -> & -> & ->)|(-> & H)]); [exact H1|].
  apply ebind_cases in H as (s2 & e2 & H2 & H).
  assert (S2 : structErr e2) by (destruct (_ >=? _); [eapply se_adjustHeights, H2|injection H2 as <- <-; left; reflexivity]).
  destruct H as [(x & -> & -> & ->)|(-> & H)]; [exact S2|].
  apply ebind_cases in H as (s3 & e3 & [H3 ->]%lift_cases & [(x & [=] & _)|(_ & H)]).
  destruct (_ || _); [eapply se_lift, H|injection H as <- <-; left; reflexivity].
Qed.

Lemma se_changeParent fuel s c o n s' e : changeParent fuel s c o n = Ok (s', e) -> structErr e.
Proof.
  unfold changeParent. intros H. destruct o as [o|], n as [n|].
  - destruct (bool_decide _); [injection H as <- <-; left; reflexivity|].
    apply ebind_cases in H as (s1 & e1 & H1%se_addChild & [(x & -> & -> & ->)|(-> & H%se_lift)]); assumption.
  - eapply se_lift, H.
  - eapply se_addChild, H.
  - injection H as <- <-. left. reflexivity.
Qed.

(* a bind's lhs-change node: the bind function's fault, or a structural rejection *)
Lemma bindLhsStabilize_err fuel p s b s' e :
  bindLhsStabilize fuel p s b = Ok (s', e) ->
  structErr e \/ (exists k, firstFault (actions_of p b WFn) = Some k /\ e = Some (faultErr b k)).
Proof.
  unfold bindLhsStabilize. intros H.
  apply rbind_ok in H as ([[s1 e1] built] & H1 & H).
  destruct (if b_memo (bd s b) then _ else _) as [[? [? root]]|].
  - injection H1 as <- <- <-.
    apply ebind_cases in H as (s2 & e2 & H2%se_changeParent & [(x & -> & -> & ->)|(-> & H)]); [left; exact H2|].
    apply ebind_cases in H as (s3 & e3 & [H3 ->]%lift_cases & [(x & [=] & _)|(_ & H%se_lift)]). left. exact H.
  - apply rbind_ok in H1 as ([s2 e2] & H2%invoke_spec & H1). destruct H2 as (-> & _).
    destruct (firstFault (actions_of p b WFn)) as [k|] eqn:Ef; cbn [option_map] in H1.
    + injection H1 as <- <- <-. injection H as <- <-. right. exists k. auto.
    + destruct (inst s2 _ _ _) as [s3 root]. injection H1 as <- <- <-.
      apply ebind_cases in H as (s4 & e4 & H4%se_changeParent & [(x & -> & -> & ->)|(-> & H)]); [left; exact H4|].
      apply ebind_cases in H as (s5 & e5 & [H5 ->]%lift_cases & [(x & [=] & _)|(_ & H%se_lift)]). left. exact H.
Qed.

Lemma vpsAll_emit e s : vpsAll s (emit e s).
Proof. intros m. apply vps_refl. Qed.

Lemma maybeCutoff_spec p s0 n x s1 e cut :
  maybeCutoff p s0 n x = Ok (s1, e, cut) ->
  vpsAll s0 s1 /\ (forall m, inHeap s0 m = true -> inHeap s1 m = true) /\ handlers s1 = handlers s0 /\
  match nkind x with
  | KCutoff c =>
    e = option_map (faultErr n) (firstFault (actions_of p n WCut)) /\
    (e <> None -> cut = false) /\
    (e = None -> cut = apCut c (value x) (valueOf s0 (hd 0%nat (decl x))) /\
                 exists s1', invoke p s0 n WCut = Ok (s1', None) /\
                             s1 = emit (EvCutoff n (value x) (valueOf s0 (hd 0%nat (decl x))) cut) s1')
  | _ => e = None /\ cut = false /\ s1 = s0
  end.
Proof.
  unfold maybeCutoff. intros H.
  destruct (nkind x); try (injection H as <- <- <-; split; [apply vpsAll_refl|]; repeat split; auto).
  apply rbind_ok in H as ([s2 e2] & H2 & H). pose proof H2 as H2'.
  apply invoke_spec in H2 as (-> & A1 & A2 & A3 & _).
  destruct (firstFault (actions_of p n WCut)) as [k|]; cbn [option_map] in *; injection H as <- <- <-.
  - split; [exact A1|]. split; [exact A2|]. split; [exact A3|]. split; [reflexivity|].
    split; [reflexivity|discriminate].
  - split; [exact A1|]. split; [exact A2|]. split; [exact A3|]. split; [reflexivity|].
    split; [intros []; reflexivity|]. intros _. split; [reflexivity|]. eexists. split; [exact H2'|reflexivity].
Qed.

Lemma pf_maybeCutoff p s0 n x s1 e cut : maybeCutoff p s0 n x = Ok (s1, e, cut) -> pframe s0 s1.
Proof. unfold maybeCutoff. eapply (fr_maybeCutoff pframe); [exact pframe_hyps|apply planv_True]. Qed.

(* the stabilize step of every kind but a bind's lhs-change node is shallow *)
Lemma stabilizeNode_shallow fuel p s n s' e :
  (forall b, nkind (nd s n) <> KBindLhs b) -> stabilizeNode fuel p s n = Ok (s', e) ->
  vpsAll s s' /\ (forall m, inHeap s m = true -> inHeap s' m = true) /\ handlers s' = handlers s /\
  e = match nkind (nd s n) with
      | KMap _ | KMap2 _ | KMapN _ => option_map (faultErr n) (firstFault (actions_of p n WFn))
      | _ => None
      end.
Proof.
  intros Hk. unfold stabilizeNode, ok, fail. destruct (nkind (nd s n)) eqn:Ek.
  - destruct (pending _); [destruct (_ =? _)|]; intros [= <- <-];
      (split; [first [apply vpsAll_refl|apply vpsAll_upd; intros y; eapply vps_trans; [apply vps_set_value|apply vps_set_pending]]|]);
      repeat split; auto.
  - intros [= <- <-]. split; [apply vpsAll_refl|]. repeat split; auto.
  - intros H. apply rbind_ok in H as ([s1 e1] & H1%invoke_spec & H). destruct H1 as (-> & A1 & A2 & A3 & _).
    destruct (firstFault _); cbn [option_map] in *; injection H as <- <-.
    + repeat split; auto.
    + split; [eapply vpsAll_trans; [exact A1|eapply vpsAll_trans; [apply vpsAll_upd; intros y; apply vps_set_value|apply vpsAll_emit]]|].
      repeat split; auto.
  - intros H. apply rbind_ok in H as ([s1 e1] & H1%invoke_spec & H). destruct H1 as (-> & A1 & A2 & A3 & _).
    destruct (firstFault _); cbn [option_map] in *; injection H as <- <-.
    + repeat split; auto.
    + split; [eapply vpsAll_trans; [exact A1|eapply vpsAll_trans; [apply vpsAll_upd; intros y; apply vps_set_value|apply vpsAll_emit]]|].
      repeat split; auto.
  - intros H. apply rbind_ok in H as ([s1 e1] & H1%invoke_spec & H). destruct H1 as (-> & A1 & A2 & A3 & _).
    destruct (firstFault _); cbn [option_map] in *; injection H as <- <-.
    + repeat split; auto.
    + split; [eapply vpsAll_trans; [exact A1|eapply vpsAll_trans; [apply vpsAll_upd; intros y; apply vps_set_value|apply vpsAll_emit]]|].
      repeat split; auto.
  - intros [= <- <-]. split; [apply vpsAll_upd; intros y; apply vps_set_value|]. repeat split; auto.
  - intros [= <- <-]. split; [apply vpsAll_refl|]. repeat split; auto.
  - exfalso. eapply Hk. reflexivity.
  - intros [= <- <-]. split; [apply vpsAll_upd; intros y; apply vps_set_value|]. repeat split; auto.
Qed.

(** C07.4 (node level): an error other than a structural rejection is the fault the plan holds
    for the node being recomputed (for a bind's lhs-change node: for the bind's function) *)
Lemma stabilizeNode_err fuel p s n s' e :
  stabilizeNode fuel p s n = Ok (s', e) ->
  structErr e \/
  exists m k, firstFault (actions_of p m WFn) = Some k /\ e = Some (faultErr m k) /\
              (m = n \/ nkind (nd s n) = KBindLhs m).
Proof.
  intros H. destruct (nkind (nd s n)) eqn:Ek;
    try (destruct (stabilizeNode_shallow fuel p s n s' e) as (_ & _ & _ & He);
         [intros b0; rewrite Ek; discriminate|exact H|]; rewrite Ek in He;
         first [left; left; exact He
               |destruct (firstFault (actions_of p n WFn)) as [k|] eqn:Ef; cbn in He;
                [right; exists n, k; auto|left; left; exact He]]).
  unfold stabilizeNode in H. rewrite Ek in H. apply bindLhsStabilize_err in H as [H|(k & Hk & ->)]; [left; exact H|].
  right. exists b, k. auto.
Qed.

Lemma failTail_spec s2 n prev e s' e' imm :
  failTail s2 n prev e = Ok (s', e', imm) ->
  e' = Some e /\ imm = None /\
  ((exists m, e = EPanic m /\ s' = s2) \/
   ((forall m, e <> EPanic m) /\ inHeap s' n = true /\
    (is_Some (nodes s2 !! n) -> recomputedAt (nd s' n) = prev) /\
    (forall m, m <> n -> nd s' m = nd s2 m) /\
    (forall m, inHeap s2 m = true -> inHeap s' m = true) /\ handlers s' = handlers s2)).
Proof.
  assert (G : forall s3, recomputeFailed s2 n prev = Ok s3 ->
    inHeap (errorHandlers s3 n) n = true /\
    (is_Some (nodes s2 !! n) -> recomputedAt (nd (errorHandlers s3 n) n) = prev) /\
    (forall m, m <> n -> nd (errorHandlers s3 n) m = nd s2 m) /\
    (forall m, inHeap s2 m = true -> inHeap (errorHandlers s3 n) m = true) /\
    handlers (errorHandlers s3 n) = handlers s2).
  { intros s3 H3. unfold recomputeFailed in H3.
    destruct (errorHandlers_eq s3 n) as (L & -> & _).
    pose proof (heapAddIfNotPresent_heapOnly _ _ _ H3) as Ho.
    split; [|split; [|split; [|split]]].
    - change (inHeap s3 n = true). rewrite (heapAddIfNotPresent_inHeap _ _ _ n H3).
      rewrite bool_decide_eq_true_2 by reflexivity. reflexivity.
    - intros Hs. change (recomputedAt (nd s3 n) = prev). rewrite (heapOnly_nd _ _ n Ho).
      rewrite nd_upd_same by exact Hs. destruct (nd s2 n); reflexivity.
    - intros m Hm. change (nd s3 m = nd s2 m). rewrite (heapOnly_nd _ _ m Ho). apply nd_upd_other, Hm.
    - intros m Hm. change (inHeap s3 m = true). rewrite (heapAddIfNotPresent_inHeap _ _ _ m H3).
      apply orb_true_iff. right. exact Hm.
    - destruct Ho as [w ->]. reflexivity. }
  unfold failTail. destruct e;
    try (intros H; apply rbind_ok in H as (s3 & H3 & [= <- <- <-]);
         split; [reflexivity|]; split; [reflexivity|]; right; split; [discriminate|apply G, H3]).
  intros [= <- <- <-]. split; [reflexivity|]. split; [reflexivity|]. left. eauto.
Qed.

(** C07.2 / C03.3 (error half): a node whose recompute failed with an error (not a panic) is back
    in the heap with the stamp it had before *)
Lemma C07_failed_node_stays_scheduled fuel p s n s' e imm :
  recomputeNodeSerial fuel p s n = Ok (s', Some e, imm) -> (forall m, e <> EPanic m) ->
  is_Some (nodes s !! n) ->
  inHeap s' n = true /\ recomputedAt (nd s' n) = recomputedAt (nd s n) /\ imm = None.
Proof.
  rewrite recomputeNodeSerial_unfold. cbv zeta. intros H Hne Hs.
  apply rbind_ok in H as ([[s1 e1] cut] & H1 & H).
  assert (Hs1 : is_Some (nodes s1 !! n)).
  { apply pf_maybeCutoff in H1 as (_ & _ & _ & _ & _ & Hd & _). apply Hd, some_upd, Hs. }
  assert (Fin : forall s2 e2, is_Some (nodes s2 !! n) ->
            failTail s2 n (recomputedAt (nd s n)) e2 = Ok (s', Some e, imm) ->
            inHeap s' n = true /\ recomputedAt (nd s' n) = recomputedAt (nd s n) /\ imm = None).
  { intros s2 e2 Hs2 Hf. apply failTail_spec in Hf as ([= ->] & -> & [(m & -> & _)|(_ & A1 & A2 & _)]).
    - exfalso. eapply Hne. reflexivity.
    - auto. }
  destruct e1 as [e1|]; [eapply Fin; eauto|].
  destruct cut; [discriminate|].
  apply rbind_ok in H as ([s2 e2] & H2 & H).
  destruct e2 as [e2|]; [|apply successTail_shape in H as [[=] _]].
  eapply Fin; [|exact H]. apply pf_stabilizeNode in H2 as (_ & _ & _ & _ & _ & Hd & _). apply Hd, Hs1.
Qed.

(** C03.3 (success half): every non-failing recompute stamps the node with the pass number.
    PARTIAL for a bind's lhs-change node, whose stabilize step restructures the graph and could
    in an arbitrary (ill-formed) state tear the node itself down. *)
Lemma C03_recompute_stamps_partial fuel p s n s' imm :
  recomputeNodeSerial fuel p s n = Ok (s', None, imm) ->
  is_Some (nodes s !! n) -> (forall b, nkind (nd s n) <> KBindLhs b) ->
  recomputedAt (nd s' n) = stabNum s /\ stabNum s' = stabNum s.
Proof.
  intros H Hs Hk. split; [|apply pf_recomputeNodeSerial in H as (_ & E & _); exact E].
  rewrite recomputeNodeSerial_unfold in H. cbv zeta in H.
  apply rbind_ok in H as ([[s1 e1] cut] & H1 & H).
  set (s0 := upd s n _) in *.
  assert (E0 : nd s0 n = nd s n <| recomputedAt := stabNum s |>) by (apply nd_upd_same, Hs).
  apply maybeCutoff_spec in H1 as (V1 & _).
  assert (R1 : recomputedAt (nd s1 n) = stabNum s /\ nkind (nd s1 n) = nkind (nd s n)).
  { destruct (vps_fields _ _ (V1 n)) as (K & _ & _ & _ & _ & R & _). rewrite R, K, E0.
    destruct (nd s n); split; reflexivity. }
  destruct e1 as [e1|]; [apply failTail_spec in H as ([=] & _)|].
  destruct cut; [injection H as <- <-; apply R1|].
  apply rbind_ok in H as ([s2 e2] & H2 & H).
  destruct e2 as [e2|]; [apply failTail_spec in H as ([=] & _)|].
  apply stabilizeNode_shallow in H2 as (V2 & _); [|intros b; rewrite (proj2 R1); apply Hk].
  apply successTail_shape in H as (_ & Hh). rewrite (hhOnly_nd _ _ n Hh).
  rewrite (nd_upd_keep recomputedAt) by (intros []; reflexivity).
  destruct (vps_fields _ _ (V2 n)) as (_ & _ & _ & _ & _ & R & _). rewrite R. apply R1.
Qed.

(** C07.4: the error a recompute returns is the fault the plan holds there *)
Lemma C07_error_is_returned_node fuel p s n s' e imm :
  recomputeNodeSerial fuel p s n = Ok (s', Some e, imm) ->
  structErr (Some e) \/
  exists m w k, firstFault (actions_of p m w) = Some k /\ e = faultErr m k /\
                (m = n \/ nkind (nd s n) = KBindLhs m).
Proof.
  rewrite recomputeNodeSerial_unfold. cbv zeta. intros H.
  apply rbind_ok in H as ([[s1 e1] cut] & H1 & H).
  pose proof H1 as H1'. apply maybeCutoff_spec in H1 as (V1 & _ & _ & Hm).
  destruct e1 as [e1|].
  { apply failTail_spec in H as ([= ->] & _). right.
    destruct (nkind (nd s n)); try (destruct Hm as (Hm & _); discriminate Hm).
    destruct Hm as (He & _). destruct (firstFault (actions_of p n WCut)) as [k|] eqn:Ef; [|discriminate].
    injection He as ->. exists n, WCut, k. auto. }
  destruct cut; [discriminate|].
  apply rbind_ok in H as ([s2 e2] & H2 & H).
  destruct e2 as [e2|]; [|apply successTail_shape in H as [[=] _]].
  apply failTail_spec in H as ([= ->] & _).
  assert (Ek : nkind (nd s1 n) = nkind (nd s n)).
  { destruct (vps_fields _ _ (V1 n)) as (K & _). rewrite K. apply (nd_upd_keep nkind). intros []; reflexivity. }
  apply stabilizeNode_err in H2 as [H2|(m & k & Hk & [= ->] & Hn)]; [left; exact H2|].
  right. exists m, WFn, k. rewrite Ek in Hn. auto.
Qed.

(** the failing recompute of a chain / of the pass loop is the recompute of the node it blames *)
Lemma recomputeChain_err fuel : forall p s n s' e at_,
  recomputeChain fuel p s n = Ok (s', Some e, at_) ->
  exists fuel' si imm, recomputeNodeSerial fuel' p si at_ = Ok (s', Some e, imm).
Proof.
  induction fuel as [|fuel IH]; intros p s n s' e at_ H; [discriminate|]. cbn [recomputeChain] in H.
  apply rbind_ok in H as ([[s1 e1] imm] & H1 & H).
  destruct e1 as [e1|]; [injection H as <- <- <-; eauto|].
  destruct imm as [c|]; [eapply IH, H|discriminate].
Qed.

Lemma passLoop_err fuel : forall p s always s' e at_ always',
  passLoop fuel p s always = Ok (s', Some e, at_, always') ->
  exists fuel' si imm, recomputeNodeSerial fuel' p si at_ = Ok (s', Some e, imm).
Proof.
  induction fuel as [|fuel IH]; intros p s always s' e at_ always' H; [discriminate|]. cbn [passLoop] in H.
  destruct (_ <=? 0); [discriminate|].
  destruct (Heap.removeMin _) as [[n w]|]; [|discriminate].
  apply rbind_ok in H as ([[s1 e1] at1] & H1 & H).
  destruct e1 as [e1|]; [injection H as <- <- <- <-; eapply recomputeChain_err, H1|eapply IH, H].
Qed.

(** C07.4: the error a pass returns is cancellation, a structural rejection raised by a bind, or
    the fault the plan holds for the node the pass blames *)
Lemma C07_error_is_returned p c s s' e :
  status s = 0 -> stabilize p c s = Ok (s', Some e) ->
  (c = true /\ e = ECancelled) \/
  exists sL at_ always, passResult p c s = Ok (sL, Some e, at_, always) /\
    (structErr (Some e) \/
     exists si m w k, firstFault (actions_of p m w) = Some k /\ e = faultErr m k /\
                      (m = at_ \/ nkind (nd si at_) = KBindLhs m)).
Proof.
  intros Hst H. destruct (stabilize_decompose _ _ _ _ _ Hst H) as (sL & at_ & always & s2 & s3 & H1 & _).
  pose proof H1 as H1'. unfold passResult in H1. cbv zeta in H1. destruct (c && _) eqn:Ec.
  - injection H1 as <- <- <- <-. left. apply andb_true_iff in Ec as [-> _]. auto.
  - right. exists sL, at_, always. split; [exact H1'|].
    apply passLoop_err in H1 as (fuel' & si & imm & Hr).
    apply C07_error_is_returned_node in Hr as [Hr|(m & w & k & A & B & C)]; [left; exact Hr|].
    right. exists si, m, w, k. auto.
Qed.

(** C07.2 (pass level): the node blamed for a panic is queued again with a zero stamp *)
Lemma C07_panicked_node_requeued p c s s' m :
  status s = 0 -> ids_below s -> plan_ok s p = true ->
  Forall (fun v => isVar s v = true) (setDuring s ++ setRemoved s) ->
  stabilize p c s = Ok (s', Some (EPanic m)) ->
  exists sL at_ always, passResult p c s = Ok (sL, Some (EPanic m), at_, always) /\
    recomputedAt (nd s' at_) = 0 /\ inHeap s' at_ = true.
Proof.
  intros Hst Hids Hp Hv0 H.
  destruct (stabilize_decompose _ _ _ _ _ Hst H) as (sL & at_ & always & s2 & s3 & H1 & H2 & H3 & H4).
  exists sL, at_, always. split; [exact H1|].
  destruct (passResult_frames _ _ _ _ _ _ _ H1) as (Hpf & Hwv & _). specialize (Hwv Hp).
  assert (HvL : Forall (fun v => isVar sL v = true) (setRemoved sL ++ setDuring sL)).
  { eapply (pass_deferred_are_vars (passStart s) sL p); [exact Hids|exact Hp|exact Hv0|exact Hpf|exact Hwv]. }
  pose proof (requeueAlways_heapOnly _ _ _ H2) as Ho2.
  destruct (recoverPanic_spec _ _ _ _ H3) as (LE & _ & _ & _ & _ & _ & _ & SD3 & SR3 & _ & V3 & _ & P3).
  assert (Hv3 : Forall (fun v => isVar s3 v = true) (setRemoved s3 ++ setDuring s3)).
  { rewrite SD3, SR3. destruct Ho2 as [w ->]. eapply Forall_impl; [|exact HvL]. intros v Hv. cbv beta in *.
    rewrite V3. exact Hv. }
  destruct (stabilizeEnd_spec _ _ _ Hv3 H4) as (_ & _ & _ & _ & _ & _ & _ & _ & _ & _ & Vp & _ & Hin & _).
  destruct (P3 m eq_refl) as [R0 I0]. split; [|apply Hin, I0].
  destruct (vps_fields _ _ (Vp at_)) as (_ & _ & _ & _ & _ & R & _). rewrite R. exact R0.
Qed.

(** ** Passes over a quiescent state with nothing to do *)
Lemma applyDeferredSets_nil s : setDuring s = [] -> setRemoved s = [] -> applyDeferredSets s = Ok s.
Proof.
  intros E1 E2. rewrite applyDeferredSets_unfold, E1, E2. cbn [app rfold rbind].
  f_equal. destruct s; cbn in *; subst; reflexivity.
Qed.

Definition passEpilogue (s : state) (evs : list event) : state :=
  s <| log := rev (map (hev s) (handlers s)) ++ evs ++ log s |> <| handlers := [] |>
    <| stabNum := stabNum s + 1 |>.

Lemma stabilizeEnd_quiescent s e :
  setDuring s = [] -> setRemoved s = [] ->
  stabilizeEnd s e = Ok (passEpilogue s [EvPassEnd (classify e)] <| status := 0 |>).
Proof.
  intros E1 E2. unfold stabilizeEnd. rewrite runUpdateHandlers_eq.
  rewrite applyDeferredSets_nil by (cbn; assumption). cbn [rbind]. f_equal.
  unfold passEpilogue. cbn. rewrite (map_ext _ _ (hev_emit (EvPassEnd (classify e)) s)).
  destruct s; reflexivity.
Qed.

Lemma hev_passStart s k : hev (passStart s) k = hev s k.
Proof. apply hev_ext; [reflexivity|]. intros m. auto. Qed.

Lemma passFuel_S s : exists k, passFuel s = S k.
Proof. unfold passFuel. exists (64 * next s + 1023)%nat. lia. Qed.

(** C03.1: with an empty heap the pass loop does nothing at all *)
Lemma idle_passResult p c s :
  Heap.cnt (heap s) <= 0 -> passResult p c s = Ok (passStart s, None, 0%nat, []).
Proof.
  intros Hc. unfold passResult. cbv zeta. change (heap (passStart s)) with (heap s).
  destruct (Z.ltb_spec 0 (Heap.cnt (heap s))); [lia|]. rewrite andb_false_r.
  destruct (passFuel_S (passStart s)) as [k ->]. cbn [passLoop]. change (heap (passStart s)) with (heap s).
  destruct (Z.leb_spec (Heap.cnt (heap s)) 0); [reflexivity|lia].
Qed.

Lemma C03_idle_pass_runs_nothing p c s :
  status s = 0 -> Heap.cnt (heap s) <= 0 -> setDuring s = [] -> setRemoved s = [] ->
  stabilize p c s = Ok (passEpilogue s [EvPassEnd XOk; EvPassStart], None).
Proof.
  intros Hst Hc E1 E2. rewrite stabilize_unfold, Hst. change (negb (0 =? 0)) with false. cbv iota zeta.
  fold (passStart s). fold (passResult p c s). rewrite (idle_passResult p c s Hc). cbn [rbind requeueAlways rfold recoverPanic].
  rewrite stabilizeEnd_quiescent by assumption. cbn [rbind]. f_equal. f_equal.
  unfold passEpilogue. rewrite (map_ext _ _ (hev_passStart s)). destruct s; cbn in *; subst; reflexivity.
Qed.

(* without the quiescence assumption: still no error and no computation *)
Lemma C03_idle_pass_events p c s s' e :
  status s = 0 -> ids_below s -> plan_ok s p = true ->
  Forall (fun v => isVar s v = true) (setDuring s ++ setRemoved s) ->
  Heap.cnt (heap s) <= 0 -> stabilize p c s = Ok (s', e) ->
  e = None /\ rev (log s') = rev (log s) ++ [EvPassStart; EvPassEnd XOk] ++ map (hev s) (handlers s).
Proof.
  intros Hst Hids Hp Hv Hc H.
  destruct (C13_bracket_and_order _ _ _ _ _ Hst Hids Hp Hv H) as (L & sL & at_ & always & H1 & Hlog & _).
  rewrite (idle_passResult p c s Hc) in H1. injection H1 as <- <- <- <-.
  destruct (stabilize_decompose _ _ _ _ _ Hst H) as (sL & at_ & always & s2 & s3 & H1 & H2 & H3 & H4).
  rewrite (idle_passResult p c s Hc) in H1. injection H1 as <- <- <-.
  split; [reflexivity|].
  cbn in H2. injection H2 as <-. cbn in H3. injection H3 as <-.
  (* recompute the log directly: L is empty here *)
  clear Hlog L.
  assert (HvL : Forall (fun v => isVar (passStart s) v = true) (setRemoved (passStart s) ++ setDuring (passStart s))).
  { apply Forall_forall. intros v Hin%elem_of_list_In. rewrite Forall_forall in Hv.
    change (isVar s v = true). apply Hv, elem_of_list_In. change (v ∈ setRemoved s ++ setDuring s) in Hin.
    rewrite elem_of_app in *. tauto. }
  destruct (stabilizeEnd_spec _ _ _ HvL H4) as (_ & _ & _ & _ & _ & _ & _ & _ & _ & Elog & _).
  rewrite Elog. change (log (passStart s)) with (EvPassStart :: log s). change (handlers (passStart s)) with (handlers s).
  rewrite (map_ext _ _ (hev_passStart s)).
  rewrite rev_app_distr, rev_involutive. cbn [rev app classify]. rewrite <- !app_assoc. reflexivity.
Qed.

(** C07.3: a cancelled pass over a non-empty heap computes nothing and leaves the heap alone *)
Lemma C07_cancelled_does_nothing p s :
  status s = 0 -> 0 < Heap.cnt (heap s) -> setDuring s = [] -> setRemoved s = [] ->
  stabilize p true s = Ok (passEpilogue s [EvPassEnd XCancelled; EvPassStart], Some ECancelled).
Proof.
  intros Hst Hc E1 E2. rewrite stabilize_unfold, Hst. change (negb (0 =? 0)) with false. cbv iota zeta.
  fold (passStart s). change (heap (passStart s)) with (heap s).
  destruct (Z.ltb_spec 0 (Heap.cnt (heap s))); [|lia]. cbn [andb rbind requeueAlways rfold recoverPanic].
  rewrite stabilizeEnd_quiescent by assumption. cbn [rbind]. f_equal. f_equal.
  unfold passEpilogue. rewrite (map_ext _ _ (hev_passStart s)). destruct s; cbn in *; subst; reflexivity.
Qed.

Lemma passEpilogue_frame s evs :
  heap (passEpilogue s evs) = heap s /\ nodes (passEpilogue s evs) = nodes s /\
  binds (passEpilogue s evs) = binds s /\ status (passEpilogue s evs) = status s /\
  obs (passEpilogue s evs) = obs s /\ reg (passEpilogue s evs) = reg s.
Proof. repeat split. Qed.

(** * 6. C03: who gets recomputed *)

(** C03.2: the exact condition under which a dependent is queued (or run at once) after a change *)
Lemma C03_child_queued_only_if_owed s c :
  shouldRecomputeChild s c = true <->
  inHeap s c = false /\ isNecessary (nd s c) = true /\ valid (nd s c) = true /\
  ((hasStaler (nkind (nd s c)) = false /\ recomputedAt (nd s c) < stabNum s) \/ isStale s c = true).
Proof.
  unfold shouldRecomputeChild. cbv zeta.
  destruct (inHeap s c); cbn [orb]; [split; [discriminate|intros ([=] & _)]|].
  destruct (isNecessary (nd s c)); cbn [negb]; [|split; [discriminate|intros (_ & [=] & _)]].
  destruct (valid (nd s c)); cbn [negb]; [|split; [discriminate|intros (_ & _ & [=] & _)]].
  destruct (hasStaler (nkind (nd s c))); cbn [negb andb].
  - split; [intros H; repeat split; auto|intros (_ & _ & _ & [[[=] _]|H]); exact H].
  - destruct (Z.ltb_spec (recomputedAt (nd s c)) (stabNum s)).
    + split; [intros _; repeat split; auto|reflexivity].
    + split; [intros H'; repeat split; auto|intros (_ & _ & _ & [[_ ?]|H']); [lia|exact H']].
Qed.

Lemma src_heapOnly s s' c :
  heapOnly s s' -> inHeap s' c = inHeap s c -> shouldRecomputeChild s' c = shouldRecomputeChild s c.
Proof. intros [w ->] Hin. unfold shouldRecomputeChild. rewrite Hin. reflexivity. Qed.

Lemma childrenLoop_gen_inv (L : list nid) l : forall s held s' held',
  (forall x, x ∈ l -> x ∈ L) ->
  (forall h, held = Some h -> shouldRecomputeChild s h = true /\ h ∈ L) ->
  rfold (fun '(s, held) c =>
         if bool_decide (held = Some c) then Ok (s, held)
         else if negb (shouldRecomputeChild s c) then Ok (s, held)
         else
           s <-! (match held with Some h => heapAdd s h | None => Ok s end);
           Ok (s, Some c)) l (s, held) = Ok (s', held') ->
  forall h, held' = Some h -> shouldRecomputeChild s' h = true /\ h ∈ L.
Proof.
  induction l as [|c l IH]; intros s held s' held' Hl Hh H; cbn [rfold] in H.
  - injection H as <- <-. exact Hh.
  - apply rbind_ok in H as ([s1 h1] & H1 & H). eapply IH; [|clear H|exact H].
    { intros x Hx. apply Hl. right. exact Hx. }
    destruct (bool_decide (held = Some c)) eqn:Eb; [injection H1 as <- <-; exact Hh|].
    apply bool_decide_eq_false in Eb.
    destruct (shouldRecomputeChild s c) eqn:Es; cbn [negb] in H1; [|injection H1 as <- <-; exact Hh].
    apply rbind_ok in H1 as (s2 & H2 & [= <- <-]). intros h [= <-]. split; [|apply Hl; left].
    destruct held as [h0|]; [|injection H2 as <-; exact Es].
    rewrite (src_heapOnly s s2 c (heapAdd_heapOnly _ _ _ H2)); [exact Es|].
    rewrite (heapAdd_inHeap _ _ _ c H2). rewrite bool_decide_eq_false_2; [reflexivity|].
    intros ->. apply Eb. reflexivity.
Qed.

(** C03.4 (immediate child): the dependent handed back for immediate recompute was owed one and
    passed [canRecomputeImmediately] *)
Lemma C03_immediate_child_is_owed fuel p s n s' e c :
  recomputeNodeSerial fuel p s n = Ok (s', e, Some c) ->
  e = None /\ c ∈ children (nd s' n) /\ shouldRecomputeChild s' c = true /\
  canRecomputeImmediately s' n c = true.
Proof.
  rewrite recomputeNodeSerial_unfold. cbv zeta. intros H.
  apply rbind_ok in H as ([[s1 e1] cut] & _ & H).
  destruct e1 as [e1|]; [apply failTail_spec in H as (_ & [=] & _)|].
  destruct cut; [discriminate|].
  apply rbind_ok in H as ([s2 e2] & _ & H).
  destruct e2 as [e2|]; [apply failTail_spec in H as (_ & [=] & _)|].
  unfold successTail in H.
  set (t0 := insert_handler n _) in *.
  apply rbind_ok in H as ([t1 held] & H1 & H).
  apply rbind_ok in H as ([t2 imm2] & H2 & [= <- <- ->]). split; [reflexivity|].
  rewrite insert_handlers_eq.
  destruct held as [h|]; [|discriminate].
  destruct (canRecomputeImmediately t1 n h) eqn:Ec.
  2:{ apply rbind_ok in H2 as (? & _ & [=]). }
  injection H2 as <- <-.
  pose proof (childrenLoop_heapOnly _ _ _ _ H1) as Ho.
  unfold childrenLoop in H1.
  assert (Hnone : forall h0 : nid, None = Some h0 -> shouldRecomputeChild t0 h0 = true /\ h0 ∈ children (nd t0 n))
    by (intros ? [=]).
  destruct (childrenLoop_gen_inv (children (nd t0 n)) _ _ _ _ _ (fun x Hx => Hx) Hnone H1 h eq_refl) as [Hs Hc].
  split; [|split].
  - change (h ∈ children (nd t1 n)). rewrite (heapOnly_nd _ _ n Ho). exact Hc.
  - exact Hs.
  - exact Ec.
Qed.

(** C03.4 (popped node): one iteration of the pass loop recomputes the node the heap hands out,
    which was queued; a chain continues only into an owed, immediately recomputable dependent *)
Lemma removeMin_in_ids w n w' : Heap.removeMin w = Some (n, w') -> n ∈ Heap.ids w.
Proof.
  unfold Heap.removeMin. destruct (_ <=? 0); [discriminate|].
  destruct (Heap.scan_from _ _) as [x|]; [|discriminate].
  destruct (_ <=? _); [|discriminate].
  destruct (Heap.bucket w x) as [|m b'] eqn:Eb; [discriminate|]. intros [= <- <-].
  apply elem_ids. exists x. rewrite Eb. left.
Qed.

Lemma removeMin_inHeap w n w' : HeapSpec.inv w -> Heap.removeMin w = Some (n, w') -> Heap.mem w n = true.
Proof.
  intros I H. apply removeMin_in_ids in H. apply elem_ids in H as [x Hx].
  unfold Heap.mem. apply bool_decide_eq_true. rewrite (hinOf_bucket w n x I Hx). unfold unset. lia.
Qed.

Lemma C03_popped_is_queued fuel p s always r :
  passLoop (S fuel) p s always = Ok r -> 0 < Heap.cnt (heap s) ->
  exists n w, Heap.removeMin (heap s) = Some (n, w) /\ n ∈ Heap.ids (heap s) /\
    (HeapSpec.inv (heap s) -> inHeap s n = true) /\
    let always' := if isAlways (nkind (nd s n)) then always ++ [n] else always in
    exists s1 e1 at1, recomputeChain fuel p (s <| heap := w |>) n = Ok (s1, e1, at1) /\
      match e1 with
      | Some _ => r = (s1, e1, at1, always')
      | None => passLoop fuel p s1 always' = Ok r
      end.
Proof.
  cbn [passLoop]. intros H Hc. destruct (Z.leb_spec (Heap.cnt (heap s)) 0); [lia|].
  destruct (Heap.removeMin (heap s)) as [[n w]|] eqn:Er; [|discriminate].
  exists n, w. split; [reflexivity|]. split; [eapply removeMin_in_ids, Er|].
  split; [intros I; eapply removeMin_inHeap; eauto|]. cbv zeta.
  apply rbind_ok in H as ([[s1 e1] at1] & H1 & H). exists s1, e1, at1. split; [exact H1|].
  destruct e1; [injection H as <-; reflexivity|exact H].
Qed.

Lemma C03_chain_step fuel p s n r :
  recomputeChain (S fuel) p s n = Ok r ->
  exists s1 e1 imm, recomputeNodeSerial fuel p s n = Ok (s1, e1, imm) /\
    match e1, imm with
    | None, Some c =>
      c ∈ children (nd s1 n) /\ shouldRecomputeChild s1 c = true /\
      canRecomputeImmediately s1 n c = true /\ recomputeChain fuel p s1 c = Ok r
    | _, _ => r = (s1, e1, n)
    end.
Proof.
  cbn [recomputeChain]. intros H. apply rbind_ok in H as ([[s1 e1] imm] & H1 & H).
  exists s1, e1, imm. split; [exact H1|].
  destruct e1 as [e1|]; [injection H as <-; reflexivity|].
  destruct imm as [c|]; [|injection H as <-; reflexivity].
  destruct (C03_immediate_child_is_owed _ _ _ _ _ _ _ H1) as (_ & A & B & C). auto.
Qed.

(** * 7. C11: cutoffs *)

(* during a pass (status 1) the writes of a plan only defer: everything but [pending] fields
   and [setDuring] is untouched *)
Definition pendOnly (s s' : state) : Prop :=
  heap s' = heap s /\ log s' = log s /\ stabNum s' = stabNum s /\ status s' = status s /\
  handlers s' = handlers s /\ setRemoved s' = setRemoved s /\ obs s' = obs s /\ binds s' = binds s /\
  (forall m, nd s' m = nd s m <| pending := pending (nd s' m) |>) /\
  (forall m, is_Some (nodes s' !! m) <-> is_Some (nodes s !! m)).

Lemma pendOnly_refl s : pendOnly s s.
Proof. repeat split; auto. intros m. destruct (nd s m); reflexivity. Qed.

Lemma pendOnly_trans s1 s2 s3 : pendOnly s1 s2 -> pendOnly s2 s3 -> pendOnly s1 s3.
Proof.
  intros (A1 & A2 & A3 & A4 & A5 & A6 & A7 & A8 & A9 & A10) (B1 & B2 & B3 & B4 & B5 & B6 & B7 & B8 & B9 & B10).
  repeat (split; [congruence|]). split.
  - intros m. rewrite (B9 m) at 1. rewrite (A9 m). destruct (nd s1 m); reflexivity.
  - intros m. rewrite B10. apply A10.
Qed.

Lemma pendOnly_fields s s' m : pendOnly s s' ->
  nkind (nd s' m) = nkind (nd s m) /\ decl (nd s' m) = decl (nd s m) /\ value (nd s' m) = value (nd s m) /\
  recomputedAt (nd s' m) = recomputedAt (nd s m) /\ changedAt (nd s' m) = changedAt (nd s m) /\
  height (nd s' m) = height (nd s m) /\ valid (nd s' m) = valid (nd s m) /\
  parents (nd s' m) = parents (nd s m) /\ children (nd s' m) = children (nd s m) /\
  observers (nd s' m) = observers (nd s m) /\ scope (nd s' m) = scope (nd s m) /\
  isNecessary (nd s' m) = isNecessary (nd s m).
Proof. intros (_ & _ & _ & _ & _ & _ & _ & _ & A & _). rewrite (A m). destruct (nd s m); repeat split. Qed.

Lemma varSet_midpass_pendOnly s v x s' : status s = 1 -> varSet s v x = Ok s' -> pendOnly s s'.
Proof.
  intros Hst. rewrite (C12_midpass_set_is_deferred _ _ _ Hst). destruct (eqNoop s v x); intros [= <-].
  - apply pendOnly_refl.
  - destruct (deferSet_frame s v x) as (E1 & _ & _ & E4 & E5 & _ & _ & E8 & E9 & _ & E11 & E12 & _ & E14 & _ & En & _).
    do 8 (split; [assumption|]). split; [exact En|].
    intros m. unfold deferSet. change (is_Some (nodes (upd s v (set pending (fun _ => Some x))) !! m) <-> is_Some (nodes s !! m)).
    apply some_upd.
Qed.

Lemma applyActions_midpass_gen acts : forall s f s' f',
  status s = 1 ->
  rfold (fun '(s, f) a =>
         match f with
         | Some _ => Ok (s, f)
         | None =>
           match a with
           | AFail k => Ok (s, Some k)
           | ASet v x => s <-! varSet s v x; Ok (s, None)
           | AUpdate v d => s <-! varUpdate s v d; Ok (s, None)
           end
         end) acts (s, f) = Ok (s', f') -> pendOnly s s'.
Proof.
  induction acts as [|a acts IH]; intros s f s' f' Hst H; cbn [rfold] in H.
  - injection H as <- <-. apply pendOnly_refl.
  - apply rbind_ok in H as ([s1 f1] & H1 & H).
    assert (P1 : pendOnly s s1).
    { destruct f; [injection H1 as <- <-; apply pendOnly_refl|].
      destruct a; [injection H1 as <- <-; apply pendOnly_refl| |];
        apply rbind_ok in H1 as (s2 & H2 & [= <- <-]); eapply varSet_midpass_pendOnly; eauto. }
    eapply pendOnly_trans; [exact P1|]. eapply IH; [|exact H].
    destruct P1 as (_ & _ & _ & -> & _). exact Hst.
Qed.

Lemma invoke_midpass p s n w s' e :
  status s = 1 -> invoke p s n w = Ok (s', e) ->
  exists s1, pendOnly s s1 /\
    s' = match firstFault (actions_of p n w) with Some k => emit (EvFault n w k) s1 | None => s1 end.
Proof.
  intros Hst. unfold invoke, applyActions. intros H. apply rbind_ok in H as ([s1 f] & H1 & H).
  pose proof (applyActions_midpass_gen _ _ _ _ _ Hst H1) as P1.
  apply applyActions_gen_spec in H1 as (_ & _ & _ & _ & ->). exists s1. split; [exact P1|].
  destruct (firstFault _) as [[]|]; injection H as <- <-; reflexivity.
Qed.

Lemma valueOf_pendOnly s s' n : pendOnly s s' -> valueOf s' n = valueOf s n.
Proof.
  intros P. apply valueOf_ext. intros m. destruct (pendOnly_fields s s' m P) as (A & B & C & _). auto.
Qed.

Lemma valueOf_upd_keep s n f a :
  (forall x, nkind (f x) = nkind x) -> (forall x, decl (f x) = decl x) -> (forall x, value (f x) = value x) ->
  valueOf (upd s n f) a = valueOf s a.
Proof.
  intros H1 H2 H3. apply valueOf_ext. intros m.
  split; [apply (nd_upd_keep nkind), H1|]. split; [apply (nd_upd_keep decl), H2|apply (nd_upd_keep value), H3].
Qed.

(** the cutoff test of a recompute during a pass *)
Lemma maybeCutoff_midpass p s n c s1 e cut :
  status s = 1 -> nkind (nd s n) = KCutoff c ->
  let s0 := upd s n (set recomputedAt (fun _ => stabNum s)) in
  let old := value (nd s n) in
  let new := valueOf s (hd 0%nat (decl (nd s n))) in
  maybeCutoff p s0 n (nd s n) = Ok (s1, e, cut) ->
  exists t, pendOnly s0 t /\
    match firstFault (actions_of p n WCut) with
    | Some k => s1 = emit (EvFault n WCut k) t /\ e = Some (faultErr n k) /\ cut = false
    | None => s1 = emit (EvCutoff n old new (apCut c old new)) t /\ e = None /\ cut = apCut c old new
    end.
Proof.
  intros Hst Hk. cbv zeta. unfold maybeCutoff. rewrite Hk. intros H.
  apply rbind_ok in H as ([s2 e2] & H2 & H). pose proof H2 as H2'.
  apply invoke_midpass in H2 as (t & Pt & ->); [|exact Hst]. exists t. split; [exact Pt|].
  apply invoke_spec in H2' as (-> & _).
  assert (Ev : valueOf (upd s n (set recomputedAt (fun _ => stabNum s))) (hd 0%nat (decl (nd s n)))
               = valueOf s (hd 0%nat (decl (nd s n)))) by (apply valueOf_upd_keep; intros []; reflexivity).
  destruct (firstFault (actions_of p n WCut)) as [k|]; cbn [option_map] in H; injection H as <- <- <-.
  - auto.
  - rewrite Ev. auto.
Qed.

(** C11.1: a true verdict keeps the value and stops the propagation *)
Lemma C11_cut_keeps_value_and_stops fuel p s n c s' e imm :
  status s = 1 -> nkind (nd s n) = KCutoff c -> firstFault (actions_of p n WCut) = None ->
  apCut c (value (nd s n)) (valueOf s (hd 0%nat (decl (nd s n)))) = true ->
  recomputeNodeSerial fuel p s n = Ok (s', e, imm) ->
  e = None /\ imm = None /\
  log s' = EvCutoff n (value (nd s n)) (valueOf s (hd 0%nat (decl (nd s n)))) true :: log s /\
  heap s' = heap s /\ handlers s' = handlers s /\
  value (nd s' n) = value (nd s n) /\ changedAt (nd s' n) = changedAt (nd s n) /\
  recomputedAt (nd s' n) = stabNum s /\
  (* nothing but that stamp and deferred writes of the predicate: *)
  exists t, pendOnly (upd s n (set recomputedAt (fun _ => stabNum s))) t /\
            s' = emit (EvCutoff n (value (nd s n)) (valueOf s (hd 0%nat (decl (nd s n)))) true) t.
Proof.
  intros Hst Hk Hf Hcut. assert (Hs : is_Some (nodes s !! n)) by (apply nd_some_kind; rewrite Hk; discriminate).
  rewrite recomputeNodeSerial_unfold. cbv zeta. intros H.
  apply rbind_ok in H as ([[s1 e1] cut] & H1 & H).
  apply (maybeCutoff_midpass p s n c s1 e1 cut Hst Hk) in H1 as (t & Pt & H1).
  rewrite Hf, Hcut in H1. destruct H1 as (-> & -> & ->). injection H as <- <- <-.
  split; [reflexivity|]. split; [reflexivity|].
  pose proof Pt as (A1 & A2 & _ & _ & A5 & _).
  split; [cbn; rewrite A2; reflexivity|]. split; [cbn; rewrite A1; reflexivity|].
  split; [cbn; rewrite A5; reflexivity|].
  destruct (pendOnly_fields _ _ n Pt) as (_ & _ & V & R & C & _).
  change (nd (emit _ t) n) with (nd t n). rewrite V, C, R.
  rewrite nd_upd_same by exact Hs.
  split; [destruct (nd s n); reflexivity|]. split; [destruct (nd s n); reflexivity|].
  split; [destruct (nd s n); reflexivity|]. exists t. auto.
Qed.

(* with no side effects planned for the predicate, the result is explicit *)
Lemma C11_cut_exact fuel p s n c :
  nkind (nd s n) = KCutoff c -> actions_of p n WCut = [] ->
  apCut c (value (nd s n)) (valueOf s (hd 0%nat (decl (nd s n)))) = true ->
  recomputeNodeSerial fuel p s n =
  Ok (emit (EvCutoff n (value (nd s n)) (valueOf s (hd 0%nat (decl (nd s n)))) true)
          (upd s n (set recomputedAt (fun _ => stabNum s))), None, None).
Proof.
  intros Hk Ha Hcut. rewrite recomputeNodeSerial_unfold. cbv zeta. unfold maybeCutoff, invoke, applyActions.
  rewrite Hk, Ha. cbn [rfold rbind].
  rewrite valueOf_upd_keep by (intros []; reflexivity). rewrite Hcut. reflexivity.
Qed.

(** no child is missed: after the success path, a dependent still owed a recompute is the one
    handed back for immediate recompute *)
Lemma childrenLoop_gen_complete l : forall (P : nid -> Prop) s held s' held',
  (forall c, P c -> shouldRecomputeChild s c = true -> held = Some c) ->
  rfold (fun '(s, held) c =>
         if bool_decide (held = Some c) then Ok (s, held)
         else if negb (shouldRecomputeChild s c) then Ok (s, held)
         else
           s <-! (match held with Some h => heapAdd s h | None => Ok s end);
           Ok (s, Some c)) l (s, held) = Ok (s', held') ->
  forall c, P c \/ c ∈ l -> shouldRecomputeChild s' c = true -> held' = Some c.
Proof.
  induction l as [|x l IH]; intros P s held s' held' J H; cbn [rfold] in H.
  - injection H as <- <-. intros c [Hc|Hc]; [apply J, Hc|inversion Hc].
  - apply rbind_ok in H as ([s1 h1] & H1 & H).
    intros c Hc. apply (IH (fun c => P c \/ c = x) s1 h1 s' held') with (c := c); [|exact H|].
    2:{ destruct Hc as [Hc|Hc]; [left; left; exact Hc|]. apply elem_of_cons in Hc as [->|Hc]; [left; right; reflexivity|right; exact Hc]. }
    clear c Hc H. intros c Hc Hsc.
    destruct (bool_decide (held = Some x)) eqn:Eb.
    { injection H1 as <- <-. apply bool_decide_eq_true in Eb. destruct Hc as [Hc| ->]; [apply J; assumption|exact Eb]. }
    apply bool_decide_eq_false in Eb.
    destruct (shouldRecomputeChild s x) eqn:Es; cbn [negb] in H1.
    2:{ injection H1 as <- <-. destruct Hc as [Hc| ->]; [apply J; assumption|congruence]. }
    apply rbind_ok in H1 as (s2 & H2 & [= <- <-]).
    destruct (decide (c = x)) as [->|Hne]; [reflexivity|]. exfalso.
    destruct Hc as [Hc|Hc]; [|contradiction].
    apply C03_child_queued_only_if_owed in Hsc as Hsc'. destruct Hsc' as (Hin & _).
    destruct held as [h0|].
    + assert (c <> h0).
      { intros ->. rewrite (heapAdd_inHeap _ _ _ h0 H2), bool_decide_eq_true_2 in Hin by reflexivity. discriminate. }
      rewrite (src_heapOnly s s2 c (heapAdd_heapOnly _ _ _ H2)) in Hsc.
      2:{ rewrite (heapAdd_inHeap _ _ _ c H2), bool_decide_eq_false_2 by assumption. reflexivity. }
      specialize (J c Hc Hsc). congruence.
    + injection H2 as <-. specialize (J c Hc Hsc). discriminate.
Qed.

Lemma C03_no_child_missed s n s' e imm :
  successTail s n = Ok (s', e, imm) ->
  forall c, c ∈ children (nd s' n) -> shouldRecomputeChild s' c = true -> imm = Some c.
Proof.
  unfold successTail. set (t0 := insert_handler n _). intros H.
  apply rbind_ok in H as ([t1 held] & H1 & H).
  apply rbind_ok in H as ([t2 imm2] & H2 & [= <- <- <-]).
  rewrite insert_handlers_eq.
  pose proof (childrenLoop_heapOnly _ _ _ _ H1) as Ho1. unfold childrenLoop in H1.
  pose proof (childrenLoop_gen_complete _ (fun _ => False) _ _ _ _ ltac:(intros ? []) H1) as Hcomp.
  intros c Hc Hsc.
  change (shouldRecomputeChild t2 c = true) in Hsc. change (c ∈ children (nd t2 n)) in Hc.
  destruct held as [h|].
  - destruct (canRecomputeImmediately t1 n h).
    + injection H2 as <- <-. apply Hcomp; [right|exact Hsc]. rewrite <- (heapOnly_nd _ _ n Ho1). exact Hc.
    + apply rbind_ok in H2 as (t3 & H3 & [= <- <-]). exfalso.
      pose proof (heapAdd_heapOnly _ _ _ H3) as Ho3.
      apply C03_child_queued_only_if_owed in Hsc as Hsc'. destruct Hsc' as (Hin & _).
      assert (c <> h).
      { intros ->. rewrite (heapAdd_inHeap _ _ _ h H3), bool_decide_eq_true_2 in Hin by reflexivity. discriminate. }
      rewrite (src_heapOnly t1 t3 c Ho3) in Hsc.
      2:{ rewrite (heapAdd_inHeap _ _ _ c H3), bool_decide_eq_false_2 by assumption. reflexivity. }
      assert (Some h = Some c); [|congruence].
      apply Hcomp; [right|exact Hsc]. rewrite <- (heapOnly_nd _ _ n Ho1), <- (heapOnly_nd _ _ n Ho3). exact Hc.
  - injection H2 as <- <-. exfalso.
    assert (None = Some c); [|discriminate].
    apply Hcomp; [right|exact Hsc]. rewrite <- (heapOnly_nd _ _ n Ho1). exact Hc.
Qed.

(** C11.2: a false verdict takes the input's value, marks the node changed, and leaves no owed
    dependent behind *)
Lemma C11_pass_takes_input_value fuel p s n c s' e imm :
  status s = 1 -> nkind (nd s n) = KCutoff c -> firstFault (actions_of p n WCut) = None ->
  apCut c (value (nd s n)) (valueOf s (hd 0%nat (decl (nd s n)))) = false ->
  recomputeNodeSerial fuel p s n = Ok (s', e, imm) ->
  e = None /\
  value (nd s' n) = valueOf s (hd 0%nat (decl (nd s n))) /\
  changedAt (nd s' n) = stabNum s /\ recomputedAt (nd s' n) = stabNum s /\
  n ∈ handlers s' /\ (forall o, o ∈ observers (nd s' n) -> o ∈ handlers s') /\
  (forall d, d ∈ children (nd s' n) -> shouldRecomputeChild s' d = true -> imm = Some d) /\
  (forall d, imm = Some d -> d ∈ children (nd s' n) /\ shouldRecomputeChild s' d = true /\
                             canRecomputeImmediately s' n d = true).
Proof.
  intros Hst Hk Hf Hcut Hrec. pose proof Hrec as H.
  assert (Hs : is_Some (nodes s !! n)) by (apply nd_some_kind; rewrite Hk; discriminate).
  rewrite recomputeNodeSerial_unfold in H. cbv zeta in H.
  apply rbind_ok in H as ([[s1 e1] cut] & H1 & H).
  apply (maybeCutoff_midpass p s n c s1 e1 cut Hst Hk) in H1 as (t & Pt & H1).
  rewrite Hf, Hcut in H1. destruct H1 as (-> & -> & ->).
  set (s0 := upd s n (set recomputedAt (fun _ => stabNum s))) in *.
  set (ev := EvCutoff _ _ _ _) in *.
  assert (E0 : nd s0 n = nd s n <| recomputedAt := stabNum s |>) by (apply nd_upd_same, Hs).
  destruct (pendOnly_fields _ _ n Pt) as (K1 & D1 & V1 & R1 & C1 & _).
  assert (Kt : nkind (nd (emit ev t) n) = KCutoff c).
  { change (nkind (nd t n) = KCutoff c). rewrite K1, E0, <- Hk. destruct (nd s n); reflexivity. }
  assert (Dt : decl (nd (emit ev t) n) = decl (nd s n)).
  { change (decl (nd t n) = decl (nd s n)). rewrite D1, E0. destruct (nd s n); reflexivity. }
  assert (Vt : forall a, valueOf (emit ev t) a = valueOf s a).
  { intros a. transitivity (valueOf t a); [apply valueOf_ext; intros m; auto|].
    rewrite (valueOf_pendOnly _ _ a Pt). apply valueOf_upd_keep; intros []; reflexivity. }
  assert (St : is_Some (nodes (emit ev t) !! n)).
  { destruct Pt as (_ & _ & _ & _ & _ & _ & _ & _ & _ & Hd). apply Hd, some_upd, Hs. }
  assert (Sn : stabNum (emit ev t) = stabNum s) by (destruct Pt as (_ & _ & E & _); exact E).
  unfold stabilizeNode in H. rewrite Kt, Dt, Vt in H. unfold ok in H. cbn [rbind] in H.
  set (s2 := upd (emit ev t) n _) in *.
  assert (E2 : nd s2 n = nd (emit ev t) n <| value := valueOf s (hd 0%nat (decl (nd s n))) |>) by (apply nd_upd_same, St).
  pose proof H as Hsucc.
  apply successTail_shape in H as (-> & Hh). split; [reflexivity|].
  assert (En : nd s' n = nd s2 n <| changedAt := stabNum s |>).
  { rewrite (hhOnly_nd _ _ n Hh). rewrite nd_upd_same by (apply some_upd, St).
    change (stabNum s2) with (stabNum (emit ev t)). rewrite Sn. reflexivity. }
  split; [rewrite En, E2; destruct (nd (emit ev t) n); reflexivity|].
  split; [rewrite En; destruct (nd s2 n); reflexivity|].
  split.
  { rewrite En, E2. change (nd (emit ev t) n) with (nd t n).
    transitivity (recomputedAt (nd t n)); [destruct (nd t n); reflexivity|]. rewrite R1, E0. destruct (nd s n); reflexivity. }
  destruct (C13_changed_node_is_queued_for_handler _ _ _ _ _ Hsucc) as (A1 & A2 & _).
  split; [exact A1|]. split; [exact A2|]. split; [apply (C03_no_child_missed _ _ _ _ _ Hsucc)|].
  intros d ->. destruct (C03_immediate_child_is_owed _ _ _ _ _ _ _ Hrec) as (_ & B1 & B2 & B3). auto.
Qed.

(** C11.3: writing a VarEqual the value it holds is a no-op: the state is literally unchanged *)
Lemma C11_varequal_noop s v :
  nkind (nd s v) = KVar true -> pending (nd s v) = None -> varSet s v (value (nd s v)) = Ok s.
Proof.
  intros Hk Hp. rewrite varSet_unfold. unfold eqNoop. rewrite Hk, Hp, Z.eqb_refl.
  rewrite bool_decide_eq_false_2 by (intros [? [=]]). reflexivity.
Qed.

(* hence, from a quiescent state with an empty heap, the next pass runs nothing on its account *)
Lemma C11_varequal_noop_pass s v p c s1 :
  nkind (nd s v) = KVar true -> pending (nd s v) = None ->
  status s = 0 -> Heap.cnt (heap s) <= 0 -> setDuring s = [] -> setRemoved s = [] ->
  run s [SetVar v (value (nd s v))] = Ok s1 ->
  s1 = s /\ stabilize p c s1 = Ok (passEpilogue s [EvPassEnd XOk; EvPassStart], None).
Proof.
  intros Hk Hp Hst Hc E1 E2. cbn [run op_ok step]. 
  assert (Hv : isVar s v = true) by (apply isVar_spec; eauto). rewrite Hv.
  rewrite C11_varequal_noop by assumption. cbn. intros [= <-]. split; [reflexivity|].
  apply C03_idle_pass_runs_nothing; assumption.
Qed.

(** C11.4: an equality cutoff always ends up holding its input's value *)
Lemma C11_equal_cutoff_consistent fuel p s n s' e imm :
  status s = 1 -> nkind (nd s n) = KCutoff CEq -> firstFault (actions_of p n WCut) = None ->
  recomputeNodeSerial fuel p s n = Ok (s', e, imm) ->
  e = None /\ value (nd s' n) = valueOf s (hd 0%nat (decl (nd s n))).
Proof.
  intros Hst Hk Hf H.
  destruct (apCut CEq (value (nd s n)) (valueOf s (hd 0%nat (decl (nd s n))))) eqn:Ec.
  - destruct (C11_cut_keeps_value_and_stops _ _ _ _ _ _ _ _ Hst Hk Hf Ec H) as (A1 & _ & _ & _ & _ & A2 & _).
    split; [exact A1|]. rewrite A2. apply Z.eqb_eq. exact Ec.
  - destruct (C11_pass_takes_input_value _ _ _ _ _ _ _ _ Hst Hk Hf Ec H) as (A1 & A2 & _). auto.
Qed.

(** * 8. C08: a discarded right-hand side *)

(** C08.1: an invalid node is never stale, and is never queued as somebody's dependent *)
Lemma C08_invalid_never_stale s n :
  valid (nd s n) = false -> isStale s n = false /\ shouldRecomputeChild s n = false.
Proof.
  intros Hv. split.
  - unfold isStale. rewrite Hv. reflexivity.
  - destruct (shouldRecomputeChild s n) eqn:E; [|reflexivity].
    apply C03_child_queued_only_if_owed in E as (_ & _ & E & _). congruence.
Qed.

(* the call sites that queue a node after testing it can therefore only queue valid nodes *)
Lemma C08_owed_child_is_valid s c : shouldRecomputeChild s c = true -> valid (nd s c) = true.
Proof. intros E. apply C03_child_queued_only_if_owed in E as (_ & _ & E & _). exact E. Qed.

(** nothing that invalidation or teardown does ever makes a node valid again, queues a node, or
    drops a record: [VP] *)
Definition VP (s s' : state) : Prop :=
  (forall r, valid (nd s r) = false -> valid (nd s' r) = false) /\
  (forall m, inHeap s' m = true -> inHeap s m = true) /\
  (forall m, is_Some (nodes s !! m) -> is_Some (nodes s' !! m)).

Lemma VP_refl s : VP s s.
Proof. repeat split; auto. Qed.
Lemma VP_trans s1 s2 s3 : VP s1 s2 -> VP s2 s3 -> VP s1 s3.
Proof. intros (A1 & A2 & A3) (B1 & B2 & B3). repeat split; auto. Qed.

Lemma VP_same_nodes s s' :
  nodes s' = nodes s -> (forall m, inHeap s' m = true -> inHeap s m = true) -> VP s s'.
Proof. intros En Hh. unfold VP, nd. rewrite En. repeat split; auto. Qed.

Lemma VP_upd s n f : (forall x, valid x = false -> valid (f x) = false) -> VP s (upd s n f).
Proof.
  intros Hf. split; [|split; [auto|]].
  - intros r. rewrite nd_upd_if. destruct (decide (r = n)) as [->|]; [|auto].
    destruct (nodes s !! n) eqn:E; [apply Hf|]. unfold nd. rewrite E. auto.
  - intros m. apply some_upd.
Qed.

Lemma VP_emit e s : VP s (emit e s).
Proof. apply VP_same_nodes; [reflexivity|auto]. Qed.

Lemma VP_heapRemove s n s' : heapRemove s n = Ok s' -> VP s s'.
Proof.
  intros H. apply VP_same_nodes.
  - unfold heapRemove in H. apply rbind_ok in H as (w & _ & [= <-]). reflexivity.
  - intros m. rewrite (heapRemove_inHeap _ _ _ m H). intros [_ Hm]%andb_true_iff. exact Hm.
Qed.

Lemma VP_unlink s c p : VP s (unlink s c p).
Proof. unfold unlink. eapply VP_trans; apply VP_upd; intros []; cbn; auto. Qed.

Lemma VP_zeroNode s n s' : zeroNode s n = Ok s' -> VP s s'.
Proof.
  unfold zeroNode. intros H. apply rbind_ok in H as (s1 & H1 & [= <-]).
  assert (D1 : VP s s1) by (destruct (inHeap s n); [eapply VP_heapRemove, H1|injection H1 as <-; apply VP_refl]).
  eapply VP_trans; [exact D1|]. eapply VP_trans; [|apply VP_upd; intros []; cbn; auto].
  apply VP_same_nodes; [reflexivity|auto].
Qed.

Lemma VP_removeNode s n s' : removeNode s n = Ok s' -> VP s s'.
Proof.
  unfold removeNode. intros H%VP_zeroNode. eapply VP_trans; [|exact H].
  destruct (inGraph (nd s n)); [|apply VP_refl].
  apply (VP_trans _ (upd s n (set inGraph (fun _ => false)))); [apply VP_upd; intros []; cbn; auto|].
  apply VP_same_nodes; [reflexivity|auto].
Qed.

Lemma VP_rfold {A} (f : state -> A -> res state) l :
  (forall s a s', f s a = Ok s' -> VP s s') -> forall s s', rfold f l s = Ok s' -> VP s s'.
Proof.
  intros Hf. induction l as [|a l IH]; intros s s' H; cbn in H.
  - injection H as <-. apply VP_refl.
  - apply rbind_ok in H as (s1 & H1 & H). eapply VP_trans; [eapply Hf, H1|eapply IH, H].
Qed.

Lemma VP_removeParents fuel : forall s c s', removeParents fuel s c = Ok s' -> VP s s'.
Proof.
  induction fuel as [|fuel IH]; intros s c s' H; [discriminate|]. cbn [removeParents] in H.
  revert H. apply VP_rfold. clear s s'. intros s p s' H.
  pose proof (VP_unlink s c p) as Du.
  destruct (isNecessary _); [injection H as <-; exact Du|].
  destruct (negb _); [injection H as <-; exact Du|].
  apply rbind_ok in H as (s1 & H1%IH & H%VP_removeNode).
  eapply VP_trans; [exact Du|]. eapply VP_trans; [apply VP_emit|]. eapply VP_trans; eauto.
Qed.

(** C08.2: invalidation marks the node, takes it out of the heap, logs it; it queues nothing and
    revalidates nothing *)
Lemma C08_invalidate_dequeues fuel : forall s n s',
  invalidateNode fuel s n = Ok s' ->
  VP s s' /\
  (valid (nd s n) = false -> s' = s) /\
  (is_Some (nodes s !! n) -> valid (nd s' n) = false) /\
  (valid (nd s n) = true -> is_Some (nodes s !! n) ->
     inHeap s' n = false /\ exists L, log s' = L ++ EvInval n :: log s).
Proof.
  induction fuel as [|fuel IH]; intros s n s' H; [discriminate|]. cbn [invalidateNode] in H.
  destruct (valid (nd s n)) eqn:Ev; cbn [negb] in H.
  2:{ injection H as <-. split; [apply VP_refl|]. split; [auto|]. split; [auto|discriminate]. }
  apply rbind_ok in H as (s1 & H1 & H). apply rbind_ok in H as (s2 & H2 & H).
  set (s0 := upd (emit (EvInval n) s) n _) in *.
  assert (D0 : VP s s0).
  { eapply VP_trans; [apply VP_emit|]. apply VP_upd. intros []; cbn; auto. }
  assert (L0 : log s0 = EvInval n :: log s) by reflexivity.
  assert (D1 : VP s0 s1 /\ exists L, log s1 = L ++ log s0).
  { destruct (isNecessary (nd s0 n)).
    - apply rbind_ok in H1 as (s3 & H3 & [= <-]).
      pose proof (VP_removeParents _ _ _ _ H3) as A.
      apply pf_removeParents in H3 as (_ & _ & _ & _ & _ & _ & _ & L & EL & _).
      split; [eapply VP_trans; [exact A|apply VP_upd; intros []; cbn; auto]|]. exists L. exact EL.
    - injection H1 as <-. split; [apply VP_refl|]. exists []. reflexivity. }
  destruct D1 as (D1 & L1 & EL1).
  assert (D2 : VP s1 s2 /\ exists L, log s2 = L ++ log s1).
  { destruct (nkind (nd s1 n)); try (injection H2 as <-; split; [apply VP_refl|exists []; reflexivity]).
    split.
    - revert H2. apply VP_rfold. intros t a t' Ht. apply (IH _ _ _ Ht).
    - eapply (fr_rfold pframe) in H2; [|exact pframe_hyps|intros t a t' Ht; eapply pf_invalidateNode, Ht].
      destruct H2 as (_ & _ & _ & _ & _ & _ & _ & L & EL & _). exists L. exact EL. }
  destruct D2 as (D2 & L2 & EL2).
  set (s3 := upd s2 n (set valid (fun _ => false))) in *.
  set (s4 := s3 <| invq := invq s3 ++ children (nd s3 n) |>) in *.
  assert (Hnd4 : forall m, nd s4 m = nd s3 m) by reflexivity.
  assert (D3 : VP s2 s4).
  { apply (VP_trans _ s3); [apply VP_upd; intros []; cbn; auto|apply VP_same_nodes; [reflexivity|auto]]. }
  pose proof (VP_trans _ _ _ (VP_trans _ _ _ (VP_trans _ _ _ D0 D1) D2) D3) as D4.
  assert (V4 : is_Some (nodes s !! n) -> valid (nd s4 n) = false).
  { intros Hs. rewrite Hnd4. unfold s3. rewrite nd_upd_same; [destruct (nd s2 n); reflexivity|].
    destruct D2 as (_ & _ & B). destruct D1 as (_ & _ & A). destruct D0 as (_ & _ & C). auto. }
  assert (L4 : exists L, log s4 = L ++ EvInval n :: log s).
  { exists (L2 ++ L1). change (log s4) with (log s2). rewrite EL2, EL1, L0, app_assoc. reflexivity. }
  destruct (inHeap s4 n) eqn:Eh.
  - pose proof (VP_heapRemove _ _ _ H) as E.
    assert (Hnd : forall m, nd s' m = nd s4 m).
    { unfold heapRemove in H. apply rbind_ok in H as (w & _ & [= <-]). reflexivity. }
    assert (Hlog : log s' = log s4).
    { unfold heapRemove in H. apply rbind_ok in H as (w & _ & [= <-]). reflexivity. }
    split; [eapply VP_trans; eauto|]. split; [discriminate|].
    split; [intros Hs0; rewrite Hnd; apply V4, Hs0|]. intros _ Hs0. split; [|rewrite Hlog; exact L4].
    rewrite (heapRemove_inHeap _ _ _ n H), bool_decide_eq_true_2 by reflexivity. reflexivity.
  - injection H as <-. split; [exact D4|]. split; [discriminate|].
    split; [exact V4|]. intros _ Hs0. split; [exact Eh|exact L4].
Qed.

Lemma VP_invalidateNode fuel s n s' : invalidateNode fuel s n = Ok s' -> VP s s'.
Proof. intros H. apply (C08_invalidate_dequeues _ _ _ _ H). Qed.

(** no invalid node is queued: an invariant of invalidation *)
Definition INQ (s : state) : Prop := forall r, valid (nd s r) = false -> inHeap s r = false.

(* teardown does not change validity at all *)
Definition VE (s s' : state) : Prop :=
  (forall r, valid (nd s' r) = valid (nd s r)) /\ (forall m, inHeap s' m = true -> inHeap s m = true).

Lemma VE_refl s : VE s s.
Proof. split; auto. Qed.
Lemma VE_trans s1 s2 s3 : VE s1 s2 -> VE s2 s3 -> VE s1 s3.
Proof. intros (A1 & A2) (B1 & B2). split; [intros r; rewrite B1; apply A1|auto]. Qed.
Lemma VE_INQ s s' : VE s s' -> INQ s -> INQ s'.
Proof.
  intros (A1 & A2) I r Hr. rewrite A1 in Hr. destruct (inHeap s' r) eqn:E; [|reflexivity].
  apply A2 in E. rewrite (I r Hr) in E. discriminate.
Qed.
Lemma VE_upd s n f : (forall x, valid (f x) = valid x) -> VE s (upd s n f).
Proof. intros Hf. split; [intros r; apply (nd_upd_keep valid), Hf|auto]. Qed.
Lemma VE_same_nodes s s' :
  nodes s' = nodes s -> (forall m, inHeap s' m = true -> inHeap s m = true) -> VE s s'.
Proof. intros En Hh. unfold VE, nd. rewrite En. split; auto. Qed.
Lemma VE_heapRemove s n s' : heapRemove s n = Ok s' -> VE s s'.
Proof.
  intros H. apply VE_same_nodes.
  - unfold heapRemove in H. apply rbind_ok in H as (w & _ & [= <-]). reflexivity.
  - intros m. rewrite (heapRemove_inHeap _ _ _ m H). intros [_ Hm]%andb_true_iff. exact Hm.
Qed.
Lemma VE_unlink s c p : VE s (unlink s c p).
Proof. unfold unlink. eapply VE_trans; apply VE_upd; intros []; reflexivity. Qed.
Lemma VE_removeNode s n s' : removeNode s n = Ok s' -> VE s s'.
Proof.
  unfold removeNode, zeroNode. intros H. apply rbind_ok in H as (s1 & H1 & [= <-]).
  set (s0 := if inGraph (nd s n) then _ else s) in *.
  assert (D0 : VE s s0).
  { unfold s0. destruct (inGraph (nd s n)); [|apply VE_refl].
    apply (VE_trans _ (upd s n (set inGraph (fun _ => false)))); [apply VE_upd; intros []; reflexivity|].
    apply VE_same_nodes; [reflexivity|auto]. }
  assert (D1 : VE s0 s1) by (destruct (inHeap s0 n); [eapply VE_heapRemove, H1|injection H1 as <-; apply VE_refl]).
  eapply VE_trans; [exact D0|]. eapply VE_trans; [exact D1|].
  eapply VE_trans; [|apply VE_upd; intros []; reflexivity]. apply VE_same_nodes; [reflexivity|auto].
Qed.
Lemma VE_rfold {A} (f : state -> A -> res state) l :
  (forall s a s', f s a = Ok s' -> VE s s') -> forall s s', rfold f l s = Ok s' -> VE s s'.
Proof.
  intros Hf. induction l as [|a l IH]; intros s s' H; cbn in H.
  - injection H as <-. apply VE_refl.
  - apply rbind_ok in H as (s1 & H1 & H). eapply VE_trans; [eapply Hf, H1|eapply IH, H].
Qed.
Lemma VE_removeParents fuel : forall s c s', removeParents fuel s c = Ok s' -> VE s s'.
Proof.
  induction fuel as [|fuel IH]; intros s c s' H; [discriminate|]. cbn [removeParents] in H.
  revert H. apply VE_rfold. clear s s'. intros s p s' H.
  pose proof (VE_unlink s c p) as Du.
  destruct (isNecessary _); [injection H as <-; exact Du|].
  destruct (negb _); [injection H as <-; exact Du|].
  apply rbind_ok in H as (s1 & H1%IH & H%VE_removeNode).
  eapply VE_trans; [exact Du|].
  apply (VE_trans _ (emit (EvUnnec p) (unlink s c p))); [apply VE_same_nodes; [reflexivity|auto]|].
  eapply VE_trans; eauto.
Qed.

Lemma INQ_rfold {A} (f : state -> A -> res state) l :
  (forall s a s', f s a = Ok s' -> INQ s -> INQ s') -> forall s s', rfold f l s = Ok s' -> INQ s -> INQ s'.
Proof.
  intros Hf. induction l as [|a l IH]; intros s s' H I; cbn in H.
  - injection H as <-. exact I.
  - apply rbind_ok in H as (s1 & H1 & H). eapply IH; [exact H|]. eapply Hf; eauto.
Qed.

Lemma INQ_invalidateNode fuel : forall s n s', invalidateNode fuel s n = Ok s' -> INQ s -> INQ s'.
Proof.
  induction fuel as [|fuel IH]; intros s n s' H I; [discriminate|]. cbn [invalidateNode] in H.
  destruct (valid (nd s n)) eqn:Ev; cbn [negb] in H; [|injection H as <-; exact I].
  apply rbind_ok in H as (s1 & H1 & H). apply rbind_ok in H as (s2 & H2 & H).
  set (s0 := upd (emit (EvInval n) s) n _) in *.
  assert (I0 : INQ s0).
  { eapply VE_INQ; [|exact I]. apply (VE_trans _ (emit (EvInval n) s)); [apply VE_same_nodes; [reflexivity|auto]|].
    apply VE_upd. intros []; reflexivity. }
  assert (I1 : INQ s1).
  { destruct (isNecessary (nd s0 n)); [|injection H1 as <-; exact I0].
    apply rbind_ok in H1 as (s3 & H3%VE_removeParents & [= <-]).
    eapply VE_INQ; [|exact I0]. eapply VE_trans; [exact H3|apply VE_upd; intros []; reflexivity]. }
  assert (I2 : INQ s2).
  { destruct (nkind (nd s1 n)); try (injection H2 as <-; exact I1).
    eapply INQ_rfold; [|exact H2|exact I1]. intros t a t' Ht It. eapply IH; eauto. }
  set (s3 := upd s2 n (set valid (fun _ => false))) in *.
  set (s4 := s3 <| invq := invq s3 ++ children (nd s3 n) |>) in *.
  intros r Hr. destruct (decide (r = n)) as [->|Hne].
  - destruct (inHeap s4 n) eqn:Eh; [|injection H as <-; exact Eh].
    rewrite (heapRemove_inHeap _ _ _ n H), bool_decide_eq_true_2 by reflexivity. reflexivity.
  - assert (Hr2 : valid (nd s2 r) = false).
    { assert (E : nd s' r = nd s2 r).
      { transitivity (nd s4 r).
        - destruct (inHeap s4 n); [|injection H as <-; reflexivity].
          unfold heapRemove in H. apply rbind_ok in H as (w & _ & [= <-]). reflexivity.
        - change (nd s3 r = nd s2 r). apply nd_upd_other, Hne. }
      rewrite <- E. exact Hr. }
    pose proof (I2 r Hr2) as Hq. destruct (inHeap s' r) eqn:E; [|reflexivity].
    assert (inHeap s4 r = true); [|change (inHeap s2 r = true) in H0; congruence].
    destruct (inHeap s4 n); [|injection H as <-; exact E].
    rewrite (heapRemove_inHeap _ _ _ r H) in E. apply andb_true_iff in E as [_ E]. exact E.
Qed.

(* invalidating a list of nodes leaves each of them invalid and (given INQ) not queued *)
Lemma rfold_invalidate_all fuel : forall l s s',
  rfold (invalidateNode fuel) l s = Ok s' ->
  VP s s' /\ (INQ s -> INQ s') /\
  (forall r, r ∈ l -> is_Some (nodes s !! r) -> valid (nd s' r) = false).
Proof.
  induction l as [|x l IH]; intros s s' H; cbn [rfold] in H.
  - injection H as <-. split; [apply VP_refl|]. split; [auto|]. intros r Hr. inversion Hr.
  - apply rbind_ok in H as (s1 & H1 & H). destruct (IH _ _ H) as (D2 & I2 & Hl).
    destruct (C08_invalidate_dequeues _ _ _ _ H1) as (D1 & _ & Hx & _).
    split; [eapply VP_trans; eauto|]. split; [intros I; apply I2; eapply INQ_invalidateNode; eauto|].
    intros r [->|Hr]%elem_of_cons Hs.
    + destruct D2 as (D2 & _). apply D2, Hx, Hs.
    + apply Hl; [exact Hr|]. destruct D1 as (_ & _ & D1). apply D1, Hs.
Qed.

(* [propagateInvalidity] may queue nodes, but only valid ones, and revalidates nothing *)
Lemma propagateInvalidity_valid fuel : forall s s', propagateInvalidity fuel s = Ok s' ->
  (forall r, valid (nd s r) = false -> valid (nd s' r) = false) /\ (INQ s -> INQ s').
Proof.
  induction fuel as [|fuel IH]; intros s s' H; [discriminate|]. cbn [propagateInvalidity] in H.
  destruct (invq s) as [|n q]; [injection H as <-; auto|].
  apply rbind_ok in H as (s1 & H1 & H). destruct (IH _ _ H) as [A B].
  set (t := s <| invq := q |>) in *.
  assert (C : (forall r, valid (nd t r) = false -> valid (nd s1 r) = false) /\ (INQ t -> INQ s1)).
  { destruct (valid (nd t n)) eqn:Ev; [|injection H1 as <-; auto].
    destruct (shouldBeInvalidated t n).
    - split; [apply (VP_invalidateNode _ _ _ _ H1)|intros I; eapply INQ_invalidateNode; eauto].
    - assert (G : forall u, heapAddIfNotPresent t n = Ok u ->
                 (forall r, valid (nd t r) = false -> valid (nd u r) = false) /\ (INQ t -> INQ u)).
      { intros u Hu. pose proof (heapAddIfNotPresent_heapOnly _ _ _ Hu) as Ho. split.
        - intros r Hr. rewrite (heapOnly_nd _ _ r Ho). exact Hr.
        - intros I r Hr. rewrite (heapOnly_nd _ _ r Ho) in Hr.
          rewrite (heapAddIfNotPresent_inHeap _ _ _ r Hu), (I r Hr), orb_false_r.
          apply bool_decide_eq_false_2. intros ->. congruence. }
      first [apply G, H1|destruct (_ =? unset); [injection H1 as <-; auto|apply G, H1]]. }
  destruct C as [C1 C2]. split; [intros r Hr; apply A, C1, Hr|intros I; apply B, C2, I].
Qed.

Lemma pf_changeParent fuel s c o n s' e : changeParent fuel s c o n = Ok (s', e) -> pframe s s'.
Proof. eapply fr_changeParent; exact pframe_hyps. Qed.
Lemma pf_inst e s sc x s' r : inst s sc x e = (s', r) -> pframe s s'.
Proof. eapply fr_inst; exact pframe_hyps. Qed.

(** C08.3: after a plain bind swapped its right-hand side, every node of the replaced
    generation is invalid *)
Lemma C08_swap_invalidates_old_generation fuel p s b s' :
  bindLhsStabilize fuel p s b = Ok (s', None) ->
  b_memo (bd s b) = false -> is_Some (b_rhs (bd s b)) ->
  forall r, r ∈ b_rhsNodes (bd s b) -> is_Some (nodes s !! r) -> valid (nd s' r) = false.
Proof.
  unfold bindLhsStabilize. intros H Hm [o Ho] r Hr Hs. rewrite Hm, Ho in H.
  apply rbind_ok in H as ([[s1 e1] built] & H1 & H).
  assert (P1 : pframe s s1).
  { apply rbind_ok in H1 as ([s2 e2] & H2%pf_invoke & H1).
    eapply pframe_trans; [eapply pframe_trans; [|exact H2]|].
    - apply pframe_same; reflexivity.
    - destruct e2; [injection H1 as <- <- <-; apply pframe_refl|].
      destruct (inst s2 _ _ _) as [s3 root] eqn:E. apply pf_inst in E. injection H1 as <- <- <-.
      eapply pframe_trans; [exact E|].
      match goal with |- pframe s3 (updb (emit ?ev s3) _ _) =>
        apply (pframe_trans _ (emit ev s3)); [apply pframe_emit; exact Logic.I|apply pframe_same; reflexivity] end. }
  destruct e1 as [e1|]; [discriminate|]. destruct built as [root|]; [|discriminate].
  apply ebind_cases in H as (s2 & e2 & H2 & [(x & -> & -> & [=])|(-> & H)]).
  apply ebind_cases in H as (s3 & e3 & [H3 ->]%lift_cases & [(x & [=] & _)|(_ & H)]).
  apply lift_cases in H as [H _].
  apply (proj1 (propagateInvalidity_valid _ _ _ H)).
  apply rfold_invalidate_all in H3 as (_ & _ & H3). apply H3; [exact Hr|].
  apply pf_changeParent in H2 as (_ & _ & _ & _ & _ & D2 & _). apply D2.
  apply some_upd. change (is_Some (nodes s1 !! r)). destruct P1 as (_ & _ & _ & _ & _ & D1 & _). apply D1, Hs.
Qed.

(* the invalidation half alone: also the queue is clean afterwards when it was before *)
Lemma C08_old_generation_not_queued fuel l s s1 s' :
  rfold (invalidateNode fuel) l s = Ok s1 -> propagateInvalidity fuel s1 = Ok s' -> INQ s ->
  INQ s' /\ forall r, r ∈ l -> is_Some (nodes s !! r) -> valid (nd s' r) = false /\ inHeap s' r = false.
Proof.
  intros H1 H2 I. destruct (rfold_invalidate_all _ _ _ _ H1) as (_ & I1 & V1).
  destruct (propagateInvalidity_valid _ _ _ H2) as (V2 & I2).
  pose proof (I2 (I1 I)) as I'. split; [exact I'|]. intros r Hr Hs.
  pose proof (V2 r (V1 r Hr Hs)) as Hv. split; [exact Hv|apply I', Hv].
Qed.

(** C08.4 (the sites that test before they queue): the success path of a recompute queues only
    valid dependents, so it keeps "no invalid node is queued" *)
Lemma childrenLoop_gen_valid (s0 : state) l : forall s held s' held',
  heapOnly s0 s ->
  (forall m, inHeap s m = true -> inHeap s0 m = true \/ valid (nd s0 m) = true) ->
  (forall h, held = Some h -> valid (nd s0 h) = true) ->
  rfold (fun '(s, held) c =>
         if bool_decide (held = Some c) then Ok (s, held)
         else if negb (shouldRecomputeChild s c) then Ok (s, held)
         else
           s <-! (match held with Some h => heapAdd s h | None => Ok s end);
           Ok (s, Some c)) l (s, held) = Ok (s', held') ->
  heapOnly s0 s' /\
  (forall m, inHeap s' m = true -> inHeap s0 m = true \/ valid (nd s0 m) = true) /\
  (forall h, held' = Some h -> valid (nd s0 h) = true).
Proof.
  induction l as [|c l IH]; intros s held s' held' Ho Hq Hh H; cbn [rfold] in H.
  - injection H as <- <-. auto.
  - apply rbind_ok in H as ([s1 h1] & H1 & H). revert H. apply IH; clear IH.
    + destruct (bool_decide _); [injection H1 as <- <-; exact Ho|].
      destruct (negb _); [injection H1 as <- <-; exact Ho|].
      apply rbind_ok in H1 as (s2 & H2 & [= <- <-]).
      destruct held; [eapply heapOnly_trans; [exact Ho|eapply heapAdd_heapOnly, H2]|injection H2 as <-; exact Ho].
    + destruct (bool_decide _); [injection H1 as <- <-; exact Hq|].
      destruct (negb _); [injection H1 as <- <-; exact Hq|].
      apply rbind_ok in H1 as (s2 & H2 & [= <- <-]).
      destruct held as [h|]; [|injection H2 as <-; exact Hq].
      intros m. rewrite (heapAdd_inHeap _ _ _ m H2). intros [Hm|Hm]%orb_true_iff; [|auto].
      apply bool_decide_eq_true in Hm as ->. right. apply Hh. reflexivity.
    + destruct (bool_decide _); [injection H1 as <- <-; exact Hh|].
      destruct (shouldRecomputeChild s c) eqn:Es; cbn [negb] in H1; [|injection H1 as <- <-; exact Hh].
      apply rbind_ok in H1 as (s2 & _ & [= <- <-]). intros h [= <-].
      rewrite <- (heapOnly_nd _ _ c Ho). apply C08_owed_child_is_valid, Es.
Qed.

Lemma INQ_successTail s n s' e imm : successTail s n = Ok (s', e, imm) -> INQ s -> INQ s'.
Proof.
  unfold successTail. set (t0 := insert_handler n _). intros H I.
  apply rbind_ok in H as ([t1 held] & H1 & H).
  apply rbind_ok in H as ([t2 imm2] & H2 & [= <- <- <-]).
  rewrite insert_handlers_eq.
  assert (V0 : forall m, valid (nd t0 m) = valid (nd s m)).
  { intros m. change (valid (nd (upd s n (set changedAt (fun _ => stabNum s))) m) = valid (nd s m)).
    apply (nd_upd_keep valid). intros []; reflexivity. }
  assert (I0 : INQ t0) by (intros r Hr; rewrite V0 in Hr; apply (I r Hr)).
  unfold childrenLoop in H1.
  assert (Hq0 : forall m, inHeap t0 m = true -> inHeap t0 m = true \/ valid (nd t0 m) = true) by auto.
  assert (Hn0 : forall h : nid, None = Some h -> valid (nd t0 h) = true) by (intros ? [=]).
  destruct (childrenLoop_gen_valid t0 _ _ _ _ _ (heapOnly_refl t0) Hq0 Hn0 H1) as (Ho1 & Q1 & Hh1).
  assert (Q2 : heapOnly t0 t2 /\ forall m, inHeap t2 m = true -> inHeap t0 m = true \/ valid (nd t0 m) = true).
  { destruct held as [h|]; [|injection H2 as <- <-; auto].
    destruct (canRecomputeImmediately t1 n h); [injection H2 as <- <-; auto|].
    apply rbind_ok in H2 as (t3 & H3 & [= <- <-]).
    split; [eapply heapOnly_trans; [exact Ho1|eapply heapAdd_heapOnly, H3]|].
    intros m. rewrite (heapAdd_inHeap _ _ _ m H3). intros [Hm|Hm]%orb_true_iff; [|auto].
    apply bool_decide_eq_true in Hm as ->. right. apply Hh1. reflexivity. }
  destruct Q2 as (Ho2 & Q2). intros r Hr.
  change (valid (nd t2 r) = false) in Hr. change (inHeap t2 r = false).
  rewrite (heapOnly_nd _ _ r Ho2) in Hr.
  destruct (inHeap t2 r) eqn:E; [|reflexivity]. destruct (Q2 r E) as [Hq|Hq]; [|congruence].
  rewrite (I0 r Hr) in Hq. discriminate.
Qed.

(** * 9. Helpers for the examples in Properties/C03, C07, C08, C11, C12, C13 *)
Definition reach (os : list op) : state := match run (init 256) os with Ok s => s | _ => init 0 end.

Definition ids_below_b (s : state) : bool :=
  forallb (fun kv => (fst kv <? next s)%nat) (map_to_list (nodes s)).

Lemma ids_below_b_sound s : ids_below_b s = true -> ids_below s.
Proof.
  intros H n [x Hx]. apply elem_of_map_to_list in Hx.
  pose proof (forallb_elem _ _ _ H Hx) as E. cbn in E. apply Nat.ltb_lt in E. exact E.
Qed.

Definition all_vars_b (s : state) (l : list nid) : bool := forallb (isVar s) l.
Lemma all_vars_b_sound s l : all_vars_b s l = true -> Forall (fun v => isVar s v = true) l.
Proof. intros H. apply Forall_forall. intros v Hv. apply (forallb_elem _ _ _ H), elem_of_list_In, Hv. Qed.

Lemma passResult_deferred_are_vars p c s sL e at_ always :
  ids_below s -> plan_ok s p = true ->
  Forall (fun v => isVar s v = true) (setDuring s ++ setRemoved s) ->
  passResult p c s = Ok (sL, e, at_, always) ->
  Forall (fun v => isVar sL v = true) (setRemoved sL ++ setDuring sL).
Proof.
  intros Hids Hp Hv H.
  destruct (passResult_frames _ _ _ _ _ _ _ H) as (Hpf & Hwv & _).
  exact (pass_deferred_are_vars (passStart s) sL p Hids Hp Hv Hpf (Hwv Hp)).
Qed.

(* example histories *)
Definition ex12 : list op := [NewVar 3 false; NewMap (Aff 1 1) 0%nat; Observe 1%nat; Stabilize []].
Definition ex11 : list op :=
  [NewVar 3 false; NewCutoff CParity 0%nat; NewMap (Aff 1 0) 1%nat; Observe 2%nat; Stabilize []].
Definition ex08 : list op :=
  [NewVar 1 false; NewBind [TMap (Aff 1 0) (TMap (Aff 1 0) TX)] 0%nat; Observe 2%nat; Stabilize []].

(** C08.4 REFUTED as a statement about all well-formed operation sequences: an invalid node can be
    queued and is then recomputed.  [MapN.AddInput] on a MapN that was invalidated (it read a node
    of a discarded right-hand side) calls [SetStale] / [addChild], which queue it without looking
    at [valid]; the pass pops it and runs its function on the discarded node's last value.
    (Checked on the Go library as well: the function of the invalid MapN runs again.)
    Sites that queue WITHOUT a validity test: [setStale] (Var.Set, AddInput, RemoveInput, deferred
    writes), the final [heapAddIfNotPresent child] of [addChild], [recomputeFailed] and the
    panic recover (re-queue the node that was being recomputed), the re-queue of always nodes,
    [heapFix].  Sites that test: the children loop ([shouldRecomputeChild], see
    [C08_owed_child_is_valid] and [INQ_successTail]), [becameNecessaryRecursive] ([isStale]),
    [propagateInvalidity] ([propagateInvalidity_valid]). *)
Definition ex08_invalid_queued : list op :=
  [NewVar 1 false; NewBind [TMap (Aff 1 0) TX; TMap (Aff 1 1) TX] 0%nat; Observe 2%nat; Stabilize [];
   NewMapN Sum [4%nat]; Observe 6%nat; Stabilize []; SetVar 0%nat 2; Stabilize []; AddInput 6%nat 0%nat].

Lemma C08_popped_invalid_does_not_run_refuted :
  let s := reach ex08_invalid_queued in
  is_ok (run (init 256) ex08_invalid_queued) = true /\
  valid (nd s 6%nat) = false /\ inHeap s 6%nat = true /\
  match stabilize [] false (s <| log := [] |>) with
  | Ok (s', e) => e = None /\
      rev (log s') = [EvPassStart; EvInvoked 6%nat [1; 2] 3; EvPassEnd XOk; EvUpd 6%nat; EvObsUpd 7%nat 3]
  | _ => False
  end.
Proof. vm_compute. repeat split. Qed.

(** * 10. C12.7 (partial): a mid-pass write does not alter what a recompute computes.
    Two runs of [recomputeNodeSerial] on states that agree up to [pending] fields and [setDuring],
    under plans with the same faults (they may differ in their writes), end in states that agree
    up to [pending] fields and [setDuring], with the same error, the same immediate child and the
    same log.  Proved for every kind of node but a bind's lhs-change node. *)
Lemma pendOnly_sym s t : pendOnly s t -> pendOnly t s.
Proof.
  intros (A1 & A2 & A3 & A4 & A5 & A6 & A7 & A8 & A9 & A10).
  do 8 (split; [congruence|]). split.
  - intros m. rewrite (A9 m). generalize (pending (nd t m)). intros q. destruct (nd s m); reflexivity.
  - intros m. symmetry. apply A10.
Qed.

Lemma pendOnly_upd s t n f g :
  pendOnly s t -> (forall x q, g (x <| pending := q |>) = f x <| pending := q |>) ->
  pendOnly (upd s n f) (upd t n g).
Proof.
  intros P Hfg. pose proof P as (A1 & A2 & A3 & A4 & A5 & A6 & A7 & A8 & A9 & A10).
  do 8 (split; [assumption|]). split.
  - intros m. rewrite !nd_upd_if. destruct (decide (m = n)) as [->|]; [|apply A9].
    destruct (nodes t !! n) eqn:Et, (nodes s !! n) eqn:Es.
    + rewrite (A9 n), Hfg. destruct (f (nd s n)); reflexivity.
    + exfalso. assert (H : is_Some (nodes s !! n)) by (apply A10; rewrite Et; eauto). rewrite Es in H. destruct H as [? [=]].
    + exfalso. assert (H : is_Some (nodes t !! n)) by (apply A10; rewrite Es; eauto). rewrite Et in H. destruct H as [? [=]].
    + reflexivity.
  - intros m. rewrite !some_upd. apply A10.
Qed.

Lemma pendOnly_emit e s t : pendOnly s t -> pendOnly (emit e s) (emit e t).
Proof.
  intros (A1 & A2 & A3 & A4 & A5 & A6 & A7 & A8 & A9 & A10). unfold pendOnly. cbn.
  rewrite A2. do 8 (split; [assumption || reflexivity|]). split; [exact A9|exact A10].
Qed.

Lemma pendOnly_set_heap w s t : pendOnly s t -> pendOnly (s <| heap := w |>) (t <| heap := w |>).
Proof.
  intros (A1 & A2 & A3 & A4 & A5 & A6 & A7 & A8 & A9 & A10). unfold pendOnly. cbn.
  do 8 (split; [assumption || reflexivity|]). split; [exact A9|exact A10].
Qed.

Lemma pendOnly_set_handlers h s t : pendOnly s t -> pendOnly (s <| handlers := h |>) (t <| handlers := h |>).
Proof.
  intros (A1 & A2 & A3 & A4 & A5 & A6 & A7 & A8 & A9 & A10). unfold pendOnly. cbn.
  do 8 (split; [assumption || reflexivity|]). split; [exact A9|exact A10].
Qed.

Lemma pendOnly_inHeap s t m : pendOnly s t -> inHeap t m = inHeap s m.
Proof. intros (A1 & _). unfold inHeap. rewrite A1. reflexivity. Qed.

Lemma existsb_ext_local {A} (f g : A -> bool) l : (forall x, f x = g x) -> existsb f l = existsb g l.
Proof. intros H. induction l as [|a l IH]; cbn; [reflexivity|]. rewrite H, IH. reflexivity. Qed.

Lemma pendOnly_isStale s t c : pendOnly s t -> isStale t c = isStale s c.
Proof.
  intros P. unfold isStale, staleWrtParents.
  destruct (pendOnly_fields s t c P) as (K & _ & _ & R & _ & _ & V & Pa & _). rewrite K, R, V, Pa.
  f_equal. destruct (nkind (nd s c)); try reflexivity; f_equal;
    apply existsb_ext_local; intros p; destruct (pendOnly_fields s t p P) as (_ & _ & _ & _ & C & _); rewrite C; reflexivity.
Qed.

Lemma pendOnly_src s t c : pendOnly s t -> shouldRecomputeChild t c = shouldRecomputeChild s c.
Proof.
  intros P. unfold shouldRecomputeChild.
  rewrite (pendOnly_inHeap s t c P), (pendOnly_isStale s t c P).
  destruct (pendOnly_fields s t c P) as (K & _ & _ & R & _ & _ & V & _ & _ & _ & _ & N).
  destruct P as (_ & _ & St & _). rewrite K, R, V, N, St. reflexivity.
Qed.

Lemma pendOnly_cri s t n c : pendOnly s t -> canRecomputeImmediately t n c = canRecomputeImmediately s n c.
Proof.
  intros P. unfold canRecomputeImmediately, scopeHeight.
  destruct (pendOnly_fields s t c P) as (K & _ & _ & _ & _ & H & _ & Pa & _ & _ & Sc & _).
  destruct (pendOnly_fields s t n P) as (_ & _ & _ & _ & _ & Hn & _).
  rewrite K, H, Pa, Sc, Hn.
  assert (Es : match scope (nd s c) with Some b => height (nd t b) | None => unset end
             = match scope (nd s c) with Some b => height (nd s b) | None => unset end).
  { destruct (scope (nd s c)) as [b|]; [|reflexivity]. destruct (pendOnly_fields s t b P) as (_ & _ & _ & _ & _ & Hb & _). exact Hb. }
  rewrite Es. destruct P as (A1 & _). rewrite A1. reflexivity.
Qed.

Lemma pendOnly_heapAdd s t n s' t' :
  pendOnly s t -> heapAdd s n = Ok s' -> heapAdd t n = Ok t' -> pendOnly s' t'.
Proof.
  intros P. unfold heapAdd. destruct (pendOnly_fields s t n P) as (_ & _ & _ & _ & _ & H & _).
  pose proof P as (A1 & _). rewrite A1, H. intros Hs Ht.
  apply rbind_ok in Hs as (w & Hw & [= <-]). rewrite Hw in Ht. injection Ht as <-.
  apply pendOnly_set_heap, P.
Qed.

Lemma pendOnly_heapAddIfNotPresent s t n s' t' :
  pendOnly s t -> heapAddIfNotPresent s n = Ok s' -> heapAddIfNotPresent t n = Ok t' -> pendOnly s' t'.
Proof.
  intros P. unfold heapAddIfNotPresent. rewrite (pendOnly_inHeap s t n P).
  destruct (inHeap s n); [intros [= <-] [= <-]; exact P|apply pendOnly_heapAdd, P].
Qed.

Lemma pendOnly_childrenLoop_gen l : forall s t held s' held1 t' held2,
  pendOnly s t ->
  rfold (fun '(s, held) c =>
         if bool_decide (held = Some c) then Ok (s, held)
         else if negb (shouldRecomputeChild s c) then Ok (s, held)
         else
           s <-! (match held with Some h => heapAdd s h | None => Ok s end);
           Ok (s, Some c)) l (s, held) = Ok (s', held1) ->
  rfold (fun '(s, held) c =>
         if bool_decide (held = Some c) then Ok (s, held)
         else if negb (shouldRecomputeChild s c) then Ok (s, held)
         else
           s <-! (match held with Some h => heapAdd s h | None => Ok s end);
           Ok (s, Some c)) l (t, held) = Ok (t', held2) ->
  pendOnly s' t' /\ held1 = held2.
Proof.
  induction l as [|c l IH]; intros s t held s' held1 t' held2 P Hs Ht; cbn [rfold] in Hs, Ht.
  - injection Hs as <- <-. injection Ht as <- <-. auto.
  - apply rbind_ok in Hs as ([s1 h1] & Hs1 & Hs). apply rbind_ok in Ht as ([t1 h2] & Ht1 & Ht).
    rewrite (pendOnly_src s t c P) in Ht1.
    assert (P1 : pendOnly s1 t1 /\ h1 = h2).
    { destruct (bool_decide _); [injection Hs1 as <- <-; injection Ht1 as <- <-; auto|].
      destruct (negb _); [injection Hs1 as <- <-; injection Ht1 as <- <-; auto|].
      apply rbind_ok in Hs1 as (s2 & Hs2 & [= <- <-]). apply rbind_ok in Ht1 as (t2 & Ht2 & [= <- <-]).
      split; [|reflexivity]. destruct held; [eapply pendOnly_heapAdd; eauto|injection Hs2 as <-; injection Ht2 as <-; exact P]. }
    destruct P1 as [P1 <-]. eapply IH; eauto.
Qed.

Lemma pendOnly_successTail s t n s' e1 imm1 t' e2 imm2 :
  pendOnly s t -> successTail s n = Ok (s', e1, imm1) -> successTail t n = Ok (t', e2, imm2) ->
  pendOnly s' t' /\ e1 = e2 /\ imm1 = imm2.
Proof.
  intros P. unfold successTail, childrenLoop. intros Hs Ht.
  pose proof P as (_ & _ & St & _ & Hh & _).
  set (s0 := insert_handler n (upd s n _)) in *. set (t0 := insert_handler n (upd t n _)) in *.
  assert (P0 : pendOnly s0 t0).
  { unfold s0, t0, insert_handler. change (handlers (upd t n ?f)) with (handlers t).
    change (handlers (upd s n ?f)) with (handlers s). rewrite Hh. apply pendOnly_set_handlers.
    rewrite St. apply pendOnly_upd; [exact P|]. intros [] q; reflexivity. }
  apply rbind_ok in Hs as ([s1 h1] & Hs1 & Hs). apply rbind_ok in Ht as ([t1 h2] & Ht1 & Ht).
  assert (Ec : children (nd t0 n) = children (nd s0 n)) by (destruct (pendOnly_fields _ _ n P0) as (_ & _ & _ & _ & _ & _ & _ & _ & C & _); exact C).
  rewrite Ec in Ht1.
  destruct (pendOnly_childrenLoop_gen _ _ _ _ _ _ _ _ P0 Hs1 Ht1) as [P1 <-].
  apply rbind_ok in Hs as ([s2 i1] & Hs2 & [= <- <- <-]). apply rbind_ok in Ht as ([t2 i2] & Ht2 & [= <- <- <-]).
  assert (P2 : pendOnly s2 t2 /\ i1 = i2).
  { destruct h1 as [h|]; [|injection Hs2 as <- <-; injection Ht2 as <- <-; auto].
    rewrite (pendOnly_cri s1 t1 n h P1) in Ht2. destruct (canRecomputeImmediately s1 n h).
    - injection Hs2 as <- <-. injection Ht2 as <- <-. auto.
    - apply rbind_ok in Hs2 as (s3 & Hs3 & [= <- <-]). apply rbind_ok in Ht2 as (t3 & Ht3 & [= <- <-]).
      split; [eapply pendOnly_heapAdd; eauto|reflexivity]. }
  destruct P2 as [P2 <-]. split; [|auto].
  rewrite !insert_handlers_eq.
  destruct (pendOnly_fields _ _ n P2) as (_ & _ & _ & _ & _ & _ & _ & _ & _ & O & _).
  pose proof P2 as (_ & _ & _ & _ & Hh2 & _). rewrite O, Hh2. apply pendOnly_set_handlers, P2.
Qed.

Lemma pendOnly_errorHandlers s t n : pendOnly s t -> pendOnly (errorHandlers s n) (errorHandlers t n).
Proof.
  intros P. unfold errorHandlers, bd. destruct (pendOnly_fields s t n P) as (K & _).
  pose proof P as (_ & _ & _ & _ & _ & _ & _ & B & _). rewrite K, B.
  destruct (nkind (nd s n)); repeat apply pendOnly_emit; exact P.
Qed.

Lemma pendOnly_failTail s t n prev e s' e1 imm1 t' e2 imm2 :
  pendOnly s t -> failTail s n prev e = Ok (s', e1, imm1) -> failTail t n prev e = Ok (t', e2, imm2) ->
  pendOnly s' t' /\ e1 = e2 /\ imm1 = imm2.
Proof.
  intros P. unfold failTail, recomputeFailed.
  assert (G : forall s3 t3, heapAddIfNotPresent (upd s n (set recomputedAt (fun _ => prev))) n = Ok s3 ->
              heapAddIfNotPresent (upd t n (set recomputedAt (fun _ => prev))) n = Ok t3 ->
              pendOnly (errorHandlers s3 n) (errorHandlers t3 n)).
  { intros s3 t3 H3 H4. apply pendOnly_errorHandlers. eapply pendOnly_heapAddIfNotPresent; [|exact H3|exact H4].
    apply pendOnly_upd; [exact P|]. intros [] q; reflexivity. }
  destruct e; try (intros Hs Ht; apply rbind_ok in Hs as (s3 & H3 & [= <- <- <-]);
                   apply rbind_ok in Ht as (t3 & H4 & [= <- <- <-]); split; [eapply G; eauto|auto]).
  intros [= <- <- <-] [= <- <- <-]. auto.
Qed.

(* an invocation during a pass, under two plans with the same fault *)
Lemma pendOnly_invoke p q s t n w s' e1 t' e2 :
  status s = 1 -> pendOnly s t -> firstFault (actions_of p n w) = firstFault (actions_of q n w) ->
  invoke p s n w = Ok (s', e1) -> invoke q t n w = Ok (t', e2) -> pendOnly s' t' /\ e1 = e2.
Proof.
  intros Hst P Hf Hs Ht. assert (Hst' : status t = 1) by (destruct P as (_ & _ & _ & -> & _); exact Hst).
  pose proof (invoke_spec _ _ _ _ _ _ Hs) as (-> & _). pose proof (invoke_spec _ _ _ _ _ _ Ht) as (-> & _).
  apply (invoke_midpass _ _ _ _ _ _ Hst) in Hs as (s1 & Ps & ->).
  apply (invoke_midpass _ _ _ _ _ _ Hst') in Ht as (t1 & Pt & ->).
  rewrite Hf. split; [|reflexivity].
  assert (P1 : pendOnly s1 t1).
  { apply (pendOnly_trans _ s); [apply pendOnly_sym, Ps|]. apply (pendOnly_trans _ t); [exact P|exact Pt]. }
  destruct (firstFault (actions_of q n w)); [apply pendOnly_emit|]; exact P1.
Qed.

Lemma pendOnly_status s t : pendOnly s t -> status t = status s.
Proof. intros (_ & _ & _ & E & _). exact E. Qed.

(** C12.7, for one recompute of a node that is not a bind's lhs-change node *)
Lemma C12_midpass_noninterference_recompute_partial fuel p q s t n s' e1 imm1 t' e2 imm2 :
  status s = 1 -> pendOnly s t ->
  (forall w, firstFault (actions_of p n w) = firstFault (actions_of q n w)) ->
  (forall b, nkind (nd s n) <> KBindLhs b) ->
  recomputeNodeSerial fuel p s n = Ok (s', e1, imm1) ->
  recomputeNodeSerial fuel q t n = Ok (t', e2, imm2) ->
  pendOnly s' t' /\ e1 = e2 /\ imm1 = imm2 /\ log t' = log s'.
Proof.
  intros Hst P Hf Hk Hs Ht.
  enough (G : pendOnly s' t' /\ e1 = e2 /\ imm1 = imm2).
  { destruct G as (G & -> & ->). split; [exact G|]. split; [reflexivity|]. split; [reflexivity|]. destruct G as (_ & G & _). exact G. }
  rewrite recomputeNodeSerial_unfold in Hs, Ht. cbv zeta in Hs, Ht.
  destruct (pendOnly_fields s t n P) as (K & D & V & R & _).
  pose proof P as (_ & _ & St & _).
  rewrite R, St in Ht.
  set (s0 := upd s n _) in *. set (t0 := upd t n _) in *.
  assert (P0 : pendOnly s0 t0) by (apply pendOnly_upd; [exact P|]; intros [] r; reflexivity).
  assert (Hst0 : status s0 = 1) by exact Hst.
  apply rbind_ok in Hs as ([[s1 x1] c1] & Hs1 & Hs). apply rbind_ok in Ht as ([[t1 x2] c2] & Ht1 & Ht).
  (* the cutoff test *)
  assert (P1 : pendOnly s1 t1 /\ x1 = x2 /\ c1 = c2).
  { unfold maybeCutoff in Hs1, Ht1. rewrite K, V, D in Ht1.
    rewrite (valueOf_pendOnly _ _ _ P0) in Ht1.
    destruct (nkind (nd s n)); try (injection Hs1 as <- <- <-; injection Ht1 as <- <- <-; auto).
    apply rbind_ok in Hs1 as ([s2 y1] & Hs2 & Hs1). apply rbind_ok in Ht1 as ([t2 y2] & Ht2 & Ht1).
    destruct (pendOnly_invoke _ _ _ _ _ _ _ _ _ _ Hst0 P0 (Hf WCut) Hs2 Ht2) as [P2 <-].
    destruct y1; injection Hs1 as <- <- <-; injection Ht1 as <- <- <-; auto.
    split; [apply pendOnly_emit, P2|auto]. }
  destruct P1 as (P1 & <- & <-).
  destruct x1 as [x1|]; [eapply pendOnly_failTail; eauto|].
  destruct c1; [injection Hs as <- <- <-; injection Ht as <- <- <-; auto|].
  apply rbind_ok in Hs as ([s2 y1] & Hs2 & Hs). apply rbind_ok in Ht as ([t2 y2] & Ht2 & Ht).
  assert (Hst1 : status s1 = 1).
  { apply pf_maybeCutoff in Hs1 as (_ & _ & E & _). rewrite E. exact Hst0. }
  assert (K1 : nkind (nd s1 n) = nkind (nd s n)).
  { apply maybeCutoff_spec in Hs1 as (V1 & _). destruct (vps_fields _ _ (V1 n)) as (E & _). rewrite E.
    apply (nd_upd_keep nkind). intros []; reflexivity. }
  assert (R1 : recomputedAt (nd s1 n) = stabNum s1 \/ ~ is_Some (nodes s !! n)).
  { destruct (nodes s !! n) eqn:En; [left|right; intros [? [=]]].
    pose proof Hs1 as Hs1'. apply maybeCutoff_spec in Hs1 as (V1 & _). destruct (vps_fields _ _ (V1 n)) as (_ & _ & _ & _ & _ & E & _).
    rewrite E. unfold s0. rewrite nd_upd_same by (rewrite En; eauto).
    apply pf_maybeCutoff in Hs1' as (_ & E2 & _). rewrite E2. destruct (nd s n); reflexivity. }
  (* the stabilize step *)
  assert (P2 : pendOnly s2 t2 /\ y1 = y2).
  { destruct (pendOnly_fields s1 t1 n P1) as (Kt & Dt & Vt & Rt & _).
    pose proof P1 as (_ & _ & St1 & _ & _ & _ & _ & B1 & _).
    unfold stabilizeNode in Hs2, Ht2. rewrite Kt, Dt in Ht2. rewrite K1 in *.
    destruct (nkind (nd s n)) eqn:Ekind.
    - (* a var: stamped by this very recompute, so a deferred value is not taken *)
      assert (Hs' : is_Some (nodes s !! n)) by (apply nd_some_kind; rewrite Ekind; discriminate).
      destruct R1 as [R1|R1]; [|contradiction].
      rewrite Rt, St1, R1, Z.eqb_refl in Ht2. rewrite R1, Z.eqb_refl in Hs2.
      destruct (pending (nd s1 n)), (pending (nd t1 n)); injection Hs2 as <- <-; injection Ht2 as <- <-; auto.
    - injection Hs2 as <- <-; injection Ht2 as <- <-; auto.
    - rewrite (valueOf_pendOnly _ _ _ P1) in Ht2.
      apply rbind_ok in Hs2 as ([s3 z1] & Hs3 & Hs2). apply rbind_ok in Ht2 as ([t3 z2] & Ht3 & Ht2).
      destruct (pendOnly_invoke _ _ _ _ _ _ _ _ _ _ Hst1 P1 (Hf WFn) Hs3 Ht3) as [P3 <-].
      destruct z1; injection Hs2 as <- <-; injection Ht2 as <- <-; [auto|].
      split; [|reflexivity]. apply pendOnly_emit, pendOnly_upd; [exact P3|]. intros [] r; reflexivity.
    - rewrite !(valueOf_pendOnly _ _ _ P1) in Ht2.
      apply rbind_ok in Hs2 as ([s3 z1] & Hs3 & Hs2). apply rbind_ok in Ht2 as ([t3 z2] & Ht3 & Ht2).
      destruct (pendOnly_invoke _ _ _ _ _ _ _ _ _ _ Hst1 P1 (Hf WFn) Hs3 Ht3) as [P3 <-].
      destruct z1; injection Hs2 as <- <-; injection Ht2 as <- <-; [auto|].
      split; [|reflexivity]. apply pendOnly_emit, pendOnly_upd; [exact P3|]. intros [] r; reflexivity.
    - assert (Em : map (valueOf t1) (decl (nd s1 n)) = map (valueOf s1) (decl (nd s1 n)))
        by (apply map_ext; intros a; apply valueOf_pendOnly, P1).
      rewrite Em in Ht2.
      apply rbind_ok in Hs2 as ([s3 z1] & Hs3 & Hs2). apply rbind_ok in Ht2 as ([t3 z2] & Ht3 & Ht2).
      destruct (pendOnly_invoke _ _ _ _ _ _ _ _ _ _ Hst1 P1 (Hf WFn) Hs3 Ht3) as [P3 <-].
      destruct z1; injection Hs2 as <- <-; injection Ht2 as <- <-; [auto|].
      split; [|reflexivity]. apply pendOnly_emit, pendOnly_upd; [exact P3|]. intros [] r; reflexivity.
    - rewrite (valueOf_pendOnly _ _ _ P1) in Ht2. injection Hs2 as <- <-; injection Ht2 as <- <-.
      split; [|reflexivity]. apply pendOnly_upd; [exact P1|]. intros [] r; reflexivity.
    - injection Hs2 as <- <-; injection Ht2 as <- <-; auto.
    - exfalso. eapply Hk. reflexivity.
    - unfold bd in Ht2. rewrite B1 in Ht2. fold (bd s1 b) in Ht2.
      assert (Ev : match b_rhs (bd s1 b) with Some r => valueOf t1 r | None => 0 end
                 = match b_rhs (bd s1 b) with Some r => valueOf s1 r | None => 0 end)
        by (destruct (b_rhs (bd s1 b)); [apply valueOf_pendOnly, P1|reflexivity]).
      rewrite Ev in Ht2. injection Hs2 as <- <-; injection Ht2 as <- <-.
      split; [|reflexivity]. apply pendOnly_upd; [exact P1|]. intros [] r; reflexivity. }
  destruct P2 as (P2 & <-).
  destruct y1 as [y1|]; [eapply pendOnly_failTail; eauto|].
  eapply pendOnly_successTail; eauto.
Qed.

(** * 11. C08, continued: a bind's main node takes its right-hand side with it; every node that
    goes from valid to invalid is logged *)

(* teardown changes neither kinds nor bind records *)
Definition KB (s s' : state) : Prop := (forall r, nkind (nd s' r) = nkind (nd s r)) /\ binds s' = binds s.
Lemma KB_refl s : KB s s. Proof. split; auto. Qed.
Lemma KB_trans s1 s2 s3 : KB s1 s2 -> KB s2 s3 -> KB s1 s3.
Proof. intros (A1 & A2) (B1 & B2). split; [intros r; rewrite B1; apply A1|congruence]. Qed.
Lemma KB_upd s n f : (forall x, nkind (f x) = nkind x) -> KB s (upd s n f).
Proof. intros Hf. split; [intros r; apply (nd_upd_keep nkind), Hf|reflexivity]. Qed.
Lemma KB_same s s' : nodes s' = nodes s -> binds s' = binds s -> KB s s'.
Proof. intros En Eb. unfold KB, nd. rewrite En. auto. Qed.
Lemma KB_removeNode s n s' : removeNode s n = Ok s' -> KB s s'.
Proof.
  unfold removeNode, zeroNode. intros H. apply rbind_ok in H as (s1 & H1 & [= <-]).
  set (s0 := if inGraph (nd s n) then _ else s) in *.
  assert (D0 : KB s s0).
  { unfold s0. destruct (inGraph (nd s n)); [|apply KB_refl].
    apply (KB_trans _ (upd s n (set inGraph (fun _ => false)))); [apply KB_upd; intros []; reflexivity|].
    apply KB_same; reflexivity. }
  assert (D1 : KB s0 s1).
  { destruct (inHeap s0 n); [|injection H1 as <-; apply KB_refl].
    unfold heapRemove in H1. apply rbind_ok in H1 as (w & _ & [= <-]). apply KB_same; reflexivity. }
  eapply KB_trans; [exact D0|]. eapply KB_trans; [exact D1|].
  eapply KB_trans; [|apply KB_upd; intros []; reflexivity]. apply KB_same; reflexivity.
Qed.
Lemma KB_rfold {A} (f : state -> A -> res state) l :
  (forall s a s', f s a = Ok s' -> KB s s') -> forall s s', rfold f l s = Ok s' -> KB s s'.
Proof.
  intros Hf. induction l as [|a l IH]; intros s s' H; cbn in H.
  - injection H as <-. apply KB_refl.
  - apply rbind_ok in H as (s1 & H1 & H). eapply KB_trans; [eapply Hf, H1|eapply IH, H].
Qed.
Lemma KB_removeParents fuel : forall s c s', removeParents fuel s c = Ok s' -> KB s s'.
Proof.
  induction fuel as [|fuel IH]; intros s c s' H; [discriminate|]. cbn [removeParents] in H.
  revert H. apply KB_rfold. clear s s'. intros s p s' H.
  assert (Du : KB s (unlink s c p)) by (unfold unlink; eapply KB_trans; apply KB_upd; intros []; reflexivity).
  destruct (isNecessary _); [injection H as <-; exact Du|].
  destruct (negb _); [injection H as <-; exact Du|].
  apply rbind_ok in H as (s1 & H1%IH & H%KB_removeNode).
  eapply KB_trans; [exact Du|].
  apply (KB_trans _ (emit (EvUnnec p) (unlink s c p))); [apply KB_same; reflexivity|]. eapply KB_trans; eauto.
Qed.

(** C08.2, second half: invalidating a bind's main node invalidates the nodes of its right-hand side *)
Lemma C08_invalidate_main_invalidates_rhs fuel s n b s' :
  invalidateNode (S fuel) s n = Ok s' -> valid (nd s n) = true -> nkind (nd s n) = KBindMain b ->
  forall r, r ∈ b_rhsNodes (bd s b) -> is_Some (nodes s !! r) -> valid (nd s' r) = false.
Proof.
  cbn [invalidateNode]. intros H Ev Hk r Hr Hs. rewrite Ev in H. cbn [negb] in H.
  apply rbind_ok in H as (s1 & H1 & H). apply rbind_ok in H as (s2 & H2 & H).
  set (s0 := upd (emit (EvInval n) s) n _) in *.
  assert (K0 : KB s s0).
  { apply (KB_trans _ (emit (EvInval n) s)); [apply KB_same; reflexivity|apply KB_upd; intros []; reflexivity]. }
  assert (D0 : VP s s0) by (eapply VP_trans; [apply VP_emit|apply VP_upd; intros []; cbn; auto]).
  assert (K1 : KB s0 s1 /\ VP s0 s1).
  { destruct (isNecessary (nd s0 n)); [|injection H1 as <-; split; [apply KB_refl|apply VP_refl]].
    apply rbind_ok in H1 as (s3 & H3 & [= <-]). split.
    - eapply KB_trans; [eapply KB_removeParents, H3|apply KB_upd; intros []; reflexivity].
    - eapply VP_trans; [eapply VP_removeParents, H3|apply VP_upd; intros []; cbn; auto]. }
  destruct K1 as [K1 D1]. pose proof (KB_trans _ _ _ K0 K1) as (Kk & Kb).
  rewrite Kk, Hk in H2. unfold bd in H2. rewrite Kb in H2. fold (bd s b) in H2.
  apply rfold_invalidate_all in H2 as (_ & _ & H2).
  assert (V2 : valid (nd s2 r) = false).
  { apply H2; [exact Hr|]. destruct D1 as (_ & _ & D1). destruct D0 as (_ & _ & D0). auto. }
  assert (V3 : valid (nd (upd s2 n (set valid (fun _ => false))) r) = false).
  { apply (proj1 (VP_upd s2 n (set valid (fun _ => false)) ltac:(intros []; cbn; auto))). exact V2. }
  destruct (inHeap _ n); [|injection H as <-; exact V3].
  apply VP_heapRemove in H as (H & _). apply H. exact V3.
Qed.

Definition logsInval (s s' : state) : Prop :=
  exists L, log s' = L ++ log s /\
    forall r, valid (nd s r) = true -> valid (nd s' r) = false -> EvInval r ∈ L.

Lemma rfold_logsInval {A} (f : state -> A -> res state) l :
  (forall s a s', f s a = Ok s' -> logsInval s s') -> forall s s', rfold f l s = Ok s' -> logsInval s s'.
Proof.
  intros Hf. induction l as [|x l IH]; intros s s' H; cbn [rfold] in H.
  - injection H as <-. exists []. split; [reflexivity|intros; congruence].
  - apply rbind_ok in H as (t & Ht & H). destruct (Hf _ _ _ Ht) as (La & Ea & Ha).
    destruct (IH _ _ H) as (Lb & Eb & Hb). exists (Lb ++ La). split; [rewrite Eb, Ea, app_assoc; reflexivity|].
    intros r Hr1 Hr2. apply elem_of_app. destruct (valid (nd t r)) eqn:Et; [left; apply Hb; assumption|right; apply Ha; assumption].
Qed.

(** every node that an invalidation takes from valid to invalid has its [EvInval] in the log *)
Lemma invalidate_logs fuel : forall s n s',
  invalidateNode fuel s n = Ok s' ->
  exists L, log s' = L ++ log s /\
    forall r, valid (nd s r) = true -> valid (nd s' r) = false -> EvInval r ∈ L.
Proof.
  induction fuel as [|fuel IH]; intros s n s' H; [discriminate|]. cbn [invalidateNode] in H.
  destruct (valid (nd s n)) eqn:Ev; cbn [negb] in H.
  2:{ injection H as <-. exists []. split; [reflexivity|]. intros r H1 H2. congruence. }
  apply rbind_ok in H as (s1 & H1 & H). apply rbind_ok in H as (s2 & H2 & H).
  set (s0 := upd (emit (EvInval n) s) n _) in *.
  assert (V0 : forall r, valid (nd s0 r) = valid (nd s r)).
  { intros r. unfold s0. rewrite (nd_upd_keep valid) by (intros []; reflexivity). reflexivity. }
  assert (S1 : (forall r, valid (nd s1 r) = valid (nd s0 r)) /\ exists L, log s1 = L ++ log s0).
  { destruct (isNecessary (nd s0 n)).
    - apply rbind_ok in H1 as (s3 & H3 & [= <-]). split.
      + intros r. rewrite (nd_upd_keep valid) by (intros []; reflexivity). apply (VE_removeParents _ _ _ _ H3).
      + apply pf_removeParents in H3 as (_ & _ & _ & _ & _ & _ & _ & L & EL & _). exists L. exact EL.
    - injection H1 as <-. split; [auto|exists []; reflexivity]. }
  destruct S1 as (V1 & L1 & EL1).
  assert (S2 : exists L, log s2 = L ++ log s1 /\
            forall r, valid (nd s1 r) = true -> valid (nd s2 r) = false -> EvInval r ∈ L).
  { destruct (nkind (nd s1 n)); try (injection H2 as <-; exists []; split; [reflexivity|intros; congruence]).
    revert H2. apply rfold_logsInval. intros t a t' Ht. apply (IH _ _ _ Ht). }
  destruct S2 as (L2 & EL2 & HL2).
  set (s3 := upd s2 n (set valid (fun _ => false))) in *.
  assert (Hfin : log s' = log s2 /\ forall r, r <> n -> valid (nd s' r) = valid (nd s2 r)).
  { destruct (inHeap _ n).
    - unfold heapRemove in H. apply rbind_ok in H as (w & _ & [= <-]). split; [reflexivity|].
      intros r Hne. change (valid (nd s3 r) = valid (nd s2 r)). unfold s3. rewrite nd_upd_other by exact Hne. reflexivity.
    - injection H as <-. split; [reflexivity|].
      intros r Hne. change (valid (nd s3 r) = valid (nd s2 r)). unfold s3. rewrite nd_upd_other by exact Hne. reflexivity. }
  destruct Hfin as (Elog & Hother).
  exists (L2 ++ L1 ++ [EvInval n]). split.
  { rewrite Elog, EL2, EL1. change (log s0) with (EvInval n :: log s). rewrite <- !app_assoc. reflexivity. }
  intros r Hr1 Hr2. destruct (decide (r = n)) as [->|Hne].
  - rewrite !elem_of_app, elem_of_list_singleton. auto.
  - rewrite Hother in Hr2 by exact Hne. rewrite elem_of_app. left. apply HL2; [|exact Hr2].
    rewrite V1, V0. exact Hr1.
Qed.

Lemma rfold_invalidate_logs fuel l s s' :
  rfold (invalidateNode fuel) l s = Ok s' -> logsInval s s'.
Proof. apply rfold_logsInval. intros t a t'. apply invalidate_logs. Qed.

(** C08.3, the log: in the invalidation of the old generation every node that was still valid gets
    its [EvInval] *)
Lemma C08_old_generation_logged fuel l s s' :
  rfold (invalidateNode fuel) l s = Ok s' ->
  exists L, log s' = L ++ log s /\
    forall r, r ∈ l -> is_Some (nodes s !! r) -> valid (nd s r) = true -> EvInval r ∈ L.
Proof.
  intros H. destruct (rfold_invalidate_logs _ _ _ _ H) as (L & EL & HL). exists L. split; [exact EL|].
  intros r Hr Hs Hv. apply HL; [exact Hv|]. apply (proj2 (proj2 (rfold_invalidate_all _ _ _ _ H))); assumption.
Qed.
