(** Model of the aggregate combinators: unordered_array_fold.go, reduce_balanced.go,
    fold.go (ArrayFold / ForAll / Exists), all.go and the value level of map_n.go.

    [UnorderedArrayFold] is the only one with state of its own; it is modelled as the state
    machine of its four fields [value / last / pending / folded] driven by the three calls
    the graph makes on it:
      - [childChanged]  = unorderedArrayFoldIncr.ChildChanged
      - [stabilize]     = unorderedArrayFoldIncr.Stabilize
      - [release]       = what happens to the node's own fields when the graph lets go of
                          it (becameUnnecessary -> removeNode -> zeroNode).  zeroNode only
                          resets the [Node] metadata; [folded], [last], [value], [pending]
                          are NOT touched.  The planned repair ("forget [folded] when the
                          node is released") is the variant [reset_on_unlink = true].
    Inputs may repeat: [inputs] lists, per slot, the input node feeding it, and [slots] is
    the map the constructor builds.  Input values are read through a store (input.Value()).

    Slice indexing that Go would fault on is [Crash IndexOutOfRange]; FoldProofs.v shows it
    cannot happen from [new].

    The last part of the file is the specification vocabulary shared by FoldProofs.v and
    Properties/C14.v: the engine's discipline as a predicate on event histories. *)
From incr Require Import Base.

Section UAF.
  Context {A B : Type}.
  Variable zeroA : A.                       (* Go zero value of A, as in make([]A, n) *)
  Variable initial : B.
  Variable fold : B -> A -> B.
  Variable update : B -> A -> A -> B.
  Variable reset_on_unlink : bool.          (* false = the code as it is *)
  Variable inputs : list nat.               (* f.inputs: which input node feeds each slot *)

  (* input.Value() for every input node *)
  Definition store := nat -> A.
  Definition write (i : nat) (x : A) (st : store) : store :=
    fun j => if Nat.eqb j i then x else st j.

  Record change := Change { c_slot : nat; c_old : A; c_new : A }.

  Record uaf := UAF {
    value : B;
    last : list A;
    pending : list change;
    folded : bool
  }.

  (* UnorderedArrayFold(...): value = initial, last = make([]A, len(inputs)) *)
  Definition new : uaf := UAF initial (replicate (length inputs) zeroA) [] false.

  (* f.slots[id]: the positions [id] occupies, ascending (the constructor appends while
     ranging over inputs); an id that is not an input has no entry = the empty list *)
  Fixpoint slots_from (index : nat) (ins : list nat) (id : nat) : list nat :=
    match ins with
    | [] => []
    | input :: ins =>
      if Nat.eqb input id then index :: slots_from (S index) ins id
      else slots_from (S index) ins id
    end.
  Definition slots (id : nat) : list nat := slots_from 0 inputs id.

  (* body of the loop in ChildChanged *)
  Definition childChanged1 (st : store) (f : uaf) (slot : nat) : res uaf :=
    match inputs !! slot with
    | None => Crash IndexOutOfRange
    | Some input =>
      let newValue := st input in
      match last f !! slot with
      | None => Crash IndexOutOfRange
      | Some oldValue =>
        Ok (UAF (value f) (<[slot := newValue]> (last f))
                (pending f ++ [Change slot oldValue newValue]) (folded f))
      end
    end.

  Definition childChanged (st : store) (f : uaf) (child : nat) : res uaf :=
    if negb (folded f) then Ok f
    else rfold (childChanged1 st) (slots child) f.

  (* the initial full fold: for index, input := range f.inputs { ... } *)
  Fixpoint fullFold (st : store) (ins : list nat) (index : nat) (lst : list A) (acc : B)
    : res (list A * B) :=
    match ins with
    | [] => Ok (lst, acc)
    | input :: ins =>
      let v := st input in
      if (index <? length lst)%nat
      then fullFold st ins (S index) (<[index := v]> lst) (fold acc v)
      else Crash IndexOutOfRange
    end.

  Definition applyPending (acc : B) (p : list change) : B :=
    fold_left (fun acc c => update acc (c_old c) (c_new c)) p acc.

  Definition stabilize (st : store) (f : uaf) : res uaf :=
    if negb (folded f) then
      ' (lst, acc) <-! fullFold st inputs 0 (last f) initial;
      Ok (UAF acc lst [] true)
    else
      Ok (UAF (applyPending (value f) (pending f)) (last f) [] true).

  (* the node leaves the graph *)
  Definition release (f : uaf) : uaf :=
    if reset_on_unlink then UAF (value f) (last f) [] false else f.

  (** Events.  [Write] is the input's own value changing (Var.Set); [Notify j] is the graph
      calling ChildChanged(input j) while recomputing input j; [Recompute] is the graph
      recomputing the fold; [Unlink]/[Relink] are the fold leaving / re-entering the graph.
      While unlinked the graph delivers neither notifications nor recomputes. *)
  Inductive ev :=
  | Write (i : nat) (x : A)
  | Notify (j : nat)
  | Recompute
  | Unlink
  | Relink.

  Record world := World { w_store : store; w_f : uaf; w_linked : bool }.

  Definition step (w : world) (e : ev) : res world :=
    match e with
    | Write i x => Ok (World (write i x (w_store w)) (w_f w) (w_linked w))
    | Notify j =>
      if w_linked w then f <-! childChanged (w_store w) (w_f w) j; Ok (World (w_store w) f true)
      else Ok w
    | Recompute =>
      if w_linked w then f <-! stabilize (w_store w) (w_f w); Ok (World (w_store w) f true)
      else Ok w
    | Unlink => Ok (World (w_store w) (if w_linked w then release (w_f w) else w_f w) false)
    | Relink => Ok (World (w_store w) (w_f w) true)
    end.

  Definition run (w : world) (h : list ev) : res world := rfold step h w.

  Definition init (st : store) : world := World st new false.

  (* what C14 compares the value with: a plain fold of the current value of every slot *)
  Definition current (st : store) : list A := map st inputs.
  Definition full (st : store) : B := fold_left fold (current st) initial.

  (** * The engine's discipline, as a predicate on histories

      Tracked while reading a history: whether the fold is linked, and [dirty], the inputs
      written while linked whose ChildChanged has not been delivered yet.
        - a notification or a recompute only happens while linked;
        - the fold is recomputed only when every write made while linked has been notified
          (inputs are lower than the fold, so they are recomputed, and notify, first);
          writes to nodes that are not inputs of the fold do not matter;
          extra notifications (an input recomputed without a new value, an input occupying
          several slots notifying once per edge) are allowed;
        - unlinking drops the outstanding obligations: the full statement of C14 demands
          that whatever happened while the fold was away is picked up by the first
          recompute after it returns. *)
  Definition is_input (i : nat) : bool := existsb (Nat.eqb i) inputs.

  Fixpoint admissible (linked : bool) (dirty : list nat) (h : list ev) : Prop :=
    match h with
    | [] => True
    | Write i _ :: h => admissible linked (if linked && is_input i then i :: dirty else dirty) h
    | Notify j :: h => linked = true /\ admissible linked (filter (fun i => negb (Nat.eqb i j)) dirty) h
    | Recompute :: h => linked = true /\ dirty = [] /\ admissible linked dirty h
    | Unlink :: h => linked = true /\ admissible false [] h
    | Relink :: h => linked = false /\ admissible true [] h
    end.

  (** The extra hypothesis the code as it is needs: once the fold has been computed, no
      input changes behind its back — no write to an input while it is unlinked, and no
      write still un-notified at the moment it is unlinked. *)
  Fixpoint quiet (linked : bool) (dirty : list nat) (computed : bool) (h : list ev) : Prop :=
    match h with
    | [] => True
    | Write i _ :: h =>
      (linked = false -> is_input i = true -> computed = false) /\
      quiet linked (if linked && is_input i then i :: dirty else dirty) computed h
    | Notify j :: h => quiet linked (filter (fun i => negb (Nat.eqb i j)) dirty) computed h
    | Recompute :: h => quiet linked dirty (computed || linked) h
    | Unlink :: h => (computed = true -> dirty = []) /\ quiet false [] computed h
    | Relink :: h => quiet true [] computed h
    end.

  (* executable versions, used by the trace replay *)
  Fixpoint admissibleb (linked : bool) (dirty : list nat) (h : list ev) : bool :=
    match h with
    | [] => true
    | Write i _ :: h => admissibleb linked (if linked && is_input i then i :: dirty else dirty) h
    | Notify j :: h => linked && admissibleb linked (filter (fun i => negb (Nat.eqb i j)) dirty) h
    | Recompute :: h => linked && match dirty with [] => true | _ => false end && admissibleb linked dirty h
    | Unlink :: h => linked && admissibleb false [] h
    | Relink :: h => negb linked && admissibleb true [] h
    end.

  Fixpoint quietb (linked : bool) (dirty : list nat) (computed : bool) (h : list ev) : bool :=
    match h with
    | [] => true
    | Write i _ :: h =>
      (linked || negb (is_input i) || negb computed) &&
      quietb linked (if linked && is_input i then i :: dirty else dirty) computed h
    | Notify j :: h => quietb linked (filter (fun i => negb (Nat.eqb i j)) dirty) computed h
    | Recompute :: h => quietb linked dirty (computed || linked) h
    | Unlink :: h => (negb computed || match dirty with [] => true | _ => false end) && quietb false [] computed h
    | Relink :: h => quietb true [] computed h
    end.
End UAF.

Arguments Change {A} _ _ _.
Arguments UAF {A B} _ _ _ _.
Arguments World {A B} _ _ _.
Arguments Write {A} _ _.
Arguments Notify {A} _.
Arguments Recompute {A}.
Arguments Unlink {A}.
Arguments Relink {A}.

(** * ReduceBalanced: the construction loop

    [map2 a b] stands for [Map2(scope, a, b, reduce)].  One round of the outer loop pairs
    the level up left to right and carries an odd trailing element; the loop runs until one
    element is left.  The number of rounds is bounded by the number of inputs. *)
Section Reduce.
  Context {T : Type}.
  Variable map2 : T -> T -> T.

  Fixpoint pair_level (level : list T) : list T :=
    match level with
    | a :: b :: rest => map2 a b :: pair_level rest
    | [a] => [a]
    | [] => []
    end.

  Fixpoint reduce_loop (fuel : nat) (level : list T) : res T :=
    match level with
    | [] => Crash IndexOutOfRange            (* level[0] of an empty level *)
    | [x] => Ok x
    | _ => match fuel with
           | O => OutOfFuel
           | S fuel => reduce_loop fuel (pair_level level)
           end
    end.

  (* nil for no inputs *)
  Definition reduceBalanced (inputs : list T) : res (option T) :=
    match inputs with
    | [] => Ok None
    | _ => rmap Some (reduce_loop (length inputs) inputs)
    end.
End Reduce.

(* the expression tree of Map2 nodes ReduceBalanced builds over its inputs *)
Inductive tree (A : Type) :=
| Leaf (a : A)
| Node (l r : tree A).
Arguments Leaf {A} a.
Arguments Node {A} l r.

Fixpoint eval {A} (op : A -> A -> A) (t : tree A) : A :=
  match t with
  | Leaf a => a
  | Node l r => op (eval op l) (eval op r)
  end.

Definition reduce_tree {A} (l : list A) : res (option (tree A)) :=
  reduceBalanced Node (map Leaf l).

(* left-to-right reduction of a non-empty list *)
Definition foldl1 {A} (op : A -> A -> A) (d : A) (l : list A) : A :=
  match l with [] => d | a :: l => fold_left op l a end.

(** * MapN, ArrayFold, All, ForAll, Exists at the value level

    As nodes these are [mapNIncr] (its Stabilize reads every input and applies fn) and
    ReduceBalanced trees; that they are recomputed when an input changes is C01's matter. *)
Definition mapN {A B} (fn : list A -> B) (values : list A) : B := fn values.

Definition arrayFold {A B} (initial : B) (fold : B -> A -> B) (values : list A) : B :=
  mapN (fun values => fold_left fold values initial) values.

Definition all {A} (values : list A) : list A :=
  match values with
  | [] => []                                 (* Return(scope, []A{}) *)
  | _ => mapN (fun values => values) values
  end.

Definition forAll (values : list bool) : res bool :=
  match values with
  | [] => Ok true                            (* Return(scope, true) *)
  | _ => rmap (eval andb) (reduce_loop Node (length values) (map Leaf values))
  end.

Definition exists_ (values : list bool) : res bool :=
  match values with
  | [] => Ok false
  | _ => rmap (eval orb) (reduce_loop Node (length values) (map Leaf values))
  end.
