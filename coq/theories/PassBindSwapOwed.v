(** C03, "whoever ran was owed", for serial passes without a plan in which binds MAY swap.

    [LO h0 s cur evs]: every registered node that is queued, about to run, or has run in this pass
    has a reason: it was queued when the pass began ([h0]), or one of its (current) inputs is stamped
    as changed in this pass, or it became necessary in this pass ([EvNec n] among the events [evs]
    of the pass so far: nodes created by a bind function, nodes linked again by a swap). *)
From incr Require Import Base Heap HeapSpec HeapProofs EngineDefs Engine EngineRun EngineWf Spec EngineLemmas EngineLocal
     EngineInv EngineInvProofs PassInv PassProofs PassPlanProofs PassBind PassBindProofs PassBindSwap
     PassBindSwapProofs PassBindSwapStep PassBindOps PassBindSwapLog.

Local Arguments valueOf : simpl never.

Definition reason (h0 : list nid) (s : state) (evs : list event) (n : nid) : Prop :=
  n ∈ h0 \/ (exists p, p ∈ parents (nd s n) /\ changedAt (nd s p) = stabNum s) \/ EvNec n ∈ evs.

Definition LO (h0 : list nid) (s : state) (cur : option nid) (evs : list event) : Prop :=
  forall n, inGraph (nd s n) = true -> inW s cur n = true \/ isDone s n = true -> reason h0 s evs n.

(* a node registered after a step and not before has an [EvNec] among the events of the step *)
Lemma reg_new s s' new n :
  PInv s -> PInv s' -> log s' = new ++ log s -> inGraph (nd s n) = false -> inGraph (nd s' n) = true -> EvNec n ∈ new.
Proof.
  intros P P' El Hg Hg'. destruct (decide (EvNec n ∈ new)) as [|Hn]; [assumption|].
  rewrite (reg_back s s' new n P P' El Hg' Hn) in Hg. discriminate.
Qed.

(** * the recompute of a lhs-change node *)
Lemma LO_bind h0 s b s' evs new :
  PInv s -> PInv s' -> LInvC s (Some b) -> inGraph (nd s b) = true -> bfr s b s' ->
  log s' = new ++ log s -> LO h0 s (Some b) evs -> LO h0 s' None (new ++ evs).
Proof.
  intros P P' L Hgb F El HO n Hg' Hw. set (K := stabNum s).
  assert (HK : stabNum s' = K) by apply (bx_k _ _ _ F).
  destruct (PInv_heap s P) as [I _]. destruct (PInv_heap s' P') as [I' _].
  pose proof (PInv_Struct s' P') as HS'.
  assert (HWb : inW s (Some b) b = true).
  { unfold inW. rewrite (bool_decide_eq_true_2 _ eq_refl). apply orb_true_r. }
  assert (Hb_nd : isDone s b = false) by (apply (lc_B _ _ L b b HWb), rtc_refl).
  assert (Hst : forall m, changedAt (nd s m) = K -> m <> b).
  { intros m Hc ->. pose proof (stamps_node_false _ _ (lc_stamps _ _ L b)) as (_ & _ & H3).
    unfold isDone in Hb_nd. apply Z.eqb_neq in Hb_nd. apply Hb_nd, H3, Hc. }
  (* a reason that held before the step still holds for a node registered before and after *)
  assert (Hpers : forall m, m <> S b -> inGraph (nd s m) = true -> inGraph (nd s' m) = true ->
            reason h0 s evs m -> reason h0 s' (new ++ evs) m).
  { intros m Hne Hgm Hgm' [Hh|[(p & Hp & Hc)|He]].
    - left. exact Hh.
    - right. left. exists p. assert (Hp' : p ∈ parents (nd s' m)) by (apply (bx_parents _ _ _ F m p Hgm Hgm' Hne), Hp).
      split; [exact Hp'|]. rewrite HK.
      assert (Hgp' : inGraph (nd s' p) = true) by (apply (edge_reg s' HS' p m), (parent_edge s' HS'), Hp').
      destruct (bx_stamps _ _ _ F p (Hst p Hc)) as [(_ & E2 & _)|[(E1 & _)|(E1 & _)]]; [rewrite E2; exact Hc|congruence|].
      rewrite (t_valid _ _ _ (p_t _ P') p Hgp') in E1. discriminate.
    - right. right. apply elem_of_app. right. exact He. }
  assert (Hmain : reason h0 s' (new ++ evs) (S b)).
  { right. left. exists b. destruct (bx_main _ _ _ F) as [_ Hp]. split; [exact Hp|]. rewrite HK. apply (bx_changed _ _ _ F). }
  destruct (decide (n = S b)) as [->|Hnm]; [exact Hmain|].
  destruct (inGraph (nd s n)) eqn:Hg.
  2:{ right. right. apply elem_of_app. left. exact (reg_new s s' new n P P' El Hg Hg'). }
  apply (Hpers n Hnm Hg Hg'). apply (HO n Hg).
  destruct Hw as [Hw|Hd].
  - left. unfold inW in Hw. rewrite orb_false_r in Hw. destruct (bx_queued _ _ _ F n Hw) as [Hq|[->|Hq]]; [|congruence|congruence].
    unfold inW. rewrite Hq. reflexivity.
  - destruct (decide (n = b)) as [->|Hnb]; [left; exact HWb|].
    destruct (bx_done _ _ _ F n Hnb Hd) as [E|[_ Hd0]]; [congruence|]. right. exact Hd0.
Qed.

(** * the recompute of any other node *)
Lemma LO_step h0 s m s' imm evs new :
  PInv s -> LInvC s (Some m) -> inGraph (nd s m) = true -> isLhs (nkind (nd s m)) = false ->
  stepPostB s m s' imm -> LO h0 s (Some m) evs -> LO h0 s' imm (new ++ evs).
Proof.
  intros P L Hg Hnl PP HO n Hg' Hw. set (K := stabNum s).
  pose proof (stepPostB_sframe _ _ _ _ PP) as F. pose proof (PInv_Struct s P) as HS.
  destruct (PInv_heap s P) as [I Hq]. pose proof (sq_hinv _ _ _ _ PP) as I'.
  assert (HK : stabNum s' = K) by apply (sf_stabNum _ _ F).
  assert (HmW : inW s (Some m) m = true) by (apply inW_iff; [exact I|]; right; reflexivity).
  pose proof (PassBindSwapProofs.Hm_clt s m (conj I Hq) L Hg Hnl) as Hmc. fold K in Hmc.
  rewrite (sf_inGraph _ _ F) in Hg'.
  assert (Hpers : forall x, reason h0 s evs x -> reason h0 s' (new ++ evs) x).
  { intros x [Hh|[(p & Hp & Hc)|He]].
    - left. exact Hh.
    - right. left. exists p. rewrite (sf_parents _ _ F). split; [exact Hp|]. rewrite HK.
      assert (Hpm : p <> m) by (intros ->; fold K in Hc; lia). rewrite (sq_other _ _ _ _ PP p Hpm). exact Hc.
    - right. right. apply elem_of_app. right. exact He. }
  destruct Hw as [Hw|Hd].
  - apply (inW_iff s' imm n I') in Hw.
    destruct (PassBindSwapProofs.Hnewmem s m s' imm PP n Hw) as [Hold|(R & Hc & _)].
    + apply Hpers, (HO n Hg'). left. apply inW_iff; [exact I|]. left. exact Hold.
    + right. left. exists m. rewrite (sf_parents _ _ F). split; [apply (st_edge _ HS), Hc|].
      rewrite HK. apply (rq_changed _ _ _ _ R).
  - apply (PassBindSwapProofs.done'_iff s m s' imm PP) in Hd as [Hd| ->].
    + apply Hpers, (HO n Hg'). right. exact Hd.
    + apply Hpers, (HO m Hg). left. exact HmW.
Qed.

(** * the loop *)
Definition LOx (h0 : list nid) (base : list event) (s : state) (cur : option nid) : Prop :=
  exists evs, log s = evs ++ base /\ LO h0 s cur evs.

Lemma rnsO h0 base fuel s m s' imm :
  Tplain s -> PInv s -> LInvC s (Some m) -> inGraph (nd s m) = true ->
  recomputeNodeSerial fuel [] s m = Ok (s', None, imm) -> LOx h0 base s (Some m) -> LOx h0 base s' imm.
Proof.
  intros TP P L Hg H (evs & El & HO).
  destruct (recomputeNodeSerial_spec PT PT_struct bind_spec_holds fuel [] s m s' None imm Logic.I P eq_refl Hg H)
    as [[Hr|Hr]|[(P' & _ & Hk & _) Himm]]; try discriminate.
  destruct (pf_recomputeNodeSerial _ _ _ _ _ _ _ H) as (_ & _ & _ & _ & _ & _ & _ & (new & Enew & _)).
  exists (new ++ evs). split; [rewrite Enew, El, app_assoc; reflexivity|].
  destruct (isLhs (nkind (nd s m))) eqn:Elhs.
  - destruct (nkind (nd s m)) eqn:K; try discriminate Elhs.
    pose proof (p_kinds _ P m (has_inGraph _ _ Hg)) as Hkk. rewrite K in Hkk. destruct Hkk as [-> _].
    pose proof (bind_step_frame fuel s b s' imm TP P L Hg K H P') as BF.
    destruct (bind_step_full fuel s b s' imm TP P L Hg K H P') as (_ & -> & _).
    exact (LO_bind h0 s b s' evs new P P' L Hg BF Enew HO).
  - pose proof (PInv_BFB s P (lc_shape _ _ L)) as HB.
    destruct (rns_stepB fuel s m s' None imm HB (has_inGraph _ _ Hg) (proj1 (PInv_heap s P)) Elhs H) as [_ PP].
    exact (LO_step h0 s m s' imm evs new P L Hg Elhs PP HO).
Qed.

Lemma chainO h0 base fuel : forall s n s' at_,
  Tplain s -> PInv s -> LInvC s (Some n) -> inGraph (nd s n) = true ->
  recomputeChain fuel [] s n = Ok (s', None, at_) -> LOx h0 base s (Some n) -> LOx h0 base s' None.
Proof.
  induction fuel as [|fuel IH]; intros s n s' at_ TP P L Hg H G; [discriminate|].
  cbn [recomputeChain] in H.
  destruct (recomputeNodeSerial fuel [] s n) as [[[s1 e1] imm]| |] eqn:E1; simpl in H; try discriminate.
  destruct e1 as [e1|]; [destruct imm; injection H as _ ? _; discriminate|].
  destruct (rnsT fuel s n s1 imm TP P L Hg E1) as (TP1 & P1 & L1 & Hk1 & Himm & _).
  pose proof (rnsO h0 base fuel s n s1 imm TP P L Hg E1 G) as G1.
  destruct imm as [c|].
  - exact (IH s1 c s' at_ TP1 P1 L1 (Himm c eq_refl) H G1).
  - injection H as <- _. exact G1.
Qed.

Lemma loopO h0 base fuel : forall s always s' at_ always',
  Tplain s -> PInv s -> LInvC s None ->
  passLoop fuel [] s always = Ok (s', None, at_, always') -> LOx h0 base s None -> LOx h0 base s' None.
Proof.
  induction fuel as [|fuel IH]; intros s always s' at_ always' TP P L H G; [discriminate|].
  cbn [passLoop] in H. destruct (PInv_heap s P) as [I _].
  destruct (Z.leb_spec (Heap.cnt (heap s)) 0) as [Hc|Hc]; [injection H as <- _ _; exact G|].
  destruct (Heap.removeMin (heap s)) as [[n w]|] eqn:Erm; [|discriminate].
  set (s2 := s <| heap := w |>) in *.
  destruct (recomputeChain fuel [] s2 n) as [[[s3 e3] at3]| |] eqn:E3; simpl in H; try discriminate.
  destruct e3 as [e3|]; [injection H as _ ? _ _; discriminate|].
  destruct (pop_LInvC s n w P L Erm) as (L2 & P2 & Hgn). fold s2 in L2, P2.
  pose proof (Tplain_binds s s2 eq_refl TP) as TP2.
  destruct (chainT fuel s2 n s3 at3 TP2 P2 L2 Hgn E3) as (TP3 & P3 & L3 & Hk3 & _).
  assert (G2 : LOx h0 base s2 (Some n)).
  { destruct G as (evs & El & HO). exists evs. split; [exact El|]. intros x Hgx Hw. apply (HO x Hgx).
    destruct Hw as [Hw|Hd]; [left|right; exact Hd].
    destruct (heap_removeMin_spec _ _ _ I Erm) as ([Hnin _] & Iw & Hperm & _).
    assert (Iw' : HeapSpec.inv (heap s2)) by exact Iw.
    apply (inW_iff s2 (Some n) x Iw') in Hw. apply (inW_iff s None x I). left. rewrite Hperm.
    destruct Hw as [Hw|[= ->]]; [right; exact Hw|left]. }
  pose proof (chainO h0 base fuel s2 n s3 at3 TP2 P2 L2 Hgn E3 G2) as G3.
  exact (IH s3 _ s' at_ always' TP3 P3 L3 H G3).
Qed.

(** * the pass: whoever ran was owed *)
Theorem passS_ran_was_owed s s' :
  Inv s -> ValInvB s -> Tplain s -> stabilize [] false s = Ok (s', None) ->
  forall evs n, log s' = evs ++ log s -> inGraph (nd s' n) = true -> recomputedAt (nd s' n) = stabNum s ->
    n ∈ Heap.ids (heap s) \/ (exists p, p ∈ parents (nd s' n) /\ changedAt (nd s' p) = stabNum s) \/ EvNec n ∈ evs.
Proof.
  intros IV V TP H evs n El Hg Hr. pose proof (Inv_wfb s IV) as Hwf.
  destruct (wfb_transients _ Hwf) as (Hst & Hsd & Hsr & Hh).
  destruct (stabilize_nil_inv s s' Hst Hsd Hsr H) as (sL & at_ & always & sR & hev & EL & ER & Es & Hhev).
  fold (PassProofs.passStart s) in EL. set (s1 := PassProofs.passStart s) in *.
  pose proof (LInvC_start s IV V) as L1. fold s1 in L1.
  pose proof (Inv_PInv_start s IV) as P1. change (PInv s1) in P1.
  pose proof (Tplain_binds s s1 eq_refl TP) as TP1.
  destruct (loopT _ s1 [] sL at_ always TP1 P1 L1 EL) as (TPL & PL & LL & Hemp & HkL & CL).
  assert (G1 : LOx (Heap.ids (heap s)) (log s1) s1 None).
  { exists []. split; [reflexivity|]. intros x Hgx [Hw|Hd].
    - left. destruct (PInv_heap s1 P1) as [I1 _]. apply (inW_iff s1 None x I1) in Hw as [Hw|?]; [exact Hw|discriminate].
    - exfalso. pose proof (stamps_node_true _ _ (vb_stamps _ V x)). unfold isDone in Hd. apply Z.eqb_eq in Hd.
      change (recomputedAt (nd s x) = stabNum s) in Hd. lia. }
  destruct (loopO _ _ _ s1 [] sL at_ always TP1 P1 L1 EL G1) as (evsL & ElL & HOL).
  specialize (Es (proj1 (lc_quiet _ _ LL)) (proj2 (lc_quiet _ _ LL))).
  pose proof (requeue_only_heap _ _ _ ER) as OR.
  assert (Hn : nodes s' = nodes sL) by (rewrite Es; cbn; apply (oh_nodes _ _ OR)).
  pose proof (nodes_eq_nd _ _ Hn) as Hnd.
  assert (HkLs : stabNum sL = stabNum s) by exact HkL.
  assert (Hevs : evs = (hev ++ [EvPassEnd XOk]) ++ evsL ++ [EvPassStart]).
  { apply (app_inv_tail (log s)). rewrite <- El, Es. cbn. rewrite (oh_log _ _ OR), ElL, <- !app_assoc. reflexivity. }
  rewrite !Hnd in *.
  destruct (HOL n Hg) as [Hh0|[(p & Hp & Hc)|He]].
  - right. apply isDone_iff. rewrite HkLs. exact Hr.
  - left. exact Hh0.
  - right. left. exists p. rewrite Hnd. split; [exact Hp|]. rewrite <- HkLs. exact Hc.
  - right. right. rewrite Hevs. apply elem_of_app. right. apply elem_of_app. left. exact He.
Qed.

(** C11, pass half, for swapping passes: a cutoff that held (current period of necessity, node
    registered when the pass returns) is not why any node ran *)
Theorem passS_cut_stops s s' :
  Inv s -> ValInvB s -> Tplain s -> stabilize [] false s = Ok (s', None) ->
  forall evs pre n old new post, log s' = evs ++ log s -> evs = pre ++ EvCutoff n old new true :: post ->
    EvNec n ∉ pre -> inGraph (nd s' n) = true ->
    changedAt (nd s' n) < stabNum s /\ value (nd s' n) = old /\
    forall c, inGraph (nd s' c) = true -> recomputedAt (nd s' c) = stabNum s ->
      c ∈ Heap.ids (heap s) \/ (exists p, p ∈ parents (nd s' c) /\ p <> n /\ changedAt (nd s' p) = stabNum s) \/ EvNec c ∈ evs.
Proof.
  intros IV V TP H evs pre n old new post El Ee Hnec Hg.
  destruct (passS_cut_kept s s' IV V TP H evs pre n old new post El Ee Hnec Hg) as (Hc & Hv & _).
  split; [exact Hc|]. split; [exact Hv|]. intros c Hgc Hrc.
  destruct (passS_ran_was_owed s s' IV V TP H evs c El Hgc Hrc) as [Hq|[(p & Hp & Hpc)|He]]; [auto| |auto].
  right. left. exists p. split; [exact Hp|]. split; [|exact Hpc]. intros ->. lia.
Qed.
