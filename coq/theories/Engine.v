(** Operational model of the stabilization engine: a transliteration, function by function
    and with the Go names, of the parts of graph.go, node.go, bind.go, stabilize.go, var.go,
    observe.go, map*.go, cutoff.go, always.go, adjust_heights_heap.go that decide observable
    behaviour.  Go [error] returns are the [option err] component of [M]; Go panics raised by
    the library's own indexing are [Crash]; a panic raised by a user function is the error
    [EPanic], which every caller passes up untouched (unwinding) until the stabilizer's
    recover.  Loops over mutable state are recursion on fuel ([OutOfFuel] when exhausted). *)
From incr Require Import Base Heap EngineDefs.

(** ** The error-carrying result *)
Definition M := res (state * option err).
Definition ok (s : state) : M := Ok (s, None).
Definition fail (s : state) (e : err) : M := Ok (s, Some e).
Definition ebind (m : M) (k : state -> M) : M :=
  '(s, e) <-! m; match e with None => k s | Some _ => Ok (s, e) end.
Notation "s <-? m ; k" := (ebind m (fun s => k))
  (at level 20, m at level 100, k at level 200, right associativity).
Definition lift (m : res state) : M := s <-! m; ok s.

Fixpoint efold {A} (f : state -> A -> M) (l : list A) (s : state) : M :=
  match l with [] => ok s | a :: l => s' <-? f s a; efold f l s' end.

(** ** Accessors *)
Definition dummy : node := fresh_node KReturn [] None 0.
Definition nd (s : state) (n : nid) : node := default dummy (nodes s !! n).
Definition upd (s : state) (n : nid) (f : node -> node) : state :=
  s <| nodes := alter f n (nodes s) |>.
Definition emit (e : event) (s : state) : state := s <| log := e :: log s |>.
Definition bd (s : state) (b : nat) : bindrec :=
  default (mkBind 0%nat 0%nat 0%nat None [] [] 0%nat false []) (binds s !! b).
Definition updb (s : state) (b : nat) (f : bindrec -> bindrec) : state :=
  s <| binds := alter f b (binds s) |>.

Definition isNecessary (x : node) : bool :=
  forceNec x || negb (bool_decide (children x = [])) || negb (bool_decide (observers x = [])).

Definition scopeHeight (s : state) (sc : option nat) : Z :=
  match sc with None => unset | Some b => height (nd s b) end.

(* Value(): an Always node reads through to its input *)
Fixpoint valueOf_ (fuel : nat) (s : state) (n : nid) : Z :=
  match fuel with
  | O => 0
  | S fuel => let x := nd s n in
              match nkind x, decl x with
              | KAlways, a :: _ => valueOf_ fuel s a
              | _, _ => value x
              end
  end.
Definition valueOf (s : state) (n : nid) : Z := valueOf_ (S n) s n.

Definition inHeap (s : state) (n : nid) : bool := Heap.mem (heap s) n.

(** ** Heap and height primitives *)
Definition heapAdd (s : state) (n : nid) : res state :=
  w <-! Heap.add (heap s) n (height (nd s n)); Ok (s <| heap := w |>).
Definition heapAddIfNotPresent (s : state) (n : nid) : res state :=
  if inHeap s n then Ok s else heapAdd s n.
Definition heapRemove (s : state) (n : nid) : res state :=
  w <-! Heap.remove (heap s) n; Ok (s <| heap := w |>).
Definition heapFix (s : state) (n : nid) : res state :=
  w <-! Heap.fix_ (heap s) n (height (nd s n)); Ok (s <| heap := w |>).

(* adjustHeightsHeap.setHeightUnsafe *)
Definition setHeight (s : state) (n : nid) (h : Z) : M :=
  if h >? maxHeight s - 1 then fail s EHeightLimit
  else
    let s := if h >? a_maxSeen (adj s) then s <| adj := adj s <| a_maxSeen := h |> |> else s in
    ok (upd s n (set height (fun _ => h))).

(* Graph.SetStale *)
Definition setStale (s : state) (n : nid) : res state :=
  if height (nd s n) =? unset then Ok s else      (* not in the graph: nothing to queue *)
  let s := upd s n (set setAt (fun _ => stabNum s)) in
  if inHeap s n then Ok s else heapAdd s n.

(** ** Staleness *)
Definition staleWrtParents (s : state) (x : node) : bool :=
  existsb (fun p => changedAt (nd s p) >? recomputedAt x) (parents x).

Definition isStale (s : state) (n : nid) : bool :=
  let x := nd s n in
  valid x &&
  match nkind x with
  | KVar _ => false                       (* varIncr.Stale compares a field nothing writes *)
  | KReturn => recomputedAt x =? 0
  | KAlways => true
  | _ => (recomputedAt x =? 0) || staleWrtParents s x
  end.

Definition hasStaler (k : kind) : bool :=
  match k with KVar _ | KReturn | KAlways | KBindMain _ => true | _ => false end.

(* shouldRecomputeChild *)
Definition shouldRecomputeChild (s : state) (c : nid) : bool :=
  let x := nd s c in
  if inHeap s c || negb (isNecessary x) then false
  else if negb (valid x) then false
  else if negb (hasStaler (nkind x)) && (recomputedAt x <? stabNum s) then true
  else isStale s c.

(** ** Edges *)
Definition link (s : state) (child parent : nid) : state :=
  let s := upd s parent (set children (fun l => l ++ [child])) in
  upd s child (set parents (fun l => l ++ [parent])).

Definition rm (n : nid) (l : list nid) : list nid := filter (fun x => x <> n) l.

Definition unlink (s : state) (child parent : nid) : state :=
  let s := upd s child (set parents (rm parent)) in
  upd s parent (set children (rm child)).

(* first occurrences only, in order: removeParents' nodeAppearsBefore *)
Fixpoint dedup_first (seen : list nid) (l : list nid) : list nid :=
  match l with
  | [] => []
  | x :: l => if bool_decide (x ∈ seen) then dedup_first seen l else x :: dedup_first (x :: seen) l
  end.

(** ** Registry *)
Definition addNode (s : state) (n : nid) : state :=
  if inGraph (nd s n) then s
  else (upd s n (set inGraph (fun _ => true))) <| numNodes := numNodes s + 1 |> <| reg := reg s ++ [n] |>.

Definition zeroNode (s : state) (n : nid) : res state :=
  s <-! (if inHeap s n then heapRemove s n else Ok s);
  let s := s <| numNodes := numNodes s - 1 |>
             <| handlers := rm n (handlers s) |>
             <| setRemoved := if bool_decide (n ∈ setDuring s) then setRemoved s ++ [n] else setRemoved s |>
             <| setDuring := rm n (setDuring s) |> in
  Ok (upd s n (fun x => x <| setAt := 0 |> <| changedAt := 0 |> <| recomputedAt := 0 |>
                          <| parents := [] |> <| children := [] |>
                          <| observers := [] |> <| height := unset |> <| hAdj := unset |>)).

Definition removeNode (s : state) (n : nid) : res state :=
  let s := if inGraph (nd s n)
           then (upd s n (set inGraph (fun _ => false))) <| reg := rm n (reg s) |>
           else s in
  zeroNode s n.

(** ** Teardown: removeParents / removeParent / checkIfUnnecessary / becameUnnecessary *)
Fixpoint removeParents (fuel : nat) (s : state) (child : nid) : res state :=
  match fuel with
  | O => OutOfFuel
  | S fuel =>
    rfold (fun s p =>
             let s := unlink s child p in
             (* checkIfUnnecessary(parent) *)
             if isNecessary (nd s p) then Ok s
             else (* becameUnnecessary(parent) *)
               if negb (inGraph (nd s p)) then Ok s
               else
                 let s := emit (EvUnnec p) s in
                 s <-! removeParents fuel s p;
                 removeNode s p)
          (dedup_first [] (decl (nd s child))) s
  end.

Definition checkIfUnnecessary (fuel : nat) (s : state) (p : nid) : res state :=
  if isNecessary (nd s p) then Ok s
  else if negb (inGraph (nd s p)) then Ok s
  else
    let s := emit (EvUnnec p) s in
    s <-! removeParents fuel s p;
    removeNode s p.

(** ** Invalidation *)
Definition shouldBeInvalidated (s : state) (n : nid) : bool :=
  let x := nd s n in
  valid x &&
  match nkind x with
  | KVar _ | KReturn => false
  | KBindMain b => negb (valid (nd s (b_lhsChange (bd s b))))
  | KBindLhs b => negb (valid (nd s (b_lhs (bd s b))))
  | _ => existsb (fun p => negb (valid (nd s p))) (parents x)
  end.

Fixpoint invalidateNode (fuel : nat) (s : state) (n : nid) : res state :=
  match fuel with
  | O => OutOfFuel
  | S fuel =>
    if negb (valid (nd s n)) then Ok s else
    let s := emit (EvInval n) s in
    let s := upd s n (fun x => x <| changedAt := stabNum s |> <| recomputedAt := stabNum s |>) in
    s <-! (if isNecessary (nd s n)
           then s <-! removeParents fuel s n;
                Ok (upd s n (set height (fun _ => scopeHeight s (scope (nd s n)) + 1)))
           else Ok s);
    (* maybeInvalidate: a bind main invalidates its right-hand-side nodes *)
    s <-! (match nkind (nd s n) with
           | KBindMain b => rfold (invalidateNode fuel) (b_rhsNodes (bd s b)) s
           | _ => Ok s
           end);
    let s := upd s n (set valid (fun _ => false)) in
    let s := s <| invq := invq s ++ children (nd s n) |> in
    if inHeap s n then heapRemove s n else Ok s
  end.

Fixpoint propagateInvalidity (fuel : nat) (s : state) : res state :=
  match fuel with
  | O => OutOfFuel
  | S fuel =>
    match invq s with
    | [] => Ok s
    | n :: q =>
      let s := s <| invq := q |> in
      s <-! (if valid (nd s n)
             then if shouldBeInvalidated s n then invalidateNode fuel s n
                  else heapAddIfNotPresent s n
             else Ok s);
      propagateInvalidity fuel s
    end
  end.

(** ** Becoming necessary *)
Fixpoint becameNecessaryRecursive (fuel : nat) (s : state) (n : nid) : M :=
  match fuel with
  | O => OutOfFuel
  | S fuel =>
    let was := inGraph (nd s n) in
    let s := addNode s n in
    let s := if was then s else emit (EvNec n) s in
    s <-? setHeight s n (scopeHeight s (scope (nd s n)) + 1);
    s <-? efold (fun s p =>
                   (* addChildWithoutAdjustingHeights(node, parent) *)
                   let wasNec := isNecessary (nd s p) in
                   let s := link s n p in
                   let s := if valid (nd s p) then s else s <| invq := invq s ++ [n] |> in
                   s <-? (if wasNec then ok s else becameNecessaryRecursive fuel s p);
                   if height (nd s p) >=? height (nd s n)
                   then setHeight s n (height (nd s p) + 1) else ok s)
                (decl (nd s n)) s;
    if isStale s n then lift (heapAddIfNotPresent s n) else ok s
  end.

Definition addChildWithoutAdjustingHeights (fuel : nat) (s : state) (child parent : nid) : M :=
  let wasNec := isNecessary (nd s parent) in
  let s := link s child parent in
  let s := if valid (nd s parent) then s else s <| invq := invq s ++ [child] |> in
  if wasNec then ok s else becameNecessaryRecursive fuel s parent.

(** ** adjustHeights *)
Definition adjAdd (s : state) (n : nid) : res state :=
  if negb (hAdj (nd s n) =? unset) then Ok s else
  let h := height (nd s n) in
  if h <? 0 then Crash IndexOutOfRange else
  match a_byHeight (adj s) !! Z.to_nat h with
  | None => Crash IndexOutOfRange
  | Some q =>
    let a := adj s in
    let a := a <| a_byHeight := <[Z.to_nat h := q ++ [n]]> (a_byHeight a) |>
               <| a_maxSeen := Z.max (a_maxSeen a) h |> <| a_num := a_num a + 1 |> in
    Ok ((upd s n (set hAdj (fun _ => h))) <| adj := a |>)
  end.

(* ensureHeightRequirementUnsafe *)
Definition ensureHeightRequirement (s : state) (origParent child parent : nid) : M :=
  if bool_decide (origParent = child) then fail s ECycle
  else if height (nd s parent) >=? height (nd s child) then
    s <-? lift (adjAdd s child);
    setHeight s child (height (nd s parent) + 1)
  else ok s.

(* adjustHeightsHeap.removeMinUnsafe: scan heightLowerBound .. maxHeightSeen *)
Fixpoint adjScan (bs : list (list nid)) (x : nat) (upto : Z) : option (nat * nid * list nid) :=
  match bs with
  | [] => None
  | b :: bs => if Z.of_nat x >? upto then None else
               match b with
               | n :: b' => Some (x, n, b')
               | [] => adjScan bs (S x) upto
               end
  end.

Definition adjRemoveMin (s : state) : res (option nid * state) :=
  let a := adj s in
  if a_num a =? 0 then Ok (None, s) else
  if a_lower a <? 0 then Crash IndexOutOfRange else
  let from := Z.to_nat (a_lower a) in
  match adjScan (drop from (a_byHeight a)) from (a_maxSeen a) with
  | None => Ok (None, s)
  | Some (x, n, b') =>
    let a := a <| a_byHeight := <[x := b']> (a_byHeight a) |> <| a_lower := Z.of_nat x |>
               <| a_num := a_num a - 1 |> in
    Ok (Some n, (upd s n (set hAdj (fun _ => unset))) <| adj := a |>)
  end.

Fixpoint adjustLoop (fuel : nat) (s : state) (origParent : nid) : M :=
  match fuel with
  | O => OutOfFuel
  | S fuel =>
    if a_num (adj s) <=? 0 then ok s else
    '(popped, s) <-! adjRemoveMin s;
    match popped with
    | None => Crash NilDeref          (* parent.Node() on the nil the empty scan returned *)
    | Some p =>
      s <-? lift (if inHeap s p then heapFix s p else Ok s);
      s <-? efold (fun s c => ensureHeightRequirement s origParent c p) (children (nd s p)) s;
      s <-? (match nkind (nd s p) with
             | KBindLhs b =>
               efold (fun s r => if isNecessary (nd s r)
                                 then ensureHeightRequirement s origParent r p else ok s)
                     (b_rhsNodes (bd s b)) s
             | _ => ok s
             end);
      adjustLoop fuel s origParent
    end
  end.

Definition adjustHeights (fuel : nat) (s : state) (origChild origParent : nid) : M :=
  let s := s <| adj := adj s <| a_lower := height (nd s origChild) |> |> in
  s <-? ensureHeightRequirement s origParent origChild origParent;
  adjustLoop fuel s origParent.

(** ** addChild / changeParent *)
Definition edgeIsStale (s : state) (child parent : nid) : bool :=
  changedAt (nd s parent) >? recomputedAt (nd s child).

Definition addChild (fuel : nat) (s : state) (child parent : nid) : M :=
  s <-? addChildWithoutAdjustingHeights fuel s child parent;
  s <-? (if height (nd s parent) >=? height (nd s child)
         then adjustHeights fuel s child parent else ok s);
  s <-? lift (propagateInvalidity fuel s);
  if (recomputedAt (nd s child) =? 0) || edgeIsStale s child parent
  then lift (heapAddIfNotPresent s child) else ok s.

Definition changeParent (fuel : nat) (s : state) (child : nid) (oldP newP : option nid) : M :=
  match oldP, newP with
  | Some o, Some n =>
    if bool_decide (o = n) then ok s else
    let s := unlink s child o in
    let s := upd s o (set forceNec (fun _ => true)) in
    s <-? addChild fuel s child n;
    let s := upd s o (set forceNec (fun _ => false)) in
    lift (checkIfUnnecessary fuel s o)
  | None, Some n => addChild fuel s child n
  | Some o, None =>
    let s := unlink s child o in
    lift (checkIfUnnecessary fuel s o)
  | None, None => ok s                (* nothing linked, nothing to link *)
  end.

(** ** Creating nodes *)
Definition newNode (s : state) (k : kind) (d : list nid) (sc : option nat) (v : Z) : state * nid :=
  let n := next s in
  let s := s <| nodes := <[n := fresh_node k d sc v]> (nodes s) |> <| next := S n |> in
  let s := match sc with
           | None => s
           | Some b => updb s b (set b_rhsNodes (fun l => l ++ [n]))    (* addScopeNode *)
           end in
  (s, n).

(* BindContext: the lhs-change node, then the main node *)
Definition newBindWith (memo : bool) (s : state) (cases : list texp) (a : nid) (sc : option nat) : state * nid :=
  let b := next s in
  let s := s <| binds := <[b := mkBind a b (S b) None [] cases 0%nat memo []]> (binds s) |> in
  let '(s, _) := newNode s (KBindLhs b) [a] sc 0 in
  newNode s (KBindMain b) [b] sc 0.
Definition newBind := newBindWith false.

(* running a bind function: build the chosen template in scope [b] for input [x] *)
Fixpoint inst (s : state) (sc : option nat) (x : Z) (e : texp) : state * option nid :=
  match e with
  | TRet k => let '(s, n) := newNode s KReturn [] sc k in (s, Some n)
  | TX => let '(s, n) := newNode s KReturn [] sc x in (s, Some n)
  | TOuter n => (s, Some n)
  | TMap f e =>
    let '(s, a) := inst s sc x e in
    let a := default 0%nat a in
    let '(s, n) := newNode s (KMap f) [a] sc 0 in (s, Some n)
  | TMap2 f e1 e2 =>
    let '(s, a1) := inst s sc x e1 in
    let '(s, a2) := inst s sc x e2 in
    let '(s, n) := newNode s (KMap2 f) [default 0%nat a1; default 0%nat a2] sc 0 in (s, Some n)
  | TCut c e =>
    let '(s, a) := inst s sc x e in
    let '(s, n) := newNode s (KCutoff c) [default 0%nat a] sc 0 in (s, Some n)
  | TBind cases e =>
    let '(s, a) := inst s sc x e in
    let '(s, n) := newBind s cases (default 0%nat a) sc in (s, Some n)
  | TNil => (s, None)
  end.

(** ** Var.Set / Var.Update *)
Fixpoint insert_sorted (n : nid) (l : list nid) : list nid :=
  match l with
  | [] => [n]
  | x :: l' => if (n <? x)%nat then n :: l else if (n =? x)%nat then l else x :: insert_sorted n l'
  end.

Definition varSet (s : state) (v : nid) (x : Z) : res state :=
  let vn := nd s v in
  let eqv := match nkind vn with KVar e => e | _ => false end in
  if eqv && negb (bool_decide (is_Some (pending vn))) && (value vn =? x) then Ok s
  else if status s =? 1 then
    Ok ((upd s v (set pending (fun _ => Some x))) <| setDuring := insert_sorted v (setDuring s) |>)
  else
    let s := upd s v (set value (fun _ => x)) in
    if isNecessary (nd s v) then setStale s v else Ok s.

Definition varUpdate (s : state) (v : nid) (d : Z) : res state :=
  let vn := nd s v in
  let current := match pending vn with Some p => p | None => value vn end in
  varSet s v (norm (current + d)).

(** ** User-function invocations and the per-pass plan *)
Definition which_eqb (a b : which) : bool :=
  match a, b with WFn, WFn | WCut, WCut => true | _, _ => false end.

Definition actions_of (p : plan) (n : nid) (w : which) : list action :=
  omap (fun '(m, w', a) => if (m =? n)%nat && which_eqb w w' then Some a else None) p.

(* side effects first (Set / Update performed by the function), then the fault, if any *)
Definition applyActions (s : state) (acts : list action) : res (state * option faultkind) :=
  rfold (fun '(s, f) a =>
           match f with
           | Some _ => Ok (s, f)
           | None =>
             match a with
             | AFail k => Ok (s, Some k)
             | ASet v x => s <-! varSet s v x; Ok (s, None)
             | AUpdate v d => s <-! varUpdate s v d; Ok (s, None)
             end
           end) acts (s, None).

(* invoke a user function of node n; [compute] gives the value it returns and the arguments *)
Definition invoke (p : plan) (s : state) (n : nid) (w : which) : res (state * option err) :=
  '(s, f) <-! applyActions s (actions_of p n w);
  match f with
  | Some FErr => Ok (emit (EvFault n w FErr) s, Some (EUser n))
  | Some FPanic => Ok (emit (EvFault n w FPanic) s, Some (EPanic n))
  | None => Ok (s, None)
  end.

(** ** Stabilize of each node kind *)
Definition bindLhsStabilize (fuel : nat) (p : plan) (s : state) (b : nat) : M :=
  let br := bd s b in
  let oldNodes := b_rhsNodes br in
  let oldRhs := b_rhs br in
  let s := updb s b (set b_rhsNodes (fun _ => [])) in
  let x := valueOf s (b_lhs br) in
  (* incrutil.BindMemoized: a cached right-hand side is returned without running the function *)
  let cached := if b_memo br then (list_find (fun kv => fst kv = x) (b_cache br)) else None in
  '(s, e, built) <-! (match cached with
     | Some (_, (_, root)) => Ok (s, None, Some root)
     | None =>
       '(s, e) <-! invoke p s b WFn;
       match e with
       | Some e => Ok (s, Some e, None)
       | None =>
         let cases := b_cases br in
         let case := nth (Z.to_nat (x mod Z.of_nat (length cases))) cases TNil in
         (* a plain bind builds in its own scope; a memoized bind builds the cached subgraph in
            the scope it lives in itself, so that the subgraph outlives the bind's rebuilds *)
         let sc := if b_memo br then scope (nd s b) else Some b in
         let '(s, root) := inst s sc x case in
         let s := emit (EvBindFn b x root) s in
         let s := updb s b (fun r => r <| b_gen := S (b_gen r) |>
                                      <| b_cache := if b_memo r then b_cache r ++ [(x, root)] else b_cache r |>) in
         Ok (s, None, Some root)
       end
     end);
  match e, built with
  | Some e, _ => fail (updb s b (set b_rhsNodes (fun _ => oldNodes))) e   (* the deferred restore *)
  | None, None => Crash MissingNode                                        (* not reachable *)
  | None, Some root =>
    let s := updb s b (set b_rhs (fun _ => root)) in
    let main := b_main br in
    let s := upd s main (set decl (fun _ => match root with Some r => [b; r] | None => [b] end)) in
    s <-? changeParent fuel s main oldRhs root;
    s <-? lift (match oldRhs with
                | Some _ => rfold (invalidateNode fuel) oldNodes s
                | None => Ok s
                end);
    lift (propagateInvalidity fuel s)
  end.

(* maybeStabilize *)
Definition stabilizeNode (fuel : nat) (p : plan) (s : state) (n : nid) : M :=
  let x := nd s n in
  match nkind x with
  | KVar _ =>
    (* a deferred value is not taken by the recompute cycle of the pass it was set in:
       that cycle has just stamped recomputedAt with the pass's number *)
    match pending x with
    | Some v => if recomputedAt x =? stabNum s then ok s
                else ok (upd s n (fun x => x <| value := v |> <| pending := None |>))
    | None => ok s
    end
  | KReturn | KAlways => ok s
  | KMap f =>
    let a := hd 0%nat (decl x) in
    let arg := valueOf s a in
    '(s, e) <-! invoke p s n WFn;
    match e with
    | Some e => fail s e
    | None => let r := ap1 f arg in
              ok (emit (EvInvoked n [arg] r) (upd s n (set value (fun _ => r))))
    end
  | KMap2 f =>
    let a1 := valueOf s (nth 0 (decl x) 0%nat) in
    let a2 := valueOf s (nth 1 (decl x) 0%nat) in
    '(s, e) <-! invoke p s n WFn;
    match e with
    | Some e => fail s e
    | None => let r := ap2 f a1 a2 in
              ok (emit (EvInvoked n [a1; a2] r) (upd s n (set value (fun _ => r))))
    end
  | KMapN f =>
    let args := map (valueOf s) (decl x) in
    '(s, e) <-! invoke p s n WFn;
    match e with
    | Some e => fail s e
    | None => let r := apN f args in
              ok (emit (EvInvoked n args r) (upd s n (set value (fun _ => r))))
    end
  | KCutoff _ => ok (upd s n (set value (fun _ => valueOf s (hd 0%nat (decl x)))))
  | KBindLhs b => bindLhsStabilize fuel p s b
  | KBindMain b =>
    let v := match b_rhs (bd s b) with Some r => valueOf s r | None => 0 end in
    ok (upd s n (set value (fun _ => v)))
  end.

(* recomputeFailed (clearRecomputeHeapOnError is off) *)
Definition recomputeFailed (s : state) (n : nid) (prev : Z) : res state :=
  heapAddIfNotPresent (upd s n (set recomputedAt (fun _ => prev))) n.

(* the OnError handlers of n; a bind's lhs-change node forwards to its main node first *)
Definition errorHandlers (s : state) (n : nid) : state :=
  match nkind (nd s n) with
  | KBindLhs b => emit (EvErrH n) (emit (EvErrH (b_main (bd s b))) s)
  | _ => emit (EvErrH n) s
  end.

Definition isAlways (k : kind) : bool := match k with KAlways => true | _ => false end.

Definition requiresHeapOrdering (k : kind) : bool :=
  match k with KBindLhs _ | KBindMain _ => true | _ => false end.

(* canRecomputeImmediately *)
Definition canRecomputeImmediately (s : state) (parent child : nid) : bool :=
  let cn := nd s child in
  if isAlways (nkind cn) || requiresHeapOrdering (nkind cn)
     || (height (nd s parent) <=? scopeHeight s (scope cn)) then false
  (* a chain of direct recomputes runs ahead of the heap: the bind that created the child may
     still be queued below; nothing queued at or below its height establishes that it is not *)
  else if negb (scopeHeight s (scope cn) =? unset)
          && match Heap.minHeight (heap s) with
             | None => false
             | Some m => m <=? scopeHeight s (scope cn)
             end then false
  else if bool_decide (length (parents cn) = 1%nat) then true
  else match Heap.minHeight (heap s) with
       | None => true
       | Some m => height cn <=? m
       end.

(* the children loop of recomputeNodeSerial: hold one child back, queue the rest *)
Definition childrenLoop (s : state) (n : nid) : res (state * option nid) :=
  rfold (fun '(s, held) c =>
           if bool_decide (held = Some c) then Ok (s, held)
           else if negb (shouldRecomputeChild s c) then Ok (s, held)
           else
             s <-! (match held with Some h => heapAdd s h | None => Ok s end);
             Ok (s, Some c))
        (children (nd s n)) (s, None).

Definition insert_handler (k : nid) (s : state) : state :=
  s <| handlers := insert_sorted k (handlers s) |>.

(* recomputeNodeSerial; third component: the child to recompute immediately *)
Definition recomputeNodeSerial (fuel : nat) (p : plan) (s : state) (n : nid)
  : res (state * option err * option nid) :=
  let x := nd s n in
  let prev := recomputedAt x in
  let s := upd s n (set recomputedAt (fun _ => stabNum s)) in
  (* maybeCutoff *)
  '(s, e, cut) <-! (match nkind x with
     | KCutoff c =>
       let old := value x in
       let new := valueOf s (hd 0%nat (decl x)) in
       '(s, e) <-! invoke p s n WCut;
       match e with
       | Some e => Ok (s, Some e, false)
       | None => let v := apCut c old new in Ok (emit (EvCutoff n old new v) s, None, v)
       end
     | _ => Ok (s, None, false)
     end);
  match e with
  | Some (EPanic m) => Ok (s, Some (EPanic m), None)
  | Some e => s <-! recomputeFailed s n prev; Ok (errorHandlers s n, Some e, None)
  | None =>
    if cut then Ok (s, None, None) else
    '(s, e) <-! stabilizeNode fuel p s n;
    match e with
    | Some (EPanic m) => Ok (s, Some (EPanic m), None)
    | Some e => s <-! recomputeFailed s n prev; Ok (errorHandlers s n, Some e, None)
    | None =>
      let s := upd s n (set changedAt (fun _ => stabNum s)) in
      let s := insert_handler n s in
      '(s, held) <-! childrenLoop s n;
      '(s, imm) <-! (match held with
                     | None => Ok (s, None)
                     | Some h => if canRecomputeImmediately s n h then Ok (s, Some h)
                                 else s <-! heapAdd s h; Ok (s, None)
                     end);
      let s := foldl (fun s o => insert_handler o s) s (observers (nd s n)) in
      Ok (s, None, imm)
    end
  end.

(* Graph.recompute, serial: chain through immediately recomputable children.
   Second component: the node being recomputed when the error arose (graph.recomputingNode) *)
Fixpoint recomputeChain (fuel : nat) (p : plan) (s : state) (n : nid)
  : res (state * option err * nid) :=
  match fuel with
  | O => OutOfFuel
  | S fuel =>
    '(s, e, imm) <-! recomputeNodeSerial fuel p s n;
    match e, imm with
    | None, Some c => recomputeChain fuel p s c
    | _, _ => Ok (s, e, n)
    end
  end.

(** ** The pass *)
Definition passFuel (s : state) : nat := (64 * (next s) + 1024)%nat.
Definition opFuel (s : state) : nat := ((next s + 4) * (Z.to_nat (maxHeight s) + 4))%nat.

Fixpoint passLoop (fuel : nat) (p : plan) (s : state) (always : list nid)
  : res (state * option err * nid * list nid) :=
  match fuel with
  | O => OutOfFuel
  | S fuel =>
    if Heap.cnt (heap s) <=? 0 then Ok (s, None, 0%nat, always) else
    match Heap.removeMin (heap s) with
    | None => Crash NilDeref
    | Some (n, w) =>
      let s := s <| heap := w |> in
      let always := if isAlways (nkind (nd s n)) then always ++ [n] else always in
      '(s, e, at_) <-! recomputeChain fuel p s n;
      match e with
      | Some _ => Ok (s, e, at_, always)
      | None => passLoop fuel p s always
      end
    end
  end.

(* stabilizeEndRunUpdateHandlers: keys in identifier order *)
Definition runUpdateHandlers (s : state) : state :=
  let s := s <| status := 2 |> in
  let s := foldl (fun s k => match obs s !! k with
                             | Some n => emit (EvObsUpd k (valueOf s n)) s
                             | None => emit (EvUpd k) s
                             end) s (handlers s) in
  s <| handlers := [] |>.

(* stabilizeEndHandleSetDuringStabilization *)
Definition applyDeferredSets (s : state) : res state :=
  s <-! rfold (fun s v =>
                 '(s, _) <-! stabilizeNode 0 [] s v;
                 setStale s v) (setRemoved s ++ setDuring s) s;
  Ok (s <| setDuring := [] |> <| setRemoved := [] |>).

Definition stabilizeEnd (s : state) (e : option err) : res state :=
  let s := emit (EvPassEnd (classify e)) s in
  let s := runUpdateHandlers s in
  let s := s <| stabNum := stabNum s + 1 |> in
  s <-! applyDeferredSets s;
  Ok (s <| status := 0 |>).

Definition stabilize (p : plan) (cancelled : bool) (s : state) : M :=
  if negb (status s =? 0) then fail s EAlreadyStabilizing else
  let s := emit EvPassStart (s <| status := 1 |>) in
  '(s, e, at_, always) <-!
     (if cancelled && (0 <? Heap.cnt (heap s)) then Ok (s, Some ECancelled, 0%nat, [])
      else passLoop (passFuel s) p s []);
  (* the deferred requeue of always nodes: runs however the pass ended, skips nodes that
     left the graph during the pass *)
  s <-! rfold (fun s n => if height (nd s n) =? unset then Ok s else heapAddIfNotPresent s n) always s;
  s <-! (match e with
         | Some (EPanic _) =>
           (* the deferred recover: recomputePanicked(graph.recomputingNode) *)
           let s := upd s at_ (set recomputedAt (fun _ => 0)) in
           s <-! heapAddIfNotPresent s at_;
           Ok (errorHandlers s at_)
         | _ => Ok s
         end);
  s <-! stabilizeEnd s e;
  Ok (s, e).

(** ** ParallelStabilize, as one sequential schedule: each height block in queue order.
    recomputeNodeParallel never hands a dependent back for immediate recompute; every node
    of a block runs even when an earlier one failed (parallelBatch keeps the first error);
    a panic is recovered per node (recomputePanicked) and becomes that node's error. *)
Definition recomputeNodeParallel (fuel : nat) (p : plan) (s : state) (n : nid) : res (state * option err) :=
  let x := nd s n in
  let prev := recomputedAt x in
  let s := upd s n (set recomputedAt (fun _ => stabNum s)) in
  '(s, e, cut) <-! (match nkind x with
     | KCutoff c =>
       let old := value x in
       let new := valueOf s (hd 0%nat (decl x)) in
       '(s, e) <-! invoke p s n WCut;
       match e with
       | Some e => Ok (s, Some e, false)
       | None => let v := apCut c old new in Ok (emit (EvCutoff n old new v) s, None, v)
       end
     | _ => Ok (s, None, false)
     end);
  let panicked s m :=
      (* the worker's recover: recomputePanicked(n) *)
      let s := upd s n (set recomputedAt (fun _ => 0)) in
      s <-! heapAddIfNotPresent s n;
      Ok (errorHandlers s n, Some (EPanic m)) in
  match e with
  | Some (EPanic m) => panicked s m
  | Some e => s <-! recomputeFailed s n prev; Ok (errorHandlers s n, Some e)
  | None =>
    if cut then Ok (s, None) else
    '(s, e) <-! stabilizeNode fuel p s n;
    match e with
    | Some (EPanic m) => panicked s m
    | Some e => s <-! recomputeFailed s n prev; Ok (errorHandlers s n, Some e)
    | None =>
      let s := upd s n (set changedAt (fun _ => stabNum s)) in
      let s := insert_handler n s in
      s <-! rfold (fun s c => if shouldRecomputeChild s c then heapAdd s c else Ok s) (children (nd s n)) s;
      let s := foldl (fun s o => insert_handler o s) s (observers (nd s n)) in
      Ok (s, None)
    end
  end.

Fixpoint parLoop (fuel : nat) (p : plan) (s : state) (always : list nid)
  : res (state * option err * list nid) :=
  match fuel with
  | O => OutOfFuel
  | S fuel =>
    if Heap.cnt (heap s) <=? 0 then Ok (s, None, always) else
    let '(block, w) := Heap.takeMinBlock (heap s) in
    let s := s <| heap := w |> in
    (* the bind lhs-change nodes of the block first, then the others; a node that an earlier
       node of the block tore down (height unset) is skipped *)
    let isLhs n := match nkind (nd s n) with KBindLhs _ => true | _ => false end in
    let order := filter (fun n => isLhs n = true) block ++ filter (fun n => isLhs n = false) block in
    '(s, e, always) <-!
       rfold (fun '(s, e, always) n =>
                if height (nd s n) =? unset then Ok (s, e, always) else
                '(s, e') <-! recomputeNodeParallel fuel p s n;
                let always := if isAlways (nkind (nd s n)) then always ++ [n] else always in
                Ok (s, match e with Some _ => e | None => e' end, always))
             order (s, None, always);
    match e with
    | Some _ => Ok (s, e, always)
    | None => parLoop fuel p s always
    end
  end.

Definition parStabilize (p : plan) (s : state) : M :=
  if negb (status s =? 0) then fail s EAlreadyStabilizing else
  let s := emit EvPassStart (s <| status := 1 |>) in
  '(s, e, always) <-! parLoop (passFuel s) p s [];
  s <-! rfold (fun s n => if (height (nd s n) =? unset) || inHeap s n then Ok s else heapAdd s n) always s;
  s <-! stabilizeEnd s e;
  Ok (s, e).

(** ** Observe / Unobserve *)
Definition observe (s : state) (n : nid) : M :=
  let o := next s in
  let s := s <| next := S o |> <| obs := <[o := n]> (obs s) |> <| numNodes := numNodes s + 1 |> in
  let wasNec := isNecessary (nd s n) in
  let s := upd s n (set observers (fun l => l ++ [o])) in
  if wasNec then ok s else
  s <-? becameNecessaryRecursive (opFuel s) s n;
  lift (propagateInvalidity (opFuel s) s).

Definition unobserve (s : state) (o : nat) : res state :=
  match obs s !! o with
  | None => Ok s
  | Some n =>
    let s := s <| obs := delete o (obs s) |> <| numNodes := numNodes s - 1 |>
               <| handlers := rm o (handlers s) |> in
    let s := upd s n (set observers (rm o)) in
    checkIfUnnecessary (opFuel s) s n
  end.

(** ** MapN.AddInput / RemoveInput *)
Definition addInput (s : state) (n a : nid) : M :=
  let s := upd s n (set decl (fun l => l ++ [a])) in
  if height (nd s n) =? unset then ok s else
  s <-? addChild (opFuel s) s n a;
  lift (setStale s n).

Definition removeInput (s : state) (n a : nid) : res state :=
  if negb (bool_decide (a ∈ decl (nd s n))) then Ok s else
  let s := upd s n (set decl (rm a)) in
  let s := upd s n (set parents (rm a)) in
  let s := upd s a (set children (rm n)) in
  s <-! setStale s n;
  checkIfUnnecessary (opFuel s) s a.

(** ** Well-formedness of an operation against the nodes created so far *)
Definition isUserNode (s : state) (n : nid) : bool :=
  match nodes s !! n with
  | Some x => match nkind x with KBindLhs _ => false | _ => true end
  | None => false
  end.
Definition isVar (s : state) (n : nid) : bool :=
  match nodes s !! n with Some x => match nkind x with KVar _ => true | _ => false end | None => false end.
Definition isMapN (s : state) (n : nid) : bool :=
  match nodes s !! n with Some x => match nkind x with KMapN _ => true | _ => false end | None => false end.

Definition isMemoMain (s : state) (n : nid) : bool :=
  match nodes s !! n with
  | Some x => match nkind x with KBindMain b => b_memo (bd s b) | _ => false end
  | None => false
  end.

Fixpoint texp_ok (s : state) (root : bool) (e : texp) : bool :=
  match e with
  | TRet _ | TX => true
  | TOuter n => isUserNode s n
  | TMap _ e | TCut _ e => texp_ok s false e
  | TMap2 _ e1 e2 => texp_ok s false e1 && texp_ok s false e2
  | TBind cases e =>
    negb (bool_decide (cases = [])) && forallb (texp_ok s true) cases && texp_ok s false e
  | TNil => root
  end.

Definition plan_ok (s : state) (p : plan) : bool :=
  forallb (fun '(_, _, a) => match a with
                             | ASet v _ | AUpdate v _ => isVar s v
                             | AFail _ => true
                             end) p.

Definition op_ok (s : state) (o : op) : bool :=
  match o with
  | NewVar _ _ | NewReturn _ => true
  | NewMap _ a | NewCutoff _ a | NewAlways a => isUserNode s a
  | NewMap2 _ a b => isUserNode s a && isUserNode s b
  | NewMapN _ ins => forallb (isUserNode s) ins
  | NewBind cases a | NewBindMemo cases a =>
    isUserNode s a && negb (bool_decide (cases = [])) && forallb (texp_ok s true) cases
  | PurgeMemo b _ | ClearMemo b => isMemoMain s b
  | Observe n => isUserNode s n
  | Unobserve o => bool_decide (is_Some (obs s !! o))
  | SetVar v _ | UpdateVar v _ => isVar s v
  | AddInput n a => isMapN s n && isUserNode s a
  | RemoveInput n a => isMapN s n && isUserNode s a
  | Stabilize p | ParStabilize p => plan_ok s p
  | StabilizeCancelled => true
  end.

(** ** One operation of a history *)
Definition step (s : state) (o : op) : M :=
  match o with
  | NewVar v e => ok (fst (newNode s (KVar e) [] None v))
  | NewReturn v => ok (fst (newNode s KReturn [] None v))
  | NewMap f a => ok (fst (newNode s (KMap f) [a] None 0))
  | NewMap2 f a b => ok (fst (newNode s (KMap2 f) [a; b] None 0))
  | NewMapN f ins => ok (fst (newNode s (KMapN f) ins None 0))
  | NewCutoff c a => ok (fst (newNode s (KCutoff c) [a] None 0))
  | NewAlways a => ok (fst (newNode s KAlways [a] None 0))
  | NewBind cases a => ok (fst (newBind s cases a None))
  | NewBindMemo cases a => ok (fst (newBindWith true s cases a None))
  | PurgeMemo m x =>
    match nkind (nd s m) with
    | KBindMain b => ok (updb s b (set b_cache (filter (fun kv => fst kv <> x))))
    | _ => ok s
    end
  | ClearMemo m =>
    match nkind (nd s m) with
    | KBindMain b => ok (updb s b (set b_cache (fun _ => [])))
    | _ => ok s
    end
  | Observe n => observe s n
  | Unobserve o => lift (unobserve s o)
  | SetVar v x => lift (varSet s v x)
  | UpdateVar v d => lift (varUpdate s v d)
  | AddInput n a => addInput s n a
  | RemoveInput n a => lift (removeInput s n a)
  | Stabilize p => stabilize p false s
  | StabilizeCancelled => stabilize [] true s
  | ParStabilize p => parStabilize p s
  end.

(** a history: every operation must be well-formed when issued; errors are results, the
    state carries on (exactly as the Go API behaves) *)
Fixpoint run (s : state) (os : list op) : res state :=
  match os with
  | [] => Ok s
  | o :: os => if op_ok s o then '(s, _) <-! step s o; run s os else Ok s
  end.
