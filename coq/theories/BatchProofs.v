(** Proofs about the [parallelBatch] transition system of Batch.v: the in-flight bound of the
    semaphore discipline over all widths, parallelisms and schedules; its tightness; absence
    of deadlock and termination for both variants; and the refutation of the bound for the
    code as it is. *)
From incr Require Import Base Batch.
From Coq Require Import ZifyBool.
Local Open Scope nat_scope.

Definition b2n (b : bool) : nat := if b then 1 else 0.

(** items are neither lost nor duplicated (both variants) *)
Definition conserved (w : nat) (s : bstate) : Prop :=
  pending s + b2n (carry s) + spawned s + running s + done s = w.

(** [Semaphore]: the slots held are exactly the items between send and return *)
Definition sem_inv (p : nat) (s : bstate) : Prop :=
  inchan s = b2n (carry s) + spawned s + running s /\ inchan s <= p.

(** [Current]: the slots held are exactly the items between send and receive *)
Definition cur_inv (p : nat) (s : bstate) : Prop :=
  inchan s = b2n (carry s) + spawned s /\ inchan s <= p.

Definition vinv (v : variant) (p : nat) (s : bstate) : Prop :=
  match v with Current => cur_inv p s | Semaphore => sem_inv p s end.

Ltac crush_step :=
  match goal with
  | s : bstate |- _ => destruct s as [pe ic [|] sp ru dn]
  end;
  unfold bstep, enabled, conserved, sem_inv, cur_inv, measure, stuck, b2n in *; simpl in *;
  repeat match goal with
         | |- context [if ?b then _ else _] => destruct b eqn:?
         | H : context [if ?b then _ else _] |- _ => destruct b eqn:?
         end; simpl in *; try lia.

Lemma conserved_init w : conserved w (binit w).
Proof. unfold conserved, binit, b2n; simpl. lia. Qed.

Lemma vinv_init v w p : vinv v p (binit w).
Proof. destruct v; unfold vinv, sem_inv, cur_inv, binit, b2n; simpl; lia. Qed.

Lemma bstep_conserved v w p s l : conserved w s -> conserved w (bstep v p s l).
Proof. intros H. destruct v, l; crush_step. Qed.

Lemma bstep_vinv v p s l : vinv v p s -> vinv v p (bstep v p s l).
Proof. intros H. destruct v, l; unfold vinv in *; crush_step. Qed.

Lemma bexec_from_inv v w p sch s :
  conserved w s -> vinv v p s ->
  conserved w (bexec_from v p s sch) /\ vinv v p (bexec_from v p s sch).
Proof.
  revert s. induction sch as [|l sch IH]; intros s Hc Hv; simpl; [auto|].
  apply IH; [apply bstep_conserved|apply bstep_vinv]; assumption.
Qed.

Lemma bexec_inv v w p sch : conserved w (bexec v w p sch) /\ vinv v p (bexec v w p sch).
Proof. apply bexec_from_inv; [apply conserved_init|apply vinv_init]. Qed.

(** ** The bound *)

(** With a slot held for the duration of [fn], at most [p] (and at most [w]) computations
    are in progress, at every state every schedule can reach.  (True for [p = 0] too: then
    nothing ever runs, see [batch_p0_deadlock].) *)
Theorem batch_bound : forall (w p : nat) (sch : bschedule),
  running (bexec Semaphore w p sch) <= p /\ running (bexec Semaphore w p sch) <= w.
Proof.
  intros w p sch. destruct (bexec_inv Semaphore w p sch) as [Hc [Hi Hp]].
  unfold conserved in Hc. split; lia.
Qed.

(** the same along the way: the high-water mark of a whole schedule *)
Lemma high_water_bound p : forall sch s,
  sem_inv p s -> high_water Semaphore p s sch <= p.
Proof.
  induction sch as [|l sch IH]; intros s Hs; simpl.
  - destruct Hs; lia.
  - apply Nat.max_lub; [destruct Hs; lia|]. apply IH. apply (bstep_vinv Semaphore). exact Hs.
Qed.

Theorem batch_high_water_bound : forall (w p : nat) (sch : bschedule),
  high_water Semaphore p (binit w) sch <= p.
Proof. intros. apply high_water_bound. apply (vinv_init Semaphore). Qed.

Corollary batch_p1_serial : forall (w : nat) (sch : bschedule),
  running (bexec Semaphore w 1 sch) <= 1 /\ high_water Semaphore 1 (binit w) sch <= 1.
Proof. intros. split; [apply batch_bound|apply batch_high_water_bound]. Qed.

(** ** The greedy adversary, and tightness *)

Lemma greedy_semaphore w p : forall k, k <= w ->
  bexec Semaphore w p (greedy k) = BState (w - Nat.min k p) (Nat.min k p) false 0 (Nat.min k p) 0.
Proof.
  induction k as [|k IH]; intros Hk.
  - unfold bexec, binit. simpl. rewrite Nat.sub_0_r. reflexivity.
  - assert (Hg : forall s, bexec_from Semaphore p s (greedy (S k)) =
                           bexec_from Semaphore p (bexec_from Semaphore p s (greedy k)) [Send; Spawn; Recv]).
    { clear. induction k as [|k IHk]; intros s; [reflexivity|].
      change (greedy (S (S k))) with (Send :: Spawn :: Recv :: greedy (S k)).
      change (greedy (S k)) with (Send :: Spawn :: Recv :: greedy k) at 2.
      cbn [bexec_from]. rewrite IHk. reflexivity. }
    unfold bexec in *. rewrite Hg, IH by lia. clear Hg IH.
    destruct (le_lt_dec p k) as [Hpk|Hpk].
    + (* all p slots are taken: the producer is blocked, the round is a stutter *)
      rewrite !Nat.min_r by lia.
      cbn [bexec_from]. unfold bstep, enabled; simpl.
      assert ((p <? p) = false) as -> by (apply Nat.ltb_ge; lia).
      rewrite andb_false_r. simpl. reflexivity.
    + rewrite !Nat.min_l by lia.
      cbn [bexec_from]. unfold bstep at 3, enabled; simpl.
      assert ((0 <? w - k) = true) as -> by (apply Nat.ltb_lt; lia).
      assert ((k <? p) = true) as -> by (apply Nat.ltb_lt; lia).
      simpl. unfold bstep, enabled; simpl.
      f_equal; lia.
Qed.

Lemma greedy_current w p : 1 <= p -> forall k, k <= w ->
  bexec Current w p (greedy k) = BState (w - k) 0 false 0 k 0.
Proof.
  intros Hp. induction k as [|k IH]; intros Hk.
  - unfold bexec, binit. simpl. rewrite Nat.sub_0_r. reflexivity.
  - assert (Hg : forall s, bexec_from Current p s (greedy (S k)) =
                           bexec_from Current p (bexec_from Current p s (greedy k)) [Send; Spawn; Recv]).
    { clear. induction k as [|k IHk]; intros s; [reflexivity|].
      change (greedy (S (S k))) with (Send :: Spawn :: Recv :: greedy (S k)).
      change (greedy (S k)) with (Send :: Spawn :: Recv :: greedy k) at 2.
      cbn [bexec_from]. rewrite IHk. reflexivity. }
    unfold bexec in *. rewrite Hg, IH by lia. clear Hg IH.
    cbn [bexec_from]. unfold bstep at 3, enabled; simpl.
    assert ((0 <? w - k) = true) as -> by (apply Nat.ltb_lt; lia).
    assert ((0 <? p) = true) as -> by (apply Nat.ltb_lt; lia).
    simpl. unfold bstep, enabled; simpl.
    f_equal; lia.
Qed.

Theorem predict_semaphore : forall w p, predict Semaphore w p = Nat.min w p.
Proof. intros. unfold predict. rewrite greedy_semaphore by lia. reflexivity. Qed.

Theorem predict_current : forall w p, 1 <= p -> predict Current w p = w.
Proof. intros. unfold predict. rewrite greedy_current by lia. reflexivity. Qed.

(** the bound is reached: the option is honoured from below as well *)
Theorem batch_bound_tight : forall w p : nat,
  exists sch, running (bexec Semaphore w p sch) = Nat.min w p.
Proof. intros w p. exists (greedy w). apply predict_semaphore. Qed.

(** ** The code as it is *)

(** For every width and every parallelism (at least one), the current code has a schedule
    with ALL [w] computations in progress at once: each goroutine frees its channel slot
    before it runs [fn], so the producer is never held back. *)
Theorem batch_current_refuted : forall w p : nat, 1 <= p ->
  exists sch, running (bexec Current w p sch) = w.
Proof. intros w p Hp. exists (greedy w). apply predict_current. exact Hp. Qed.

Corollary batch_current_exceeds : forall w p : nat, 1 <= p -> p < w ->
  exists sch, p < running (bexec Current w p sch).
Proof. intros w p Hp Hw. destruct (batch_current_refuted w p Hp) as [sch H]. exists sch. lia. Qed.

Example batch_current_32_at_2 : running (bexec Current 32 2 (greedy 32)) = 32.
Proof. vm_compute. reflexivity. Qed.

(** ** No deadlock, termination (both variants, [p >= 1]) *)

Theorem batch_no_deadlock : forall (v : variant) (w p : nat) (sch : bschedule), 1 <= p ->
  stuck v p (bexec v w p sch) = true -> finished w (bexec v w p sch) = true.
Proof.
  intros v w p sch Hp Hstuck.
  destruct (bexec_inv v w p sch) as [Hc Hv].
  destruct (bexec v w p sch) as [pe ic ca sp ru dn].
  unfold stuck, enabled, finished, conserved, vinv, sem_inv, cur_inv, b2n in *; simpl in *.
  destruct v, ca; simpl in *; lia.
Qed.

Lemma bstep_measure v p s l : enabled v p s l = true -> measure (bstep v p s l) < measure s.
Proof.
  intros He. unfold bstep. rewrite He.
  destruct s as [pe ic ca sp ru dn]. unfold enabled, measure in *; simpl in *.
  destruct v, l, ca; simpl in *; lia.
Qed.

(** so a schedule makes at most [4 * w] effective steps: every maximal schedule is finite
    and, by [batch_no_deadlock], ends with all [w] items done *)
Theorem batch_measure_init : forall w, measure (binit w) = 4 * w.
Proof. intros. unfold measure, binit; simpl. lia. Qed.

(** a complete run exists (non-vacuity of [finished]) *)
Example batch_finishes_example :
  finished 5 (bexec Semaphore 5 2 (greedy 5 ++ [Finish; Finish] ++ greedy 5 ++ [Finish; Finish] ++ greedy 5 ++ [Finish])) = true
  /\ finished 5 (bexec Current 5 2 (greedy 5 ++ [Finish; Finish; Finish; Finish; Finish])) = true.
Proof. vm_compute. split; reflexivity. Qed.

(** ** Outside the property's domain: parallelism 0 *)

(** [make(chan A, 0)] with the send before the [go]: the first send never completes *)
Theorem batch_p0_deadlock : forall (v : variant) (w : nat) (sch : bschedule),
  bexec v w 0 sch = binit w.
Proof.
  intros v w sch. unfold bexec. induction sch as [|l sch IH]; [reflexivity|].
  simpl. assert (bstep v 0 (binit w) l = binit w) as ->; [|exact IH].
  unfold bstep, enabled, binit; simpl. destruct v, l; simpl; rewrite ?andb_false_r; reflexivity.
Qed.
