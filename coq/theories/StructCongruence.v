(** A structural congruence of the non-pass operations of the engine model.

    [SR b s t]: the two states have the same graph STRUCTURE (declared inputs, edges, heights,
    registration, observers, registry, counters, adjust-heights heap, ...).  With [b = false] kinds
    may differ by the erasure of C11 (CutoffEqual / VarEqual flags), values, stamps and [pending]
    fields may differ, and the recompute heaps are unrelated; with [b = true] the node records are
    EQUAL and the heaps hold the same set (their layout and cursor may differ).  In both cases the
    logs are unrelated.  Every operation outside the passes maps related states to related states,
    with the same result, and succeeds on the second state whenever it does on the first.

    Layout: the relation [SR] and its primitive congruences; the heap operations ([sim_haip],
    [sim_guard_add / _remove / _fix]: insertions, removals and fixes guarded by tests the relation
    does not control -- staleness, membership); the side conditions [Good] (second heap well-formed
    and holding only nodes with a height, heights >= -1, first heap holding only nodes with a
    height); one simulation lemma per engine function ([sim_BNR], [sim_observe], [sim_zeroNode],
    [sim_removeParents], [sim_unobserve], [sim_adjustLoop], [sim_addChild], [sim_setStale],
    [sim_varSet], [sim_addInput], [sim_removeInput], [sim_newNode]), all for runs that return no
    error; [sim_step] for whole operations (the same operation, or its erasure [erase_op]); the
    admissibility checks [op_ok] / [op_clean] depend on the structure only ([op_checks_SR]); and
    [wfb_Good] / [wfb_Quiet]: every state satisfying [wfb] and [BF] meets the side conditions.
    Used by StaticHistory.v (C04, mixed serial / parallel histories, [b = true]) and TwinHistory.v
    (C11, cutoff-free twins, [b = false]). *)
From stdpp Require Import sorting.
From incr Require Import Base Heap HeapSpec HeapProofs EngineDefs Engine EngineRun EngineWf.
From incr Require Import EngineLemmas EngineInv PassInv PassProofs.
Local Ltac inv H := inversion H; subst; clear H.

Definition erase_kind (k : kind) : kind :=
  match k with KVar true => KVar false | KCutoff CEq => KCutoff CNever | _ => k end.

Definition skelS (x : node) : node :=
  x <| nkind := erase_kind (nkind x) |> <| value := 0 |> <| recomputedAt := 0 |> <| changedAt := 0 |>
    <| setAt := 0 |> <| pending := None |>.

Definition Nb (b : bool) (x : node) : node := if b then x else skelS x.

(** node updates the relation tolerates: they commute with the skeleton, or are invisible in it *)
Definition commutes (f : node -> node) : Prop := forall x, skelS (f x) = f (skelS x).
Definition invisible (f : node -> node) : Prop := forall x, skelS (f x) = skelS x.

Lemma Nb_upd_c b f x y : commutes f -> Nb b x = Nb b y -> Nb b (f x) = Nb b (f y).
Proof. destruct b; cbn; intros Hf H; [congruence|]. rewrite !Hf, H. reflexivity. Qed.
Lemma Nb_upd_i b f x y : invisible f -> Nb b x = Nb b y -> Nb b (f x) = Nb b (f y).
Proof. destruct b; cbn; intros Hf H; [congruence|]. rewrite !Hf. exact H. Qed.

Lemma Nb_proj {A} (g : node -> A) b x y : (forall z, g (skelS z) = g z) -> Nb b x = Nb b y -> g x = g y.
Proof. destruct b; cbn; intros Hg H; [congruence|]. rewrite <- (Hg x), <- (Hg y), H. reflexivity. Qed.

Record SR (b : bool) (s t : state) : Prop := {
  sr_nd : forall m, Nb b (nd s m) = Nb b (nd t m);
  sr_has : forall m, has s m <-> has t m;
  sr_binds : binds s = binds t;
  sr_next : next s = next t;
  sr_reg : reg s = reg t;
  sr_obs : obs s = obs t;
  sr_adj : adj s = adj t;
  sr_invq : invq s = invq t;
  sr_stabNum : stabNum s = stabNum t;
  sr_status : status s = status t;
  sr_numNodes : numNodes s = numNodes t;
  sr_setDuring : setDuring s = setDuring t;
  sr_setRemoved : setRemoved s = setRemoved t;
  sr_handlers : handlers s = handlers t;
  sr_maxHeight : maxHeight s = maxHeight t;
  sr_heap : b = true -> forall m, inHeap s m = inHeap t m
}.

(** the second state's heap: well-formed, holding only nodes with a height *)
Definition HB (t : state) : Prop :=
  HeapSpec.inv (heap t) /\ forall m, inHeap t m = true -> 0 <= height (nd t m).
Definition HRg (s : state) : Prop := forall m, -1 <= height (nd s m).

Section proj.
  Context (b : bool) (s t : state) (R : SR b s t).
  Local Ltac pj g := intros m; exact (Nb_proj g b _ _ (fun z => eq_refl) (sr_nd _ _ _ R m)).
  Lemma sr_decl : forall m, decl (nd s m) = decl (nd t m). Proof. pj decl. Qed.
  Lemma sr_scope : forall m, scope (nd s m) = scope (nd t m). Proof. pj scope. Qed.
  Lemma sr_height : forall m, height (nd s m) = height (nd t m). Proof. pj height. Qed.
  Lemma sr_hAdj : forall m, hAdj (nd s m) = hAdj (nd t m). Proof. pj hAdj. Qed.
  Lemma sr_parents : forall m, parents (nd s m) = parents (nd t m). Proof. pj parents. Qed.
  Lemma sr_children : forall m, children (nd s m) = children (nd t m). Proof. pj children. Qed.
  Lemma sr_observers : forall m, observers (nd s m) = observers (nd t m). Proof. pj observers. Qed.
  Lemma sr_valid : forall m, valid (nd s m) = valid (nd t m). Proof. pj valid. Qed.
  Lemma sr_forceNec : forall m, forceNec (nd s m) = forceNec (nd t m). Proof. pj forceNec. Qed.
  Lemma sr_inGraph : forall m, inGraph (nd s m) = inGraph (nd t m). Proof. pj inGraph. Qed.
  Lemma sr_ekind : forall m, erase_kind (nkind (nd s m)) = erase_kind (nkind (nd t m)).
  Proof.
    intros m. pose proof (sr_nd _ _ _ R m) as H. destruct b; cbn in H; [congruence|].
    exact (f_equal nkind H).
  Qed.
  Lemma sr_isNecessary m : isNecessary (nd s m) = isNecessary (nd t m).
  Proof. unfold isNecessary. rewrite sr_forceNec, sr_children, sr_observers. reflexivity. Qed.
  Lemma sr_scopeHeight sc : scopeHeight s sc = scopeHeight t sc.
  Proof. destruct sc; cbn; [apply sr_height|reflexivity]. Qed.
  Lemma sr_nd_true : b = true -> forall m, nd s m = nd t m.
  Proof. intros -> m. exact (sr_nd _ _ _ R m). Qed.
End proj.

Lemma nd_upd_gen s n f m :
  nd (upd s n f) m = if decide (m = n) then match nodes s !! n with Some x => f x | None => dummy end else nd s m.
Proof.
  unfold nd, upd; cbn. destruct (decide (m = n)) as [->|Hne].
  - rewrite lookup_alter. destruct (nodes s !! n); reflexivity.
  - rewrite lookup_alter_ne by congruence. reflexivity.
Qed.

Lemma SR_upd b s t n f : (commutes f \/ invisible f) -> SR b s t -> SR b (upd s n f) (upd t n f).
Proof.
  intros Hf R. destruct R. constructor; try assumption.
  - intros m. rewrite !nd_upd_gen. destruct (decide (m = n)) as [->|]; [|apply sr_nd0].
    pose proof (sr_nd0 n) as Hn. pose proof (sr_has0 n) as Hh. unfold has, nd in *.
    destruct (nodes s !! n) as [x|], (nodes t !! n) as [y|]; cbn in *.
    + destruct Hf; [apply Nb_upd_c|apply Nb_upd_i]; assumption.
    + exfalso. destruct Hh as [Hh _]. destruct Hh as [? Hh]; [eauto|discriminate].
    + exfalso. destruct Hh as [_ Hh]. destruct Hh as [? Hh]; [eauto|discriminate].
    + reflexivity.
  - intros m. rewrite !has_upd. apply sr_has0.
Qed.

Lemma SR_emit b s t e e' : SR b s t -> SR b (emit e s) (emit e' t).
Proof. intros []. constructor; assumption. Qed.
Lemma SR_emit_l b s t e : SR b s t -> SR b (emit e s) t.
Proof. intros []. constructor; assumption. Qed.
Lemma SR_emit_r b s t e : SR b s t -> SR b s (emit e t).
Proof. intros []. constructor; assumption. Qed.

(* the common structural setters *)
Lemma c_height h : commutes (set height (fun _ => h)). Proof. intros x; reflexivity. Qed.
Lemma c_hAdj h : commutes (set hAdj (fun _ => h)). Proof. intros x; reflexivity. Qed.
Lemma c_parents g : commutes (set parents g). Proof. intros x; reflexivity. Qed.
Lemma c_children g : commutes (set children g). Proof. intros x; reflexivity. Qed.
Lemma c_observers g : commutes (set observers g). Proof. intros x; reflexivity. Qed.
Lemma c_inGraph v : commutes (set inGraph (fun _ => v)). Proof. intros x; reflexivity. Qed.
Lemma c_forceNec v : commutes (set forceNec (fun _ => v)). Proof. intros x; reflexivity. Qed.
Lemma c_decl g : commutes (set decl g). Proof. intros x; reflexivity. Qed.
Lemma c_zero : commutes zero_fields. Proof. intros x; reflexivity. Qed.
Lemma i_setAt v : invisible (set setAt (fun _ => v)). Proof. intros x; reflexivity. Qed.
Lemma i_value v : invisible (set value (fun _ => v)). Proof. intros x; reflexivity. Qed.

Lemma SR_link b s t c p : SR b s t -> SR b (link s c p) (link t c p).
Proof. intros R. unfold link. apply SR_upd; [left; apply c_parents|]. apply SR_upd; [left; apply c_children|exact R]. Qed.
Lemma SR_unlink b s t c p : SR b s t -> SR b (unlink s c p) (unlink t c p).
Proof. intros R. unfold unlink. apply SR_upd; [left; apply c_children|]. apply SR_upd; [left; apply c_parents|exact R]. Qed.

Lemma SR_addNode b s t n : SR b s t -> SR b (addNode s n) (addNode t n).
Proof.
  intros R. unfold addNode. rewrite (sr_inGraph b s t R n). destruct (inGraph (nd t n)); [exact R|].
  pose proof (SR_upd b s t n _ (or_introl (c_inGraph true)) R) as R1. destruct R1. destruct R.
  constructor; cbn; try assumption; congruence.
Qed.

Lemma HB_upd t n f : (forall x, height (f x) = height x \/ 0 <= height (f x)) -> HB t -> HB (upd t n f).
Proof.
  intros Hf [I Q]. split; [exact I|]. intros m Hm. change (inHeap (upd t n f) m) with (inHeap t m) in Hm.
  rewrite nd_upd_gen. destruct (decide (m = n)) as [->|]; [|apply Q, Hm].
  specialize (Q n Hm). unfold nd in Q. destruct (nodes t !! n) as [x|]; cbn in *; [|exact Q].
  destruct (Hf x) as [->|?]; assumption.
Qed.

Lemma HRg_upd s n f : (forall x, -1 <= height x -> -1 <= height (f x)) -> HRg s -> HRg (upd s n f).
Proof.
  intros Hf H m. rewrite nd_upd_gen. destruct (decide (m = n)) as [->|]; [|apply H].
  specialize (H n). unfold nd in H. destruct (nodes s !! n); cbn in *; [apply Hf, H|exact H].
Qed.


(** * Heap operations *)
Lemma SR_heap_only b s t w w' :
  SR b s t -> (b = true -> forall m, Heap.mem w m = Heap.mem w' m) -> SR b (s <| heap := w |>) (t <| heap := w' |>).
Proof. intros [] H. constructor; assumption. Qed.

Lemma mem_add w n h w' m : Heap.add w n h = Ok w' -> Heap.mem w' m = (bool_decide (m = n) || Heap.mem w m).
Proof.
  unfold Heap.add. destruct (h <? 0) eqn:E; [discriminate|].
  destruct (if Heap.cnt w =? 0 then _ else _) as [mn mx]. intros [= <-]. unfold Heap.mem, Heap.hinOf; cbn.
  destruct (decide (m = n)) as [->|Hne].
  - rewrite lookup_insert. rewrite (bool_decide_eq_true_2 (n = n)) by reflexivity. cbn. apply bool_decide_eq_true. apply Z.ltb_ge in E. unfold unset. lia.
  - rewrite lookup_insert_ne by congruence. rewrite (bool_decide_eq_false_2 (m = n)) by exact Hne. reflexivity.
Qed.

Lemma haip_right t n : HB t -> 0 <= height (nd t n) ->
  exists t', heapAddIfNotPresent t n = Ok t' /\ HB t' /\ (exists w, t' = t <| heap := w |>) /\
             forall m, inHeap t' m = (bool_decide (m = n) || inHeap t m).
Proof.
  intros [I Q] Hh. unfold heapAddIfNotPresent. destruct (inHeap t n) eqn:Em.
  - exists t. split; [reflexivity|]. split; [split; assumption|]. split; [exists (heap t); destruct t; reflexivity|].
    intros m. destruct (decide (m = n)) as [->|Hne]; [rewrite Em, bool_decide_eq_true_2 by reflexivity; reflexivity|].
    rewrite bool_decide_eq_false_2 by exact Hne. reflexivity.
  - destruct (heap_add_spec (heap t) n (height (nd t n)) I Em Hh) as (w & Ew & Iw & _ & _).
    exists (t <| heap := w |>). unfold heapAdd. rewrite Ew. split; [reflexivity|].
    assert (Hmem : forall m, inHeap (t <| heap := w |>) m = (bool_decide (m = n) || inHeap t m)) by (intros m; apply (mem_add _ _ _ _ m Ew)).
    split; [|split; [eauto|exact Hmem]]. split; [exact Iw|]. intros m Hm. rewrite Hmem in Hm.
    change (nd (t <| heap := w |>) m) with (nd t m). apply orb_true_iff in Hm as [Hm|Hm]; [apply bool_decide_eq_true in Hm; subst; exact Hh|apply Q, Hm].
Qed.

Lemma haip_left s n s' : heapAddIfNotPresent s n = Ok s' ->
  (exists w, s' = s <| heap := w |>) /\ forall m, inHeap s' m = (bool_decide (m = n) || inHeap s m).
Proof.
  unfold heapAddIfNotPresent. destruct (inHeap s n) eqn:Em.
  - intros [= <-]. split; [exists (heap s); destruct s; reflexivity|]. intros m.
    destruct (decide (m = n)) as [->|Hne]; [rewrite Em, bool_decide_eq_true_2 by reflexivity; reflexivity|].
    rewrite bool_decide_eq_false_2 by exact Hne. reflexivity.
  - intros H. pose proof (heapAdd_inHeap_eq s n s' ) as Hq. apply heapAdd_inv in H as (w & Hw & ->).
    split; [eauto|]. intros m. apply (mem_add _ _ _ _ m Hw).
Qed.

Lemma sim_haip b s t n s' : SR b s t -> HB t -> 0 <= height (nd t n) -> heapAddIfNotPresent s n = Ok s' ->
  exists t', heapAddIfNotPresent t n = Ok t' /\ SR b s' t' /\ HB t'.
Proof.
  intros R H Hh Hs. destruct (haip_left _ _ _ Hs) as ((w & ->) & Hms).
  destruct (haip_right t n H Hh) as (t' & Ht & H' & (w' & ->) & Hmt). exists (t <| heap := w' |>).
  split; [exact Ht|]. split; [|exact H']. apply SR_heap_only; [exact R|]. intros Hb m.
  change (inHeap (s <| heap := w |>) m = inHeap (t <| heap := w' |>) m). rewrite Hms, Hmt, (sr_heap _ _ _ R Hb m). reflexivity.
Qed.

(** a heap insertion guarded by a test the relation does not control (staleness): with [b = true]
    the tests agree; with [b = false] the heaps are unrelated anyway *)
Lemma sim_guard_add b s t n (cs ct : bool) s' e : SR b s t -> HB t -> (b = true -> cs = ct) ->
  0 <= height (nd t n) ->
  (if cs then lift (heapAddIfNotPresent s n) else ok s) = Ok (s', e) ->
  exists t', (if ct then lift (heapAddIfNotPresent t n) else ok t) = Ok (t', e) /\ SR b s' t' /\ HB t'.
Proof.
  intros R H Hc Hh Hs. destruct b.
  - rewrite <- (Hc eq_refl). destruct cs.
    + apply lift_inv in Hs as [Hs ->]. destruct (sim_haip true s t n s' R H Hh Hs) as (t' & Ht & R' & H').
      exists t'. unfold lift. rewrite Ht. auto.
    + apply ok_inv in Hs as [-> ->]. exists t. auto.
  - assert (Rs : SR false s' t /\ e = None).
    { destruct cs; [apply lift_inv in Hs as [Hs ->]; destruct (haip_left _ _ _ Hs) as ((w & ->) & _)|apply ok_inv in Hs as [-> ->]]; split; auto.
      destruct R. constructor; try assumption. discriminate. }
    destruct Rs as [Rs ->]. destruct ct; [|exists t; auto].
    destruct (haip_right t n H Hh) as (t' & Ht & H' & (w' & ->) & _). exists (t <| heap := w' |>).
    unfold lift. rewrite Ht. split; [reflexivity|]. split; [|exact H'].
    destruct Rs. constructor; try assumption. discriminate.
Qed.

Lemma mem_remove w n w' m : Heap.remove w n = Ok w' -> Heap.mem w' m = (negb (bool_decide (m = n)) && Heap.mem w m).
Proof.
  intros H. pose proof (heapRemove_inHeap_eq (init 0 <| heap := w |>) n (init 0 <| heap := w' |>) m) as X.
  apply X. unfold heapRemove. cbn. rewrite H. reflexivity.
Qed.

(** the guarded removal of zeroNode *)
Lemma sim_guard_remove b s t n s1 : SR b s t -> HB t ->
  (if inHeap s n then heapRemove s n else Ok s) = Ok s1 ->
  exists t1, (if inHeap t n then heapRemove t n else Ok t) = Ok t1 /\ SR b s1 t1 /\ HB t1 /\
             inHeap t1 n = false /\ (forall m, nd t1 m = nd t m).
Proof.
  intros R [I Q] Hs.
  assert (HA : exists w, s1 = s <| heap := w |> /\ forall m, Heap.mem w m = if inHeap s n then negb (bool_decide (m = n)) && inHeap s m else inHeap s m).
  { destruct (inHeap s n) eqn:Em.
    - apply heapRemove_inv in Hs as (w & Hw & ->). exists w. split; [reflexivity|]. intros m. apply (mem_remove _ _ _ m Hw).
    - injection Hs as <-. exists (heap s). split; [destruct s; reflexivity|reflexivity]. }
  destruct HA as (w & -> & Hmw).
  assert (HBt : exists w', (if inHeap t n then heapRemove t n else Ok t) = Ok (t <| heap := w' |>) /\ HeapSpec.inv w' /\
                 forall m, Heap.mem w' m = if inHeap t n then negb (bool_decide (m = n)) && inHeap t m else inHeap t m).
  { destruct (inHeap t n) eqn:Em.
    - destruct (heap_remove_spec (heap t) n I Em) as (w' & Ew & Iw & _ & _). exists w'. unfold heapRemove. rewrite Ew.
      split; [reflexivity|]. split; [exact Iw|]. intros m. apply (mem_remove _ _ _ m Ew).
    - exists (heap t). split; [destruct t; reflexivity|]. split; [exact I|reflexivity]. }
  destruct HBt as (w' & Ht & Iw & Hmw'). exists (t <| heap := w' |>). split; [exact Ht|].
  split; [|split; [|split]].
  - apply SR_heap_only; [exact R|]. intros Hb m. rewrite Hmw, Hmw', !(sr_heap _ _ _ R Hb). reflexivity.
  - split; [exact Iw|]. intros m Hm. change (Heap.mem w' m = true) in Hm. rewrite Hmw' in Hm.
    change (nd (t <| heap := w' |>) m) with (nd t m). apply Q.
    destruct (inHeap t n); [apply andb_true_iff in Hm as [_ Hm]|]; exact Hm.
  - change (Heap.mem w' n = false). rewrite Hmw'. destruct (inHeap t n) eqn:Em; [|reflexivity].
    rewrite bool_decide_eq_true_2 by reflexivity. reflexivity.
  - reflexivity.
Qed.

(** the guarded fix of adjustLoop *)
Lemma sim_guard_fix b s t n s1 : SR b s t -> HB t ->
  (if inHeap s n then heapFix s n else Ok s) = Ok s1 ->
  exists t1, (if inHeap t n then heapFix t n else Ok t) = Ok t1 /\ SR b s1 t1 /\ HB t1 /\ (forall m, nd t1 m = nd t m) /\ (forall m, nd s1 m = nd s m).
Proof.
  intros R [I Q] Hs.
  assert (HA : exists w, s1 = s <| heap := w |> /\ forall m, Heap.mem w m = inHeap s m).
  { destruct (inHeap s n) eqn:Em.
    - destruct (heapFix_mem s n s1 Em Hs) as [O Hm]. exists (heap s1). split; [exact O|exact Hm].
    - injection Hs as <-. exists (heap s). split; [destruct s; reflexivity|reflexivity]. }
  destruct HA as (w & -> & Hmw).
  assert (HBt : exists w', (if inHeap t n then heapFix t n else Ok t) = Ok (t <| heap := w' |>) /\ HeapSpec.inv w' /\
                 forall m, Heap.mem w' m = inHeap t m).
  { destruct (inHeap t n) eqn:Em.
    - destruct (heap_fix_spec (heap t) n (height (nd t n)) I Em (Q n Em)) as (w' & Ew & Iw & _ & _).
      exists w'. unfold heapFix. rewrite Ew. split; [reflexivity|]. split; [exact Iw|].
      assert (Hf : heapFix t n = Ok (t <| heap := w' |>)) by (unfold heapFix; rewrite Ew; reflexivity).
      intros m. apply (proj2 (heapFix_mem t n _ Em Hf) m).
    - exists (heap t). split; [destruct t; reflexivity|]. split; [exact I|reflexivity]. }
  destruct HBt as (w' & Ht & Iw & Hmw'). exists (t <| heap := w' |>). split; [exact Ht|].
  split; [|split; [|split; reflexivity]].
  - apply SR_heap_only; [exact R|]. intros Hb m. rewrite Hmw, Hmw'. apply (sr_heap _ _ _ R Hb).
  - split; [exact Iw|]. intros m Hm. change (Heap.mem w' m = true) in Hm. rewrite Hmw' in Hm. apply Q, Hm.
Qed.


Definition Pos (s s' : state) : Prop := forall m, 0 <= height (nd s m) -> 0 <= height (nd s' m).
Lemma Pos_refl s : Pos s s. Proof. intros m H; exact H. Qed.
Lemma Pos_trans s1 s2 s3 : Pos s1 s2 -> Pos s2 s3 -> Pos s1 s3. Proof. intros A B m H. apply B, A, H. Qed.

Definition QH (s : state) : Prop := forall m, inHeap s m = true -> 0 <= height (nd s m).
Record Good (b : bool) (s t : state) : Prop := { g_sr : SR b s t; g_hb : HB t; g_hr : HRg s; g_qa : QH s }.

Lemma QH_upd s n f : (forall x, height (f x) = height x \/ 0 <= height (f x)) -> QH s -> QH (upd s n f).
Proof.
  intros Hf Q m Hm. change (inHeap (upd s n f) m) with (inHeap s m) in Hm.
  rewrite nd_upd_gen. destruct (decide (m = n)) as [->|]; [|apply Q, Hm].
  specialize (Q n Hm). unfold nd in Q. destruct (nodes s !! n) as [x|]; cbn in *; [|exact Q].
  destruct (Hf x) as [->|?]; assumption.
Qed.

Lemma QH_same s s' : (forall m, inHeap s' m = inHeap s m) -> (forall m, height (nd s' m) = height (nd s m)) -> QH s -> QH s'.
Proof. intros A B Q m Hm. rewrite B. apply Q. rewrite <- A. exact Hm. Qed.

Lemma QH_haip s n s' : QH s -> heapAddIfNotPresent s n = Ok s' -> QH s' /\ 0 <= height (nd s n).
Proof.
  intros Q H. unfold heapAddIfNotPresent in H. destruct (inHeap s n) eqn:Em.
  - injection H as <-. split; [exact Q|apply Q, Em].
  - apply heapAdd_inv in H as (w & Hw & ->).
    assert (Hh : 0 <= height (nd s n)).
    { unfold Heap.add in Hw. destruct (height (nd s n) <? 0) eqn:E; [discriminate|]. apply Z.ltb_ge in E. exact E. }
    split; [|exact Hh]. intros m Hm. change (Heap.mem w m = true) in Hm. rewrite (mem_add _ _ _ _ m Hw) in Hm.
    change (nd (s <| heap := w |>) m) with (nd s m). apply orb_true_iff in Hm as [Hm|Hm]; [apply bool_decide_eq_true in Hm; subst; exact Hh|apply Q, Hm].
Qed.


Lemma ebind_none (m : M) (k : state -> M) s' :
  ebind m k = Ok (s', None) -> exists s1, m = Ok (s1, None) /\ k s1 = Ok (s', None).
Proof.
  intros H. apply ebind_inv in H as (s1 & e1 & E & [[-> H]|(Hne & _ & He)]); [eauto|congruence].
Qed.

Lemma efold_sim {A} (P : state -> state -> Prop) (f : state -> A -> M) l :
  (forall s t a s', a ∈ l -> P s t -> f s a = Ok (s', None) -> exists t', f t a = Ok (t', None) /\ P s' t') ->
  forall s t s', P s t -> efold f l s = Ok (s', None) -> exists t', efold f l t = Ok (t', None) /\ P s' t'.
Proof.
  induction l as [|a l IH]; intros Hf s t s' HP H.
  - apply ok_inv in H as [-> _]. exists t. auto.
  - cbn [efold] in *. apply ebind_none in H as (s1 & H1 & H).
    destruct (Hf s t a s1 ltac:(left) HP H1) as (t1 & G1 & P1). rewrite G1. cbn.
    apply (IH (fun s t a s' Ha => Hf s t a s' ltac:(right; exact Ha)) s1 t1 s' P1 H).
Qed.

Lemma rfold_sim {A} (P : state -> state -> Prop) (f : state -> A -> res state) l :
  (forall s t a s', a ∈ l -> P s t -> f s a = Ok s' -> exists t', f t a = Ok t' /\ P s' t') ->
  forall s t s', P s t -> rfold f l s = Ok s' -> exists t', rfold f l t = Ok t' /\ P s' t'.
Proof.
  induction l as [|a l IH]; intros Hf s t s' HP H.
  - injection H as <-. exists t. auto.
  - cbn [rfold] in *. apply rbind_ok in H as (s1 & H1 & H).
    destruct (Hf s t a s1 ltac:(left) HP H1) as (t1 & G1 & P1). rewrite G1. cbn.
    apply (IH (fun s t a s' Ha => Hf s t a s' ltac:(right; exact Ha)) s1 t1 s' P1 H).
Qed.

Lemma Good_adj b s t a : Good b s t -> Good b (s <| adj := a |>) (t <| adj := a |>).
Proof. intros [[] H Hr Q]. split; [constructor; try assumption; reflexivity|exact H|exact Hr|exact Q]. Qed.

Lemma sim_setHeight b s t n h s' : Good b s t -> 0 <= h -> setHeight s n h = Ok (s', None) ->
  exists t', setHeight t n h = Ok (t', None) /\ Good b s' t' /\ Pos s s' /\
             (has s n -> height (nd s' n) = h) /\ (forall m, m <> n -> nd s' m = nd s m).
Proof.
  intros G Hh H. unfold setHeight in *. pose proof (g_sr _ _ _ G) as R.
  rewrite <- (sr_maxHeight _ _ _ R), <- (sr_adj _ _ _ R).
  destruct (h >? maxHeight s - 1); [discriminate|].
  apply ok_inv in H as [-> _].
  set (s1 := if h >? a_maxSeen (adj s) then s <| adj := adj s <| a_maxSeen := h |> |> else s).
  set (t1 := if h >? a_maxSeen (adj s) then t <| adj := adj s <| a_maxSeen := h |> |> else t).
  assert (G1 : Good b s1 t1).
  { unfold s1, t1. destruct (h >? a_maxSeen (adj s)); [|exact G]. apply Good_adj, G. }
  assert (Hnd1 : forall m, nd s1 m = nd s m) by (intros m; unfold s1; destruct (_ >? _); reflexivity).
  assert (Hhas1 : has s1 n <-> has s n) by (unfold s1; destruct (_ >? _); reflexivity).
  exists (upd t1 n (set height (fun _ => h))). split; [reflexivity|]. split; [|split; [|split]].
  - destruct G1 as [R1 H1 Hr1 Q1]. split.
    + apply SR_upd; [left; apply c_height|exact R1].
    + apply HB_upd; [intros x; right; exact Hh|exact H1].
    + apply HRg_upd; [intros x _; cbn; lia|exact Hr1].
    + apply QH_upd; [intros x; right; exact Hh|exact Q1].
  - intros m Hm. rewrite nd_upd_gen. destruct (decide (m = n)) as [->|]; [|rewrite Hnd1; exact Hm].
    rewrite <- (Hnd1 n) in Hm. unfold nd in *. destruct (nodes s1 !! n); cbn in *; [exact Hh|exact Hm].
  - intros Hn. rewrite nd_upd_eq by (apply Hhas1, Hn). reflexivity.
  - intros m Hm. rewrite nd_upd_ne by exact Hm. apply Hnd1.
Qed.


Lemma existsb_ext' {A} (f g : A -> bool) l : (forall x, f x = g x) -> existsb f l = existsb g l.
Proof. intros H. induction l as [|a l IH]; [reflexivity|]. cbn. rewrite H, IH. reflexivity. Qed.

Lemma isStale_nd_ext s t n : (forall m, nd s m = nd t m) -> isStale s n = isStale t n.
Proof.
  intros Hnd. unfold isStale, staleWrtParents. rewrite Hnd.
  rewrite (existsb_ext' _ (fun p => changedAt (nd t p) >? recomputedAt (nd t n))) by (intros p; rewrite Hnd; reflexivity).
  reflexivity.
Qed.

Lemma Good_link b s t c p : Good b s t -> Good b (link s c p) (link t c p).
Proof.
  intros [R H Hr Q]. split; [apply SR_link, R| | |].
  - unfold link. apply HB_upd; [intros x; left; reflexivity|]. apply HB_upd; [intros x; left; reflexivity|exact H].
  - unfold link. apply HRg_upd; [intros x Hx; exact Hx|]. apply HRg_upd; [intros x Hx; exact Hx|exact Hr].
  - unfold link. apply QH_upd; [intros x; left; reflexivity|]. apply QH_upd; [intros x; left; reflexivity|exact Q].
Qed.

Lemma Good_invq b s t q : Good b s t -> Good b (s <| invq := q |>) (t <| invq := q |>).
Proof. intros [[] H Hr Q]. split; [constructor; try assumption; reflexivity|exact H|exact Hr|exact Q]. Qed.

Lemma Good_emit b s t e : Good b s t -> Good b (emit e s) (emit e t).
Proof. intros [R H Hr Q]. split; [apply SR_emit, R|exact H|exact Hr|exact Q]. Qed.

Lemma Good_addNode b s t n : Good b s t -> Good b (addNode s n) (addNode t n).
Proof.
  intros [R H Hr Q]. split; [apply SR_addNode, R| | |].
  - unfold addNode. destruct (inGraph (nd t n)); [exact H|].
    apply (HB_upd t n (set inGraph (fun _ => true))) in H; [|intros x; left; reflexivity]. exact H.
  - unfold addNode. destruct (inGraph (nd s n)); [exact Hr|].
    apply (HRg_upd s n (set inGraph (fun _ => true))) in Hr; [|intros x Hx; exact Hx]. exact Hr.
  - unfold addNode. destruct (inGraph (nd s n)); [exact Q|].
    apply (QH_upd s n (set inGraph (fun _ => true))) in Q; [|intros x; left; reflexivity]. exact Q.
Qed.

Lemma Pos_same s s' : (forall m, height (nd s' m) = height (nd s m)) -> Pos s s'.
Proof. intros H m. rewrite H. auto. Qed.

Lemma height_link s c p m : height (nd (link s c p) m) = height (nd s m).
Proof. unfold link. rewrite !(nd_upd_proj height) by reflexivity. reflexivity. Qed.

Lemma height_addNode s n m : height (nd (addNode s n) m) = height (nd s m).
Proof.
  unfold addNode. destruct (inGraph (nd s n)); [reflexivity|].
  change (height (nd (upd s n (set inGraph (fun _ => true))) m) = height (nd s m)). apply (nd_upd_proj height). reflexivity.
Qed.

Lemma HRg_same s s' : (forall m, height (nd s' m) = height (nd s m)) -> HRg s -> HRg s'.
Proof. intros A H m. rewrite A. apply H. Qed.

(** a guarded insertion at the end of an operation *)
Lemma sim_final_add b s t n (cs ct : bool) s' : Good b s t -> (b = true -> cs = ct) ->
  (cs = false -> ct = true -> 0 <= height (nd s n)) ->
  (if cs then lift (heapAddIfNotPresent s n) else ok s) = Ok (s', None) ->
  exists t', (if ct then lift (heapAddIfNotPresent t n) else ok t) = Ok (t', None) /\ Good b s' t' /\
             (forall m, nd s' m = nd s m).
Proof.
  intros [R H Hr Q] Hc Hh Hs.
  assert (HA : QH s' /\ (forall m, nd s' m = nd s m) /\ (cs = true -> 0 <= height (nd s n))).
  { destruct cs.
    - apply lift_inv in Hs as [Hs _]. destruct (QH_haip s n s' Q Hs) as [Q' Hn].
      destruct (haip_left _ _ _ Hs) as ((w & ->) & _). split; [exact Q'|]. split; [reflexivity|auto].
    - apply ok_inv in Hs as [-> _]. split; [exact Q|]. split; [reflexivity|discriminate]. }
  destruct HA as (Q' & Hnd & Hcs).
  assert (Hr' : HRg s') by (apply (HRg_same s s'); [intros m; rewrite Hnd; reflexivity|exact Hr]).
  destruct cs eqn:Ecs, ct eqn:Ect.
  - destruct (sim_guard_add b s t n true true s' None R H ltac:(reflexivity)) as (t' & Ht & R' & H'); [rewrite <- (sr_height _ _ _ R); auto|exact Hs|].
    exists t'. split; [exact Ht|]. split; [split; assumption|exact Hnd].
  - destruct (sim_guard_add b s t n true false s' None R H) as (t' & Ht & R' & H'); [exact Hc|rewrite <- (sr_height _ _ _ R); auto|exact Hs|].
    exists t'. split; [exact Ht|]. split; [split; assumption|exact Hnd].
  - destruct (sim_guard_add b s t n false true s' None R H) as (t' & Ht & R' & H'); [exact Hc|rewrite <- (sr_height _ _ _ R); auto|exact Hs|].
    exists t'. split; [exact Ht|]. split; [split; assumption|exact Hnd].
  - apply ok_inv in Hs as [-> _]. exists t. split; [reflexivity|]. split; [split; assumption|reflexivity].
Qed.

Lemma isStale_dummy s n : ~ has s n -> isStale s n = true.
Proof.
  intros Hn. unfold isStale. assert (nd s n = dummy) as ->; [|reflexivity].
  unfold nd, has in *. destruct (nodes s !! n); [exfalso; eauto|reflexivity].
Qed.

(** becoming necessary *)
Lemma sim_BNR b fuel : forall s t n s', Good b s t -> becameNecessaryRecursive fuel s n = Ok (s', None) ->
  exists t', becameNecessaryRecursive fuel t n = Ok (t', None) /\ Good b s' t' /\ Pos s s'.
Proof.
  induction fuel as [|fuel IH]; intros s t n s' G H; [discriminate|].
  pose proof (BN_spec _ _ _ _ _ H) as [Gfr _].
  cbn [becameNecessaryRecursive] in *. pose proof (g_sr _ _ _ G) as R.
  rewrite <- (sr_inGraph _ _ _ R n).
  set (s1 := if inGraph (nd s n) then addNode s n else emit (EvNec n) (addNode s n)) in *.
  set (t1 := if inGraph (nd s n) then addNode t n else emit (EvNec n) (addNode t n)).
  assert (G1 : Good b s1 t1) by (unfold s1, t1; destruct (inGraph (nd s n)); [apply Good_addNode, G|apply Good_emit, Good_addNode, G]).
  assert (Hh1 : forall m, height (nd s1 m) = height (nd s m)).
  { intros m. unfold s1. destruct (inGraph (nd s n)); [apply height_addNode|apply (height_addNode s n m)]. }
  assert (Hhas1 : has s1 n <-> has s n).
  { unfold s1. destruct (inGraph (nd s n)); [apply has_addNode|]. rewrite has_emit. apply has_addNode. }
  pose proof (g_sr _ _ _ G1) as R1.
  apply ebind_none in H as (s2 & H2 & H).
  assert (Hsh : 0 <= scopeHeight s1 (scope (nd s1 n)) + 1).
  { destruct (scope (nd s1 n)) as [bb|]; cbn; [pose proof (g_hr _ _ _ G1 bb); lia|unfold unset; lia]. }
  rewrite <- (sr_scope _ _ _ R1 n), <- (sr_scopeHeight _ _ _ R1).
  destruct (sim_setHeight b s1 t1 n _ s2 G1 Hsh H2) as (t2 & E2 & G2 & P2 & Hn2 & Ho2). rewrite E2. cbn [ebind rbind].
  apply ebind_none in H as (s3 & H3 & H).
  set (P := fun s t => Good b s t /\ Pos s2 s).
  assert (Hloop : exists t3, efold (fun s p =>
            let wasNec := isNecessary (nd s p) in let s := link s n p in
            let s := if valid (nd s p) then s else s <| invq := invq s ++ [n] |> in
            s <-? (if wasNec then ok s else becameNecessaryRecursive fuel s p);
            if height (nd s p) >=? height (nd s n) then setHeight s n (height (nd s p) + 1) else ok s)
          (decl (nd t2 n)) t2 = Ok (t3, None) /\ P s3 t3).
  { rewrite <- (sr_decl _ _ _ (g_sr _ _ _ G2) n).
    refine (efold_sim P _ (decl (nd s2 n)) _ s2 t2 s3 (conj G2 (Pos_refl _)) H3).
    intros sa ta p sa' _ [Ga Pa] Ha. cbv zeta in *. pose proof (g_sr _ _ _ Ga) as Ra.
    rewrite <- (sr_isNecessary _ _ _ Ra p).
    set (sb := link sa n p) in *. set (tb := link ta n p).
    assert (Gb : Good b sb tb) by (apply Good_link, Ga).
    rewrite <- (sr_valid _ _ _ (g_sr _ _ _ Gb) p).
    set (sc := if valid (nd sb p) then sb else sb <| invq := invq sb ++ [n] |>) in *.
    set (tc := if valid (nd sb p) then tb else tb <| invq := invq tb ++ [n] |>).
    assert (Gc : Good b sc tc).
    { unfold sc, tc. destruct (valid (nd sb p)); [exact Gb|]. rewrite <- (sr_invq _ _ _ (g_sr _ _ _ Gb)). apply Good_invq, Gb. }
    assert (Pc : Pos sa sc).
    { apply Pos_same. intros m. unfold sc. destruct (valid (nd sb p)); apply height_link. }
    apply ebind_none in Ha as (sd & Hd & Ha).
    assert (Hrec : exists td, (if isNecessary (nd sa p) then ok tc else becameNecessaryRecursive fuel tc p) = Ok (td, None)
                              /\ Good b sd td /\ Pos sc sd).
    { destruct (isNecessary (nd sa p)).
      - apply ok_inv in Hd as [-> _]. exists tc. split; [reflexivity|]. split; [exact Gc|apply Pos_refl].
      - apply (IH sc tc p sd Gc Hd). }
    destruct Hrec as (td & Ed & Gd & Pd). rewrite Ed. cbn [ebind rbind].
    pose proof (g_sr _ _ _ Gd) as Rd. rewrite <- !(sr_height _ _ _ Rd).
    destruct (height (nd sd p) >=? height (nd sd n)) eqn:Ege.
    - assert (Hp : 0 <= height (nd sd p) + 1) by (pose proof (g_hr _ _ _ Gd p); lia).
      destruct (sim_setHeight b sd td n _ sa' Gd Hp Ha) as (te & Ee & Ge & Pe & _).
      exists te. split; [exact Ee|]. split; [exact Ge|]. eapply Pos_trans; [exact Pa|]. eapply Pos_trans; [exact Pc|]. eapply Pos_trans; eassumption.
    - apply ok_inv in Ha as [-> _]. exists td. split; [reflexivity|]. split; [exact Gd|].
      eapply Pos_trans; [exact Pa|]. eapply Pos_trans; eassumption. }
  destruct Hloop as (t3 & E3 & G3 & P3). cbv zeta in E3. rewrite E3. cbn [ebind rbind].
  assert (P13 : Pos s s3).
  { eapply Pos_trans; [apply (Pos_same s s1 Hh1)|]. eapply Pos_trans; eassumption. }
  destruct (sim_final_add b s3 t3 n (isStale s3 n) (isStale t3 n) s' G3) as (t' & Ht & G' & Hnd').
  - intros Hb. apply isStale_nd_ext. intros m. apply (sr_nd_true _ _ _ (g_sr _ _ _ G3) Hb).
  - intros Est _. destruct (decide (has s n)) as [Hhas|Hno].
    + apply P3. rewrite (Hn2 (proj2 Hhas1 Hhas)). exact Hsh.
    + exfalso. rewrite Est in H. apply ok_inv in H as [-> _].
      rewrite isStale_dummy in Est; [discriminate|]. intros Hc. apply Hno, (g_has _ _ Gfr n), Hc.
  - exact H.
  - exists t'. split; [exact Ht|]. split; [exact G'|]. eapply Pos_trans; [exact P13|]. apply Pos_same. intros m. rewrite Hnd'. reflexivity.
Qed.


Lemma opFuel_SR b s t : SR b s t -> opFuel s = opFuel t.
Proof. intros R. unfold opFuel. rewrite (sr_next _ _ _ R), (sr_maxHeight _ _ _ R). reflexivity. Qed.

Lemma sim_propInv_nil b fuel s t s' : Good b s t -> invq s = [] -> lift (propagateInvalidity fuel s) = Ok (s', None) ->
  lift (propagateInvalidity fuel t) = Ok (t, None) /\ s' = s.
Proof.
  intros G Hi H. apply lift_inv in H as [H _]. pose proof (propagateInvalidity_nil _ _ _ Hi H) as ->. split; [|reflexivity].
  destruct fuel; [discriminate|]. cbn. rewrite <- (sr_invq _ _ _ (g_sr _ _ _ G)), Hi. reflexivity.
Qed.

(** ** Observe *)
Lemma sim_observe b s t n s' : Good b s t -> (forall m, valid (nd s m) = true) -> invq s = [] ->
  observe s n = Ok (s', None) -> exists t', observe t n = Ok (t', None) /\ Good b s' t'.
Proof.
  intros G Hv Hi H. unfold observe in *. pose proof (g_sr _ _ _ G) as R.
  rewrite <- (sr_next _ _ _ R), <- (sr_obs _ _ _ R), <- (sr_numNodes _ _ _ R).
  set (s1 := s <| next := S (next s) |> <| obs := <[next s := n]> (obs s) |> <| numNodes := numNodes s + 1 |>) in *.
  set (t1 := t <| next := S (next s) |> <| obs := <[next s := n]> (obs s) |> <| numNodes := numNodes s + 1 |>).
  assert (G1 : Good b s1 t1).
  { destruct G as [[] Hb Hr Q]. split; [constructor; cbn; try assumption; reflexivity|exact Hb|exact Hr|exact Q]. }
  change (nd t1 n) with (nd t n). change (nd s1 n) with (nd s n) in H. rewrite <- (sr_isNecessary _ _ _ R n).
  set (s2 := upd s1 n (set observers (fun l => l ++ [next s]))) in *.
  set (t2 := upd t1 n (set observers (fun l => l ++ [next s]))).
  assert (G2 : Good b s2 t2).
  { destruct G1 as [R1 Hb1 Hr1 Q1]. split.
    - apply SR_upd; [left; apply c_observers|exact R1].
    - apply HB_upd; [intros x; left; reflexivity|exact Hb1].
    - apply HRg_upd; [intros x Hx; exact Hx|exact Hr1].
    - apply QH_upd; [intros x; left; reflexivity|exact Q1]. }
  destruct (isNecessary (nd s n)).
  - apply ok_inv in H as [-> _]. exists t2. split; [reflexivity|exact G2].
  - apply ebind_none in H as (s3 & H3 & H). rewrite <- (opFuel_SR _ _ _ (g_sr _ _ _ G2)).
    destruct (sim_BNR b _ s2 t2 n s3 G2 H3) as (t3 & E3 & G3 & _). rewrite E3. cbn [ebind rbind].
    destruct (BN_spec _ _ _ _ _ H3) as [Gfr _].
    assert (Hi3 : invq s3 = []).
    { apply (g_invq _ _ Gfr); [|exact Hi]. intros m. unfold s2. rewrite (nd_upd_proj valid) by reflexivity. apply Hv. }
    rewrite <- (opFuel_SR _ _ _ (g_sr _ _ _ G3)).
    destruct (sim_propInv_nil b _ s3 t3 s' G3 Hi3 H) as [Et ->]. exists t3. split; [exact Et|exact G3].
Qed.

(** ** Teardown *)
Lemma guard_remove_left s n s1 : (if inHeap s n then heapRemove s n else Ok s) = Ok s1 ->
  (exists w, s1 = s <| heap := w |>) /\
  forall m, inHeap s1 m = if inHeap s n then negb (bool_decide (m = n)) && inHeap s m else inHeap s m.
Proof.
  intros Hs. destruct (inHeap s n) eqn:Em.
  - apply heapRemove_inv in Hs as (w & Hw & ->). split; [eauto|]. intros m. apply (mem_remove _ _ _ m Hw).
  - injection Hs as <-. split; [exists (heap s); destruct s; reflexivity|reflexivity].
Qed.

Lemma HB_upd_out t n f : inHeap t n = false -> HB t -> HB (upd t n f).
Proof.
  intros Hn [I Q]. split; [exact I|]. intros m Hm. change (inHeap (upd t n f) m) with (inHeap t m) in Hm.
  rewrite nd_upd_gen. destruct (decide (m = n)) as [->|]; [congruence|apply Q, Hm].
Qed.
Lemma QH_upd_out t n f : inHeap t n = false -> QH t -> QH (upd t n f).
Proof.
  intros Hn Q m Hm. change (inHeap (upd t n f) m) with (inHeap t m) in Hm.
  rewrite nd_upd_gen. destruct (decide (m = n)) as [->|]; [congruence|apply Q, Hm].
Qed.

Lemma sim_zeroNode b s t n s' : Good b s t -> zeroNode s n = Ok s' ->
  exists t', zeroNode t n = Ok t' /\ Good b s' t'.
Proof.
  intros [R Hb Hr Q] H. apply zeroNode_inv in H as (s1 & H1 & ->).
  destruct (sim_guard_remove b s t n s1 R Hb H1) as (t1 & E1 & R1 & Hb1 & Hn1 & Hnd1).
  destruct (guard_remove_left s n s1 H1) as ((w & ->) & Hm1).
  unfold zeroNode. rewrite E1. cbn [rbind]. eexists. split; [reflexivity|].
  assert (HnA : inHeap (s <| heap := w |>) n = false).
  { rewrite Hm1. destruct (inHeap s n) eqn:Em; [|reflexivity]. rewrite bool_decide_eq_true_2 by reflexivity. reflexivity. }
  assert (Q1 : QH (s <| heap := w |>)).
  { intros m Hm. rewrite Hm1 in Hm. change (nd (s <| heap := w |>) m) with (nd s m). apply Q.
    destruct (inHeap s n); [apply andb_true_iff in Hm as [_ Hm]|]; exact Hm. }
  set (sa := s <| heap := w |>) in *.
  rewrite <- (sr_numNodes _ _ _ R1), <- (sr_handlers _ _ _ R1), <- (sr_setDuring _ _ _ R1), <- (sr_setRemoved _ _ _ R1).
  split.
  - change (upd ?x n ?f) with (upd x n zero_fields). apply SR_upd; [left; apply c_zero|].
    destruct R1. constructor; cbn; try assumption; reflexivity.
  - apply HB_upd_out; [exact Hn1|exact Hb1].
  - apply HRg_upd; [intros x _; cbn; unfold unset; lia|exact Hr].
  - apply QH_upd_out; [exact HnA|exact Q1].
Qed.

Lemma sim_removeNode b s t n s' : Good b s t -> removeNode s n = Ok s' ->
  exists t', removeNode t n = Ok t' /\ Good b s' t'.
Proof.
  intros G H. unfold removeNode in *. pose proof (g_sr _ _ _ G) as R. rewrite <- (sr_inGraph _ _ _ R n), <- (sr_reg _ _ _ R).
  refine (sim_zeroNode b _ _ n s' _ H).
  destruct (inGraph (nd s n)); [|exact G]. destruct G as [R0 Hb Hr Q]. split.
  - pose proof (SR_upd b s t n _ (or_introl (c_inGraph false)) R0) as R1. destruct R1. constructor; cbn; try assumption; reflexivity.
  - apply (HB_upd t n (set inGraph (fun _ => false))); [intros x; left; reflexivity|exact Hb].
  - apply (HRg_upd s n (set inGraph (fun _ => false))); [intros x Hx; exact Hx|exact Hr].
  - apply (QH_upd s n (set inGraph (fun _ => false))); [intros x; left; reflexivity|exact Q].
Qed.

Lemma Good_unlink b s t c p : Good b s t -> Good b (unlink s c p) (unlink t c p).
Proof.
  intros [R H Hr Q]. split; [apply SR_unlink, R| | |]; unfold unlink.
  - apply HB_upd; [intros x; left; reflexivity|]. apply HB_upd; [intros x; left; reflexivity|exact H].
  - apply HRg_upd; [intros x Hx; exact Hx|]. apply HRg_upd; [intros x Hx; exact Hx|exact Hr].
  - apply QH_upd; [intros x; left; reflexivity|]. apply QH_upd; [intros x; left; reflexivity|exact Q].
Qed.

Lemma sim_removeParents b fuel : forall s t c s', Good b s t -> removeParents fuel s c = Ok s' ->
  exists t', removeParents fuel t c = Ok t' /\ Good b s' t'.
Proof.
  induction fuel as [|fuel IH]; intros s t c s' G H; [discriminate|].
  cbn [removeParents] in *. rewrite <- (sr_decl _ _ _ (g_sr _ _ _ G) c).
  refine (rfold_sim (Good b) _ _ _ s t s' G H).
  intros sa ta p sa' _ Ga Ha. cbv zeta in *.
  pose proof (Good_unlink b sa ta c p Ga) as Gb. set (sb := unlink sa c p) in *. set (tb := unlink ta c p) in *.
  pose proof (g_sr _ _ _ Gb) as Rb. rewrite <- (sr_isNecessary _ _ _ Rb p), <- (sr_inGraph _ _ _ Rb p).
  destruct (isNecessary (nd sb p)); [injection Ha as <-; eauto|].
  destruct (inGraph (nd sb p)); cbn [negb] in *; [|injection Ha as <-; eauto].
  apply rbind_ok in Ha as (sc & Hc & Ha).
  destruct (IH _ _ p sc (Good_emit b sb tb (EvUnnec p) Gb) Hc) as (tc & Ec & Gc). rewrite Ec. cbn [rbind].
  apply (sim_removeNode b sc tc p sa' Gc Ha).
Qed.

Lemma sim_checkIfUnnecessary b fuel s t p s' : Good b s t -> checkIfUnnecessary fuel s p = Ok s' ->
  exists t', checkIfUnnecessary fuel t p = Ok t' /\ Good b s' t'.
Proof.
  intros G H. unfold checkIfUnnecessary in *. pose proof (g_sr _ _ _ G) as R.
  rewrite <- (sr_isNecessary _ _ _ R p), <- (sr_inGraph _ _ _ R p).
  destruct (isNecessary (nd s p)); [injection H as <-; eauto|].
  destruct (inGraph (nd s p)); cbn [negb] in *; [|injection H as <-; eauto].
  apply rbind_ok in H as (sc & Hc & H).
  destruct (sim_removeParents b fuel _ _ p sc (Good_emit b s t (EvUnnec p) G) Hc) as (tc & Ec & Gc). rewrite Ec. cbn [rbind].
  apply (sim_removeNode b sc tc p s' Gc H).
Qed.

Lemma sim_unobserve b s t o s' : Good b s t -> unobserve s o = Ok s' ->
  exists t', unobserve t o = Ok t' /\ Good b s' t'.
Proof.
  intros G H. unfold unobserve in *. pose proof (g_sr _ _ _ G) as R. rewrite <- (sr_obs _ _ _ R).
  destruct (obs s !! o) as [n|]; [|injection H as <-; eauto].
  rewrite <- (sr_numNodes _ _ _ R), <- (sr_handlers _ _ _ R).
  set (s1 := s <| obs := delete o (obs s) |> <| numNodes := numNodes s - 1 |> <| handlers := rm o (handlers s) |>) in *.
  set (t1 := t <| obs := delete o (obs s) |> <| numNodes := numNodes s - 1 |> <| handlers := rm o (handlers s) |>).
  assert (G1 : Good b s1 t1).
  { destruct G as [[] Hb Hr Q]. split; [constructor; cbn; try assumption; reflexivity|exact Hb|exact Hr|exact Q]. }
  set (s2 := upd s1 n (set observers (rm o))) in *. set (t2 := upd t1 n (set observers (rm o))).
  assert (G2 : Good b s2 t2).
  { destruct G1 as [R1 Hb1 Hr1 Q1]. split.
    - apply SR_upd; [left; apply c_observers|exact R1].
    - apply HB_upd; [intros x; left; reflexivity|exact Hb1].
    - apply HRg_upd; [intros x Hx; exact Hx|exact Hr1].
    - apply QH_upd; [intros x; left; reflexivity|exact Q1]. }
  rewrite <- (opFuel_SR _ _ _ (g_sr _ _ _ G2)). apply (sim_checkIfUnnecessary b _ s2 t2 n s' G2 H).
Qed.


(** ** adjustHeights *)
Definition Stp (s s' : state) : Prop := Pos s s' /\ invq s' = invq s.
Lemma Stp_refl s : Stp s s. Proof. split; [apply Pos_refl|reflexivity]. Qed.
Lemma Stp_trans s1 s2 s3 : Stp s1 s2 -> Stp s2 s3 -> Stp s1 s3.
Proof. intros [A1 A2] [B1 B2]. split; [eapply Pos_trans; eassumption|congruence]. Qed.

Lemma setHeight_invq s n h s' e : setHeight s n h = Ok (s', e) -> invq s' = invq s.
Proof.
  unfold setHeight. destruct (h >? maxHeight s - 1); [intros H; apply fail_inv in H as [-> _]; reflexivity|].
  intros H. apply ok_inv in H as [-> _]. destruct (h >? a_maxSeen (adj s)); reflexivity.
Qed.

Lemma sim_setHeight' b s t n h s' : Good b s t -> 0 <= h -> setHeight s n h = Ok (s', None) ->
  exists t', setHeight t n h = Ok (t', None) /\ Good b s' t' /\ Stp s s'.
Proof.
  intros G Hh H. destruct (sim_setHeight b s t n h s' G Hh H) as (t' & E & G' & P & _).
  exists t'. split; [exact E|]. split; [exact G'|]. split; [exact P|apply (setHeight_invq _ _ _ _ _ H)].
Qed.

Lemma Good_hAdj_adj b s t n h a : Good b s t ->
  Good b ((upd s n (set hAdj (fun _ => h))) <| adj := a |>) ((upd t n (set hAdj (fun _ => h))) <| adj := a |>).
Proof.
  intros [R Hb Hr Q]. apply Good_adj. split.
  - apply SR_upd; [left; apply c_hAdj|exact R].
  - apply HB_upd; [intros x; left; reflexivity|exact Hb].
  - apply HRg_upd; [intros x Hx; exact Hx|exact Hr].
  - apply QH_upd; [intros x; left; reflexivity|exact Q].
Qed.

Lemma Stp_hAdj_adj s n h a : Stp s ((upd s n (set hAdj (fun _ => h))) <| adj := a |>).
Proof.
  split; [|reflexivity]. apply Pos_same. intros m.
  change (height (nd (upd s n (set hAdj (fun _ => h))) m) = height (nd s m)). apply (nd_upd_proj height). reflexivity.
Qed.

Lemma sim_adjAdd b s t n s' : Good b s t -> adjAdd s n = Ok s' ->
  exists t', adjAdd t n = Ok t' /\ Good b s' t' /\ Stp s s'.
Proof.
  intros G H. unfold adjAdd in *. pose proof (g_sr _ _ _ G) as R.
  rewrite <- (sr_hAdj _ _ _ R n), <- (sr_height _ _ _ R n), <- (sr_adj _ _ _ R).
  destruct (negb (hAdj (nd s n) =? unset)); [injection H as <-; exists t; split; [reflexivity|]; split; [exact G|apply Stp_refl]|].
  destruct (height (nd s n) <? 0); [discriminate|].
  destruct (a_byHeight (adj s) !! Z.to_nat (height (nd s n))) as [q|]; [|discriminate].
  injection H as <-. eexists. split; [reflexivity|]. split; [apply Good_hAdj_adj, G|apply Stp_hAdj_adj].
Qed.

Lemma sim_EHR b s t o c p s' : Good b s t -> ensureHeightRequirement s o c p = Ok (s', None) ->
  exists t', ensureHeightRequirement t o c p = Ok (t', None) /\ Good b s' t' /\ Stp s s'.
Proof.
  intros G H. unfold ensureHeightRequirement in *. pose proof (g_sr _ _ _ G) as R.
  destruct (bool_decide (o = c)); [apply fail_inv in H as [_ H]; discriminate|].
  rewrite <- !(sr_height _ _ _ R).
  destruct (height (nd s p) >=? height (nd s c)).
  - apply ebind_none in H as (s1 & H1 & H). apply lift_inv in H1 as [H1 _].
    destruct (sim_adjAdd b s t c s1 G H1) as (t1 & E1 & G1 & S1). unfold lift at 1. rewrite E1. cbn [ebind rbind ok].
    assert (Hp : 0 <= height (nd s1 p) + 1) by (pose proof (g_hr _ _ _ G1 p); lia).
    rewrite <- (sr_height _ _ _ (g_sr _ _ _ G1) p).
    destruct (sim_setHeight' b s1 t1 c _ s' G1 Hp H) as (t' & E' & G' & S').
    exists t'. split; [exact E'|]. split; [exact G'|eapply Stp_trans; eassumption].
  - apply ok_inv in H as [-> _]. exists t. split; [reflexivity|]. split; [exact G|apply Stp_refl].
Qed.

Lemma sim_adjRemoveMin b s t o s' : Good b s t -> adjRemoveMin s = Ok (o, s') ->
  exists t', adjRemoveMin t = Ok (o, t') /\ Good b s' t' /\ Stp s s'.
Proof.
  intros G H. unfold adjRemoveMin in *. rewrite <- (sr_adj _ _ _ (g_sr _ _ _ G)).
  destruct (a_num (adj s) =? 0); [injection H as <- <-; exists t; split; [reflexivity|]; split; [exact G|apply Stp_refl]|].
  destruct (a_lower (adj s) <? 0); [discriminate|].
  destruct (adjScan _ _ _) as [[[x n] b']|]; [|injection H as <- <-; exists t; split; [reflexivity|]; split; [exact G|apply Stp_refl]].
  injection H as <- <-. eexists. split; [reflexivity|]. split; [apply Good_hAdj_adj, G|apply Stp_hAdj_adj].
Qed.

Lemma guard_fix_left s n s1 : (if inHeap s n then heapFix s n else Ok s) = Ok s1 ->
  (exists w, s1 = s <| heap := w |>) /\ forall m, inHeap s1 m = inHeap s m.
Proof.
  intros Hs. destruct (inHeap s n) eqn:Em.
  - destruct (heapFix_mem s n s1 Em Hs) as [O Hm]. split; [exists (heap s1); exact O|exact Hm].
  - injection Hs as <-. split; [exists (heap s); destruct s; reflexivity|reflexivity].
Qed.

Definition lhs_of (k : kind) : option nat := match k with KBindLhs b => Some b | _ => None end.
Lemma lhs_of_erase k : lhs_of (erase_kind k) = lhs_of k.
Proof. destruct k as [[|]| | | | |[| | |]| | |]; reflexivity. Qed.
Lemma sr_lhs b s t m : SR b s t -> lhs_of (nkind (nd s m)) = lhs_of (nkind (nd t m)).
Proof. intros R. rewrite <- (lhs_of_erase (nkind (nd s m))), <- (lhs_of_erase (nkind (nd t m))), (sr_ekind _ _ _ R m). reflexivity. Qed.

Lemma sim_adjustLoop b fuel : forall s t o s', Good b s t -> adjustLoop fuel s o = Ok (s', None) ->
  exists t', adjustLoop fuel t o = Ok (t', None) /\ Good b s' t' /\ Stp s s'.
Proof.
  induction fuel as [|fuel IH]; intros s t o s' G H; [discriminate|].
  cbn [adjustLoop] in *. rewrite <- (sr_adj _ _ _ (g_sr _ _ _ G)).
  destruct (a_num (adj s) <=? 0); [apply ok_inv in H as [-> _]; exists t; split; [reflexivity|]; split; [exact G|apply Stp_refl]|].
  destruct (adjRemoveMin s) as [[popped s1]| |] eqn:E1; try discriminate. cbn [rbind] in H.
  destruct (sim_adjRemoveMin b s t popped s1 G E1) as (t1 & F1 & G1 & S1). rewrite F1. cbn [rbind].
  destruct popped as [p|]; [|discriminate].
  apply ebind_none in H as (s2 & H2 & H). apply lift_inv in H2 as [H2 _].
  destruct G1 as [R1 Hb1 Hr1 Q1].
  destruct (sim_guard_fix b s1 t1 p s2 R1 Hb1 H2) as (t2 & F2 & R2 & Hb2 & Hnt & Hns).
  destruct (guard_fix_left s1 p s2 H2) as ((w & Ew) & Hm2).
  assert (G2 : Good b s2 t2).
  { split; [exact R2|exact Hb2| |].
    - apply (HRg_same s1 s2); [intros m; rewrite Hns; reflexivity|exact Hr1].
    - apply (QH_same s1 s2); [exact Hm2|intros m; rewrite Hns; reflexivity|exact Q1]. }
  assert (S2 : Stp s1 s2).
  { split; [apply Pos_same; intros m; rewrite Hns; reflexivity|rewrite Ew; reflexivity]. }
  unfold lift at 1. rewrite F2. cbn [ebind rbind ok].
  apply ebind_none in H as (s3 & H3 & H).
  set (P := fun sx tx => Good b sx tx /\ Stp s2 sx).
  assert (L3 : exists t3, efold (fun s c => ensureHeightRequirement s o c p) (children (nd t2 p)) t2 = Ok (t3, None) /\ P s3 t3).
  { rewrite <- (sr_children _ _ _ R2 p).
    refine (efold_sim P _ (children (nd s2 p)) _ s2 t2 s3 (conj G2 (Stp_refl _)) H3).
    intros sa ta c sa' _ [Ga Sa] Ha. destruct (sim_EHR b sa ta o c p sa' Ga Ha) as (ta' & Ea & Ga' & Sa').
    exists ta'. split; [exact Ea|]. split; [exact Ga'|eapply Stp_trans; eassumption]. }
  destruct L3 as (t3 & F3 & G3 & S3). rewrite F3. cbn [ebind rbind].
  apply ebind_none in H as (s4 & H4 & H).
  assert (L4 : exists t4, (match nkind (nd t3 p) with
             | KBindLhs bb => efold (fun s r => if isNecessary (nd s r) then ensureHeightRequirement s o r p else ok s)
                                    (b_rhsNodes (bd t3 bb)) t3
             | _ => ok t3 end) = Ok (t4, None) /\ Good b s4 t4 /\ Stp s3 s4).
  { pose proof (sr_lhs b s3 t3 p (g_sr _ _ _ G3)) as Hl.
    destruct (lhs_of (nkind (nd s3 p))) as [bb|] eqn:El.
    - assert (nkind (nd s3 p) = KBindLhs bb) as Ek by (destruct (nkind (nd s3 p)); try discriminate; injection El as ->; reflexivity).
      assert (nkind (nd t3 p) = KBindLhs bb) as Ek' by (destruct (nkind (nd t3 p)); try discriminate; injection Hl as ->; reflexivity).
      rewrite Ek in H4. rewrite Ek'.
      assert (Hbd : bd t3 bb = bd s3 bb) by (unfold bd; rewrite (sr_binds _ _ _ (g_sr _ _ _ G3)); reflexivity).
      rewrite Hbd.
      set (P' := fun sx tx => Good b sx tx /\ Stp s3 sx).
      assert (Hbody : forall sa ta r sa', r ∈ b_rhsNodes (bd s3 bb) -> P' sa ta ->
                (if isNecessary (nd sa r) then ensureHeightRequirement sa o r p else ok sa) = Ok (sa', None) ->
                exists ta', (if isNecessary (nd ta r) then ensureHeightRequirement ta o r p else ok ta) = Ok (ta', None) /\ P' sa' ta').
      { intros sa ta r sa' _ [Ga Sa] Ha. rewrite <- (sr_isNecessary _ _ _ (g_sr _ _ _ Ga) r).
        destruct (isNecessary (nd sa r)).
        * destruct (sim_EHR b sa ta o r p sa' Ga Ha) as (ta' & Ea & Ga' & Sa').
          exists ta'. split; [exact Ea|]. split; [exact Ga'|eapply Stp_trans; eassumption].
        * apply ok_inv in Ha as [-> _]. exists ta. split; [reflexivity|]. split; assumption. }
      destruct (efold_sim P' _ (b_rhsNodes (bd s3 bb)) Hbody s3 t3 s4 (conj G3 (Stp_refl _)) H4) as (t4 & F4 & G4 & S4).
      exists t4. auto.
    - assert (H4' : s4 = s3) by (destruct (nkind (nd s3 p)); try discriminate El; apply ok_inv in H4 as [-> _]; reflexivity).
      subst s4. exists t3. split; [|split; [exact G3|apply Stp_refl]].
      destruct (nkind (nd t3 p)); try discriminate Hl; reflexivity. }
  destruct L4 as (t4 & F4 & G4 & S4). rewrite F4. cbn [ebind rbind].
  destruct (IH s4 t4 o s' G4 H) as (t' & E' & G' & S').
  exists t'. split; [exact E'|]. split; [exact G'|].
  eapply Stp_trans; [exact S1|]. eapply Stp_trans; [exact S2|]. eapply Stp_trans; [exact S3|]. eapply Stp_trans; eassumption.
Qed.

Lemma sim_adjustHeights b fuel s t c p s' : Good b s t -> adjustHeights fuel s c p = Ok (s', None) ->
  exists t', adjustHeights fuel t c p = Ok (t', None) /\ Good b s' t' /\ Stp s s'.
Proof.
  intros G H. unfold adjustHeights in *. pose proof (g_sr _ _ _ G) as R.
  rewrite <- (sr_adj _ _ _ R), <- (sr_height _ _ _ R c).
  apply ebind_none in H as (s1 & H1 & H).
  destruct (sim_EHR b _ _ p c p s1 (Good_adj b s t (adj s <| a_lower := height (nd s c) |>) G) H1) as (t1 & E1 & G1 & S1).
  rewrite E1. cbn [ebind rbind].
  destruct (sim_adjustLoop b fuel s1 t1 p s' G1 H) as (t' & E' & G' & S').
  exists t'. split; [exact E'|]. split; [exact G'|].
  eapply Stp_trans; [|eassumption]. destruct S1 as [P1 I1]. split; [exact P1|exact I1].
Qed.


Lemma Good_upd b s t n f : (commutes f \/ invisible f) -> (forall x, height (f x) = height x) ->
  Good b s t -> Good b (upd s n f) (upd t n f).
Proof.
  intros Hf Hh [R Hb Hr Q]. split.
  - apply SR_upd; assumption.
  - apply HB_upd; [intros x; left; apply Hh|exact Hb].
  - apply HRg_upd; [intros x Hx; rewrite Hh; exact Hx|exact Hr].
  - apply QH_upd; [intros x; left; apply Hh|exact Q].
Qed.

Lemma Pos_upd s n f : (forall x, height (f x) = height x) -> Pos s (upd s n f).
Proof. intros Hh. apply Pos_same. intros m. apply (nd_upd_proj height). exact Hh. Qed.

(** ** addChild *)
Lemma sim_ACWAH b fuel s t c p s' : Good b s t -> (forall m, valid (nd s m) = true) -> invq s = [] ->
  addChildWithoutAdjustingHeights fuel s c p = Ok (s', None) ->
  exists t', addChildWithoutAdjustingHeights fuel t c p = Ok (t', None) /\ Good b s' t' /\ Pos s s' /\
             invq s' = [] /\ (forall m, valid (nd s' m) = true).
Proof.
  intros G Hv Hi H. unfold addChildWithoutAdjustingHeights in *. pose proof (g_sr _ _ _ G) as R.
  rewrite <- (sr_isNecessary _ _ _ R p).
  pose proof (Good_link b s t c p G) as G1. set (s1 := link s c p) in *. set (t1 := link t c p) in *.
  assert (Hv1 : forall m, valid (nd s1 m) = true).
  { intros m. unfold s1, link. rewrite !(nd_upd_proj valid) by reflexivity. apply Hv. }
  rewrite <- (sr_valid _ _ _ (g_sr _ _ _ G1) p). rewrite (Hv1 p) in *.
  assert (P1 : Pos s s1) by (apply Pos_same; intros m; apply height_link).
  destruct (isNecessary (nd s p)).
  - apply ok_inv in H as [-> _]. exists t1. split; [reflexivity|]. split; [exact G1|]. split; [exact P1|]. split; [exact Hi|exact Hv1].
  - destruct (sim_BNR b fuel s1 t1 p s' G1 H) as (t' & E' & G' & P'). exists t'. split; [exact E'|]. split; [exact G'|].
    split; [eapply Pos_trans; eassumption|]. destruct (BN_spec _ _ _ _ _ H) as [Gfr _].
    split; [apply (g_invq _ _ Gfr Hv1 Hi)|]. intros m. destruct (g_static _ _ Gfr m) as (_ & _ & _ & E4 & _). rewrite E4. apply Hv1.
Qed.

Lemma sim_addChild b fuel s t c p s' : Good b s t -> (forall m, valid (nd s m) = true) -> invq s = [] ->
  0 <= height (nd s c) ->
  addChild fuel s c p = Ok (s', None) ->
  exists t', addChild fuel t c p = Ok (t', None) /\ Good b s' t' /\ Pos s s'.
Proof.
  intros G Hv Hi Hc H. unfold addChild in *.
  apply ebind_none in H as (s1 & H1 & H).
  destruct (sim_ACWAH b fuel s t c p s1 G Hv Hi H1) as (t1 & E1 & G1 & P1 & Hi1 & Hv1). rewrite E1. cbn [ebind rbind].
  apply ebind_none in H as (s2 & H2 & H).
  rewrite <- !(sr_height _ _ _ (g_sr _ _ _ G1)).
  assert (L2 : exists t2, (if height (nd s1 p) >=? height (nd s1 c) then adjustHeights fuel t1 c p else ok t1) = Ok (t2, None) /\
                          Good b s2 t2 /\ Stp s1 s2).
  { destruct (height (nd s1 p) >=? height (nd s1 c)).
    - apply (sim_adjustHeights b fuel s1 t1 c p s2 G1 H2).
    - apply ok_inv in H2 as [-> _]. exists t1. split; [reflexivity|]. split; [exact G1|apply Stp_refl]. }
  destruct L2 as (t2 & E2 & G2 & [P2 I2]). rewrite E2. cbn [ebind rbind].
  apply ebind_none in H as (s3 & H3 & H).
  destruct (sim_propInv_nil b fuel s2 t2 s3 G2 ltac:(congruence) H3) as [E3 ->]. rewrite E3. cbn [ebind rbind].
  destruct (sim_final_add b s2 t2 c ((recomputedAt (nd s2 c) =? 0) || edgeIsStale s2 c p) ((recomputedAt (nd t2 c) =? 0) || edgeIsStale t2 c p) s' G2) as (t' & E' & G' & Hnd').
  - intros Hb. unfold edgeIsStale. rewrite !(sr_nd_true _ _ _ (g_sr _ _ _ G2) Hb). reflexivity.
  - intros _ _. apply P2, P1, Hc.
  - exact H.
  - exists t'. split; [exact E'|]. split; [exact G'|]. eapply Pos_trans; [exact P1|]. eapply Pos_trans; [exact P2|].
    apply Pos_same. intros m. rewrite Hnd'. reflexivity.
Qed.

(** ** SetStale *)
Lemma sim_setStale b s t n s' : Good b s t -> setStale s n = Ok s' ->
  exists t', setStale t n = Ok t' /\ Good b s' t'.
Proof.
  intros G H. unfold setStale in *. pose proof (g_sr _ _ _ G) as R.
  rewrite <- (sr_height _ _ _ R n), <- (sr_stabNum _ _ _ R).
  destruct (height (nd s n) =? unset) eqn:Eh; [injection H as <-; eauto|].
  pose proof (Good_upd b s t n (set setAt (fun _ => stabNum s)) (or_intror (i_setAt _)) (fun x => eq_refl) G) as G1.
  set (s1 := upd s n (set setAt (fun _ => stabNum s))) in *. set (t1 := upd t n (set setAt (fun _ => stabNum s))) in *.
  change (heapAddIfNotPresent s1 n = Ok s') in H. change (if inHeap t1 n then Ok t1 else heapAdd t1 n) with (heapAddIfNotPresent t1 n).
  destruct G1 as [R1 Hb1 Hr1 Q1].
  assert (Hn : 0 <= height (nd t1 n)).
  { rewrite <- (sr_height _ _ _ R1 n). unfold s1. rewrite (nd_upd_proj height) by reflexivity.
    apply Z.eqb_neq in Eh. pose proof (g_hr _ _ _ G n). unfold unset in *. lia. }
  destruct (sim_haip b s1 t1 n s' R1 Hb1 Hn H) as (t' & E' & R' & Hb'). exists t'. split; [exact E'|].
  destruct (QH_haip s1 n s' Q1 H) as [Q' _]. destruct (haip_left _ _ _ H) as ((w & ->) & _).
  split; [exact R'|exact Hb'|exact Hr1|exact Q'].
Qed.

(** one-sided: the second state alone marks a node stale (skeleton mode only) *)
Lemma SR_upd_r s t n f : invisible f -> SR false s t -> SR false s (upd t n f).
Proof.
  intros Hf R. destruct R as [Rnd Rhas ? ? ? ? ? ? ? ? ? ? ? ? ? ?]. constructor; try assumption.
  - intros m. rewrite nd_upd_gen. destruct (decide (m = n)) as [->|]; [|apply Rnd].
    pose proof (Rnd n) as Hn. unfold nd in *. destruct (nodes t !! n) as [y|]; cbn in *; [|exact Hn].
    rewrite Hf. exact Hn.
  - intros m. rewrite has_upd. apply Rhas.
Qed.

Lemma setStale_right s t n : SR false s t -> HB t -> HRg s ->
  exists t', setStale t n = Ok t' /\ SR false s t' /\ HB t'.
Proof.
  intros R Hb Hr. unfold setStale. destruct (height (nd t n) =? unset) eqn:Eh; [eauto|].
  set (t1 := upd t n (set setAt (fun _ => stabNum t))).
  assert (R1 : SR false s t1) by (apply SR_upd_r; [apply i_setAt|exact R]).
  assert (Hb1 : HB t1) by (apply HB_upd; [intros x; left; reflexivity|exact Hb]).
  assert (Hn : 0 <= height (nd t1 n)).
  { unfold t1. rewrite (nd_upd_proj height) by reflexivity. apply Z.eqb_neq in Eh.
    pose proof (Hr n) as Hx. rewrite (sr_height _ _ _ R n) in Hx. unfold unset in *. lia. }
  change (if inHeap t1 n then Ok t1 else heapAdd t1 n) with (heapAddIfNotPresent t1 n).
  destruct (haip_right t1 n Hb1 Hn) as (t' & E' & Hb' & (w & ->) & _). exists (t1 <| heap := w |>).
  split; [exact E'|]. split; [|exact Hb']. destruct R1. constructor; try assumption. discriminate.
Qed.

(** ** Var.Set *)
Lemma sim_varSet b s t v x s' : Good b s t -> status s <> 1 ->
  (b = false -> nkind (nd t v) <> KVar true) ->
  varSet s v x = Ok s' -> exists t', varSet t v x = Ok t' /\ Good b s' t'.
Proof.
  intros G Hst Hk H. unfold varSet in *. pose proof (g_sr _ _ _ G) as R.
  rewrite <- (sr_status _ _ _ R). assert (Est : (status s =? 1) = false) by (apply Z.eqb_neq, Hst). rewrite Est in *.
  set (condA := (match nkind (nd s v) with KVar e => e | _ => false end) && negb (bool_decide (is_Some (pending (nd s v)))) && (value (nd s v) =? x)) in *.
  set (condB := (match nkind (nd t v) with KVar e => e | _ => false end) && negb (bool_decide (is_Some (pending (nd t v)))) && (value (nd t v) =? x)).
  pose proof (Good_upd b s t v (set value (fun _ => x)) (or_intror (i_value _)) (fun y => eq_refl) G) as G1.
  assert (Hnec : isNecessary (nd (upd t v (set value (fun _ => x))) v) = isNecessary (nd (upd s v (set value (fun _ => x))) v)).
  { symmetry. apply (sr_isNecessary _ _ _ (g_sr _ _ _ G1)). }
  assert (Hwrite : forall sw, (if isNecessary (nd (upd s v (set value (fun _ => x))) v) then setStale (upd s v (set value (fun _ => x))) v
                               else Ok (upd s v (set value (fun _ => x)))) = Ok sw ->
            exists t', (if isNecessary (nd (upd t v (set value (fun _ => x))) v) then setStale (upd t v (set value (fun _ => x))) v
                        else Ok (upd t v (set value (fun _ => x)))) = Ok t' /\ Good b sw t').
  { intros sw Hw. rewrite Hnec. destruct (isNecessary _); [apply (sim_setStale b _ _ v sw G1 Hw)|injection Hw as <-; eauto]. }
  destruct b.
  - assert (condB = condA) as -> by (unfold condA, condB; rewrite (sr_nd_true _ _ _ R eq_refl v); reflexivity).
    destruct condA; [injection H as <-; eauto|]. apply Hwrite, H.
  - assert (condB = false) as ->.
    { unfold condB. specialize (Hk eq_refl). destruct (nkind (nd t v)) as [[|]| | | | | | | |]; try reflexivity. congruence. }
    destruct condA; [|apply Hwrite, H]. injection H as <-.
    (* the first run sees an equal value and does nothing; the twin writes *)
    destruct G as [R0 Hb Hr Q].
    set (t1 := upd t v (set value (fun _ => x))).
    assert (R1 : SR false s t1) by (apply SR_upd_r; [apply i_value|exact R0]).
    assert (Hb1 : HB t1) by (apply HB_upd; [intros y; left; reflexivity|exact Hb]).
    destruct (isNecessary (nd t1 v)).
    + destruct (setStale_right s t1 v R1 Hb1 Hr) as (t' & E' & R' & Hb'). exists t'. split; [exact E'|]. split; assumption.
    + exists t1. split; [reflexivity|]. split; assumption.
Qed.

(** ** AddInput / RemoveInput *)
Lemma sim_addInput b s t n a s' : Good b s t -> (forall m, valid (nd s m) = true) -> invq s = [] ->
  addInput s n a = Ok (s', None) -> exists t', addInput t n a = Ok (t', None) /\ Good b s' t'.
Proof.
  intros G Hv Hi H. unfold addInput in *.
  pose proof (Good_upd b s t n (set decl (fun l => l ++ [a])) (or_introl (c_decl _)) (fun y => eq_refl) G) as G1.
  set (s1 := upd s n (set decl (fun l => l ++ [a]))) in *. set (t1 := upd t n (set decl (fun l => l ++ [a]))) in *.
  rewrite <- (sr_height _ _ _ (g_sr _ _ _ G1) n).
  destruct (height (nd s1 n) =? unset) eqn:Eh; [apply ok_inv in H as [-> _]; eauto|].
  apply ebind_none in H as (s2 & H2 & H). rewrite <- (opFuel_SR _ _ _ (g_sr _ _ _ G1)).
  destruct (sim_addChild b (opFuel s1) s1 t1 n a s2 G1) as (t2 & E2 & G2 & _).
  - intros m. unfold s1. rewrite (nd_upd_proj valid) by reflexivity. apply Hv.
  - exact Hi.
  - apply Z.eqb_neq in Eh. pose proof (g_hr _ _ _ G1 n). unfold unset in *. lia.
  - exact H2.
  - rewrite E2. cbn [ebind rbind]. apply lift_inv in H as [H _].
    destruct (sim_setStale b s2 t2 n s' G2 H) as (t' & E' & G'). exists t'. unfold lift. rewrite E'. auto.
Qed.

Lemma sim_removeInput b s t n a s' : Good b s t ->
  removeInput s n a = Ok s' -> exists t', removeInput t n a = Ok t' /\ Good b s' t'.
Proof.
  intros G H. unfold removeInput in *. rewrite <- (sr_decl _ _ _ (g_sr _ _ _ G) n).
  destruct (negb (bool_decide (a ∈ decl (nd s n)))); [injection H as <-; eauto|].
  pose proof (Good_upd b s t n (set decl (rm a)) (or_introl (c_decl _)) (fun y => eq_refl) G) as G1.
  pose proof (Good_upd b _ _ n (set parents (rm a)) (or_introl (c_parents _)) (fun y => eq_refl) G1) as G2.
  pose proof (Good_upd b _ _ a (set children (rm n)) (or_introl (c_children _)) (fun y => eq_refl) G2) as G3.
  apply rbind_ok in H as (s4 & H4 & H).
  destruct (sim_setStale b _ _ n s4 G3 H4) as (t4 & E4 & G4). rewrite E4. cbn [rbind].
  rewrite <- (opFuel_SR _ _ _ (g_sr _ _ _ G4)). apply (sim_checkIfUnnecessary b _ s4 t4 a s' G4 H).
Qed.

(** ** Node creation *)
Lemma erase_idem k : erase_kind (erase_kind k) = erase_kind k.
Proof. destruct k as [[|]| | | | |[| | |]| | |]; reflexivity. Qed.

Lemma sim_newNode b s t k k' d v v' : Good b s t -> (b = true -> k' = k /\ v' = v) -> erase_kind k' = erase_kind k ->
  inHeap s (next s) = false -> inHeap t (next t) = false ->
  Good b (newNode s k d None v).1 (newNode t k' d None v').1.
Proof.
  intros [R Hb Hr Q] Hkv Hk HnA HnB. unfold newNode. cbn [fst].
  assert (HndA : forall m, nd (s <| nodes := <[next s := fresh_node k d None v]> (nodes s) |> <| next := S (next s) |>) m =
                           if decide (m = next s) then fresh_node k d None v else nd s m).
  { intros m. unfold nd; cbn. destruct (decide (m = next s)) as [->|Hne]; [rewrite lookup_insert|rewrite lookup_insert_ne by congruence]; reflexivity. }
  assert (HndB : forall m, nd (t <| nodes := <[next t := fresh_node k' d None v']> (nodes t) |> <| next := S (next t) |>) m =
                           if decide (m = next t) then fresh_node k' d None v' else nd t m).
  { intros m. unfold nd; cbn. destruct (decide (m = next t)) as [->|Hne]; [rewrite lookup_insert|rewrite lookup_insert_ne by congruence]; reflexivity. }
  split.
  - pose proof (sr_next _ _ _ R) as Hx. destruct R as [sr_nd0 sr_has0 ? ? ? ? ? ? ? ? ? ? ? ? ? ?]. constructor; cbn [set next binds reg obs adj invq stabNum status numNodes setDuring setRemoved handlers maxHeight heap]; try assumption; try congruence.
    + intros m. rewrite HndA, HndB, <- Hx. destruct (decide (m = next s)); [|apply sr_nd0].
      destruct b; cbn [Nb]; [destruct (Hkv eq_refl) as [-> ->]; reflexivity|].
      unfold skelS, fresh_node; cbn. rewrite Hk. reflexivity.
    + intros m. unfold has; cbn. rewrite <- Hx. destruct (decide (m = next s)) as [->|Hne].
      * rewrite !lookup_insert. split; eauto.
      * rewrite !lookup_insert_ne by congruence. apply sr_has0.
  - destruct Hb as [I Qb]. split; [exact I|]. intros m Hm. change (inHeap t m = true) in Hm. rewrite HndB.
    destruct (decide (m = next t)) as [->|]; [congruence|apply Qb, Hm].
  - intros m. rewrite HndA. destruct (decide (m = next s)); [cbn; unfold unset; lia|apply Hr].
  - intros m Hm. change (inHeap s m = true) in Hm. rewrite HndA.
    destruct (decide (m = next s)) as [->|]; [congruence|apply Q, Hm].
Qed.


(** * Whole operations *)
Definition erase_op (o : op) : op :=
  match o with
  | NewCutoff CEq a => NewCutoff CNever a
  | NewVar v true => NewVar v false
  | _ => o
  end.

Definition twin_allowed (o : op) : bool :=
  match o with NewCutoff CParity _ | UpdateVar _ _ => false | _ => true end.

Definition is_stab (o : op) : bool :=
  match o with Stabilize _ | StabilizeCancelled | ParStabilize _ => true | _ => false end.

(** what the operations outside the passes need of the state they start from *)
Record Quiet (s : state) : Prop := {
  qt_valid : forall m, valid (nd s m) = true;
  qt_invq : invq s = [];
  qt_status : status s <> 1;
  qt_fresh : inHeap s (next s) = false
}.

(** the mode: equal records and the same operation, or skeletons and the erased operation *)
Definition mode_ok (b : bool) (s t : state) (o o' : op) : Prop :=
  if b then o' = o
  else o' = erase_op o /\ twin_allowed o = true /\ forall m, nkind (nd t m) = erase_kind (nkind (nd s m)).

Lemma sim_varUpdate s t v d s' : Good true s t -> status s <> 1 ->
  varUpdate s v d = Ok s' -> exists t', varUpdate t v d = Ok t' /\ Good true s' t'.
Proof.
  intros G Hst H. unfold varUpdate in *. rewrite <- (sr_nd_true _ _ _ (g_sr _ _ _ G) eq_refl v).
  apply (sim_varSet true s t v _ s' G Hst); [discriminate|exact H].
Qed.

Theorem sim_step b s t o o' s' :
  Good b s t -> Quiet s -> inHeap t (next t) = false -> mode_ok b s t o o' ->
  static_op o = true -> is_stab o = false ->
  step s o = Ok (s', None) -> exists t', step t o' = Ok (t', None) /\ Good b s' t'.
Proof.
  intros G [Hv Hi Hst HfA] HfB Hm Hso Hns H.
  assert (Hnew : forall k d v k' v', (b = true -> k' = k /\ v' = v) -> erase_kind k' = erase_kind k ->
            ok (newNode s k d None v).1 = Ok (s', None) ->
            exists t', ok (newNode t k' d None v').1 = Ok (t', None) /\ Good b s' t').
  { intros k d v k' v' A B Hs. apply ok_inv in Hs as [-> _]. eexists. split; [reflexivity|]. apply sim_newNode; assumption. }
  destruct b; cbn [mode_ok] in Hm.
  - subst o'. destruct o; try discriminate Hso; try discriminate Hns; cbn [step] in *.
    1-7: refine (Hnew _ _ _ _ _ _ _ H); [intros _; split; reflexivity|reflexivity].
    + apply (sim_observe true s t n s' G Hv Hi H).
    + apply lift_inv in H as [H _]. destruct (sim_unobserve true s t o s' G H) as (t' & E & G'). exists t'. unfold lift. rewrite E. auto.
    + apply lift_inv in H as [H _]. destruct (sim_varSet true s t v x s' G Hst ltac:(discriminate) H) as (t' & E & G'). exists t'. unfold lift. rewrite E. auto.
    + apply lift_inv in H as [H _]. destruct (sim_varUpdate s t v d s' G Hst H) as (t' & E & G'). exists t'. unfold lift. rewrite E. auto.
    + apply (sim_addInput true s t n a s' G Hv Hi H).
    + apply lift_inv in H as [H _]. destruct (sim_removeInput true s t n a s' G H) as (t' & E & G'). exists t'. unfold lift. rewrite E. auto.
  - destruct Hm as (-> & Hal & Hk).
    destruct o as [v [|]| | | | |[| | |] a| | | | | | | | | | | | | |]; try discriminate Hso; try discriminate Hns; try discriminate Hal; cbn [step erase_op] in *.
    1-10: refine (Hnew _ _ _ _ _ _ _ H); [discriminate|reflexivity].
    + apply (sim_observe false s t _ s' G Hv Hi H).
    + apply lift_inv in H as [H _]. destruct (sim_unobserve false s t _ s' G H) as (t' & E & G'). exists t'. unfold lift. rewrite E. auto.
    + apply lift_inv in H as [H _]. destruct (sim_varSet false s t v x s' G Hst) as (t' & E & G'); [|exact H|].
      * intros _. rewrite Hk. destruct (nkind (nd s v)) as [[|]| | | | |[| | |]| | |]; discriminate.
      * exists t'. unfold lift. rewrite E. auto.
    + apply (sim_addInput false s t _ _ s' G Hv Hi H).
    + apply lift_inv in H as [H _]. destruct (sim_removeInput false s t _ _ s' G H) as (t' & E & G'). exists t'. unfold lift. rewrite E. auto.
Qed.

(** ** the admissibility checks see only the structure *)
Definition is_lhs (k : kind) : bool := match k with KBindLhs _ => true | _ => false end.
Definition is_var (k : kind) : bool := match k with KVar _ => true | _ => false end.
Definition is_mapn (k : kind) : bool := match k with KMapN _ => true | _ => false end.

Lemma lookup_nd s n x : nodes s !! n = Some x -> nd s n = x.
Proof. unfold nd. intros ->. reflexivity. Qed.

Lemma isUserNode_alt s n : isUserNode s n = bool_decide (has s n) && negb (is_lhs (nkind (nd s n))).
Proof.
  unfold isUserNode. destruct (nodes s !! n) as [x|] eqn:E.
  - rewrite (lookup_nd _ _ _ E), (bool_decide_eq_true_2 (has s n)) by (exists x; exact E). destruct (nkind x); reflexivity.
  - rewrite (bool_decide_eq_false_2 (has s n)); [reflexivity|]. unfold has. rewrite E. intros [? ?]; discriminate.
Qed.
Lemma isVar_alt s n : isVar s n = bool_decide (has s n) && is_var (nkind (nd s n)).
Proof.
  unfold isVar. destruct (nodes s !! n) as [x|] eqn:E.
  - rewrite (lookup_nd _ _ _ E), (bool_decide_eq_true_2 (has s n)) by (exists x; exact E). destruct (nkind x); reflexivity.
  - rewrite (bool_decide_eq_false_2 (has s n)); [reflexivity|]. unfold has. rewrite E. intros [? ?]; discriminate.
Qed.
Lemma isMapN_alt s n : isMapN s n = bool_decide (has s n) && is_mapn (nkind (nd s n)).
Proof.
  unfold isMapN. destruct (nodes s !! n) as [x|] eqn:E.
  - rewrite (lookup_nd _ _ _ E), (bool_decide_eq_true_2 (has s n)) by (exists x; exact E). destruct (nkind x); reflexivity.
  - rewrite (bool_decide_eq_false_2 (has s n)); [reflexivity|]. unfold has. rewrite E. intros [? ?]; discriminate.
Qed.
Lemma isTop_alt s n : isTop s n = bool_decide (has s n) && bool_decide (scope (nd s n) = None).
Proof.
  unfold isTop. destruct (nodes s !! n) as [x|] eqn:E.
  - rewrite (lookup_nd _ _ _ E), (bool_decide_eq_true_2 (has s n)) by (exists x; exact E). reflexivity.
  - rewrite (bool_decide_eq_false_2 (has s n)); [reflexivity|]. unfold has. rewrite E. intros [? ?]; discriminate.
Qed.

Section checks.
  Context (b : bool) (s t : state) (R : SR b s t).
  Lemma has_dec_SR n : bool_decide (has s n) = bool_decide (has t n).
  Proof. apply bool_decide_ext, (sr_has _ _ _ R). Qed.
  Lemma kind_pred_SR (f : kind -> bool) n : (forall k, f (erase_kind k) = f k) -> f (nkind (nd s n)) = f (nkind (nd t n)).
  Proof. intros Hf. rewrite <- (Hf (nkind (nd s n))), <- (Hf (nkind (nd t n))), (sr_ekind _ _ _ R n). reflexivity. Qed.
  Lemma isUserNode_SR n : isUserNode s n = isUserNode t n.
  Proof. rewrite !isUserNode_alt, has_dec_SR, (kind_pred_SR is_lhs); [reflexivity|]. intros [[|]| | | | |[| | |]| | |]; reflexivity. Qed.
  Lemma isVar_SR n : isVar s n = isVar t n.
  Proof. rewrite !isVar_alt, has_dec_SR, (kind_pred_SR is_var); [reflexivity|]. intros [[|]| | | | |[| | |]| | |]; reflexivity. Qed.
  Lemma isMapN_SR n : isMapN s n = isMapN t n.
  Proof. rewrite !isMapN_alt, has_dec_SR, (kind_pred_SR is_mapn); [reflexivity|]. intros [[|]| | | | |[| | |]| | |]; reflexivity. Qed.
  Lemma isTop_SR n : isTop s n = isTop t n.
  Proof. rewrite !isTop_alt, has_dec_SR, (sr_scope _ _ _ R n). reflexivity. Qed.

  Lemma op_checks_SR o : static_op o = true -> is_stab o = false ->
    op_ok t o = op_ok s o /\ op_clean t o = op_clean s o.
  Proof.
    intros Hso Hns. destruct o; try discriminate Hso; try discriminate Hns; cbn [op_ok op_clean];
      rewrite ?isUserNode_SR, ?isVar_SR, ?isMapN_SR, ?isTop_SR, ?(sr_obs _ _ _ R); try (split; reflexivity).
    split; apply forallb_ext; intros x _; [rewrite isUserNode_SR|rewrite isTop_SR]; reflexivity.
  Qed.
End checks.

Lemma erase_op_checks t o : op_ok t (erase_op o) = op_ok t o /\ op_clean t (erase_op o) = op_clean t o /\
  static_op (erase_op o) = static_op o /\ is_stab (erase_op o) = is_stab o.
Proof. destruct o as [v [|]| | | | |[| | |] a| | | | | | | | | | | | | |]; repeat split. Qed.

(** * The side conditions at the boundaries of a history *)
Lemma wfb_HB s : wfb s = true -> BF s -> HB s.
Proof.
  intros Hwf HBF. destruct (wfb_queued s Hwf) as [I Hq]. split; [exact I|]. intros m Hm.
  apply (inHeap_iff0 s m I) in Hm. apply (st_hnonneg s (wfb_Struct s Hwf HBF)), Hq, Hm.
Qed.

Lemma wfb_HRg s : wfb s = true -> BF s -> HRg s.
Proof.
  intros Hwf HBF m. destruct (inGraph (nd s m)) eqn:Eg.
  - pose proof (st_hnonneg s (wfb_Struct s Hwf HBF) m Eg). lia.
  - destruct (decide (has s m)) as [Hh|Hn]; [|rewrite (not_has_nd s m Hn); cbn; unfold unset; lia].
    destruct (wfb_all _ Hwf) as (_ & Hu & _).
    pose proof (forallb_elem _ _ _ Hu (proj2 (bf_allNodes s HBF m) Hh)) as H. cbv beta zeta in H. rewrite Eg in H.
    cbn [orb] in H. rewrite !andb_true_iff in H. destruct H as [[_ H] _]. apply Z.eqb_eq in H. rewrite H. unfold unset. lia.
Qed.

Lemma wfb_Quiet s : wfb s = true -> BF s -> Quiet s.
Proof.
  intros Hwf HBF. destruct (wfb_transients s Hwf) as (Hst & _). constructor.
  - intros m. apply (bf_valid s HBF).
  - destruct (wfb_all _ Hwf) as (_ & _ & _ & _ & _ & _ & _ & Ht & _). unfold transients_empty in Ht.
    rewrite !andb_true_iff in Ht. destruct Ht as [[[[[[[_ Hi] _] _] _] _] _] _]. apply bool_decide_eq_true in Hi. exact Hi.
  - rewrite Hst. discriminate.
  - destruct (inHeap s (next s)) eqn:E; [|reflexivity]. exfalso.
    destruct (wfb_queued s Hwf) as [I Hq]. apply (inHeap_iff0 s _ I) in E. destruct (Hq _ E) as [Hg _].
    pose proof (bf_has_lt s HBF _ (has_inGraph _ _ Hg)). lia.
Qed.

Lemma wfb_Good b s t : wfb s = true -> BF s -> wfb t = true -> BF t -> SR b s t -> Good b s t.
Proof.
  intros Hs Bs Ht Bt R. split; [exact R|apply wfb_HB; assumption|apply wfb_HRg; assumption|].
  exact (proj2 (wfb_HB s Hs Bs)).
Qed.
