(** Specification side of C17 (incrutil/mapi): finite maps [Z -> Z] as std++ [gmap Z Z],
    the SPEC diff [merge_diff] the operators consume (what [pmap.Map.SymmetricDiff] is
    proved to compute by C16: one change per differing key, in increasing key order), and
    the plain, non-incremental definition [F_*] of every operator.

    Nothing here is incremental: every [F_*] is a function of the CURRENT inputs only. *)
From incr Require Import Base.
From stdpp Require Export sorting.
Global Open Scope Z_scope.

Notation zmap := (gmap Z Z).

(** ** Keys and entries in numeric order (gmap's own order is not numeric) *)
Definition sorted_keys (s : gset Z) : list Z := merge_sort Z.le (elements s).
Definition keys_of (m : zmap) : list Z := sorted_keys (dom m).
Definition entries (m : zmap) : list (Z * Z) :=
  omap (fun k => match m !! k with Some v => Some (k, v) | None => None end) (keys_of m).

(** ** The spec diff *)
Inductive change :=
| Added (k v : Z)
| Removed (k old : Z)
| Updated (k old new : Z).

Definition ckey (c : change) : Z :=
  match c with Added k _ => k | Removed k _ => k | Updated k _ _ => k end.

(** [equal] of the Go API: [None] is Go's [nil] ("treat every common key as unchanged"). *)
Notation eqfn := (option (Z -> Z -> bool)).
Definition veqb (eq : eqfn) (a b : Z) : bool :=
  match eq with None => true | Some e => e a b end.

Definition classify (eq : eqfn) (k : Z) (o n : option Z) : option change :=
  match o, n with
  | None, None => None
  | None, Some v => Some (Added k v)
  | Some v, None => Some (Removed k v)
  | Some v, Some v' => if veqb eq v v' then None else Some (Updated k v v')
  end.

Definition merge_diff (eq : eqfn) (m m' : zmap) : list change :=
  omap (fun k => classify eq k (m !! k) (m' !! k)) (sorted_keys (dom m ∪ dom m')).

(** ** Plain definitions *)

(** MapValues: [fn] applied to every entry. *)
Definition F_map_values (f : Z -> Z -> Z) (m : zmap) : zmap :=
  map_imap (fun k v => Some (f k v)) m.

(** FilterMapValues: Go's [fn] returns [(w, include)]; here [Some w] / [None]. *)
Definition F_filter_map_values (fn : Z -> Z -> option Z) (m : zmap) : zmap :=
  map_imap fn m.

(** Merge: [fn k left right] for every key present on at least one side.  Go hands [fn] a
    [MergeElement{Left, HasLeft, Right, HasRight}] with zero values for absent sides. *)
Record merge_element := MergeElement {
  me_left : Z; me_has_left : bool; me_right : Z; me_has_right : bool }.
Definition mk_element (l r : option Z) : merge_element :=
  MergeElement (default 0 l) (bool_decide (is_Some l)) (default 0 r) (bool_decide (is_Some r)).
Definition merge_at (fn : Z -> merge_element -> option Z) (k : Z) (l r : option Z) : option Z :=
  match l, r with
  | None, None => None
  | _, _ => fn k (mk_element l r)
  end.
Definition keyed (m : zmap) : gmap Z (Z * Z) := map_imap (fun k v => Some (k, v)) m.
Definition F_merge (fn : Z -> merge_element -> option Z) (l r : zmap) : zmap :=
  merge (fun a b => match a, b with
                    | None, None => None
                    | Some (k, _), _ | None, Some (k, _) => merge_at fn k (snd <$> a) (snd <$> b)
                    end) (keyed l) (keyed r).

(** UnorderedFold: a fold of [add] over the entries, in an unspecified order. *)
Definition F_fold {B} (add : B -> Z -> Z -> B) (initial : B) (m : zmap) : B :=
  map_fold (fun k v acc => add acc k v) initial m.
Definition F_sum (m : zmap) : Z := map_fold (fun _ v acc => acc + v) 0 m.
Definition F_cardinality (m : zmap) : Z := Z.of_nat (size m).
Definition F_counti (p : Z -> Z -> bool) (m : zmap) : Z :=
  Z.of_nat (size (filter (fun kv => p kv.1 kv.2 = true) m)).

(** Reduce: in-key-order combination of the projected entries; [empty] for the empty map. *)
Definition fold1 {R} (combine : R -> R -> R) (l : list R) : option R :=
  match l with [] => None | x :: l => Some (fold_left combine l x) end.
Definition F_reduce {R} (empty : R) (project : Z -> Z -> R) (combine : R -> R -> R) (m : zmap) : R :=
  default empty (fold1 combine (map (fun kv => project kv.1 kv.2) (entries m))).

(** MaxValue / MinValue: Go's [Optional{Value, Present}] is a pair. *)
Definition F_max_value (m : zmap) : Z * bool :=
  match map snd (entries m) with
  | [] => (0, false)
  | v :: vs => (fold_left Z.max vs v, true)
  end.
Definition F_min_value (m : zmap) : Z * bool :=
  match map snd (entries m) with
  | [] => (0, false)
  | v :: vs => (fold_left Z.min vs v, true)
  end.

(** Subrange: the entries with [lo <= k <= hi]. *)
Definition in_bounds (lo hi k : Z) : bool := (lo <=? k) && (k <=? hi).
Definition F_subrange (m : zmap) (lo hi : Z) : zmap :=
  filter (fun kv => in_bounds lo hi kv.1 = true) m.

(** Partition. *)
Definition F_partition (p : Z -> Z -> bool) (m : zmap) : zmap * zmap :=
  (filter (fun kv => p kv.1 kv.2 = true) m, filter (fun kv => p kv.1 kv.2 = false) m).

(** Keys. *)
Definition F_keys (m : zmap) : list Z := keys_of m.

(** Selector: the key's current value, Go's zero value while absent. *)
Definition F_select (k : Z) (m : zmap) : Z := default 0 (m !! k).

(** Join: every key's inner incremental read at its current value.  [outer] maps keys to
    inner node identities, [vals] inner identities to values. *)
Definition val_of (vals : zmap) (x : Z) : Z := default 0 (vals !! x).
Definition F_join (vals : zmap) (outer : zmap) : zmap := val_of vals <$> outer.

(** Changes: the three maps of a [ChangeSet]. *)
Record change_set := ChangeSet { cs_added : zmap; cs_removed : zmap; cs_updated : zmap }.
Definition F_changes (eq : eqfn) (m m' : zmap) : change_set :=
  let d := merge_diff eq m m' in
  ChangeSet
    (list_to_map (omap (fun c => match c with Added k v => Some (k, v) | _ => None end) d))
    (list_to_map (omap (fun c => match c with Removed k v => Some (k, v) | _ => None end) d))
    (list_to_map (omap (fun c => match c with Updated k _ v => Some (k, v) | _ => None end) d)).

(** Added / Removed (deprecated operators over builtin maps). *)
Definition F_added (m m' : zmap) : zmap := m' ∖ m.
Definition F_removed (m m' : zmap) : zmap := m ∖ m'.

(** ** What an [equal] function has to respect for an operator to be exact.

    The diff does not report a common key whose old and new values are [equal]; the
    operator then keeps what it computed from the OLD value.  So the operator equals its
    plain definition exactly when the per-entry computation cannot tell [equal] values
    apart.  With [equal = nil] that means: the computation ignores the value. *)
Definition respects {A} (eq : eqfn) (g : Z -> Z -> A) : Prop :=
  forall k a b, veqb eq a b = true -> g k a = g k b.

(** For operators whose output holds the input values themselves. *)
Definition eq_exact (eq : eqfn) : Prop := forall a b, veqb eq a b = true -> a = b.
