(** Proofs for Par.v (C04). Self-contained: only the model files and the heap proofs. *)
From incr Require Import Base Heap HeapSpec HeapProofs EngineDefs Engine Par.

(** * A. Small tools *)
Lemma state_eta (s : state) :
  s = mkState (nodes s) (binds s) (next s) (reg s) (obs s) (heap s) (adj s) (invq s) (stabNum s)
              (status s) (numNodes s) (setDuring s) (setRemoved s) (handlers s) (maxHeight s) (log s).
Proof. destruct s; reflexivity. Qed.

Lemma state_ext (s t : state) :
  nodes s = nodes t -> binds s = binds t -> next s = next t -> reg s = reg t -> obs s = obs t ->
  heap s = heap t -> adj s = adj t -> invq s = invq t -> stabNum s = stabNum t -> status s = status t ->
  numNodes s = numNodes t -> setDuring s = setDuring t -> setRemoved s = setRemoved t ->
  handlers s = handlers t -> maxHeight s = maxHeight t -> log s = log t -> s = t.
Proof. destruct s, t; cbn; intros; subst; reflexivity. Qed.

Definition has (s : state) (n : nid) : Prop := is_Some (nodes s !! n).

Lemma nd_alter (mp : gmap nid node) f n m :
  default dummy (alter f n mp !! m) =
  if decide (m = n) then match mp !! n with Some x => f x | None => dummy end else default dummy (mp !! m).
Proof.
  destruct (decide (m = n)) as [->|Hne].
  - rewrite lookup_alter. destruct (mp !! n); reflexivity.
  - rewrite lookup_alter_ne by congruence. reflexivity.
Qed.

Lemma nd_upd_ne s n f m : m <> n -> nd (upd s n f) m = nd s m.
Proof. intros H. unfold nd, upd; cbn. rewrite nd_alter, decide_False by exact H. reflexivity. Qed.

Lemma nd_upd_eq s n f : has s n -> nd (upd s n f) n = f (nd s n).
Proof. intros [x E]. unfold nd, upd; cbn. rewrite nd_alter, decide_True by reflexivity. rewrite E. reflexivity. Qed.

Lemma nd_upd_proj {A} (g : node -> A) s n f m :
  (forall x, g (f x) = g x) -> g (nd (upd s n f) m) = g (nd s m).
Proof.
  intros Hg. unfold nd, upd; cbn. rewrite nd_alter. destruct (decide (m = n)) as [->|]; [|reflexivity].
  destruct (nodes s !! n); simpl; [apply Hg|reflexivity].
Qed.

(** * B. The heap up to the order inside buckets *)
Lemma heap_sim_refl w : heap_sim w w.
Proof. constructor; reflexivity. Qed.

Lemma heap_sim_sym w v : heap_sim w v -> heap_sim v w.
Proof.
  intros [H1 H2 H3 H4 H5]. constructor; try congruence.
  apply Forall2_flip. eapply Forall2_impl; [exact H5|]. intros x y Hp. symmetry. exact Hp.
Qed.

Lemma heap_sim_trans w v u : heap_sim w v -> heap_sim v u -> heap_sim w u.
Proof.
  intros [H1 H2 H3 H4 H5] [G1 G2 G3 G4 G5]. constructor; try congruence.
  eapply Forall2_transitive; [|exact H5|exact G5]. intros x y z. apply Permutation_trans.
Qed.

Lemma heap_sim_len w v : heap_sim w v -> length (Heap.buckets w) = length (Heap.buckets v).
Proof. intros H. eapply Forall2_length, hs_buckets, H. Qed.

Lemma heap_sim_bucket w v k : heap_sim w v -> Heap.bucket w k ≡ₚ Heap.bucket v k.
Proof.
  intros H. unfold Heap.bucket. pose proof (proj1 (Forall2_lookup _ _ _) (hs_buckets _ _ H) k) as Hk.
  inversion Hk; simpl; auto.
Qed.

Lemma heap_sim_intro w v :
  Heap.hin w = Heap.hin v -> Heap.minH w = Heap.minH v -> Heap.maxH w = Heap.maxH v ->
  Heap.cnt w = Heap.cnt v -> length (Heap.buckets w) = length (Heap.buckets v) ->
  (forall k, Heap.bucket w k ≡ₚ Heap.bucket v k) -> heap_sim w v.
Proof.
  intros H1 H2 H3 H4 H5 H6. constructor; auto.
  apply Forall2_same_length_lookup_2; [exact H5|]. intros i x y Hx Hy.
  specialize (H6 i). unfold Heap.bucket in H6. rewrite Hx, Hy in H6. exact H6.
Qed.

Lemma heap_sim_mem w v n : heap_sim w v -> Heap.mem w n = Heap.mem v n.
Proof. intros H. unfold Heap.mem, Heap.hinOf. rewrite (hs_hin _ _ H). reflexivity. Qed.

(** the fields of [Heap.add] *)
Lemma add_fields w n h w' : 0 <= h -> Heap.add w n h = Ok w' ->
  Heap.hin w' = <[n := h]> (Heap.hin w) /\ Heap.cnt w' = Heap.cnt w + 1 /\
  Heap.minH w' = (if Heap.cnt w =? 0 then h else Z.min (Heap.minH w) h) /\
  Heap.maxH w' = (if Heap.cnt w =? 0 then h else Z.max (Heap.maxH w) h) /\
  length (Heap.buckets w') = Nat.max (length (Heap.buckets w)) (S (Z.to_nat h)) /\
  forall k, Heap.bucket w' k = if decide (k = Z.to_nat h) then Heap.bucket w k ++ [n] else Heap.bucket w k.
Proof.
  intros Hh H. unfold Heap.add in H. destruct (Z.ltb_spec h 0) as [|_]; [lia|].
  set (hn := Z.to_nat h) in *. set (g := Heap.grow (Heap.buckets w) hn) in *.
  destruct (grow_length (Heap.buckets w) hn) as [Hg1 Hg2]. fold g in Hg1, Hg2.
  destruct (Heap.cnt w =? 0) eqn:E0; injection H as <-; cbn [Heap.hin Heap.cnt Heap.minH Heap.maxH Heap.buckets].
  all: (split; [reflexivity|]; split; [reflexivity|]; split; [reflexivity|]; split; [reflexivity|]).
  all: split;
    [ rewrite insert_length; unfold g, Heap.grow;
      destruct (Nat.leb_spec (length (Heap.buckets w)) hn); [rewrite app_length, replicate_length|]; lia
    | intros k; unfold Heap.bucket; cbn [Heap.buckets];
      change (bk (<[hn:=default [] (g !! hn) ++ [n]]> g) k = if decide (k = hn) then bk (Heap.buckets w) k ++ [n] else bk (Heap.buckets w) k);
      rewrite (bk_insert _ _ _ _ Hg1); unfold g at 2; rewrite bk_grow;
      destruct (decide (k = hn)) as [->|]; [|reflexivity];
      change (default [] (g !! hn)) with (bk g hn); unfold g; rewrite bk_grow; reflexivity ].
Qed.

Lemma add_sim w v n h w' : heap_sim w v -> 0 <= h -> Heap.add w n h = Ok w' ->
  exists v', Heap.add v n h = Ok v' /\ heap_sim w' v'.
Proof.
  intros Hs Hh Hw. destruct (add_ok v n h Hh) as [v' Hv]. exists v'. split; [exact Hv|].
  destruct (add_fields _ _ _ _ Hh Hw) as (A1 & A2 & A3 & A4 & A5 & A6).
  destruct (add_fields _ _ _ _ Hh Hv) as (B1 & B2 & B3 & B4 & B5 & B6).
  destruct Hs as [S1 S2 S3 S4 S5]. pose proof (Forall2_length _ _ _ S5) as SL.
  apply heap_sim_intro.
  - rewrite A1, B1, S1. reflexivity.
  - rewrite A3, B3, S2, S4. reflexivity.
  - rewrite A4, B4, S3, S4. reflexivity.
  - rewrite A2, B2, S4. reflexivity.
  - rewrite A5, B5, SL. reflexivity.
  - intros k. rewrite A6, B6.
    assert (Heap.bucket w k ≡ₚ Heap.bucket v k) as Hk
      by (apply heap_sim_bucket; constructor; assumption).
    destruct (decide _); [rewrite Hk|]; auto.
Qed.

Lemma add_comm w c d hc hd w1 w12 : c <> d -> 0 <= Heap.cnt w -> 0 <= hc -> 0 <= hd ->
  Heap.add w c hc = Ok w1 -> Heap.add w1 d hd = Ok w12 ->
  exists w2 w21, Heap.add w d hd = Ok w2 /\ Heap.add w2 c hc = Ok w21 /\ heap_sim w12 w21.
Proof.
  intros Hne Hc Hhc Hhd H1 H12.
  destruct (add_ok w d hd Hhd) as [w2 H2]. destruct (add_ok w2 c hc Hhc) as [w21 H21].
  exists w2, w21. split; [exact H2|]. split; [exact H21|].
  destruct (add_fields _ _ _ _ Hhc H1) as (A1 & A2 & A3 & A4 & A5 & A6).
  destruct (add_fields _ _ _ _ Hhd H12) as (B1 & B2 & B3 & B4 & B5 & B6).
  destruct (add_fields _ _ _ _ Hhd H2) as (C1 & C2 & C3 & C4 & C5 & C6).
  destruct (add_fields _ _ _ _ Hhc H21) as (D1 & D2 & D3 & D4 & D5 & D6).
  apply heap_sim_intro.
  - rewrite B1, A1, D1, C1. apply insert_commute. congruence.
  - rewrite B3, A3, A2, D3, C3, C2.
    destruct (Z.eqb_spec (Heap.cnt w) 0), (Z.eqb_spec (Heap.cnt w + 1) 0); lia.
  - rewrite B4, A4, A2, D4, C4, C2.
    destruct (Z.eqb_spec (Heap.cnt w) 0), (Z.eqb_spec (Heap.cnt w + 1) 0); lia.
  - lia.
  - rewrite B5, A5, D5, C5. lia.
  - intros k. rewrite B6, A6, D6, C6.
    destruct (decide (k = Z.to_nat hd)), (decide (k = Z.to_nat hc)); try reflexivity.
    rewrite <- !app_assoc. apply Permutation_app_head. apply perm_swap.
Qed.

Lemma add_mem_other w c h w' d : 0 <= h -> Heap.add w c h = Ok w' -> d <> c -> Heap.mem w' d = Heap.mem w d.
Proof.
  intros Hh H Hne. destruct (add_fields _ _ _ _ Hh H) as (A1 & _).
  unfold Heap.mem, Heap.hinOf. rewrite A1, lookup_insert_ne by congruence. reflexivity.
Qed.

Lemma add_mem_self w c h w' : 0 <= h -> Heap.add w c h = Ok w' -> Heap.mem w' c = true.
Proof.
  intros Hh H. destruct (add_fields _ _ _ _ Hh H) as (A1 & _).
  unfold Heap.mem, Heap.hinOf. rewrite A1, lookup_insert. simpl. apply bool_decide_eq_true. unfold unset. lia.
Qed.

Lemma add_cnt w c h w' : 0 <= h -> Heap.add w c h = Ok w' -> Heap.cnt w' = Heap.cnt w + 1.
Proof. intros Hh H. destruct (add_fields _ _ _ _ Hh H) as (_ & A2 & _). exact A2. Qed.

Lemma ainp_sim w v n h w' : heap_sim w v -> 0 <= h -> Heap.addIfNotPresent w n h = Ok w' ->
  exists v', Heap.addIfNotPresent v n h = Ok v' /\ heap_sim w' v'.
Proof.
  intros Hs Hh. unfold Heap.addIfNotPresent. rewrite <- (heap_sim_mem _ _ n Hs).
  destruct (Heap.mem w n).
  - intros [= <-]. eauto.
  - apply add_sim; assumption.
Qed.

Lemma ainp_cnt w n h w' : 0 <= h -> 0 <= Heap.cnt w -> Heap.addIfNotPresent w n h = Ok w' -> 0 <= Heap.cnt w'.
Proof.
  intros Hh Hc. unfold Heap.addIfNotPresent. destruct (Heap.mem w n).
  - intros [= <-]. exact Hc.
  - intros H. rewrite (add_cnt _ _ _ _ Hh H). lia.
Qed.

Lemma ainp_total w n h : 0 <= h -> exists w', Heap.addIfNotPresent w n h = Ok w'.
Proof. intros Hh. unfold Heap.addIfNotPresent. destruct (Heap.mem w n); [eauto|apply add_ok, Hh]. Qed.

Lemma ainp_comm w c d hc hd w1 w12 : c <> d -> 0 <= Heap.cnt w -> 0 <= hc -> 0 <= hd ->
  Heap.addIfNotPresent w c hc = Ok w1 -> Heap.addIfNotPresent w1 d hd = Ok w12 ->
  exists w2 w21, Heap.addIfNotPresent w d hd = Ok w2 /\ Heap.addIfNotPresent w2 c hc = Ok w21 /\ heap_sim w12 w21.
Proof.
  intros Hne Hc Hhc Hhd. unfold Heap.addIfNotPresent.
  destruct (Heap.mem w c) eqn:Ec.
  - intros [= <-]. rewrite Ec. destruct (Heap.mem w d) eqn:Ed.
    + intros [= <-]. exists w, w. rewrite Ec. repeat split; auto using heap_sim_refl.
    + intros H. exists w12, w12. rewrite (add_mem_other _ _ _ _ c Hhd H) by congruence. rewrite Ec.
      repeat split; auto using heap_sim_refl.
  - intros H1. rewrite (add_mem_other _ _ _ _ d Hhc H1) by congruence.
    destruct (Heap.mem w d) eqn:Ed.
    + intros [= <-]. exists w, w1. rewrite Ec. repeat split; auto using heap_sim_refl.
    + intros H12. destruct (add_comm _ _ _ _ _ _ _ Hne Hc Hhc Hhd H1 H12) as (w2 & w21 & G1 & G2 & G3).
      exists w2, w21. rewrite (add_mem_other _ _ _ _ c Hhd G1) by congruence. rewrite Ec. auto.
Qed.

Lemma addAll_cons hf c l w : addAll hf (c :: l) w = (w' <-! Heap.addIfNotPresent w c (hf c); addAll hf l w').
Proof. reflexivity. Qed.

Lemma addAll_app hf l1 l2 w : addAll hf (l1 ++ l2) w = (w' <-! addAll hf l1 w; addAll hf l2 w').
Proof. apply rfold_app. Qed.

Lemma addAll_cnt hf l : forall w w', (forall c, c ∈ l -> 0 <= hf c) -> 0 <= Heap.cnt w ->
  addAll hf l w = Ok w' -> 0 <= Heap.cnt w'.
Proof.
  induction l as [|c l IH]; intros w w' Hh Hc H.
  - injection H as <-. exact Hc.
  - rewrite addAll_cons in H. apply rbind_ok in H as (w1 & H1 & H2).
    eapply IH; [| |exact H2].
    + intros; apply Hh; right; assumption.
    + eapply ainp_cnt; [| exact Hc | exact H1]. apply Hh; left.
Qed.

Lemma addAll_total hf l : forall w, (forall c, c ∈ l -> 0 <= hf c) -> exists w', addAll hf l w = Ok w'.
Proof.
  induction l as [|c l IH]; intros w Hh; [eexists; reflexivity|].
  rewrite addAll_cons. destruct (ainp_total w c (hf c)) as [w1 H1]; [apply Hh; left|].
  rewrite H1. simpl. apply IH. intros; apply Hh; right; assumption.
Qed.

Lemma addAll_ext hf hf' l w : (forall c, c ∈ l -> hf c = hf' c) -> addAll hf l w = addAll hf' l w.
Proof.
  revert w. induction l as [|c l IH]; intros w H; [reflexivity|].
  rewrite !addAll_cons. rewrite (H c) by left. destruct (Heap.addIfNotPresent _ _ _); simpl; auto.
  apply IH. intros; apply H; right; assumption.
Qed.

(** the order in which nodes are queued does not matter, up to the order inside buckets *)
Lemma addAll_perm hf l l' : l ≡ₚ l' -> forall w v w1,
  (forall c, c ∈ l -> 0 <= hf c) -> 0 <= Heap.cnt w -> heap_sim w v ->
  addAll hf l w = Ok w1 -> exists v1, addAll hf l' v = Ok v1 /\ heap_sim w1 v1.
Proof.
  induction 1 as [|x l l' Hp IH|x y l|l l' l'' Hp1 IH1 Hp2 IH2]; intros w v w1 Hh Hc Hs H.
  - injection H as <-. exists v. split; [reflexivity|exact Hs].
  - rewrite addAll_cons in H. apply rbind_ok in H as (w0 & H0 & H1).
    destruct (ainp_sim _ _ _ _ _ Hs (Hh x ltac:(left)) H0) as (v0 & G0 & S0).
    rewrite addAll_cons, G0. simpl. eapply IH; [| |exact S0|exact H1].
    + intros; apply Hh; right; assumption.
    + eapply ainp_cnt; [|exact Hc|exact H0]. apply Hh; left.
  - rewrite !addAll_cons in H. apply rbind_ok in H as (w0 & H0 & H). rewrite addAll_cons in H.
    apply rbind_ok in H as (w01 & H01 & H1).
    assert (Hhx : 0 <= hf x) by (apply Hh; right; left).
    assert (Hhy : 0 <= hf y) by (apply Hh; left).
    assert (Hrest : forall u u1, heap_sim w01 u -> exists v1, addAll hf l u = Ok v1 /\ heap_sim w1 v1).
    { intros u u1 Su. clear u1.
      assert (Hl : forall c, c ∈ l -> 0 <= hf c) by (intros; apply Hh; right; right; assumption).
      assert (Hc01 : 0 <= Heap.cnt w01).
      { eapply ainp_cnt; [exact Hhx| |exact H01]. eapply ainp_cnt; [exact Hhy|exact Hc|exact H0]. }
      clear -Hl Hc01 Su H1. revert w01 u w1 Hc01 Su H1.
      induction l as [|c l IHl]; intros w01 u w1 Hc01 Su H1.
      - injection H1 as <-. exists u. split; [reflexivity|exact Su].
      - rewrite addAll_cons in H1. apply rbind_ok in H1 as (wa & Ha & Hb).
        destruct (ainp_sim _ _ _ _ _ Su (Hl c ltac:(left)) Ha) as (ua & Ga & Sa).
        rewrite addAll_cons, Ga. simpl. eapply IHl; [| |exact Sa|exact Hb].
        + intros; apply Hl; right; assumption.
        + eapply ainp_cnt; [|exact Hc01|exact Ha]. apply Hl; left. }
    destruct (decide (y = x)) as [->|Hne].
    + (* the same node twice: the same sequence *)
      destruct (ainp_sim _ _ _ _ _ Hs Hhx H0) as (v0 & G0 & S0).
      assert (Hc0 : 0 <= Heap.cnt w0) by (eapply ainp_cnt; [exact Hhx|exact Hc|exact H0]).
      destruct (ainp_sim _ _ _ _ _ S0 Hhx H01) as (v01 & G01 & S01).
      rewrite !addAll_cons, G0. simpl. rewrite addAll_cons, G01. simpl. apply (Hrest v01 v01 S01).
    + destruct (ainp_comm _ _ _ _ _ _ _ Hne Hc Hhy Hhx H0 H01) as (w2 & w21 & G1 & G2 & G3).
      destruct (ainp_sim _ _ _ _ _ Hs Hhx G1) as (v2 & F1 & T1).
      destruct (ainp_sim _ _ _ _ _ T1 Hhy G2) as (v21 & F2 & T2).
      rewrite !addAll_cons, F1. simpl. rewrite addAll_cons, F2. simpl.
      apply (Hrest v21 v21). eapply heap_sim_trans; [exact G3|exact T2].
  - destruct (IH1 w w w1 Hh Hc (heap_sim_refl w) H) as (u1 & U1 & SU1).
    assert (Hh' : forall c, c ∈ l' -> 0 <= hf c) by (intros c Hin; apply Hh; rewrite Hp1; exact Hin).
    destruct (IH2 w v u1 Hh' Hc Hs U1) as (v1 & V1 & SV1).
    exists v1. split; [exact V1|]. eapply heap_sim_trans; eassumption.
Qed.
